/-
GENERATED TEXT (lean/tools/gen_neonfloat.py). The float kernels on the NEON backend (contracts: Thm/C13Neon.lean; NEON intrinsic
semantics: Prim/Neon.lean, trusted and not validated on hardware in this sandbox):
* C04: dot / sum within `γ(n+3)·Σ|terms|` (fused multiply-add, pairwise `faddp` fold);
* C06: cosine within `4(n+8)u`;
* C05: horizontal / vertical / by-value max and min return the true extreme on NaN-free data (FMAX/FMIN lanes: the larger /
  smaller operand, sign bits and-ed / or-ed on ties);
* C02: element-wise add / sub / mul / div (IEEE operation in the registers, `AutoMath`'s in the tail).
-/
import CfavmlModel.Thm.C13Neon
import CfavmlModel.Thm.X86FloatExt
import CfavmlModel.Thm.X86FloatCosine
import CfavmlModel.Thm.X86FloatMap

namespace Cfavml.Thm.NeonFloat
open Cfavml.Thm KernelModel FloatReduce Rounding ExtremeSem C05Float C02Float C06

theorem tN4_local {A : Type} (op : A → A → A) : FoldLocal 4 (fun f => C13Neon.tN4.eval op f) := fun f g h =>
  FTree.eval_congr _ f g _ (fun k hk => h k (by have := (C13Neon.tN4_perm.mem_iff).mp hk; simpa using this))
theorem tN2_local {A : Type} (op : A → A → A) : FoldLocal 2 (fun f => C13Neon.tN2.eval op f) := fun f g h =>
  FTree.eval_congr _ f g _ (fun k hk => h k (by have := (C13Neon.tN2_perm.mem_iff).mp hk; simpa using this))

/-! ## `Neon` × `f32` -/

/-- **C04 on `Neon_f32`** -/
theorem Neon_f32_bounds (E : Env) (hn : E.feat_nightly = false) (F : FloatSem (f32Spec E false) E.F.fma32)
    (a b : Slice F32) (hb : b.size = a.size) (hfuel : a.size < E.fuel) (hk : ((a.size + 3 : ℕ) : ℝ) * F.u < 1)
    (hnu : ∀ i, F.NoUf (a.get i) (b.get i)) :
    (∃ v, generic_dot_product E (Neon_f32.inst E) (AutoMath_f32 E) a.size a b = pure v ∧
      (F.Fin v → |F.val v - ((List.range a.size).map (fun i => F.val (a.get i) * F.val (b.get i))).sum|
        ≤ gamma F.u (a.size + 3) * ((List.range a.size).map (fun i => |F.val (a.get i) * F.val (b.get i)|)).sum))
    ∧ (∃ v, generic_sum E (Neon_f32.inst E) (AutoMath_f32 E) a.size a = pure v ∧
      (F.Fin v → |F.val v - ((List.range a.size).map (fun i => F.val (a.get i))).sum|
        ≤ gamma F.u (a.size + 3) * ((List.range a.size).map (fun i => |F.val (a.get i)|)).sum)) := by
  have SM : SumMath (AutoMath_f32 E) (f32Spec E false) := by
    have := C18.auto_f32 E
    rw [hn] at this
    exact SumMath.of this
  have HF := ftree_sem F C13Neon.tN4 4 2 C13Neon.tN4_perm (by decide)
  exact ⟨C04.dot_product_bound (C13Neon.Neon_f32.sumBackend E) SM F HF (tN4_local _) (by decide) (by decide) a.size hfuel hk a b rfl hb hnu,
    C04.sum_bound' (C13Neon.Neon_f32.sumBackend E) SM F HF (tN4_local _) (by decide) (by decide) a.size hfuel hk a rfl⟩

/-- **C06 accuracy on `Neon_f32`** -/
theorem Neon_f32_cosine_accuracy (E : Env) (hn : E.feat_nightly = false) (hstd : E.feat_std = true)
    (F : FloatSem (f32Spec E false) E.F.fma32)
    (a b : Slice F32) (hb : b.size = a.size) (hfuel : a.size < E.fuel) (hx : ((a.size : ℝ) + 8) * F.u ≤ 1 / 16)
    (hnu : ∀ i, F.NoUf (a.get i) (b.get i)) (hnua : ∀ i, F.NoUf (a.get i) (a.get i)) (hnub : ∀ i, F.NoUf (b.get i) (b.get i))
    (heq0 : ∀ x, F.Fin x → ((f32Spec E false).eq x (f32Spec E false).zero = true ↔ F.val x = 0))
    (hNx0 : 0 < ((List.range a.size).map (fun i => F.val (a.get i) * F.val (a.get i))).sum)
    (hNy0 : 0 < ((List.range a.size).map (fun i => F.val (b.get i) * F.val (b.get i))).sum)
    (dotv nav nbv : F32)
    (kdot : generic_dot_product E (Neon_f32.inst E) (AutoMath_f32 E) a.size a b = pure dotv)
    (kna : generic_squared_norm E (Neon_f32.inst E) (AutoMath_f32 E) a.size a = pure nav)
    (knb : generic_squared_norm E (Neon_f32.inst E) (AutoMath_f32 E) a.size b = pure nbv)
    (hfin : F.Fin dotv ∧ F.Fin nav ∧ F.Fin nbv) (FO : FinalOps F (F32.sqrt E) dotv nav nbv) :
    ∃ v, generic_cosine E (Neon_f32.inst E) (AutoMath_f32 E) a.size a b = pure v
      ∧ |F.val v - (1 - ((List.range a.size).map (fun i => F.val (a.get i) * F.val (b.get i))).sum
            / Real.sqrt (((List.range a.size).map (fun i => F.val (a.get i) * F.val (a.get i))).sum
                * ((List.range a.size).map (fun i => F.val (b.get i) * F.val (b.get i))).sum))|
          ≤ 4 * ((a.size : ℝ) + 8) * F.u := by
  have MFa : MathFaithful (AutoMath_f32 E) (f32Spec E false) := by
    have := C18.auto_f32 E
    rw [hn] at this
    exact this
  have hsqrt : ∀ x, (AutoMath_f32 E).sqrt x = pure (F32.sqrt E x) := by
    intro x
    simp [AutoMath_f32, hn, StdMath_f32, StdMath_f32.sqrt, hstd]
  have HF := ftree_sem F C13Neon.tN4 4 2 C13Neon.tN4_perm (by decide)
  exact cosine_accuracy_kernels (C13Neon.Neon_f32.sumBackend E) MFa F HF (tN4_local _) (by decide) (by decide) _ hsqrt a b hb hfuel hx
    hnu hnua hnub heq0 hNx0 hNy0 dotv nav nbv kdot kna knb hfin FO

/-- NEON FMAX on numbers is a max (given: numbers are not NaN, `lt` reflects the order, ties keep the value) -/
theorem Neon_f32_fmax_isMax (E : Env) {V : Type} [LinearOrder V] (Num : F32 → Prop) (val : F32 → V)
    (hnan : ∀ x, Num x → Neon.isNaN32 x = false)
    (hlt : ∀ x y, Num x → Num y → (E.F.lt32 x y = true ↔ val x < val y))
    (htie : ∀ x y, Num x → Num y → val x = val y → Num (x &&& y) ∧ val (x &&& y) = val x) :
    IsMaxOn Num val (Neon.fmax32 E) := by
  intro x y hx hy
  have := cmp3_isMax Num val E.F.lt32 (fun x y => x &&& y) hlt htie x y hx hy
  unfold Neon.fmax32
  simpa [hnan x hx, hnan y hy] using this

/-- **C05 on `Neon_f32`, horizontal max** -/
theorem Neon_f32_max_horizontal_true (E : Env) {V : Type} [LinearOrder V] [OrderBot V] (Num : F32 → Prop) (val : F32 → V)
    (hv : IsMaxOn Num val (Neon.fmax32 E)) (hr : IsMaxOn Num val E.F.rmax32)
    (he : Num F32.NEG_INFINITY ∧ val F32.NEG_INFINITY = ⊥)
    (a : Slice F32) (hfuel : a.size < E.fuel) (hnum : ∀ i, i < a.size → Num (a.get i)) :
    ∃ v, generic_max_horizontal E (Neon_f32.inst E) (AutoMath_f32 E) a.size a = pure v ∧ Num v
      ∧ val v = sumR max ⊥ (fun i => val (a.get i)) a.size := by
  have MFa := C18.auto_f32 E
  have hf : FoldIsMax Num val 4 (fun f => C13Neon.tN4.eval (Neon.fmax32 E) f) :=
    ftree_foldIsMax Num val _ hv C13Neon.tN4 4 C13Neon.tN4_perm
  have key := max_horizontal' (E := E) (e := F32.NEG_INFINITY) (top := E.F.rmax32) a.size hfuel (C13Neon.Neon_f32.ext_max E) MFa.min MFa.cmp_max (tN4_local _) a rfl
  obtain ⟨h1, h2⟩ := ext_true_extreme E Num val _ _ _ _ 4 a.size (by decide) (by decide) he hv hr hf a.get hnum
  exact ⟨_, key, h1, h2⟩

/-- **C05 on `Neon_f32`, vertical max** -/
theorem Neon_f32_max_vertical_true (E : Env) {V : Type} [LinearOrder V] (Num : F32 → Prop) (val : F32 → V)
    (hv : IsMaxOn Num val (Neon.fmax32 E)) (hr : IsMaxOn Num val E.F.rmax32)
    (a b result : Slice F32) (hb : b.size = a.size) (hres : result.size = a.size) (hfuel : a.size < E.fuel) :
    MixedMap2 (fun j x => Num (a.get j) → Num (b.get j) → Num x ∧ val x = max (val (a.get j)) (val (b.get j)))
      a.size result (generic_max_vertical E (Neon_f32.inst E) (AutoMath_f32 E) a.size a b result) := by
  have MFa := C18.auto_f32 E
  exact (max_vertical_mixed (top := E.F.rmax32) (C13Neon.Neon_f32.mem E) a.size hfuel (C13Neon.Neon_f32.max E) MFa.cmp_max a b result rfl hb hres).mono
    (fun j x _ h ha hb' => by rw [h]; exact mixG_isMax Num val hv hr _ a b j ha hb')

/-- **C05 on `Neon_f32`, max against a scalar** -/
theorem Neon_f32_max_value_true (E : Env) {V : Type} [LinearOrder V] (Num : F32 → Prop) (val : F32 → V)
    (hv : IsMaxOn Num val (Neon.fmax32 E)) (hr : IsMaxOn Num val E.F.rmax32)
    (value : F32) (a result : Slice F32) (hres : result.size = a.size) (hfuel : a.size < E.fuel) :
    MixedMap2 (fun j x => Num (a.get j) → Num value → Num x ∧ val x = max (val (a.get j)) (val value))
      a.size result (generic_max_value E (Neon_f32.inst E) (AutoMath_f32 E) a.size value a result) := by
  have MFa := C18.auto_f32 E
  exact (max_value_mixed (top := E.F.rmax32) (C13Neon.Neon_f32.mem E) a.size hfuel (C13Neon.Neon_f32.bcast E) (C13Neon.Neon_f32.max E) MFa.cmp_max value a result rfl hres).mono
    (fun j x _ h ha hb' => by rw [h]; exact mixGv_isMax Num val hv hr _ a value j ha hb')

/-- NEON FMIN on numbers is a min (given: numbers are not NaN, `lt` reflects the order, ties keep the value) -/
theorem Neon_f32_fmin_isMin (E : Env) {V : Type} [LinearOrder V] (Num : F32 → Prop) (val : F32 → V)
    (hnan : ∀ x, Num x → Neon.isNaN32 x = false)
    (hlt : ∀ x y, Num x → Num y → (E.F.lt32 x y = true ↔ val x < val y))
    (htie : ∀ x y, Num x → Num y → val x = val y → Num (x ||| y) ∧ val (x ||| y) = val x) :
    IsMinOn Num val (Neon.fmin32 E) := by
  intro x y hx hy
  have := cmp3_isMin Num val E.F.lt32 (fun x y => x ||| y) hlt htie x y hx hy
  unfold Neon.fmin32
  simpa [hnan x hx, hnan y hy] using this

/-- **C05 on `Neon_f32`, horizontal min** -/
theorem Neon_f32_min_horizontal_true (E : Env) {V : Type} [LinearOrder V] [OrderTop V] (Num : F32 → Prop) (val : F32 → V)
    (hv : IsMinOn Num val (Neon.fmin32 E)) (hr : IsMinOn Num val E.F.rmin32)
    (he : Num F32.INFINITY ∧ val F32.INFINITY = ⊤)
    (a : Slice F32) (hfuel : a.size < E.fuel) (hnum : ∀ i, i < a.size → Num (a.get i)) :
    ∃ v, generic_min_horizontal E (Neon_f32.inst E) (AutoMath_f32 E) a.size a = pure v ∧ Num v
      ∧ val v = sumR min ⊤ (fun i => val (a.get i)) a.size := by
  have MFa := C18.auto_f32 E
  have hf : FoldIsMin Num val 4 (fun f => C13Neon.tN4.eval (Neon.fmin32 E) f) :=
    ftree_foldIsMax (V := Vᵒᵈ) Num (fun x => OrderDual.toDual (val x)) _ hv.dual C13Neon.tN4 4 C13Neon.tN4_perm
  have key := min_horizontal' (E := E) (e := F32.INFINITY) (top := E.F.rmin32) a.size hfuel (C13Neon.Neon_f32.ext_min E) MFa.max MFa.cmp_min (tN4_local _) a rfl
  obtain ⟨h1, h2⟩ := ext_true_min E Num val _ _ _ _ 4 a.size (by decide) (by decide) he hv hr hf a.get hnum
  exact ⟨_, key, h1, h2⟩

/-- **C05 on `Neon_f32`, vertical min** -/
theorem Neon_f32_min_vertical_true (E : Env) {V : Type} [LinearOrder V] (Num : F32 → Prop) (val : F32 → V)
    (hv : IsMinOn Num val (Neon.fmin32 E)) (hr : IsMinOn Num val E.F.rmin32)
    (a b result : Slice F32) (hb : b.size = a.size) (hres : result.size = a.size) (hfuel : a.size < E.fuel) :
    MixedMap2 (fun j x => Num (a.get j) → Num (b.get j) → Num x ∧ val x = min (val (a.get j)) (val (b.get j)))
      a.size result (generic_min_vertical E (Neon_f32.inst E) (AutoMath_f32 E) a.size a b result) := by
  have MFa := C18.auto_f32 E
  exact (min_vertical_mixed (top := E.F.rmin32) (C13Neon.Neon_f32.mem E) a.size hfuel (C13Neon.Neon_f32.min E) MFa.cmp_min a b result rfl hb hres).mono
    (fun j x _ h ha hb' => by rw [h]; exact mixG_isMin Num val hv hr _ a b j ha hb')

/-- **C05 on `Neon_f32`, min against a scalar** -/
theorem Neon_f32_min_value_true (E : Env) {V : Type} [LinearOrder V] (Num : F32 → Prop) (val : F32 → V)
    (hv : IsMinOn Num val (Neon.fmin32 E)) (hr : IsMinOn Num val E.F.rmin32)
    (value : F32) (a result : Slice F32) (hres : result.size = a.size) (hfuel : a.size < E.fuel) :
    MixedMap2 (fun j x => Num (a.get j) → Num value → Num x ∧ val x = min (val (a.get j)) (val value))
      a.size result (generic_min_value E (Neon_f32.inst E) (AutoMath_f32 E) a.size value a result) := by
  have MFa := C18.auto_f32 E
  exact (min_value_mixed (top := E.F.rmin32) (C13Neon.Neon_f32.mem E) a.size hfuel (C13Neon.Neon_f32.bcast E) (C13Neon.Neon_f32.min E) MFa.cmp_min value a result rfl hres).mono
    (fun j x _ h ha hb' => by rw [h]; exact mixGv_isMin Num val hv hr _ a value j ha hb')

theorem Neon_f32_add_vector (E : Env) (a b result : Slice F32) (hb : b.size = a.size) (hres : result.size = a.size)
    (hfuel : a.size < E.fuel) :
    MixedMap2 (fun j x => x = mixG (a.size - a.size % 4) (f32Spec E false).add (f32Spec E E.feat_nightly).add a b j) a.size result
      (generic_add_vector E (Neon_f32.inst E) (AutoMath_f32 E) a.size a b result) := by
  have MFa := C18.auto_f32 E
  rw [Shapes.add_vector]
  exact vector_mixed (C13Neon.Neon_f32.mem E) a.size hfuel (C13Neon.Neon_f32.add E) MFa.add a b result rfl hb hres

theorem Neon_f32_add_vector_exact (E : Env) (hn : E.feat_nightly = false) (a b result : Slice F32) (hb : b.size = a.size)
    (hres : result.size = a.size) (hfuel : a.size < E.fuel) :
    C02.ExactMap2 (f32Spec E false).add a.size a b result (generic_add_vector E (Neon_f32.inst E) (AutoMath_f32 E) a.size a b result) := by
  obtain ⟨r, e, h1, h2, h3⟩ := Neon_f32_add_vector E a b result hb hres hfuel
  refine ⟨r, e, h1, fun j hj => ?_, h3⟩
  rw [h2 j hj, hn]; exact mixG_same _ _ _ _ _

theorem Neon_f32_add_value (E : Env) (value : F32) (a result : Slice F32) (hres : result.size = a.size) (hfuel : a.size < E.fuel) :
    MixedMap2 (fun j x => x = mixGv (a.size - a.size % 4) (f32Spec E false).add (f32Spec E E.feat_nightly).add a value j) a.size result
      (generic_add_value E (Neon_f32.inst E) (AutoMath_f32 E) a.size value a result) := by
  have MFa := C18.auto_f32 E
  rw [Shapes.add_value]
  exact value_mixed (C13Neon.Neon_f32.mem E) (C13Neon.Neon_f32.bcast E) a.size hfuel (C13Neon.Neon_f32.add E) MFa.add value a result rfl hres

theorem Neon_f32_add_value_exact (E : Env) (hn : E.feat_nightly = false) (value : F32) (a result : Slice F32)
    (hres : result.size = a.size) (hfuel : a.size < E.fuel) :
    C02.ExactMap1v (f32Spec E false).add a.size value a result (generic_add_value E (Neon_f32.inst E) (AutoMath_f32 E) a.size value a result) := by
  obtain ⟨r, e, h1, h2, h3⟩ := Neon_f32_add_value E value a result hres hfuel
  refine ⟨r, e, h1, fun j hj => ?_, h3⟩
  rw [h2 j hj, hn]; exact mixGv_same _ _ _ _ _

theorem Neon_f32_sub_vector (E : Env) (a b result : Slice F32) (hb : b.size = a.size) (hres : result.size = a.size)
    (hfuel : a.size < E.fuel) :
    MixedMap2 (fun j x => x = mixG (a.size - a.size % 4) (f32Spec E false).sub (f32Spec E E.feat_nightly).sub a b j) a.size result
      (generic_sub_vector E (Neon_f32.inst E) (AutoMath_f32 E) a.size a b result) := by
  have MFa := C18.auto_f32 E
  rw [Shapes.sub_vector]
  exact vector_mixed (C13Neon.Neon_f32.mem E) a.size hfuel (C13Neon.Neon_f32.sub E) MFa.sub a b result rfl hb hres

theorem Neon_f32_sub_vector_exact (E : Env) (hn : E.feat_nightly = false) (a b result : Slice F32) (hb : b.size = a.size)
    (hres : result.size = a.size) (hfuel : a.size < E.fuel) :
    C02.ExactMap2 (f32Spec E false).sub a.size a b result (generic_sub_vector E (Neon_f32.inst E) (AutoMath_f32 E) a.size a b result) := by
  obtain ⟨r, e, h1, h2, h3⟩ := Neon_f32_sub_vector E a b result hb hres hfuel
  refine ⟨r, e, h1, fun j hj => ?_, h3⟩
  rw [h2 j hj, hn]; exact mixG_same _ _ _ _ _

theorem Neon_f32_sub_value (E : Env) (value : F32) (a result : Slice F32) (hres : result.size = a.size) (hfuel : a.size < E.fuel) :
    MixedMap2 (fun j x => x = mixGv (a.size - a.size % 4) (f32Spec E false).sub (f32Spec E E.feat_nightly).sub a value j) a.size result
      (generic_sub_value E (Neon_f32.inst E) (AutoMath_f32 E) a.size value a result) := by
  have MFa := C18.auto_f32 E
  rw [Shapes.sub_value]
  exact value_mixed (C13Neon.Neon_f32.mem E) (C13Neon.Neon_f32.bcast E) a.size hfuel (C13Neon.Neon_f32.sub E) MFa.sub value a result rfl hres

theorem Neon_f32_sub_value_exact (E : Env) (hn : E.feat_nightly = false) (value : F32) (a result : Slice F32)
    (hres : result.size = a.size) (hfuel : a.size < E.fuel) :
    C02.ExactMap1v (f32Spec E false).sub a.size value a result (generic_sub_value E (Neon_f32.inst E) (AutoMath_f32 E) a.size value a result) := by
  obtain ⟨r, e, h1, h2, h3⟩ := Neon_f32_sub_value E value a result hres hfuel
  refine ⟨r, e, h1, fun j hj => ?_, h3⟩
  rw [h2 j hj, hn]; exact mixGv_same _ _ _ _ _

theorem Neon_f32_mul_vector (E : Env) (a b result : Slice F32) (hb : b.size = a.size) (hres : result.size = a.size)
    (hfuel : a.size < E.fuel) :
    MixedMap2 (fun j x => x = mixG (a.size - a.size % 4) (f32Spec E false).mul (f32Spec E E.feat_nightly).mul a b j) a.size result
      (generic_mul_vector E (Neon_f32.inst E) (AutoMath_f32 E) a.size a b result) := by
  have MFa := C18.auto_f32 E
  rw [Shapes.mul_vector]
  exact vector_mixed (C13Neon.Neon_f32.mem E) a.size hfuel (C13Neon.Neon_f32.mul E) MFa.mul a b result rfl hb hres

theorem Neon_f32_mul_vector_exact (E : Env) (hn : E.feat_nightly = false) (a b result : Slice F32) (hb : b.size = a.size)
    (hres : result.size = a.size) (hfuel : a.size < E.fuel) :
    C02.ExactMap2 (f32Spec E false).mul a.size a b result (generic_mul_vector E (Neon_f32.inst E) (AutoMath_f32 E) a.size a b result) := by
  obtain ⟨r, e, h1, h2, h3⟩ := Neon_f32_mul_vector E a b result hb hres hfuel
  refine ⟨r, e, h1, fun j hj => ?_, h3⟩
  rw [h2 j hj, hn]; exact mixG_same _ _ _ _ _

theorem Neon_f32_mul_value (E : Env) (value : F32) (a result : Slice F32) (hres : result.size = a.size) (hfuel : a.size < E.fuel) :
    MixedMap2 (fun j x => x = mixGv (a.size - a.size % 4) (f32Spec E false).mul (f32Spec E E.feat_nightly).mul a value j) a.size result
      (generic_mul_value E (Neon_f32.inst E) (AutoMath_f32 E) a.size value a result) := by
  have MFa := C18.auto_f32 E
  rw [Shapes.mul_value]
  exact value_mixed (C13Neon.Neon_f32.mem E) (C13Neon.Neon_f32.bcast E) a.size hfuel (C13Neon.Neon_f32.mul E) MFa.mul value a result rfl hres

theorem Neon_f32_mul_value_exact (E : Env) (hn : E.feat_nightly = false) (value : F32) (a result : Slice F32)
    (hres : result.size = a.size) (hfuel : a.size < E.fuel) :
    C02.ExactMap1v (f32Spec E false).mul a.size value a result (generic_mul_value E (Neon_f32.inst E) (AutoMath_f32 E) a.size value a result) := by
  obtain ⟨r, e, h1, h2, h3⟩ := Neon_f32_mul_value E value a result hres hfuel
  refine ⟨r, e, h1, fun j hj => ?_, h3⟩
  rw [h2 j hj, hn]; exact mixGv_same _ _ _ _ _

theorem Neon_f32_div_vector (E : Env) (a b result : Slice F32) (hb : b.size = a.size) (hres : result.size = a.size)
    (hfuel : a.size < E.fuel) :
    MixedMap2 (fun j x => x = mixG (a.size - a.size % 4) (f32Spec E false).div (f32Spec E E.feat_nightly).div a b j) a.size result
      (generic_div_vector E (Neon_f32.inst E) (AutoMath_f32 E) a.size a b result) := by
  have MFa := C18.auto_f32 E
  rw [Shapes.div_vector]
  exact vector_mixed (C13Neon.Neon_f32.mem E) a.size hfuel (C13Neon.Neon_f32.div E) (fun x y => MFa.div_ok x y rfl) a b result rfl hb hres

theorem Neon_f32_div_vector_exact (E : Env) (hn : E.feat_nightly = false) (a b result : Slice F32) (hb : b.size = a.size)
    (hres : result.size = a.size) (hfuel : a.size < E.fuel) :
    C02.ExactMap2 (f32Spec E false).div a.size a b result (generic_div_vector E (Neon_f32.inst E) (AutoMath_f32 E) a.size a b result) := by
  obtain ⟨r, e, h1, h2, h3⟩ := Neon_f32_div_vector E a b result hb hres hfuel
  refine ⟨r, e, h1, fun j hj => ?_, h3⟩
  rw [h2 j hj, hn]; exact mixG_same _ _ _ _ _

theorem Neon_f32_div_value (E : Env) (value : F32) (a result : Slice F32) (hres : result.size = a.size) (hfuel : a.size < E.fuel) :
    MixedMap2 (fun j x => x = mixGv (a.size - a.size % 4) (f32Spec E false).div (f32Spec E E.feat_nightly).div a value j) a.size result
      (generic_div_value E (Neon_f32.inst E) (AutoMath_f32 E) a.size value a result) := by
  have MFa := C18.auto_f32 E
  rw [Shapes.div_value]
  exact value_mixed (C13Neon.Neon_f32.mem E) (C13Neon.Neon_f32.bcast E) a.size hfuel (C13Neon.Neon_f32.div E) (fun x y => MFa.div_ok x y rfl) value a result rfl hres

theorem Neon_f32_div_value_exact (E : Env) (hn : E.feat_nightly = false) (value : F32) (a result : Slice F32)
    (hres : result.size = a.size) (hfuel : a.size < E.fuel) :
    C02.ExactMap1v (f32Spec E false).div a.size value a result (generic_div_value E (Neon_f32.inst E) (AutoMath_f32 E) a.size value a result) := by
  obtain ⟨r, e, h1, h2, h3⟩ := Neon_f32_div_value E value a result hres hfuel
  refine ⟨r, e, h1, fun j hj => ?_, h3⟩
  rw [h2 j hj, hn]; exact mixGv_same _ _ _ _ _

/-! ## `Neon` × `f64` -/

/-- **C04 on `Neon_f64`** -/
theorem Neon_f64_bounds (E : Env) (hn : E.feat_nightly = false) (F : FloatSem (f64Spec E false) E.F.fma64)
    (a b : Slice F64) (hb : b.size = a.size) (hfuel : a.size < E.fuel) (hk : ((a.size + 3 : ℕ) : ℝ) * F.u < 1)
    (hnu : ∀ i, F.NoUf (a.get i) (b.get i)) :
    (∃ v, generic_dot_product E (Neon_f64.inst E) (AutoMath_f64 E) a.size a b = pure v ∧
      (F.Fin v → |F.val v - ((List.range a.size).map (fun i => F.val (a.get i) * F.val (b.get i))).sum|
        ≤ gamma F.u (a.size + 3) * ((List.range a.size).map (fun i => |F.val (a.get i) * F.val (b.get i)|)).sum))
    ∧ (∃ v, generic_sum E (Neon_f64.inst E) (AutoMath_f64 E) a.size a = pure v ∧
      (F.Fin v → |F.val v - ((List.range a.size).map (fun i => F.val (a.get i))).sum|
        ≤ gamma F.u (a.size + 3) * ((List.range a.size).map (fun i => |F.val (a.get i)|)).sum)) := by
  have SM : SumMath (AutoMath_f64 E) (f64Spec E false) := by
    have := C18.auto_f64 E
    rw [hn] at this
    exact SumMath.of this
  have HF := ftree_sem F C13Neon.tN2 2 1 C13Neon.tN2_perm (by decide)
  exact ⟨C04.dot_product_bound (C13Neon.Neon_f64.sumBackend E) SM F HF (tN2_local _) (by decide) (by decide) a.size hfuel hk a b rfl hb hnu,
    C04.sum_bound' (C13Neon.Neon_f64.sumBackend E) SM F HF (tN2_local _) (by decide) (by decide) a.size hfuel hk a rfl⟩

/-- **C06 accuracy on `Neon_f64`** -/
theorem Neon_f64_cosine_accuracy (E : Env) (hn : E.feat_nightly = false) (hstd : E.feat_std = true)
    (F : FloatSem (f64Spec E false) E.F.fma64)
    (a b : Slice F64) (hb : b.size = a.size) (hfuel : a.size < E.fuel) (hx : ((a.size : ℝ) + 8) * F.u ≤ 1 / 16)
    (hnu : ∀ i, F.NoUf (a.get i) (b.get i)) (hnua : ∀ i, F.NoUf (a.get i) (a.get i)) (hnub : ∀ i, F.NoUf (b.get i) (b.get i))
    (heq0 : ∀ x, F.Fin x → ((f64Spec E false).eq x (f64Spec E false).zero = true ↔ F.val x = 0))
    (hNx0 : 0 < ((List.range a.size).map (fun i => F.val (a.get i) * F.val (a.get i))).sum)
    (hNy0 : 0 < ((List.range a.size).map (fun i => F.val (b.get i) * F.val (b.get i))).sum)
    (dotv nav nbv : F64)
    (kdot : generic_dot_product E (Neon_f64.inst E) (AutoMath_f64 E) a.size a b = pure dotv)
    (kna : generic_squared_norm E (Neon_f64.inst E) (AutoMath_f64 E) a.size a = pure nav)
    (knb : generic_squared_norm E (Neon_f64.inst E) (AutoMath_f64 E) a.size b = pure nbv)
    (hfin : F.Fin dotv ∧ F.Fin nav ∧ F.Fin nbv) (FO : FinalOps F (F64.sqrt E) dotv nav nbv) :
    ∃ v, generic_cosine E (Neon_f64.inst E) (AutoMath_f64 E) a.size a b = pure v
      ∧ |F.val v - (1 - ((List.range a.size).map (fun i => F.val (a.get i) * F.val (b.get i))).sum
            / Real.sqrt (((List.range a.size).map (fun i => F.val (a.get i) * F.val (a.get i))).sum
                * ((List.range a.size).map (fun i => F.val (b.get i) * F.val (b.get i))).sum))|
          ≤ 4 * ((a.size : ℝ) + 8) * F.u := by
  have MFa : MathFaithful (AutoMath_f64 E) (f64Spec E false) := by
    have := C18.auto_f64 E
    rw [hn] at this
    exact this
  have hsqrt : ∀ x, (AutoMath_f64 E).sqrt x = pure (F64.sqrt E x) := by
    intro x
    simp [AutoMath_f64, hn, StdMath_f64, StdMath_f64.sqrt, hstd]
  have HF := ftree_sem F C13Neon.tN2 2 1 C13Neon.tN2_perm (by decide)
  exact cosine_accuracy_kernels (C13Neon.Neon_f64.sumBackend E) MFa F HF (tN2_local _) (by decide) (by decide) _ hsqrt a b hb hfuel hx
    hnu hnua hnub heq0 hNx0 hNy0 dotv nav nbv kdot kna knb hfin FO

/-- NEON FMAX on numbers is a max (given: numbers are not NaN, `lt` reflects the order, ties keep the value) -/
theorem Neon_f64_fmax_isMax (E : Env) {V : Type} [LinearOrder V] (Num : F64 → Prop) (val : F64 → V)
    (hnan : ∀ x, Num x → Neon.isNaN64 x = false)
    (hlt : ∀ x y, Num x → Num y → (E.F.lt64 x y = true ↔ val x < val y))
    (htie : ∀ x y, Num x → Num y → val x = val y → Num (x &&& y) ∧ val (x &&& y) = val x) :
    IsMaxOn Num val (Neon.fmax64 E) := by
  intro x y hx hy
  have := cmp3_isMax Num val E.F.lt64 (fun x y => x &&& y) hlt htie x y hx hy
  unfold Neon.fmax64
  simpa [hnan x hx, hnan y hy] using this

/-- **C05 on `Neon_f64`, horizontal max** -/
theorem Neon_f64_max_horizontal_true (E : Env) {V : Type} [LinearOrder V] [OrderBot V] (Num : F64 → Prop) (val : F64 → V)
    (hv : IsMaxOn Num val (Neon.fmax64 E)) (hr : IsMaxOn Num val E.F.rmax64)
    (he : Num F64.NEG_INFINITY ∧ val F64.NEG_INFINITY = ⊥)
    (a : Slice F64) (hfuel : a.size < E.fuel) (hnum : ∀ i, i < a.size → Num (a.get i)) :
    ∃ v, generic_max_horizontal E (Neon_f64.inst E) (AutoMath_f64 E) a.size a = pure v ∧ Num v
      ∧ val v = sumR max ⊥ (fun i => val (a.get i)) a.size := by
  have MFa := C18.auto_f64 E
  have hf : FoldIsMax Num val 2 (fun f => C13Neon.tN2.eval (Neon.fmax64 E) f) :=
    ftree_foldIsMax Num val _ hv C13Neon.tN2 2 C13Neon.tN2_perm
  have key := max_horizontal' (E := E) (e := F64.NEG_INFINITY) (top := E.F.rmax64) a.size hfuel (C13Neon.Neon_f64.ext_max E) MFa.min MFa.cmp_max (tN2_local _) a rfl
  obtain ⟨h1, h2⟩ := ext_true_extreme E Num val _ _ _ _ 2 a.size (by decide) (by decide) he hv hr hf a.get hnum
  exact ⟨_, key, h1, h2⟩

/-- **C05 on `Neon_f64`, vertical max** -/
theorem Neon_f64_max_vertical_true (E : Env) {V : Type} [LinearOrder V] (Num : F64 → Prop) (val : F64 → V)
    (hv : IsMaxOn Num val (Neon.fmax64 E)) (hr : IsMaxOn Num val E.F.rmax64)
    (a b result : Slice F64) (hb : b.size = a.size) (hres : result.size = a.size) (hfuel : a.size < E.fuel) :
    MixedMap2 (fun j x => Num (a.get j) → Num (b.get j) → Num x ∧ val x = max (val (a.get j)) (val (b.get j)))
      a.size result (generic_max_vertical E (Neon_f64.inst E) (AutoMath_f64 E) a.size a b result) := by
  have MFa := C18.auto_f64 E
  exact (max_vertical_mixed (top := E.F.rmax64) (C13Neon.Neon_f64.mem E) a.size hfuel (C13Neon.Neon_f64.max E) MFa.cmp_max a b result rfl hb hres).mono
    (fun j x _ h ha hb' => by rw [h]; exact mixG_isMax Num val hv hr _ a b j ha hb')

/-- **C05 on `Neon_f64`, max against a scalar** -/
theorem Neon_f64_max_value_true (E : Env) {V : Type} [LinearOrder V] (Num : F64 → Prop) (val : F64 → V)
    (hv : IsMaxOn Num val (Neon.fmax64 E)) (hr : IsMaxOn Num val E.F.rmax64)
    (value : F64) (a result : Slice F64) (hres : result.size = a.size) (hfuel : a.size < E.fuel) :
    MixedMap2 (fun j x => Num (a.get j) → Num value → Num x ∧ val x = max (val (a.get j)) (val value))
      a.size result (generic_max_value E (Neon_f64.inst E) (AutoMath_f64 E) a.size value a result) := by
  have MFa := C18.auto_f64 E
  exact (max_value_mixed (top := E.F.rmax64) (C13Neon.Neon_f64.mem E) a.size hfuel (C13Neon.Neon_f64.bcast E) (C13Neon.Neon_f64.max E) MFa.cmp_max value a result rfl hres).mono
    (fun j x _ h ha hb' => by rw [h]; exact mixGv_isMax Num val hv hr _ a value j ha hb')

/-- NEON FMIN on numbers is a min (given: numbers are not NaN, `lt` reflects the order, ties keep the value) -/
theorem Neon_f64_fmin_isMin (E : Env) {V : Type} [LinearOrder V] (Num : F64 → Prop) (val : F64 → V)
    (hnan : ∀ x, Num x → Neon.isNaN64 x = false)
    (hlt : ∀ x y, Num x → Num y → (E.F.lt64 x y = true ↔ val x < val y))
    (htie : ∀ x y, Num x → Num y → val x = val y → Num (x ||| y) ∧ val (x ||| y) = val x) :
    IsMinOn Num val (Neon.fmin64 E) := by
  intro x y hx hy
  have := cmp3_isMin Num val E.F.lt64 (fun x y => x ||| y) hlt htie x y hx hy
  unfold Neon.fmin64
  simpa [hnan x hx, hnan y hy] using this

/-- **C05 on `Neon_f64`, horizontal min** -/
theorem Neon_f64_min_horizontal_true (E : Env) {V : Type} [LinearOrder V] [OrderTop V] (Num : F64 → Prop) (val : F64 → V)
    (hv : IsMinOn Num val (Neon.fmin64 E)) (hr : IsMinOn Num val E.F.rmin64)
    (he : Num F64.INFINITY ∧ val F64.INFINITY = ⊤)
    (a : Slice F64) (hfuel : a.size < E.fuel) (hnum : ∀ i, i < a.size → Num (a.get i)) :
    ∃ v, generic_min_horizontal E (Neon_f64.inst E) (AutoMath_f64 E) a.size a = pure v ∧ Num v
      ∧ val v = sumR min ⊤ (fun i => val (a.get i)) a.size := by
  have MFa := C18.auto_f64 E
  have hf : FoldIsMin Num val 2 (fun f => C13Neon.tN2.eval (Neon.fmin64 E) f) :=
    ftree_foldIsMax (V := Vᵒᵈ) Num (fun x => OrderDual.toDual (val x)) _ hv.dual C13Neon.tN2 2 C13Neon.tN2_perm
  have key := min_horizontal' (E := E) (e := F64.INFINITY) (top := E.F.rmin64) a.size hfuel (C13Neon.Neon_f64.ext_min E) MFa.max MFa.cmp_min (tN2_local _) a rfl
  obtain ⟨h1, h2⟩ := ext_true_min E Num val _ _ _ _ 2 a.size (by decide) (by decide) he hv hr hf a.get hnum
  exact ⟨_, key, h1, h2⟩

/-- **C05 on `Neon_f64`, vertical min** -/
theorem Neon_f64_min_vertical_true (E : Env) {V : Type} [LinearOrder V] (Num : F64 → Prop) (val : F64 → V)
    (hv : IsMinOn Num val (Neon.fmin64 E)) (hr : IsMinOn Num val E.F.rmin64)
    (a b result : Slice F64) (hb : b.size = a.size) (hres : result.size = a.size) (hfuel : a.size < E.fuel) :
    MixedMap2 (fun j x => Num (a.get j) → Num (b.get j) → Num x ∧ val x = min (val (a.get j)) (val (b.get j)))
      a.size result (generic_min_vertical E (Neon_f64.inst E) (AutoMath_f64 E) a.size a b result) := by
  have MFa := C18.auto_f64 E
  exact (min_vertical_mixed (top := E.F.rmin64) (C13Neon.Neon_f64.mem E) a.size hfuel (C13Neon.Neon_f64.min E) MFa.cmp_min a b result rfl hb hres).mono
    (fun j x _ h ha hb' => by rw [h]; exact mixG_isMin Num val hv hr _ a b j ha hb')

/-- **C05 on `Neon_f64`, min against a scalar** -/
theorem Neon_f64_min_value_true (E : Env) {V : Type} [LinearOrder V] (Num : F64 → Prop) (val : F64 → V)
    (hv : IsMinOn Num val (Neon.fmin64 E)) (hr : IsMinOn Num val E.F.rmin64)
    (value : F64) (a result : Slice F64) (hres : result.size = a.size) (hfuel : a.size < E.fuel) :
    MixedMap2 (fun j x => Num (a.get j) → Num value → Num x ∧ val x = min (val (a.get j)) (val value))
      a.size result (generic_min_value E (Neon_f64.inst E) (AutoMath_f64 E) a.size value a result) := by
  have MFa := C18.auto_f64 E
  exact (min_value_mixed (top := E.F.rmin64) (C13Neon.Neon_f64.mem E) a.size hfuel (C13Neon.Neon_f64.bcast E) (C13Neon.Neon_f64.min E) MFa.cmp_min value a result rfl hres).mono
    (fun j x _ h ha hb' => by rw [h]; exact mixGv_isMin Num val hv hr _ a value j ha hb')

theorem Neon_f64_add_vector (E : Env) (a b result : Slice F64) (hb : b.size = a.size) (hres : result.size = a.size)
    (hfuel : a.size < E.fuel) :
    MixedMap2 (fun j x => x = mixG (a.size - a.size % 2) (f64Spec E false).add (f64Spec E E.feat_nightly).add a b j) a.size result
      (generic_add_vector E (Neon_f64.inst E) (AutoMath_f64 E) a.size a b result) := by
  have MFa := C18.auto_f64 E
  rw [Shapes.add_vector]
  exact vector_mixed (C13Neon.Neon_f64.mem E) a.size hfuel (C13Neon.Neon_f64.add E) MFa.add a b result rfl hb hres

theorem Neon_f64_add_vector_exact (E : Env) (hn : E.feat_nightly = false) (a b result : Slice F64) (hb : b.size = a.size)
    (hres : result.size = a.size) (hfuel : a.size < E.fuel) :
    C02.ExactMap2 (f64Spec E false).add a.size a b result (generic_add_vector E (Neon_f64.inst E) (AutoMath_f64 E) a.size a b result) := by
  obtain ⟨r, e, h1, h2, h3⟩ := Neon_f64_add_vector E a b result hb hres hfuel
  refine ⟨r, e, h1, fun j hj => ?_, h3⟩
  rw [h2 j hj, hn]; exact mixG_same _ _ _ _ _

theorem Neon_f64_add_value (E : Env) (value : F64) (a result : Slice F64) (hres : result.size = a.size) (hfuel : a.size < E.fuel) :
    MixedMap2 (fun j x => x = mixGv (a.size - a.size % 2) (f64Spec E false).add (f64Spec E E.feat_nightly).add a value j) a.size result
      (generic_add_value E (Neon_f64.inst E) (AutoMath_f64 E) a.size value a result) := by
  have MFa := C18.auto_f64 E
  rw [Shapes.add_value]
  exact value_mixed (C13Neon.Neon_f64.mem E) (C13Neon.Neon_f64.bcast E) a.size hfuel (C13Neon.Neon_f64.add E) MFa.add value a result rfl hres

theorem Neon_f64_add_value_exact (E : Env) (hn : E.feat_nightly = false) (value : F64) (a result : Slice F64)
    (hres : result.size = a.size) (hfuel : a.size < E.fuel) :
    C02.ExactMap1v (f64Spec E false).add a.size value a result (generic_add_value E (Neon_f64.inst E) (AutoMath_f64 E) a.size value a result) := by
  obtain ⟨r, e, h1, h2, h3⟩ := Neon_f64_add_value E value a result hres hfuel
  refine ⟨r, e, h1, fun j hj => ?_, h3⟩
  rw [h2 j hj, hn]; exact mixGv_same _ _ _ _ _

theorem Neon_f64_sub_vector (E : Env) (a b result : Slice F64) (hb : b.size = a.size) (hres : result.size = a.size)
    (hfuel : a.size < E.fuel) :
    MixedMap2 (fun j x => x = mixG (a.size - a.size % 2) (f64Spec E false).sub (f64Spec E E.feat_nightly).sub a b j) a.size result
      (generic_sub_vector E (Neon_f64.inst E) (AutoMath_f64 E) a.size a b result) := by
  have MFa := C18.auto_f64 E
  rw [Shapes.sub_vector]
  exact vector_mixed (C13Neon.Neon_f64.mem E) a.size hfuel (C13Neon.Neon_f64.sub E) MFa.sub a b result rfl hb hres

theorem Neon_f64_sub_vector_exact (E : Env) (hn : E.feat_nightly = false) (a b result : Slice F64) (hb : b.size = a.size)
    (hres : result.size = a.size) (hfuel : a.size < E.fuel) :
    C02.ExactMap2 (f64Spec E false).sub a.size a b result (generic_sub_vector E (Neon_f64.inst E) (AutoMath_f64 E) a.size a b result) := by
  obtain ⟨r, e, h1, h2, h3⟩ := Neon_f64_sub_vector E a b result hb hres hfuel
  refine ⟨r, e, h1, fun j hj => ?_, h3⟩
  rw [h2 j hj, hn]; exact mixG_same _ _ _ _ _

theorem Neon_f64_sub_value (E : Env) (value : F64) (a result : Slice F64) (hres : result.size = a.size) (hfuel : a.size < E.fuel) :
    MixedMap2 (fun j x => x = mixGv (a.size - a.size % 2) (f64Spec E false).sub (f64Spec E E.feat_nightly).sub a value j) a.size result
      (generic_sub_value E (Neon_f64.inst E) (AutoMath_f64 E) a.size value a result) := by
  have MFa := C18.auto_f64 E
  rw [Shapes.sub_value]
  exact value_mixed (C13Neon.Neon_f64.mem E) (C13Neon.Neon_f64.bcast E) a.size hfuel (C13Neon.Neon_f64.sub E) MFa.sub value a result rfl hres

theorem Neon_f64_sub_value_exact (E : Env) (hn : E.feat_nightly = false) (value : F64) (a result : Slice F64)
    (hres : result.size = a.size) (hfuel : a.size < E.fuel) :
    C02.ExactMap1v (f64Spec E false).sub a.size value a result (generic_sub_value E (Neon_f64.inst E) (AutoMath_f64 E) a.size value a result) := by
  obtain ⟨r, e, h1, h2, h3⟩ := Neon_f64_sub_value E value a result hres hfuel
  refine ⟨r, e, h1, fun j hj => ?_, h3⟩
  rw [h2 j hj, hn]; exact mixGv_same _ _ _ _ _

theorem Neon_f64_mul_vector (E : Env) (a b result : Slice F64) (hb : b.size = a.size) (hres : result.size = a.size)
    (hfuel : a.size < E.fuel) :
    MixedMap2 (fun j x => x = mixG (a.size - a.size % 2) (f64Spec E false).mul (f64Spec E E.feat_nightly).mul a b j) a.size result
      (generic_mul_vector E (Neon_f64.inst E) (AutoMath_f64 E) a.size a b result) := by
  have MFa := C18.auto_f64 E
  rw [Shapes.mul_vector]
  exact vector_mixed (C13Neon.Neon_f64.mem E) a.size hfuel (C13Neon.Neon_f64.mul E) MFa.mul a b result rfl hb hres

theorem Neon_f64_mul_vector_exact (E : Env) (hn : E.feat_nightly = false) (a b result : Slice F64) (hb : b.size = a.size)
    (hres : result.size = a.size) (hfuel : a.size < E.fuel) :
    C02.ExactMap2 (f64Spec E false).mul a.size a b result (generic_mul_vector E (Neon_f64.inst E) (AutoMath_f64 E) a.size a b result) := by
  obtain ⟨r, e, h1, h2, h3⟩ := Neon_f64_mul_vector E a b result hb hres hfuel
  refine ⟨r, e, h1, fun j hj => ?_, h3⟩
  rw [h2 j hj, hn]; exact mixG_same _ _ _ _ _

theorem Neon_f64_mul_value (E : Env) (value : F64) (a result : Slice F64) (hres : result.size = a.size) (hfuel : a.size < E.fuel) :
    MixedMap2 (fun j x => x = mixGv (a.size - a.size % 2) (f64Spec E false).mul (f64Spec E E.feat_nightly).mul a value j) a.size result
      (generic_mul_value E (Neon_f64.inst E) (AutoMath_f64 E) a.size value a result) := by
  have MFa := C18.auto_f64 E
  rw [Shapes.mul_value]
  exact value_mixed (C13Neon.Neon_f64.mem E) (C13Neon.Neon_f64.bcast E) a.size hfuel (C13Neon.Neon_f64.mul E) MFa.mul value a result rfl hres

theorem Neon_f64_mul_value_exact (E : Env) (hn : E.feat_nightly = false) (value : F64) (a result : Slice F64)
    (hres : result.size = a.size) (hfuel : a.size < E.fuel) :
    C02.ExactMap1v (f64Spec E false).mul a.size value a result (generic_mul_value E (Neon_f64.inst E) (AutoMath_f64 E) a.size value a result) := by
  obtain ⟨r, e, h1, h2, h3⟩ := Neon_f64_mul_value E value a result hres hfuel
  refine ⟨r, e, h1, fun j hj => ?_, h3⟩
  rw [h2 j hj, hn]; exact mixGv_same _ _ _ _ _

theorem Neon_f64_div_vector (E : Env) (a b result : Slice F64) (hb : b.size = a.size) (hres : result.size = a.size)
    (hfuel : a.size < E.fuel) :
    MixedMap2 (fun j x => x = mixG (a.size - a.size % 2) (f64Spec E false).div (f64Spec E E.feat_nightly).div a b j) a.size result
      (generic_div_vector E (Neon_f64.inst E) (AutoMath_f64 E) a.size a b result) := by
  have MFa := C18.auto_f64 E
  rw [Shapes.div_vector]
  exact vector_mixed (C13Neon.Neon_f64.mem E) a.size hfuel (C13Neon.Neon_f64.div E) (fun x y => MFa.div_ok x y rfl) a b result rfl hb hres

theorem Neon_f64_div_vector_exact (E : Env) (hn : E.feat_nightly = false) (a b result : Slice F64) (hb : b.size = a.size)
    (hres : result.size = a.size) (hfuel : a.size < E.fuel) :
    C02.ExactMap2 (f64Spec E false).div a.size a b result (generic_div_vector E (Neon_f64.inst E) (AutoMath_f64 E) a.size a b result) := by
  obtain ⟨r, e, h1, h2, h3⟩ := Neon_f64_div_vector E a b result hb hres hfuel
  refine ⟨r, e, h1, fun j hj => ?_, h3⟩
  rw [h2 j hj, hn]; exact mixG_same _ _ _ _ _

theorem Neon_f64_div_value (E : Env) (value : F64) (a result : Slice F64) (hres : result.size = a.size) (hfuel : a.size < E.fuel) :
    MixedMap2 (fun j x => x = mixGv (a.size - a.size % 2) (f64Spec E false).div (f64Spec E E.feat_nightly).div a value j) a.size result
      (generic_div_value E (Neon_f64.inst E) (AutoMath_f64 E) a.size value a result) := by
  have MFa := C18.auto_f64 E
  rw [Shapes.div_value]
  exact value_mixed (C13Neon.Neon_f64.mem E) (C13Neon.Neon_f64.bcast E) a.size hfuel (C13Neon.Neon_f64.div E) (fun x y => MFa.div_ok x y rfl) value a result rfl hres

theorem Neon_f64_div_value_exact (E : Env) (hn : E.feat_nightly = false) (value : F64) (a result : Slice F64)
    (hres : result.size = a.size) (hfuel : a.size < E.fuel) :
    C02.ExactMap1v (f64Spec E false).div a.size value a result (generic_div_value E (Neon_f64.inst E) (AutoMath_f64 E) a.size value a result) := by
  obtain ⟨r, e, h1, h2, h3⟩ := Neon_f64_div_value E value a result hres hfuel
  refine ⟨r, e, h1, fun j hj => ?_, h3⟩
  rw [h2 j hj, hn]; exact mixGv_same _ _ _ _ _

end Cfavml.Thm.NeonFloat
