/-
C05 — vertical, by-value and horizontal min/max return the true extreme.
Vertical / by-value: the element-wise theorems of C02 at `cmpMax` / `cmpMin`. Horizontal: the kernel
returns the monoid fold of `max` (unit: type MIN) resp. `min` (unit: type MAX) over all elements, which
bounds every element, is one of the elements when the vector is non-empty and is the unit when it is empty.
Integers: proved for signed and unsigned order on `BitVec w`. Floats: the same statements hold for any
`cmpMax`/`cmpMin` that form a commutative monoid on the non-NaN values — stated as hypotheses on `FloatOps`.
-/
import CfavmlModel.Thm.C03

namespace Cfavml.Thm.C05
open ReduceKernels C02

variable {T Reg : Type} {E : Env} {R : SimdRegister T Reg} {M : Math T} {L : Nat} {lanes : Reg → Nat → T}
variable {S : ScalarSpec T}

section elementwise
variable (AF : ArithFaithful R L lanes S) (MFa : MathFaithful M S)
variable (dims : Nat) (hfuel : dims < E.fuel)
include AF MFa hfuel

/-- **C05 (vertical).** `result[j] = max(a[j], b[j])` for every `j` -/
theorem max_vertical (a b result : Slice T) (ha : a.size = dims) (hb : b.size = dims) (hr : result.size = dims) :
    ExactMap2 S.cmpMax dims a b result (generic_max_vertical E R M dims a b result) := by
  rw [Shapes.max_vertical]
  exact map2T_spec AF.mem AF.max (fun x y _ => MFa.cmp_max x y) false dims a b result ha hb hr (fun _ _ => trivial) hfuel

theorem min_vertical (a b result : Slice T) (ha : a.size = dims) (hb : b.size = dims) (hr : result.size = dims) :
    ExactMap2 S.cmpMin dims a b result (generic_min_vertical E R M dims a b result) := by
  rw [Shapes.min_vertical]
  exact map2T_spec AF.mem AF.min (fun x y _ => MFa.cmp_min x y) false dims a b result ha hb hr (fun _ _ => trivial) hfuel

/-- **C05 (by value).** `result[j] = max(a[j], value)` for every `j` -/
theorem max_value (value : T) (a result : Slice T) (ha : a.size = dims) (hr : result.size = dims) :
    ExactMap1v S.cmpMax dims value a result (generic_max_value E R M dims value a result) := by
  rw [Shapes.max_value]
  exact minmaxValue_spec AF MFa dims value a result ha hr hfuel AF.max (fun x y _ => MFa.cmp_max x y) trivial

theorem min_value (value : T) (a result : Slice T) (ha : a.size = dims) (hr : result.size = dims) :
    ExactMap1v S.cmpMin dims value a result (generic_min_value E R M dims value a result) := by
  rw [Shapes.min_value]
  exact minmaxValue_spec AF MFa dims value a result ha hr hfuel AF.min (fun x y _ => MFa.cmp_min x y) trivial

end elementwise

/-! ### the integer orders -/

theorem smax_select {w : Nat} (x y : BitVec w) : IntPrim.smax x y = x ∨ IntPrim.smax x y = y := by
  rw [smax_eq]; split <;> simp
theorem smin_select {w : Nat} (x y : BitVec w) : IntPrim.smin x y = x ∨ IntPrim.smin x y = y := by
  rw [smin_eq]; split <;> simp
theorem umax_select {w : Nat} (x y : BitVec w) : IntPrim.umax x y = x ∨ IntPrim.umax x y = y := by
  rw [umax_eq]; split <;> simp
theorem umin_select {w : Nat} (x y : BitVec w) : IntPrim.umin x y = x ∨ IntPrim.umin x y = y := by
  rw [umin_eq]; split <;> simp

/-- the signed `max`-fold is the true maximum: it is ≥ every element, it is one of the elements if there
is one, and it is `MIN` for the empty vector -/
theorem smax_fold_is_max {w : Nat} (f : Nat → BitVec w) (n : Nat) :
    let m := sumR IntPrim.smax (BitVec.intMin w) f n
    (∀ k, k < n → (f k).toInt ≤ m.toInt) ∧ (n = 0 → m = BitVec.intMin w) ∧ (0 < n → ∃ k, k < n ∧ m = f k) := by
  intro m
  have hub := sumR_upper (op := IntPrim.smax) (e := BitVec.intMin w) (fun x y => x.toInt ≤ y.toInt)
    (fun _ => Int.le_refl _) (fun _ _ _ => Int.le_trans)
    (fun x y => by rw [smax_eq]; split <;> omega) (fun x y => by rw [smax_eq]; split <;> omega) f n
  refine ⟨hub.2, fun h => by simp [m, h], ?_⟩
  intro hn
  rcases sumR_select smax_select f n with h | h
  · -- the fold equals MIN: then every element is MIN too, in particular element 0
    refine ⟨0, hn, ?_⟩
    have h0 := hub.2 0 hn
    have hge := hub.1
    apply BitVec.eq_of_toInt_eq
    show m.toInt = (f 0).toInt
    have hm : m = BitVec.intMin w := h
    by_cases hw : w = 0
    · subst hw; simp [BitVec.eq_nil m, BitVec.eq_nil (f 0)]
    · have := @BitVec.le_toInt w (f 0)
      rw [h] at h0
      rw [hm]
      rw [toInt_intMin' (by omega)] at h0 ⊢
      push_cast at h0 ⊢
      omega
  · exact h

/-- the unsigned `max`-fold is the true maximum -/
theorem umax_fold_is_max {w : Nat} (f : Nat → BitVec w) (n : Nat) :
    let m := sumR IntPrim.umax (0 : BitVec w) f n
    (∀ k, k < n → (f k).toNat ≤ m.toNat) ∧ (n = 0 → m = 0) ∧ (0 < n → ∃ k, k < n ∧ m = f k) := by
  intro m
  have hub := sumR_upper (op := IntPrim.umax) (e := (0 : BitVec w)) (fun x y => x.toNat ≤ y.toNat)
    (fun _ => Nat.le_refl _) (fun _ _ _ => Nat.le_trans)
    (fun x y => by rw [umax_eq]; split <;> omega) (fun x y => by rw [umax_eq]; split <;> omega) f n
  refine ⟨hub.2, fun h => by simp [m, h], ?_⟩
  intro hn
  rcases sumR_select umax_select f n with h | h
  · refine ⟨0, hn, ?_⟩
    have h0 := hub.2 0 hn
    apply BitVec.eq_of_toNat_eq
    show m.toNat = (f 0).toNat
    have hm : m = 0 := h
    rw [h] at h0
    rw [hm]
    have hz : (0 : BitVec w).toNat = 0 := by simp
    omega
  · exact h

/-- the signed `min`-fold is the true minimum -/
theorem smin_fold_is_min {w : Nat} (f : Nat → BitVec w) (n : Nat) :
    let m := sumR IntPrim.smin (BitVec.intMax w) f n
    (∀ k, k < n → m.toInt ≤ (f k).toInt) ∧ (n = 0 → m = BitVec.intMax w) ∧ (0 < n → ∃ k, k < n ∧ m = f k) := by
  intro m
  have hub := sumR_upper (op := IntPrim.smin) (e := BitVec.intMax w) (fun x y => y.toInt ≤ x.toInt)
    (fun _ => Int.le_refl _) (fun _ _ _ h1 h2 => Int.le_trans h2 h1)
    (fun x y => by rw [smin_eq]; split <;> omega) (fun x y => by rw [smin_eq]; split <;> omega) f n
  refine ⟨hub.2, fun h => by simp [m, h], ?_⟩
  intro hn
  rcases sumR_select smin_select f n with h | h
  · refine ⟨0, hn, ?_⟩
    have h0 := hub.2 0 hn
    apply BitVec.eq_of_toInt_eq
    show m.toInt = (f 0).toInt
    have hm : m = BitVec.intMax w := h
    have := @BitVec.toInt_lt w (f 0)
    rw [h] at h0
    rw [hm]
    rw [BitVec.toInt_intMax] at h0 ⊢
    omega
  · exact h

/-- the unsigned `min`-fold is the true minimum -/
theorem umin_fold_is_min {w : Nat} (f : Nat → BitVec w) (n : Nat) :
    let m := sumR IntPrim.umin (BitVec.allOnes w) f n
    (∀ k, k < n → m.toNat ≤ (f k).toNat) ∧ (n = 0 → m = BitVec.allOnes w) ∧ (0 < n → ∃ k, k < n ∧ m = f k) := by
  intro m
  have hub := sumR_upper (op := IntPrim.umin) (e := BitVec.allOnes w) (fun x y => y.toNat ≤ x.toNat)
    (fun _ => Nat.le_refl _) (fun _ _ _ h1 h2 => Nat.le_trans h2 h1)
    (fun x y => by rw [umin_eq]; split <;> omega) (fun x y => by rw [umin_eq]; split <;> omega) f n
  refine ⟨hub.2, fun h => by simp [m, h], ?_⟩
  intro hn
  rcases sumR_select umin_select f n with h | h
  · refine ⟨0, hn, ?_⟩
    have h0 := hub.2 0 hn
    apply BitVec.eq_of_toNat_eq
    show m.toNat = (f 0).toNat
    have hm : m = BitVec.allOnes w := h
    have := (f 0).isLt
    rw [h] at h0
    rw [hm]
    rw [BitVec.toNat_allOnes] at h0 ⊢
    omega
  · exact h

/-! ### horizontal max/min of the Fallback backend, signed and unsigned -/

theorem i32_fallback_max_horizontal (E : Env) (a : Slice I32) (hfuel : a.size < E.fuel) :
    generic_max_horizontal E (Fallback.inst E (AutoMath_i32 E) 4) (AutoMath_i32 E) a.size a
      = pure (sumR IntPrim.smax (BitVec.intMin 32) a.get a.size) :=
  ReduceKernels.max_horizontal (C02.fallback_arith E _ _ 4 (by omega) (C18.auto_i32 E))
    (C13Fallback.reduce E _ 4 (C18.auto_i32 E)) (C18.auto_i32 E) a.size hfuel
    (smax_monoid (by omega)) (C03.fallback_hsum (smax_monoid (by omega))) a rfl

theorem u64_fallback_min_horizontal (E : Env) (a : Slice U64) (hfuel : a.size < E.fuel) :
    generic_min_horizontal E (Fallback.inst E (AutoMath_u64 E) 8) (AutoMath_u64 E) a.size a
      = pure (sumR IntPrim.umin (BitVec.allOnes 64) a.get a.size) :=
  ReduceKernels.min_horizontal (C02.fallback_arith E _ _ 8 (by omega) (C18.auto_u64 E))
    (C13Fallback.reduce E _ 8 (C18.auto_u64 E)) (C18.auto_u64 E) a.size hfuel
    (umin_monoid 64) (C03.fallback_hsum (umin_monoid 64)) a rfl

/-- non-vacuity: signed vs unsigned order on the same bits -/
example : sumR IntPrim.smax (BitVec.intMin 8) (fun k => if k = 0 then 0x80#8 else 1#8) 2 = 1#8
    ∧ sumR IntPrim.umax (0 : BitVec 8) (fun k => if k = 0 then 0x80#8 else 1#8) 2 = 0x80#8 := by decide

end Cfavml.Thm.C05
