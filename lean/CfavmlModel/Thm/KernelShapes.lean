/-
Each generated kernel (Gen/Kernels.lean, regenerated from op_*.rs on every run) is definitionally equal
to an instance of a hand-written template, so the template theorems apply to the code as it is now.
A change of loop bound, offset, operand order, operation or phase structure in the source breaks the `rfl`.
-/
import CfavmlModel.Gen.Kernels
import CfavmlModel.Lemmas.Map2

namespace Cfavml.Thm.Shapes
variable {T Reg : Type} (E : Env) (R : SimdRegister T Reg) (M : Math T)

theorem add_vector : generic_add_vector E R M = map2T E R true R.add_dense R.add M.add := rfl
theorem sub_vector : generic_sub_vector E R M = map2T E R true R.sub_dense R.sub M.sub := rfl
theorem mul_vector : generic_mul_vector E R M = map2T E R true R.mul_dense R.mul M.mul := rfl
theorem div_vector : generic_div_vector E R M = map2T E R true R.div_dense R.div M.div := rfl
theorem max_vertical : generic_max_vertical E R M = map2T E R false R.max_dense R.max M.cmp_max := rfl
theorem min_vertical : generic_min_vertical E R M = map2T E R false R.min_dense R.min M.cmp_min := rfl

end Cfavml.Thm.Shapes
