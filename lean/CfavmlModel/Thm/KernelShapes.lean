/-
Each generated kernel (Gen/Kernels.lean, regenerated from op_*.rs on every run) is definitionally equal
to an instance of a hand-written template, so the template theorems apply to the code as it is now.
A change of loop bound, offset, operand order, operation or phase structure in the source breaks the `rfl`.
-/
import CfavmlModel.Gen.Kernels
import CfavmlModel.Lemmas.Map2
import CfavmlModel.Lemmas.Map1v
import CfavmlModel.Lemmas.Reduce

namespace Cfavml.Thm.Shapes
variable {T Reg : Type} (E : Env) (R : SimdRegister T Reg) (M : Math T)

theorem add_vector : generic_add_vector E R M = map2T E R true R.add_dense R.add M.add := rfl
theorem sub_vector : generic_sub_vector E R M = map2T E R true R.sub_dense R.sub M.sub := rfl
theorem mul_vector : generic_mul_vector E R M = map2T E R true R.mul_dense R.mul M.mul := rfl
theorem div_vector : generic_div_vector E R M = map2T E R true R.div_dense R.div M.div := rfl
theorem max_vertical : generic_max_vertical E R M = map2T E R false R.max_dense R.max M.cmp_max := rfl
theorem min_vertical : generic_min_vertical E R M = map2T E R false R.min_dense R.min M.cmp_min := rfl


/-- vector × scalar arithmetic: asserts, broadcast with `filled`, then the common core -/
def arithValueT (opDense : DenseLane Reg → DenseLane Reg → Exec (DenseLane Reg)) (opReg : Reg → Reg → Exec Reg)
    (opTail : T → T → Exec T) (dims : Nat) (value : T) (a result : Slice T) : Exec (Slice T) := do
  debugAssertEq E a.size dims
  debugAssertEq E result.size dims
  let vr ← R.filled value
  map1vCore E R opDense opReg opTail dims value vr (DenseLane.copy vr) a result

/-- vector × scalar max/min: one assert, broadcast with `filled_dense`, then the common core -/
def minmaxValueT (opDense : DenseLane Reg → DenseLane Reg → Exec (DenseLane Reg)) (opReg : Reg → Reg → Exec Reg)
    (opTail : T → T → Exec T) (dims : Nat) (value : T) (a result : Slice T) : Exec (Slice T) := do
  debugAssertEq E a.size dims
  let bd ← R.filled_dense value
  map1vCore E R opDense opReg opTail dims value bd.a bd a result

theorem add_value : generic_add_value E R M = arithValueT E R R.add_dense R.add M.add := rfl
theorem sub_value : generic_sub_value E R M = arithValueT E R R.sub_dense R.sub M.sub := rfl
theorem mul_value : generic_mul_value E R M = arithValueT E R R.mul_dense R.mul M.mul := rfl
theorem div_value : generic_div_value E R M = arithValueT E R R.div_dense R.div M.div := rfl
theorem max_value : generic_max_value E R M = minmaxValueT E R R.max_dense R.max M.cmp_max := rfl
theorem min_value : generic_min_value E R M = minmaxValueT E R R.min_dense R.min M.cmp_min := rfl


/-! ### reductions: each kernel is its asserts followed by `reduceCore` with its own step functions
(equal up to re-association of monadic binds, which is what `simp only [bind_assoc]` normalises) -/

theorem sum (dims : Nat) (a : Slice T) : generic_sum E R M dims a = (do
    debugAssertEq E a.size dims
    reduceCore E R R.zeroed_dense
      (fun i acc => do let l1 ← R.load_dense a i; R.add_dense acc l1)
      R.sum_to_register
      (fun i acc => do let l1 ← R.load a i; R.add acc l1)
      R.sum_to_value
      (fun i v => do let x ← Slice.read a i; M.add v x)
      dims) := by
  simp only [generic_sum, reduceCore, bind_assoc]

theorem squared_norm (dims : Nat) (a : Slice T) : generic_squared_norm E R M dims a = (do
    debugAssertEq E a.size dims
    reduceCore E R R.zeroed_dense
      (fun i acc => do let l1 ← R.load_dense a i; R.fmadd_dense l1 l1 acc)
      R.sum_to_register
      (fun i acc => do let l1 ← R.load a i; R.fmadd l1 l1 acc)
      R.sum_to_value
      (fun i v => do let x ← Slice.read a i; let t ← M.mul x x; M.add v t)
      dims) := by
  simp only [generic_squared_norm, reduceCore, bind_assoc]

theorem dot_product (dims : Nat) (a b : Slice T) : generic_dot_product E R M dims a b = (do
    debugAssertEq E a.size dims
    debugAssertEq E b.size dims
    reduceCore E R R.zeroed_dense
      (fun i acc => do let l1 ← R.load_dense a i; let l2 ← R.load_dense b i; R.fmadd_dense l1 l2 acc)
      R.sum_to_register
      (fun i acc => do let l1 ← R.load a i; let l2 ← R.load b i; R.fmadd l1 l2 acc)
      R.sum_to_value
      (fun i v => do let x ← Slice.read a i; let y ← Slice.read b i; let t ← M.mul x y; M.add v t)
      dims) := by
  simp only [generic_dot_product, reduceCore, bind_assoc]

theorem euclidean (dims : Nat) (a b : Slice T) : generic_euclidean E R M dims a b = (do
    debugAssertEq E a.size dims
    debugAssertEq E b.size dims
    reduceCore E R R.zeroed_dense
      (fun i acc => do
        let l1 ← R.load_dense a i; let l2 ← R.load_dense b i
        let diff ← R.sub_dense l1 l2; R.fmadd_dense diff diff acc)
      R.sum_to_register
      (fun i acc => do
        let l1 ← R.load a i; let l2 ← R.load b i
        let diff ← R.sub l1 l2; R.fmadd diff diff acc)
      R.sum_to_value
      (fun i v => do
        let x ← Slice.read a i; let y ← Slice.read b i
        let diff ← M.sub x y; let t ← M.mul diff diff; M.add v t)
      dims) := by
  simp only [generic_euclidean, reduceCore, bind_assoc]

theorem max_horizontal (dims : Nat) (a : Slice T) : generic_max_horizontal E R M dims a = (do
    debugAssertEq E a.size dims
    reduceCore E R (do let t ← M.min; R.filled_dense t)
      (fun i acc => do let l1 ← R.load_dense a i; R.max_dense acc l1)
      R.max_to_register
      (fun i acc => do let l1 ← R.load a i; R.max acc l1)
      R.max_to_value
      (fun i v => do let x ← Slice.read a i; M.cmp_max v x)
      dims) := by
  simp only [generic_max_horizontal, reduceCore, bind_assoc]

theorem min_horizontal (dims : Nat) (a : Slice T) : generic_min_horizontal E R M dims a = (do
    debugAssertEq E a.size dims
    reduceCore E R (do let t ← M.max; R.filled_dense t)
      (fun i acc => do let l1 ← R.load_dense a i; R.min_dense acc l1)
      R.min_to_register
      (fun i acc => do let l1 ← R.load a i; R.min acc l1)
      R.min_to_value
      (fun i v => do let x ← Slice.read a i; M.cmp_min v x)
      dims) := by
  simp only [generic_min_horizontal, reduceCore, bind_assoc]

end Cfavml.Thm.Shapes
