/-
C01 — the safe API never reads or writes outside the slices it is given; a length or dimension that
does not match the slices is always reported by a panic.

Wrapper level (this file, over the extracted macro arms): the `assert_eq!`s of every safe wrapper pass
**iff** every slice argument has exactly the length `dims` that the selected export hands to its kernel
(`DIMS` in the xconst form, `a.len()` in the xany form); they all come before the dispatch and nothing
else happens in the wrapper. So a mismatch panics before any backend runs, and when the wrapper does
dispatch, every slice has length `dims` — the precondition under which `Thm.C07` shows every kernel stays
inside its slices, on whichever backend `Thm.C09` selects.
-/
import CfavmlModel.Spec.Wrappers
import CfavmlModel.Lemmas.ListAll

namespace Cfavml.Thm.C01
open Tables Spec

/-- the length term that must equal every slice length -/
def dimsTerm : Form → LenTerm
  | .xconst => .dims
  | .xany => .len .a

def hasPair (as : List (LenTerm × LenTerm)) (x y : LenTerm) : Bool :=
  as.contains (x, y) || as.contains (y, x)

/-- syntactic: the asserts force `len p = dimsTerm`, directly or through `len a` -/
def forcesLen (f : Form) (as : List (LenTerm × LenTerm)) (p : Param) : Bool :=
  (LenTerm.len p == dimsTerm f)
  || hasPair as (.len p) (dimsTerm f)
  || (hasPair as (.len .a) (dimsTerm f) || LenTerm.len .a == dimsTerm f) && hasPair as (.len .a) (.len p)

/-- syntactic: every term an assert mentions is `dimsTerm` or the length of a slice parameter -/
def termsAreLens (f : Form) (slices : List Param) (as : List (LenTerm × LenTerm)) : Bool :=
  as.all (fun q => [q.1, q.2].all (fun t => t == dimsTerm f ||
    (match t with | .len p => slices.contains p | .dims => false)))

def armOk (a : SafeArmFn) : Bool :=
  (sliceParams a).all (forcesLen a.form a.asserts)
  && termsAreLens a.form (sliceParams a) a.asserts
  && a.otherStmts == 0 && a.assertsAfterDispatch == 0
  && (sliceParams a).contains .a

theorem arms_ok : safeArms.all armOk = true := by decide +kernel

theorem hasPair_sound (lens : Param → Nat) (D : Nat) (as : List (LenTerm × LenTerm)) (x y : LenTerm)
    (hp : assertsPass lens D as = true) (h : hasPair as x y = true) : evalLen lens D x = evalLen lens D y := by
  unfold assertsPass at hp
  simp only [List.all_eq_true, beq_iff_eq] at hp
  unfold hasPair at h
  simp only [Bool.or_eq_true, List.contains_iff_mem] at h
  rcases h with h | h
  · exact hp _ h
  · exact (hp _ h).symm

theorem forcesLen_sound (f : Form) (lens : Param → Nat) (D : Nat) (as : List (LenTerm × LenTerm)) (p : Param)
    (hp : assertsPass lens D as = true) (h : forcesLen f as p = true) :
    lens p = evalLen lens D (dimsTerm f) := by
  unfold forcesLen at h
  simp only [Bool.or_eq_true, Bool.and_eq_true, beq_iff_eq] at h
  rcases h with (h | h) | ⟨h1, h2⟩
  · rw [← h]; rfl
  · exact hasPair_sound lens D as _ _ hp h
  · have e2 := hasPair_sound lens D as _ _ hp h2
    have e1 : evalLen lens D (.len .a) = evalLen lens D (dimsTerm f) := by
      rcases h1 with h1 | h1
      · exact hasPair_sound lens D as _ _ hp h1
      · rw [h1]
    simp only [evalLen] at e1 e2 ⊢
    omega

theorem kernelDims_eq (f : Form) (lens : Param → Nat) (D : Nat) :
    kernelDims f lens D = evalLen lens D (dimsTerm f) := by cases f <;> rfl

/-- **C01 (wrapper level).** For each of the 16 safe wrapper functions, all slice lengths and `DIMS`:
the assertions pass iff every slice argument has length `dims` (the value the selected export gives its
kernel). Hence any mismatch is a panic raised before dispatch, and a dispatched call has all slices of
length `dims`. -/
theorem asserts_iff_all_lengths_match : ∀ arm ∈ safeArms, ∀ (lens : Param → Nat) (D : Nat),
    (assertsPass lens D arm.asserts = true ↔
      ∀ p ∈ sliceParams arm, lens p = kernelDims arm.form lens D) := by
  intro arm harm lens D
  have hok := forall_mem_of_all _ _ arms_ok arm harm
  unfold armOk at hok
  simp only [Bool.and_eq_true, List.all_eq_true, beq_iff_eq] at hok
  obtain ⟨⟨⟨⟨hf, ht⟩, _⟩, _⟩, _⟩ := hok
  constructor
  · intro hp p hpm
    rw [kernelDims_eq]
    exact forcesLen_sound arm.form lens D arm.asserts p hp (hf p hpm)
  · intro hall
    unfold assertsPass
    simp only [List.all_eq_true, beq_iff_eq]
    intro q hq
    have hterm : ∀ t ∈ [q.1, q.2], evalLen lens D t = kernelDims arm.form lens D := by
      intro t htm
      have ht' := ht
      unfold termsAreLens at ht'
      simp only [List.all_eq_true] at ht'
      have h2 := ht' q hq t htm
      simp only [Bool.or_eq_true, beq_iff_eq] at h2
      rcases h2 with h2 | h2
      · rw [h2, kernelDims_eq]
      · cases t with
        | len p =>
          simp only [List.contains_iff_mem] at h2
          exact hall p h2
        | dims => simp at h2
    rw [hterm q.1 (by simp), hterm q.2 (by simp)]

/-- nothing but the assertions stands between the call and the dispatch, and every wrapper takes `a` -/
theorem wrappers_are_asserts_then_dispatch : ∀ arm ∈ safeArms,
    arm.otherStmts = 0 ∧ arm.assertsAfterDispatch = 0 ∧ Param.a ∈ sliceParams arm := by
  intro arm harm
  have hok := forall_mem_of_all _ _ arms_ok arm harm
  unfold armOk at hok
  simp only [Bool.and_eq_true, beq_iff_eq, List.contains_iff_mem] at hok
  exact ⟨hok.1.1.2, hok.1.2, hok.2⟩

/-- the defect fixed in d24d649, as a model fact: had the xconst distance wrapper only compared `a` with
`b`, a `DIMS` larger than both slices would have passed the assertions. -/
example : assertsPass (fun _ => 8) 16 [(.len .a, .len .b)] = true := by decide

/-- non-vacuity: a concrete wrapper, concrete lengths -/
example : assertsPass (fun _ => 8) 8 (safeArmOf .export_safe_distance_op .xconst).asserts = true
    ∧ assertsPass (fun _ => 8) 16 (safeArmOf .export_safe_distance_op .xconst).asserts = false := by decide

end Cfavml.Thm.C01
