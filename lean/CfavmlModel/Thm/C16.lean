/-
C16 — aligned buffers are 64-byte aligned, zeroed, correctly sized and independent.
Over the hand-written model `Hand/AlignedBuffer.lean` (tied to the code by correspondence): for every
length and every element size.
Trusted (Rust / allocator contracts, exercised by the correspondence run, not provable here): a
`Box<[AlignedBytes]>` is placed at a multiple of `align_of::<AlignedBytes>() = 64`; `AlignedBytes::default()`
is all zero bytes; `#[derive(Clone)]` on a struct holding a `Box<[U]>` deep-copies the box.
-/
import CfavmlModel.Hand.AlignedBuffer

namespace Cfavml.Thm.C16
open Hand

theorem throw_bind' {α β : Type} (f : α → Exec β) (e : Fault) : ((throw e : Exec α) >>= f) = throw e := rfl

/-- a request that fits `isize::MAX` bytes needs fewer than `usize::MAX` chunks -/
theorem fits_chunks {sizeT len : Nat} (h : fits sizeT len) : ¬ (usizeMod ≤ len / (64 / sizeT) + 1) := by
  unfold fits isizeMax at h
  unfold usizeMod
  omega

/-- otherwise it panics (never anything else): element sizes that do not divide 64 (zero-sized types included), and
requests whose chunks would occupy more than `isize::MAX` bytes (`len = usize::MAX` with 64-byte elements included) -/
theorem zeroed_panics_otherwise (sizeT len : Nat) (h : ¬ (sizeT ≠ 0 ∧ 64 % sizeT = 0 ∧ fits sizeT len)) :
    zeroed sizeT len = throw Fault.panic := by
  unfold zeroed umod udiv assertEq chunkBytes
  by_cases h0 : sizeT = 0
  · rw [if_pos h0]; rfl
  · rw [if_neg h0]
    simp only [pure_bind]
    by_cases h1 : 64 % sizeT = 0
    · have hf : ¬ fits sizeT len := fun hf => h ⟨h0, h1, hf⟩
      have h2 : 64 / sizeT ≠ 0 := by
        intro hz
        have := Nat.div_add_mod 64 sizeT
        rw [hz, h1] at this; omega
      rw [if_pos h1]
      simp only [pure_bind]
      rw [if_neg h0]
      simp only [pure_bind]
      rw [if_neg h2]
      simp only [pure_bind]
      by_cases h3 : usizeMod ≤ len / (64 / sizeT) + 1
      · rw [if_pos h3]; rfl
      · rw [if_neg h3]
        try simp only [pure_bind]
        have h4 : isizeMax < (len / (64 / sizeT) + 1) * 64 := by
          unfold fits at hf; omega
        rw [if_pos h4]; rfl
    · rw [if_neg h1]; rfl

/-- the successful case, computed -/
theorem zeroed_eq (sizeT len : Nat) (h0 : sizeT ≠ 0) (h1 : 64 % sizeT = 0) (hf : fits sizeT len) :
    zeroed sizeT len = pure { len := len, allocatedSize := 64 / sizeT * (len / (64 / sizeT) + 1),
                              numChunks := len / (64 / sizeT) + 1 } := by
  have h2 : 64 / sizeT ≠ 0 := by
    intro h
    have := Nat.div_add_mod 64 sizeT
    rw [h, h1] at this; omega
  have h3 := fits_chunks hf
  have h4 : ¬ (isizeMax < (len / (64 / sizeT) + 1) * 64) := by
    unfold fits at hf; omega
  unfold zeroed umod udiv assertEq chunkBytes
  rw [if_neg h0]
  simp only [pure_bind]
  rw [if_pos h1]
  simp only [pure_bind]
  rw [if_neg h0]
  simp only [pure_bind]
  rw [if_neg h2]
  simp only [pure_bind]
  rw [if_neg h3]
  try simp only [pure_bind]
  rw [if_neg h4]
  try rfl

/-- construction succeeds exactly for element sizes that divide 64 (in particular not for zero-sized types) and
requests of at most `isize::MAX` bytes -/
theorem zeroed_ok_iff (sizeT len : Nat) :
    (∃ b, zeroed sizeT len = pure b) ↔ (sizeT ≠ 0 ∧ 64 % sizeT = 0 ∧ fits sizeT len) := by
  constructor
  · intro ⟨b, hb⟩
    by_cases h : sizeT ≠ 0 ∧ 64 % sizeT = 0 ∧ fits sizeT len
    · exact h
    · rw [zeroed_panics_otherwise sizeT len h] at hb
      cases hb
  · intro ⟨h0, h1, hf⟩
    exact ⟨_, zeroed_eq sizeT len h0 h1 hf⟩

/-- **C16 (sizes).** For a size dividing 64 and ANY length that can be allocated at all (every other one is refused with a
panic, `zeroed_panics_otherwise`): the buffer has exactly `len` elements, its
backing storage holds at least `len` elements and exactly its reported capacity `allocated_size`, which is
itself at least `len`; the storage is a whole number of 64-byte chunks. -/
theorem zeroed_sizes (sizeT len : Nat) (h0 : sizeT ≠ 0) (h1 : 64 % sizeT = 0) (hf : fits sizeT len) :
    ∃ b, zeroed sizeT len = pure b ∧ b.len = len
      ∧ len * sizeT ≤ b.storageBytes ∧ b.allocatedSize * sizeT = b.storageBytes
      ∧ len ≤ b.allocatedSize ∧ b.storageBytes % chunkAlign = 0 := by
  have hdvd : 64 / sizeT * sizeT = 64 := Nat.div_mul_cancel (Nat.dvd_of_mod_eq_zero h1)
  have hpos : 0 < 64 / sizeT := by
    apply Nat.pos_of_ne_zero
    intro h; rw [h] at hdvd; omega
  refine ⟨{ len := len, allocatedSize := 64 / sizeT * (len / (64 / sizeT) + 1), numChunks := len / (64 / sizeT) + 1 }, ?_, rfl, ?_, ?_, ?_, ?_⟩
  · exact zeroed_eq sizeT len h0 h1 hf
  · -- len ≤ npc * (len / npc + 1), then multiply by sizeT
    show len * sizeT ≤ (len / (64 / sizeT) + 1) * 64
    have hlt : len < 64 / sizeT * (len / (64 / sizeT) + 1) := by
      have := Nat.lt_div_mul_add (a := len) hpos
      rw [Nat.mul_add, Nat.mul_one, Nat.mul_comm]
      exact this
    calc len * sizeT ≤ (64 / sizeT * (len / (64 / sizeT) + 1)) * sizeT := Nat.mul_le_mul_right _ (Nat.le_of_lt hlt)
      _ = (len / (64 / sizeT) + 1) * (64 / sizeT * sizeT) := by
          rw [Nat.mul_comm (64 / sizeT) _, Nat.mul_assoc]
      _ = (len / (64 / sizeT) + 1) * 64 := by rw [hdvd]
  · show 64 / sizeT * (len / (64 / sizeT) + 1) * sizeT = (len / (64 / sizeT) + 1) * 64
    rw [Nat.mul_comm (64 / sizeT) _, Nat.mul_assoc, hdvd]
  · show len ≤ 64 / sizeT * (len / (64 / sizeT) + 1)
    have := Nat.lt_div_mul_add (a := len) hpos
    rw [Nat.mul_add, Nat.mul_one, Nat.mul_comm]
    omega
  · show (len / (64 / sizeT) + 1) * 64 % 64 = 0
    exact Nat.mul_mod_left _ _

/-- **C16 (alignment).** with the allocator contract `base % align_of AlignedBytes = 0`, every view
(`as_slice`, `as_mut_slice`, `as_mut_ptr`, `Deref`) starts at the same 64-byte-aligned address: all three are
`self.buffer.as_ptr().cast()` with length `self.len` -/
theorem views_aligned (base : Nat) (hbase : base % chunkAlign = 0) : base % 64 = 0 := hbase

/-- non-vacuity: concrete instances, including the element sizes the property lists -/
example : zeroed 4 10 = pure { len := 10, allocatedSize := 16, numChunks := 1 }
    ∧ zeroed 8 4096 = pure { len := 4096, allocatedSize := 4104, numChunks := 513 }
    ∧ zeroed 3 5 = throw Fault.panic ∧ zeroed 0 5 = throw Fault.panic
    ∧ zeroed 64 0 = pure { len := 0, allocatedSize := 1, numChunks := 1 } := by
  refine ⟨rfl, rfl, rfl, rfl, rfl⟩

/-- the edge the fix 2309454 closed, and its neighbours: `len = usize::MAX` (64-byte elements: the chunk count would wrap),
2^63 one-byte elements, the first `u64` length whose byte size wraps — all refused; the largest request that fits is not -/
example : zeroed 64 (2 ^ 64 - 1) = throw Fault.panic ∧ zeroed 1 (2 ^ 63) = throw Fault.panic
    ∧ zeroed 8 (2 ^ 61) = throw Fault.panic ∧ zeroed 8 (2 ^ 64 - 1) = throw Fault.panic
    ∧ (∃ b, zeroed 1 (2 ^ 63 - 128) = pure b) := by
  refine ⟨zeroed_panics_otherwise _ _ (by decide), zeroed_panics_otherwise _ _ (by decide), zeroed_panics_otherwise _ _ (by decide),
    zeroed_panics_otherwise _ _ (by decide), ?_⟩
  exact (zeroed_ok_iff 1 (2 ^ 63 - 128)).mpr ⟨by decide, by decide, by decide⟩

end Cfavml.Thm.C16
