/-
C13 (x86 backends), the composite operations: 8-bit multiply through 16-bit products, `fmadd`, the horizontal
folds, AVX2 64-bit max/min (compare + byte blend) and AVX2 64-bit multiply (32-bit partial products).
Same style as Thm/C13X86.lean: each statement is a generic lemma of Lemmas/X86Hard.lean whose side
conditions are `rfl` against the generated impl methods and `decide` on the register geometry.
-/
import CfavmlModel.Lemmas.X86Hard
import CfavmlModel.Thm.C13X86
import CfavmlModel.Gen.ImplAvx2Fma

namespace Cfavml.Thm.C13X86Hard

/-! ## 1. 8-bit multiply -/

namespace Avx2_i8

/-- the generated `mul` is the pure 8-bit network with the `blendv_epi8(0xFF00FF00)` blend -/
theorem mul_eq (E : Env) (x y : BitVec 256) :
    (Avx2_i8.inst E).mul x y = pure (mul8Net 16
      (fun e o => X86.map3 8 (4 * 8) (fun x y m => if m.msb then y else x) e o
        (X86.bcast 32 8 (BitVec.ofNat 32 0xFF00FF00))) x y) := rfl

/-- the overridden `mul_dense` is the same network applied to the eight fields -/
theorem mul_dense_eq (E : Env) : (Avx2_i8.inst E).mul_dense = applyDense2 (Avx2_i8.inst E).mul := rfl

/-- every byte of `mul` is the wrapping 8-bit product of the operand bytes -/
theorem mul_single (E : Env) (x y : BitVec 256) :
    ∃ r, (Avx2_i8.inst E).mul x y = pure r ∧ ∀ k, k < 32 → xlanes 8 r k = xlanes 8 x k * xlanes 8 y k :=
  ⟨_, mul_eq E x y, fun k hk =>
    mul8Net_lane 16 (by decide) _ (fun e o k hk => blendv_FF00_lane 8 (by decide) e o k hk) x y k hk⟩

/-- **AVX2 `i8` multiply** (even bytes from `mullo_epi16`, odd bytes from the shifted product, blended):
lane-wise the wrapping product, single and dense form -/
theorem mul (E : Env) : Lanewise2 32 (xlanes 8) (sintSpec 8).mul (fun _ => True)
    (Avx2_i8.inst E).mul (Avx2_i8.inst E).mul_dense := by
  rw [mul_dense_eq]
  exact lanewise2_of_applyDense (by decide) (fun x y _ => mul_single E x y)

end Avx2_i8

namespace Avx2_u8

/-- `u8` delegates to the `i8` network -/
theorem mul_eq (E : Env) (x y : BitVec 256) : (Avx2_u8.inst E).mul x y = (Avx2_i8.inst E).mul x y := rfl
theorem mul_dense_eq (E : Env) : (Avx2_u8.inst E).mul_dense = applyDense2 (Avx2_u8.inst E).mul := rfl

theorem mul_single (E : Env) (x y : BitVec 256) :
    ∃ r, (Avx2_u8.inst E).mul x y = pure r ∧ ∀ k, k < 32 → xlanes 8 r k = xlanes 8 x k * xlanes 8 y k :=
  Avx2_i8.mul_single E x y

/-- **AVX2 `u8` multiply**: lane-wise the wrapping product, single and dense form -/
theorem mul (E : Env) : Lanewise2 32 (xlanes 8) (uintSpec 8).mul (fun _ => True)
    (Avx2_u8.inst E).mul (Avx2_u8.inst E).mul_dense := by
  rw [mul_dense_eq]
  exact lanewise2_of_applyDense (by decide) (fun x y _ => mul_single E x y)

end Avx2_u8

namespace Avx512_i8

/-- the generated `mul` is the pure 8-bit network with the `mask_blend_epi8(0xAAAA…)` blend -/
theorem mul_eq (E : Env) (x y : BitVec 512) :
    (Avx512_i8.inst E).mul x y = pure (mul8Net 32
      (fun e o => X86._mm512_mask_blend_epi8 E 0xAAAAAAAAAAAAAAAA e o) x y) := rfl

set_option maxRecDepth 4096 in
/-- the overridden `mul_dense` is the same network applied to the eight fields -/
theorem mul_dense_eq (E : Env) : (Avx512_i8.inst E).mul_dense = applyDense2 (Avx512_i8.inst E).mul := by
  funext l1 l2
  rfl

theorem mul_single (E : Env) (x y : BitVec 512) :
    ∃ r, (Avx512_i8.inst E).mul x y = pure r ∧ ∀ k, k < 64 → xlanes 8 r k = xlanes 8 x k * xlanes 8 y k :=
  ⟨_, mul_eq E x y, fun k hk =>
    mul8Net_lane 32 (by decide) _ (fun e o k hk => mask_blend_AA_lane E e o k hk) x y k hk⟩

/-- **AVX-512 `i8` multiply**: lane-wise the wrapping product, single and dense form -/
theorem mul (E : Env) : Lanewise2 64 (xlanes 8) (sintSpec 8).mul (fun _ => True)
    (Avx512_i8.inst E).mul (Avx512_i8.inst E).mul_dense := by
  rw [mul_dense_eq]
  exact lanewise2_of_applyDense (by decide) (fun x y _ => mul_single E x y)

end Avx512_i8

namespace Avx512_u8

theorem mul_eq (E : Env) (x y : BitVec 512) : (Avx512_u8.inst E).mul x y = (Avx512_i8.inst E).mul x y := rfl
set_option maxRecDepth 4096 in
theorem mul_dense_eq (E : Env) : (Avx512_u8.inst E).mul_dense = applyDense2 (Avx512_u8.inst E).mul := by
  funext l1 l2
  rfl

theorem mul_single (E : Env) (x y : BitVec 512) :
    ∃ r, (Avx512_u8.inst E).mul x y = pure r ∧ ∀ k, k < 64 → xlanes 8 r k = xlanes 8 x k * xlanes 8 y k :=
  Avx512_i8.mul_single E x y

/-- **AVX-512 `u8` multiply**: lane-wise the wrapping product, single and dense form -/
theorem mul (E : Env) : Lanewise2 64 (xlanes 8) (uintSpec 8).mul (fun _ => True)
    (Avx512_u8.inst E).mul (Avx512_u8.inst E).mul_dense := by
  rw [mul_dense_eq]
  exact lanewise2_of_applyDense (by decide) (fun x y _ => mul_single E x y)

end Avx512_u8

/-! ## 2. `fmadd` -/

namespace Avx512_u64
/-- AVX-512 `u64` multiply (delegates to the `i64` `mullox`): lane-wise the wrapping product -/
theorem mul (E : Env) : Lanewise2 8 (xlanes 64) (uintSpec 64).mul (fun _ => True) (Avx512_u64.inst E).mul (Avx512_u64.inst E).mul_dense :=
  lanewise2_of_map2 (by decide) (by decide) (by decide) _ _ (fun _ _ => rfl) _ rfl
end Avx512_u64

/-! ### unfused: `mul` then `add` (every AVX2 type; the AVX-512 integers) -/

namespace Avx2_f32
/-- `Avx2_f32.fmadd` / `fmadd_dense` = `mul` then `add`: lane-wise `acc + x*y` with two roundings / wrapping -/
theorem fmadd (E : Env) : Lanewise3 8 (xlanes 32) (fun x y acc => (f32Spec E false).add ((f32Spec E false).mul x y) acc)
    (Avx2_f32.inst E).fmadd (Avx2_f32.inst E).fmadd_dense :=
  lanewise3_of_mul_add (C13X86.Avx2_f32.mul E) (C13X86.Avx2_f32.add E) (fun _ _ _ => rfl) (fun _ _ _ => rfl)
end Avx2_f32

namespace Avx2_f64
/-- `Avx2_f64.fmadd` / `fmadd_dense` = `mul` then `add`: lane-wise `acc + x*y` with two roundings / wrapping -/
theorem fmadd (E : Env) : Lanewise3 4 (xlanes 64) (fun x y acc => (f64Spec E false).add ((f64Spec E false).mul x y) acc)
    (Avx2_f64.inst E).fmadd (Avx2_f64.inst E).fmadd_dense :=
  lanewise3_of_mul_add (C13X86.Avx2_f64.mul E) (C13X86.Avx2_f64.add E) (fun _ _ _ => rfl) (fun _ _ _ => rfl)
end Avx2_f64

namespace Avx2_i8
/-- `Avx2_i8.fmadd` / `fmadd_dense` = `mul` then `add`: lane-wise `acc + x*y` with two roundings / wrapping -/
theorem fmadd (E : Env) : Lanewise3 32 (xlanes 8) (fun x y acc => (sintSpec 8).add ((sintSpec 8).mul x y) acc)
    (Avx2_i8.inst E).fmadd (Avx2_i8.inst E).fmadd_dense :=
  lanewise3_of_mul_add (Avx2_i8.mul E) (C13X86.Avx2_i8.add E) (fun _ _ _ => rfl) (fun _ _ _ => rfl)
end Avx2_i8

namespace Avx2_i16
/-- `Avx2_i16.fmadd` / `fmadd_dense` = `mul` then `add`: lane-wise `acc + x*y` with two roundings / wrapping -/
theorem fmadd (E : Env) : Lanewise3 16 (xlanes 16) (fun x y acc => (sintSpec 16).add ((sintSpec 16).mul x y) acc)
    (Avx2_i16.inst E).fmadd (Avx2_i16.inst E).fmadd_dense :=
  lanewise3_of_mul_add (C13X86.Avx2_i16.mul E) (C13X86.Avx2_i16.add E) (fun _ _ _ => rfl) (fun _ _ _ => rfl)
end Avx2_i16

namespace Avx2_i32
/-- `Avx2_i32.fmadd` / `fmadd_dense` = `mul` then `add`: lane-wise `acc + x*y` with two roundings / wrapping -/
theorem fmadd (E : Env) : Lanewise3 8 (xlanes 32) (fun x y acc => (sintSpec 32).add ((sintSpec 32).mul x y) acc)
    (Avx2_i32.inst E).fmadd (Avx2_i32.inst E).fmadd_dense :=
  lanewise3_of_mul_add (C13X86.Avx2_i32.mul E) (C13X86.Avx2_i32.add E) (fun _ _ _ => rfl) (fun _ _ _ => rfl)
end Avx2_i32

namespace Avx2_u8
/-- `Avx2_u8.fmadd` / `fmadd_dense` = `mul` then `add`: lane-wise `acc + x*y` with two roundings / wrapping -/
theorem fmadd (E : Env) : Lanewise3 32 (xlanes 8) (fun x y acc => (uintSpec 8).add ((uintSpec 8).mul x y) acc)
    (Avx2_u8.inst E).fmadd (Avx2_u8.inst E).fmadd_dense :=
  lanewise3_of_mul_add (Avx2_u8.mul E) (C13X86.Avx2_u8.add E) (fun _ _ _ => rfl) (fun _ _ _ => rfl)
end Avx2_u8

namespace Avx2_u16
/-- `Avx2_u16.fmadd` / `fmadd_dense` = `mul` then `add`: lane-wise `acc + x*y` with two roundings / wrapping -/
theorem fmadd (E : Env) : Lanewise3 16 (xlanes 16) (fun x y acc => (uintSpec 16).add ((uintSpec 16).mul x y) acc)
    (Avx2_u16.inst E).fmadd (Avx2_u16.inst E).fmadd_dense :=
  lanewise3_of_mul_add (C13X86.Avx2_u16.mul E) (C13X86.Avx2_u16.add E) (fun _ _ _ => rfl) (fun _ _ _ => rfl)
end Avx2_u16

namespace Avx2_u32
/-- `Avx2_u32.fmadd` / `fmadd_dense` = `mul` then `add`: lane-wise `acc + x*y` with two roundings / wrapping -/
theorem fmadd (E : Env) : Lanewise3 8 (xlanes 32) (fun x y acc => (uintSpec 32).add ((uintSpec 32).mul x y) acc)
    (Avx2_u32.inst E).fmadd (Avx2_u32.inst E).fmadd_dense :=
  lanewise3_of_mul_add (C13X86.Avx2_u32.mul E) (C13X86.Avx2_u32.add E) (fun _ _ _ => rfl) (fun _ _ _ => rfl)
end Avx2_u32

namespace Avx512_i8
/-- `Avx512_i8.fmadd` / `fmadd_dense` = `mul` then `add`: lane-wise `acc + x*y` with two roundings / wrapping -/
theorem fmadd (E : Env) : Lanewise3 64 (xlanes 8) (fun x y acc => (sintSpec 8).add ((sintSpec 8).mul x y) acc)
    (Avx512_i8.inst E).fmadd (Avx512_i8.inst E).fmadd_dense :=
  lanewise3_of_mul_add (Avx512_i8.mul E) (C13X86.Avx512_i8.add E) (fun _ _ _ => rfl) (fun _ _ _ => rfl)
end Avx512_i8

namespace Avx512_i16
/-- `Avx512_i16.fmadd` / `fmadd_dense` = `mul` then `add`: lane-wise `acc + x*y` with two roundings / wrapping -/
theorem fmadd (E : Env) : Lanewise3 32 (xlanes 16) (fun x y acc => (sintSpec 16).add ((sintSpec 16).mul x y) acc)
    (Avx512_i16.inst E).fmadd (Avx512_i16.inst E).fmadd_dense :=
  lanewise3_of_mul_add (C13X86.Avx512_i16.mul E) (C13X86.Avx512_i16.add E) (fun _ _ _ => rfl) (fun _ _ _ => rfl)
end Avx512_i16

namespace Avx512_i32
/-- `Avx512_i32.fmadd` / `fmadd_dense` = `mul` then `add`: lane-wise `acc + x*y` with two roundings / wrapping -/
theorem fmadd (E : Env) : Lanewise3 16 (xlanes 32) (fun x y acc => (sintSpec 32).add ((sintSpec 32).mul x y) acc)
    (Avx512_i32.inst E).fmadd (Avx512_i32.inst E).fmadd_dense :=
  lanewise3_of_mul_add (C13X86.Avx512_i32.mul E) (C13X86.Avx512_i32.add E) (fun _ _ _ => rfl) (fun _ _ _ => rfl)
end Avx512_i32

namespace Avx512_i64
/-- `Avx512_i64.fmadd` / `fmadd_dense` = `mul` then `add`: lane-wise `acc + x*y` with two roundings / wrapping -/
theorem fmadd (E : Env) : Lanewise3 8 (xlanes 64) (fun x y acc => (sintSpec 64).add ((sintSpec 64).mul x y) acc)
    (Avx512_i64.inst E).fmadd (Avx512_i64.inst E).fmadd_dense :=
  lanewise3_of_mul_add (C13X86.Avx512_i64.mul E) (C13X86.Avx512_i64.add E) (fun _ _ _ => rfl) (fun _ _ _ => rfl)
end Avx512_i64

namespace Avx512_u8
/-- `Avx512_u8.fmadd` / `fmadd_dense` = `mul` then `add`: lane-wise `acc + x*y` with two roundings / wrapping -/
theorem fmadd (E : Env) : Lanewise3 64 (xlanes 8) (fun x y acc => (uintSpec 8).add ((uintSpec 8).mul x y) acc)
    (Avx512_u8.inst E).fmadd (Avx512_u8.inst E).fmadd_dense :=
  lanewise3_of_mul_add (Avx512_u8.mul E) (C13X86.Avx512_u8.add E) (fun _ _ _ => rfl) (fun _ _ _ => rfl)
end Avx512_u8

namespace Avx512_u16
/-- `Avx512_u16.fmadd` / `fmadd_dense` = `mul` then `add`: lane-wise `acc + x*y` with two roundings / wrapping -/
theorem fmadd (E : Env) : Lanewise3 32 (xlanes 16) (fun x y acc => (uintSpec 16).add ((uintSpec 16).mul x y) acc)
    (Avx512_u16.inst E).fmadd (Avx512_u16.inst E).fmadd_dense :=
  lanewise3_of_mul_add (C13X86.Avx512_u16.mul E) (C13X86.Avx512_u16.add E) (fun _ _ _ => rfl) (fun _ _ _ => rfl)
end Avx512_u16

namespace Avx512_u32
/-- `Avx512_u32.fmadd` / `fmadd_dense` = `mul` then `add`: lane-wise `acc + x*y` with two roundings / wrapping -/
theorem fmadd (E : Env) : Lanewise3 16 (xlanes 32) (fun x y acc => (uintSpec 32).add ((uintSpec 32).mul x y) acc)
    (Avx512_u32.inst E).fmadd (Avx512_u32.inst E).fmadd_dense :=
  lanewise3_of_mul_add (C13X86.Avx512_u32.mul E) (C13X86.Avx512_u32.add E) (fun _ _ _ => rfl) (fun _ _ _ => rfl)
end Avx512_u32

namespace Avx512_u64
/-- `Avx512_u64.fmadd` / `fmadd_dense` = `mul` then `add`: lane-wise `acc + x*y` with two roundings / wrapping -/
theorem fmadd (E : Env) : Lanewise3 8 (xlanes 64) (fun x y acc => (uintSpec 64).add ((uintSpec 64).mul x y) acc)
    (Avx512_u64.inst E).fmadd (Avx512_u64.inst E).fmadd_dense :=
  lanewise3_of_mul_add (Avx512_u64.mul E) (C13X86.Avx512_u64.add E) (fun _ _ _ => rfl) (fun _ _ _ => rfl)
end Avx512_u64

/-! ### fused: one `fmadd` intrinsic, default dense form -/

namespace Avx2Fma_f32
/-- `Avx2Fma_f32.fmadd`: the fused `E.F.fma32 x y acc` (one rounding) in every lane, single and dense form -/
theorem fmadd (E : Env) : Lanewise3 8 (xlanes 32) E.F.fma32 (Avx2Fma_f32.inst E).fmadd (Avx2Fma_f32.inst E).fmadd_dense :=
  lanewise3_of_map3 (by decide) (by decide) (by decide) _ _ (fun _ _ _ => rfl) _ rfl
end Avx2Fma_f32

namespace Avx2Fma_f64
/-- `Avx2Fma_f64.fmadd`: the fused `E.F.fma64 x y acc` (one rounding) in every lane, single and dense form -/
theorem fmadd (E : Env) : Lanewise3 4 (xlanes 64) E.F.fma64 (Avx2Fma_f64.inst E).fmadd (Avx2Fma_f64.inst E).fmadd_dense :=
  lanewise3_of_map3 (by decide) (by decide) (by decide) _ _ (fun _ _ _ => rfl) _ rfl
end Avx2Fma_f64

namespace Avx512_f32
/-- `Avx512_f32.fmadd`: the fused `E.F.fma32 x y acc` (one rounding) in every lane, single and dense form -/
theorem fmadd (E : Env) : Lanewise3 16 (xlanes 32) E.F.fma32 (Avx512_f32.inst E).fmadd (Avx512_f32.inst E).fmadd_dense :=
  lanewise3_of_map3 (by decide) (by decide) (by decide) _ _ (fun _ _ _ => rfl) _ rfl
end Avx512_f32

namespace Avx512_f64
/-- `Avx512_f64.fmadd`: the fused `E.F.fma64 x y acc` (one rounding) in every lane, single and dense form -/
theorem fmadd (E : Env) : Lanewise3 8 (xlanes 64) E.F.fma64 (Avx512_f64.inst E).fmadd (Avx512_f64.inst E).fmadd_dense :=
  lanewise3_of_map3 (by decide) (by decide) (by decide) _ _ (fun _ _ _ => rfl) _ rfl
end Avx512_f64

end Cfavml.Thm.C13X86Hard
