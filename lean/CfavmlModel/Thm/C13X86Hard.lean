/-
C13 (x86 backends), the composite operations: 8-bit multiply through 16-bit products, `fmadd`, the horizontal
folds, AVX2 64-bit max/min (compare + byte blend) and AVX2 64-bit multiply (32-bit partial products).
Same style as Thm/C13X86.lean: each statement is a generic lemma of Lemmas/X86Hard.lean whose side
conditions are `rfl` against the generated impl methods and `decide` on the register geometry.
-/
import CfavmlModel.Lemmas.X86Hard
import CfavmlModel.Thm.C13X86
import CfavmlModel.Gen.ImplAvx2Fma

namespace Cfavml.Thm.C13X86Hard

/-! ## 1. 8-bit multiply -/

namespace Avx2_i8

/-- the generated `mul` is the pure 8-bit network with the `blendv_epi8(0xFF00FF00)` blend -/
theorem mul_eq (E : Env) (x y : BitVec 256) :
    (Avx2_i8.inst E).mul x y = pure (mul8Net 16
      (fun e o => X86.map3 8 (4 * 8) (fun x y m => if m.msb then y else x) e o
        (X86.bcast 32 8 (BitVec.ofNat 32 0xFF00FF00))) x y) := rfl

/-- the overridden `mul_dense` is the same network applied to the eight fields -/
theorem mul_dense_eq (E : Env) : (Avx2_i8.inst E).mul_dense = applyDense2 (Avx2_i8.inst E).mul := rfl

/-- every byte of `mul` is the wrapping 8-bit product of the operand bytes -/
theorem mul_single (E : Env) (x y : BitVec 256) :
    ∃ r, (Avx2_i8.inst E).mul x y = pure r ∧ ∀ k, k < 32 → xlanes 8 r k = xlanes 8 x k * xlanes 8 y k :=
  ⟨_, mul_eq E x y, fun k hk =>
    mul8Net_lane 16 (by decide) _ (fun e o k hk => blendv_FF00_lane 8 (by decide) e o k hk) x y k hk⟩

/-- **AVX2 `i8` multiply** (even bytes from `mullo_epi16`, odd bytes from the shifted product, blended):
lane-wise the wrapping product, single and dense form -/
theorem mul (E : Env) : Lanewise2 32 (xlanes 8) (sintSpec 8).mul (fun _ => True)
    (Avx2_i8.inst E).mul (Avx2_i8.inst E).mul_dense := by
  rw [mul_dense_eq]
  exact lanewise2_of_applyDense (by decide) (fun x y _ => mul_single E x y)

end Avx2_i8

namespace Avx2_u8

/-- `u8` delegates to the `i8` network -/
theorem mul_eq (E : Env) (x y : BitVec 256) : (Avx2_u8.inst E).mul x y = (Avx2_i8.inst E).mul x y := rfl
theorem mul_dense_eq (E : Env) : (Avx2_u8.inst E).mul_dense = applyDense2 (Avx2_u8.inst E).mul := rfl

theorem mul_single (E : Env) (x y : BitVec 256) :
    ∃ r, (Avx2_u8.inst E).mul x y = pure r ∧ ∀ k, k < 32 → xlanes 8 r k = xlanes 8 x k * xlanes 8 y k :=
  Avx2_i8.mul_single E x y

/-- **AVX2 `u8` multiply**: lane-wise the wrapping product, single and dense form -/
theorem mul (E : Env) : Lanewise2 32 (xlanes 8) (uintSpec 8).mul (fun _ => True)
    (Avx2_u8.inst E).mul (Avx2_u8.inst E).mul_dense := by
  rw [mul_dense_eq]
  exact lanewise2_of_applyDense (by decide) (fun x y _ => mul_single E x y)

end Avx2_u8

namespace Avx512_i8

/-- the generated `mul` is the pure 8-bit network with the `mask_blend_epi8(0xAAAA…)` blend -/
theorem mul_eq (E : Env) (x y : BitVec 512) :
    (Avx512_i8.inst E).mul x y = pure (mul8Net 32
      (fun e o => X86._mm512_mask_blend_epi8 E 0xAAAAAAAAAAAAAAAA e o) x y) := rfl

set_option maxRecDepth 4096 in
/-- the overridden `mul_dense` is the same network applied to the eight fields -/
theorem mul_dense_eq (E : Env) : (Avx512_i8.inst E).mul_dense = applyDense2 (Avx512_i8.inst E).mul := by
  funext l1 l2
  rfl

theorem mul_single (E : Env) (x y : BitVec 512) :
    ∃ r, (Avx512_i8.inst E).mul x y = pure r ∧ ∀ k, k < 64 → xlanes 8 r k = xlanes 8 x k * xlanes 8 y k :=
  ⟨_, mul_eq E x y, fun k hk =>
    mul8Net_lane 32 (by decide) _ (fun e o k hk => mask_blend_AA_lane E e o k hk) x y k hk⟩

/-- **AVX-512 `i8` multiply**: lane-wise the wrapping product, single and dense form -/
theorem mul (E : Env) : Lanewise2 64 (xlanes 8) (sintSpec 8).mul (fun _ => True)
    (Avx512_i8.inst E).mul (Avx512_i8.inst E).mul_dense := by
  rw [mul_dense_eq]
  exact lanewise2_of_applyDense (by decide) (fun x y _ => mul_single E x y)

end Avx512_i8

namespace Avx512_u8

theorem mul_eq (E : Env) (x y : BitVec 512) : (Avx512_u8.inst E).mul x y = (Avx512_i8.inst E).mul x y := rfl
set_option maxRecDepth 4096 in
theorem mul_dense_eq (E : Env) : (Avx512_u8.inst E).mul_dense = applyDense2 (Avx512_u8.inst E).mul := by
  funext l1 l2
  rfl

theorem mul_single (E : Env) (x y : BitVec 512) :
    ∃ r, (Avx512_u8.inst E).mul x y = pure r ∧ ∀ k, k < 64 → xlanes 8 r k = xlanes 8 x k * xlanes 8 y k :=
  Avx512_i8.mul_single E x y

/-- **AVX-512 `u8` multiply**: lane-wise the wrapping product, single and dense form -/
theorem mul (E : Env) : Lanewise2 64 (xlanes 8) (uintSpec 8).mul (fun _ => True)
    (Avx512_u8.inst E).mul (Avx512_u8.inst E).mul_dense := by
  rw [mul_dense_eq]
  exact lanewise2_of_applyDense (by decide) (fun x y _ => mul_single E x y)

end Avx512_u8

/-! ## 2. `fmadd` -/

namespace Avx512_u64
/-- AVX-512 `u64` multiply (delegates to the `i64` `mullox`): lane-wise the wrapping product -/
theorem mul (E : Env) : Lanewise2 8 (xlanes 64) (uintSpec 64).mul (fun _ => True) (Avx512_u64.inst E).mul (Avx512_u64.inst E).mul_dense :=
  lanewise2_of_map2 (by decide) (by decide) (by decide) _ _ (fun _ _ => rfl) _ rfl
end Avx512_u64

/-! ### unfused: `mul` then `add` (every AVX2 type; the AVX-512 integers) -/

namespace Avx2_f32
/-- `Avx2_f32.fmadd` / `fmadd_dense` = `mul` then `add`: lane-wise `acc + x*y` with two roundings / wrapping -/
theorem fmadd (E : Env) : Lanewise3 8 (xlanes 32) (fun x y acc => (f32Spec E false).add ((f32Spec E false).mul x y) acc)
    (Avx2_f32.inst E).fmadd (Avx2_f32.inst E).fmadd_dense :=
  lanewise3_of_mul_add (C13X86.Avx2_f32.mul E) (C13X86.Avx2_f32.add E) (fun _ _ _ => rfl) (fun _ _ _ => rfl)
end Avx2_f32

namespace Avx2_f64
/-- `Avx2_f64.fmadd` / `fmadd_dense` = `mul` then `add`: lane-wise `acc + x*y` with two roundings / wrapping -/
theorem fmadd (E : Env) : Lanewise3 4 (xlanes 64) (fun x y acc => (f64Spec E false).add ((f64Spec E false).mul x y) acc)
    (Avx2_f64.inst E).fmadd (Avx2_f64.inst E).fmadd_dense :=
  lanewise3_of_mul_add (C13X86.Avx2_f64.mul E) (C13X86.Avx2_f64.add E) (fun _ _ _ => rfl) (fun _ _ _ => rfl)
end Avx2_f64

namespace Avx2_i8
/-- `Avx2_i8.fmadd` / `fmadd_dense` = `mul` then `add`: lane-wise `acc + x*y` with two roundings / wrapping -/
theorem fmadd (E : Env) : Lanewise3 32 (xlanes 8) (fun x y acc => (sintSpec 8).add ((sintSpec 8).mul x y) acc)
    (Avx2_i8.inst E).fmadd (Avx2_i8.inst E).fmadd_dense :=
  lanewise3_of_mul_add (Avx2_i8.mul E) (C13X86.Avx2_i8.add E) (fun _ _ _ => rfl) (fun _ _ _ => rfl)
end Avx2_i8

namespace Avx2_i16
/-- `Avx2_i16.fmadd` / `fmadd_dense` = `mul` then `add`: lane-wise `acc + x*y` with two roundings / wrapping -/
theorem fmadd (E : Env) : Lanewise3 16 (xlanes 16) (fun x y acc => (sintSpec 16).add ((sintSpec 16).mul x y) acc)
    (Avx2_i16.inst E).fmadd (Avx2_i16.inst E).fmadd_dense :=
  lanewise3_of_mul_add (C13X86.Avx2_i16.mul E) (C13X86.Avx2_i16.add E) (fun _ _ _ => rfl) (fun _ _ _ => rfl)
end Avx2_i16

namespace Avx2_i32
/-- `Avx2_i32.fmadd` / `fmadd_dense` = `mul` then `add`: lane-wise `acc + x*y` with two roundings / wrapping -/
theorem fmadd (E : Env) : Lanewise3 8 (xlanes 32) (fun x y acc => (sintSpec 32).add ((sintSpec 32).mul x y) acc)
    (Avx2_i32.inst E).fmadd (Avx2_i32.inst E).fmadd_dense :=
  lanewise3_of_mul_add (C13X86.Avx2_i32.mul E) (C13X86.Avx2_i32.add E) (fun _ _ _ => rfl) (fun _ _ _ => rfl)
end Avx2_i32

namespace Avx2_u8
/-- `Avx2_u8.fmadd` / `fmadd_dense` = `mul` then `add`: lane-wise `acc + x*y` with two roundings / wrapping -/
theorem fmadd (E : Env) : Lanewise3 32 (xlanes 8) (fun x y acc => (uintSpec 8).add ((uintSpec 8).mul x y) acc)
    (Avx2_u8.inst E).fmadd (Avx2_u8.inst E).fmadd_dense :=
  lanewise3_of_mul_add (Avx2_u8.mul E) (C13X86.Avx2_u8.add E) (fun _ _ _ => rfl) (fun _ _ _ => rfl)
end Avx2_u8

namespace Avx2_u16
/-- `Avx2_u16.fmadd` / `fmadd_dense` = `mul` then `add`: lane-wise `acc + x*y` with two roundings / wrapping -/
theorem fmadd (E : Env) : Lanewise3 16 (xlanes 16) (fun x y acc => (uintSpec 16).add ((uintSpec 16).mul x y) acc)
    (Avx2_u16.inst E).fmadd (Avx2_u16.inst E).fmadd_dense :=
  lanewise3_of_mul_add (C13X86.Avx2_u16.mul E) (C13X86.Avx2_u16.add E) (fun _ _ _ => rfl) (fun _ _ _ => rfl)
end Avx2_u16

namespace Avx2_u32
/-- `Avx2_u32.fmadd` / `fmadd_dense` = `mul` then `add`: lane-wise `acc + x*y` with two roundings / wrapping -/
theorem fmadd (E : Env) : Lanewise3 8 (xlanes 32) (fun x y acc => (uintSpec 32).add ((uintSpec 32).mul x y) acc)
    (Avx2_u32.inst E).fmadd (Avx2_u32.inst E).fmadd_dense :=
  lanewise3_of_mul_add (C13X86.Avx2_u32.mul E) (C13X86.Avx2_u32.add E) (fun _ _ _ => rfl) (fun _ _ _ => rfl)
end Avx2_u32

namespace Avx512_i8
/-- `Avx512_i8.fmadd` / `fmadd_dense` = `mul` then `add`: lane-wise `acc + x*y` with two roundings / wrapping -/
theorem fmadd (E : Env) : Lanewise3 64 (xlanes 8) (fun x y acc => (sintSpec 8).add ((sintSpec 8).mul x y) acc)
    (Avx512_i8.inst E).fmadd (Avx512_i8.inst E).fmadd_dense :=
  lanewise3_of_mul_add (Avx512_i8.mul E) (C13X86.Avx512_i8.add E) (fun _ _ _ => rfl) (fun _ _ _ => rfl)
end Avx512_i8

namespace Avx512_i16
/-- `Avx512_i16.fmadd` / `fmadd_dense` = `mul` then `add`: lane-wise `acc + x*y` with two roundings / wrapping -/
theorem fmadd (E : Env) : Lanewise3 32 (xlanes 16) (fun x y acc => (sintSpec 16).add ((sintSpec 16).mul x y) acc)
    (Avx512_i16.inst E).fmadd (Avx512_i16.inst E).fmadd_dense :=
  lanewise3_of_mul_add (C13X86.Avx512_i16.mul E) (C13X86.Avx512_i16.add E) (fun _ _ _ => rfl) (fun _ _ _ => rfl)
end Avx512_i16

namespace Avx512_i32
/-- `Avx512_i32.fmadd` / `fmadd_dense` = `mul` then `add`: lane-wise `acc + x*y` with two roundings / wrapping -/
theorem fmadd (E : Env) : Lanewise3 16 (xlanes 32) (fun x y acc => (sintSpec 32).add ((sintSpec 32).mul x y) acc)
    (Avx512_i32.inst E).fmadd (Avx512_i32.inst E).fmadd_dense :=
  lanewise3_of_mul_add (C13X86.Avx512_i32.mul E) (C13X86.Avx512_i32.add E) (fun _ _ _ => rfl) (fun _ _ _ => rfl)
end Avx512_i32

namespace Avx512_i64
/-- `Avx512_i64.fmadd` / `fmadd_dense` = `mul` then `add`: lane-wise `acc + x*y` with two roundings / wrapping -/
theorem fmadd (E : Env) : Lanewise3 8 (xlanes 64) (fun x y acc => (sintSpec 64).add ((sintSpec 64).mul x y) acc)
    (Avx512_i64.inst E).fmadd (Avx512_i64.inst E).fmadd_dense :=
  lanewise3_of_mul_add (C13X86.Avx512_i64.mul E) (C13X86.Avx512_i64.add E) (fun _ _ _ => rfl) (fun _ _ _ => rfl)
end Avx512_i64

namespace Avx512_u8
/-- `Avx512_u8.fmadd` / `fmadd_dense` = `mul` then `add`: lane-wise `acc + x*y` with two roundings / wrapping -/
theorem fmadd (E : Env) : Lanewise3 64 (xlanes 8) (fun x y acc => (uintSpec 8).add ((uintSpec 8).mul x y) acc)
    (Avx512_u8.inst E).fmadd (Avx512_u8.inst E).fmadd_dense :=
  lanewise3_of_mul_add (Avx512_u8.mul E) (C13X86.Avx512_u8.add E) (fun _ _ _ => rfl) (fun _ _ _ => rfl)
end Avx512_u8

namespace Avx512_u16
/-- `Avx512_u16.fmadd` / `fmadd_dense` = `mul` then `add`: lane-wise `acc + x*y` with two roundings / wrapping -/
theorem fmadd (E : Env) : Lanewise3 32 (xlanes 16) (fun x y acc => (uintSpec 16).add ((uintSpec 16).mul x y) acc)
    (Avx512_u16.inst E).fmadd (Avx512_u16.inst E).fmadd_dense :=
  lanewise3_of_mul_add (C13X86.Avx512_u16.mul E) (C13X86.Avx512_u16.add E) (fun _ _ _ => rfl) (fun _ _ _ => rfl)
end Avx512_u16

namespace Avx512_u32
/-- `Avx512_u32.fmadd` / `fmadd_dense` = `mul` then `add`: lane-wise `acc + x*y` with two roundings / wrapping -/
theorem fmadd (E : Env) : Lanewise3 16 (xlanes 32) (fun x y acc => (uintSpec 32).add ((uintSpec 32).mul x y) acc)
    (Avx512_u32.inst E).fmadd (Avx512_u32.inst E).fmadd_dense :=
  lanewise3_of_mul_add (C13X86.Avx512_u32.mul E) (C13X86.Avx512_u32.add E) (fun _ _ _ => rfl) (fun _ _ _ => rfl)
end Avx512_u32

namespace Avx512_u64
/-- `Avx512_u64.fmadd` / `fmadd_dense` = `mul` then `add`: lane-wise `acc + x*y` with two roundings / wrapping -/
theorem fmadd (E : Env) : Lanewise3 8 (xlanes 64) (fun x y acc => (uintSpec 64).add ((uintSpec 64).mul x y) acc)
    (Avx512_u64.inst E).fmadd (Avx512_u64.inst E).fmadd_dense :=
  lanewise3_of_mul_add (Avx512_u64.mul E) (C13X86.Avx512_u64.add E) (fun _ _ _ => rfl) (fun _ _ _ => rfl)
end Avx512_u64

/-! ### fused: one `fmadd` intrinsic, default dense form -/

namespace Avx2Fma_f32
/-- `Avx2Fma_f32.fmadd`: the fused `E.F.fma32 x y acc` (one rounding) in every lane, single and dense form -/
theorem fmadd (E : Env) : Lanewise3 8 (xlanes 32) E.F.fma32 (Avx2Fma_f32.inst E).fmadd (Avx2Fma_f32.inst E).fmadd_dense :=
  lanewise3_of_map3 (by decide) (by decide) (by decide) _ _ (fun _ _ _ => rfl) _ rfl
end Avx2Fma_f32

namespace Avx2Fma_f64
/-- `Avx2Fma_f64.fmadd`: the fused `E.F.fma64 x y acc` (one rounding) in every lane, single and dense form -/
theorem fmadd (E : Env) : Lanewise3 4 (xlanes 64) E.F.fma64 (Avx2Fma_f64.inst E).fmadd (Avx2Fma_f64.inst E).fmadd_dense :=
  lanewise3_of_map3 (by decide) (by decide) (by decide) _ _ (fun _ _ _ => rfl) _ rfl
end Avx2Fma_f64

namespace Avx512_f32
/-- `Avx512_f32.fmadd`: the fused `E.F.fma32 x y acc` (one rounding) in every lane, single and dense form -/
theorem fmadd (E : Env) : Lanewise3 16 (xlanes 32) E.F.fma32 (Avx512_f32.inst E).fmadd (Avx512_f32.inst E).fmadd_dense :=
  lanewise3_of_map3 (by decide) (by decide) (by decide) _ _ (fun _ _ _ => rfl) _ rfl
end Avx512_f32

namespace Avx512_f64
/-- `Avx512_f64.fmadd`: the fused `E.F.fma64 x y acc` (one rounding) in every lane, single and dense form -/
theorem fmadd (E : Env) : Lanewise3 8 (xlanes 64) E.F.fma64 (Avx512_f64.inst E).fmadd (Avx512_f64.inst E).fmadd_dense :=
  lanewise3_of_map3 (by decide) (by decide) (by decide) _ _ (fun _ _ _ => rfl) _ rfl
end Avx512_f64

/-! ## 4. AVX2 64-bit max / min (`cmpgt_epi64` + `blendv_epi8`; unsigned: sign bits flipped first) -/

namespace Avx2_i64
theorem max_dense_eq (E : Env) : (Avx2_i64.inst E).max_dense = applyDense2 (Avx2_i64.inst E).max := rfl
theorem min_dense_eq (E : Env) : (Avx2_i64.inst E).min_dense = applyDense2 (Avx2_i64.inst E).min := rfl

theorem max_single (E : Env) (x y : BitVec 256) :
    ∃ r, (Avx2_i64.inst E).max x y = pure r ∧ ∀ k, k < 4 → xlanes 64 r k = IntPrim.smax (xlanes 64 x k) (xlanes 64 y k) :=
  ⟨_, rfl, fun k hk => smax64_lane 4 (by decide) x y k hk⟩

theorem min_single (E : Env) (x y : BitVec 256) :
    ∃ r, (Avx2_i64.inst E).min x y = pure r ∧ ∀ k, k < 4 → xlanes 64 r k = IntPrim.smin (xlanes 64 x k) (xlanes 64 y k) :=
  ⟨_, rfl, fun k hk => smin64_lane 4 (by decide) x y k hk⟩

/-- **AVX2 `i64` max**: lane-wise `Ord::max`, single and dense form -/
theorem max (E : Env) : Lanewise2 4 (xlanes 64) (sintSpec 64).cmpMax (fun _ => True)
    (Avx2_i64.inst E).max (Avx2_i64.inst E).max_dense := by
  rw [max_dense_eq]
  exact lanewise2_of_applyDense (by decide) (fun x y _ => max_single E x y)

/-- **AVX2 `i64` min**: lane-wise `Ord::min`, single and dense form -/
theorem min (E : Env) : Lanewise2 4 (xlanes 64) (sintSpec 64).cmpMin (fun _ => True)
    (Avx2_i64.inst E).min (Avx2_i64.inst E).min_dense := by
  rw [min_dense_eq]
  exact lanewise2_of_applyDense (by decide) (fun x y _ => min_single E x y)
end Avx2_i64

namespace Avx2_u64
theorem max_dense_eq (E : Env) : (Avx2_u64.inst E).max_dense = applyDense2 (Avx2_u64.inst E).max := rfl
theorem min_dense_eq (E : Env) : (Avx2_u64.inst E).min_dense = applyDense2 (Avx2_u64.inst E).min := rfl

theorem max_single (E : Env) (x y : BitVec 256) :
    ∃ r, (Avx2_u64.inst E).max x y = pure r ∧ ∀ k, k < 4 → xlanes 64 r k = IntPrim.umax (xlanes 64 x k) (xlanes 64 y k) :=
  ⟨_, rfl, fun k hk => umax64_lane 4 (by decide) x y k hk⟩

theorem min_single (E : Env) (x y : BitVec 256) :
    ∃ r, (Avx2_u64.inst E).min x y = pure r ∧ ∀ k, k < 4 → xlanes 64 r k = IntPrim.umin (xlanes 64 x k) (xlanes 64 y k) :=
  ⟨_, rfl, fun k hk => umin64_lane 4 (by decide) x y k hk⟩

/-- **AVX2 `u64` max**: lane-wise `Ord::max`, single and dense form -/
theorem max (E : Env) : Lanewise2 4 (xlanes 64) (uintSpec 64).cmpMax (fun _ => True)
    (Avx2_u64.inst E).max (Avx2_u64.inst E).max_dense := by
  rw [max_dense_eq]
  exact lanewise2_of_applyDense (by decide) (fun x y _ => max_single E x y)

/-- **AVX2 `u64` min**: lane-wise `Ord::min`, single and dense form -/
theorem min (E : Env) : Lanewise2 4 (xlanes 64) (uintSpec 64).cmpMin (fun _ => True)
    (Avx2_u64.inst E).min (Avx2_u64.inst E).min_dense := by
  rw [min_dense_eq]
  exact lanewise2_of_applyDense (by decide) (fun x y _ => min_single E x y)
end Avx2_u64

/-! ## 5. AVX2 64-bit multiply (32-bit partial products) -/

/-- `_MM_SHUFFLE(2, 3, 0, 1)` -/
theorem shuffle_2301 (E : Env) :
    I32.toNat (_MM_SHUFFLE E (U32.lit 2) (U32.lit 3) (U32.lit 0) (U32.lit 1)) = 177 := by
  simp [_MM_SHUFFLE]

namespace Avx2_i64

/-- the generated `mul` is the pure partial-product network -/
theorem mul_eq (E : Env) (x y : BitVec 256) :
    (Avx2_i64.inst E).mul x y = pure (mul64Net256 E 177 x y) := by
  rw [← shuffle_2301 E]
  rfl

/-- the overridden `mul_dense` is the same network applied to the eight fields -/
theorem mul_dense_eq (E : Env) : (Avx2_i64.inst E).mul_dense = applyDense2 (Avx2_i64.inst E).mul := rfl

theorem mul_single (E : Env) (x y : BitVec 256) :
    ∃ r, (Avx2_i64.inst E).mul x y = pure r ∧ ∀ k, k < 4 → xlanes 64 r k = xlanes 64 x k * xlanes 64 y k :=
  ⟨_, mul_eq E x y, fun k hk => mul64Net256_lane E x y k hk⟩

/-- **AVX2 `i64` multiply** (`mul_epu32` + swapped `mullo_epi32` cross products): lane-wise the wrapping
64-bit product, single and dense form -/
theorem mul (E : Env) : Lanewise2 4 (xlanes 64) (sintSpec 64).mul (fun _ => True)
    (Avx2_i64.inst E).mul (Avx2_i64.inst E).mul_dense := by
  rw [mul_dense_eq]
  exact lanewise2_of_applyDense (by decide) (fun x y _ => mul_single E x y)

/-- `Avx2_i64.fmadd` / `fmadd_dense` = `mul` then `add` -/
theorem fmadd (E : Env) : Lanewise3 4 (xlanes 64) (fun x y acc => (sintSpec 64).add ((sintSpec 64).mul x y) acc)
    (Avx2_i64.inst E).fmadd (Avx2_i64.inst E).fmadd_dense :=
  lanewise3_of_mul_add (mul E) (C13X86.Avx2_i64.add E) (fun _ _ _ => rfl) (fun _ _ _ => rfl)

end Avx2_i64

namespace Avx2_u64

theorem mul_eq (E : Env) (x y : BitVec 256) : (Avx2_u64.inst E).mul x y = (Avx2_i64.inst E).mul x y := rfl
theorem mul_dense_eq (E : Env) : (Avx2_u64.inst E).mul_dense = applyDense2 (Avx2_u64.inst E).mul := rfl

theorem mul_single (E : Env) (x y : BitVec 256) :
    ∃ r, (Avx2_u64.inst E).mul x y = pure r ∧ ∀ k, k < 4 → xlanes 64 r k = xlanes 64 x k * xlanes 64 y k :=
  Avx2_i64.mul_single E x y

/-- **AVX2 `u64` multiply** (delegates to `i64`): lane-wise the wrapping 64-bit product -/
theorem mul (E : Env) : Lanewise2 4 (xlanes 64) (uintSpec 64).mul (fun _ => True)
    (Avx2_u64.inst E).mul (Avx2_u64.inst E).mul_dense := by
  rw [mul_dense_eq]
  exact lanewise2_of_applyDense (by decide) (fun x y _ => mul_single E x y)

/-- `Avx2_u64.fmadd` / `fmadd_dense` = `mul` then `add` -/
theorem fmadd (E : Env) : Lanewise3 4 (xlanes 64) (fun x y acc => (uintSpec 64).add ((uintSpec 64).mul x y) acc)
    (Avx2_u64.inst E).fmadd (Avx2_u64.inst E).fmadd_dense :=
  lanewise3_of_mul_add (mul E) (C13X86.Avx2_u64.add E) (fun _ _ _ => rfl) (fun _ _ _ => rfl)

end Avx2_u64

/-! ## 3. horizontal folds of the integer types

For every backend × integer type and each of sum / max / min: `*_to_value r = pure (h (xlanes w r))` for the
explicit fold `h` the code computes (`hfoldHalf4` = halves combined then four interleaved accumulators,
`hfoldHalfQ` / `hfoldHalfD` = halves combined then a pairwise tree, `hfoldHalf512` = 256-bit halves first,
`X86.reduceOrdered` = the AVX-512 reduce intrinsics); `h f = sumR op e f L` in the commutative monoid
`(op, e)`; and the `FoldFaithful` record (roll-up of a dense lane + horizontal fold). The 8/16-bit folds run
a scalar `while` loop of 4 (resp. 2) iterations and therefore need `5 ≤ E.fuel` (resp. `3 ≤ E.fuel`). -/

/-- `_MM_SHUFFLE(1, 0, 3, 2)` -/
theorem shuffle_1032 (E : Env) :
    I32.toNat (_MM_SHUFFLE E (U32.lit 1) (U32.lit 0) (U32.lit 3) (U32.lit 2)) = 78 := by
  simp [_MM_SHUFFLE]

namespace Avx2_i8
/-- `Avx2_i8.sum_to_value`: halves combined lane-wise, then the 4-accumulator scalar loop -/
theorem sum_to_value (E : Env) (hfuel : 5 ≤ E.fuel) (r : BitVec 256) :
    (Avx2_i8.inst E).sum_to_value r = pure (hfoldHalf4 (· + ·) (0 : BitVec 8) 16 4 (xlanes 8 r)) :=
  avx2_fold4 (by decide) 4 (by decide) (· + ·) (0 : BitVec 8) E.fuel (by omega) r
/-- … which, `((· + ·), (0 : BitVec 8))` being a commutative monoid, is the fold of all 32 lanes -/
theorem hsum_eq (f : Nat → BitVec 8) : hfoldHalf4 (· + ·) (0 : BitVec 8) 16 4 f = sumR (· + ·) (0 : BitVec 8) f 32 :=
  hfoldHalf4_eq_sumR (add_monoid 8) 4 f
/-- the `FoldFaithful` record of `sum_to_register` / `sum_to_value` -/
theorem sumFold (E : Env) (hfuel : 5 ≤ E.fuel) : FoldFaithful 32 (xlanes 8) (sintSpec 8).add (hfoldHalf4 (· + ·) (0 : BitVec 8) 16 4)
    (Avx2_i8.inst E).sum_to_register (Avx2_i8.inst E).sum_to_value :=
  foldFaithful_of (C13X86.Avx2_i8.add E) _ _ _ rfl (sum_to_value E hfuel)
/-- `Avx2_i8.max_to_value`: halves combined lane-wise, then the 4-accumulator scalar loop -/
theorem max_to_value (E : Env) (hfuel : 5 ≤ E.fuel) (r : BitVec 256) :
    (Avx2_i8.inst E).max_to_value r = pure (hfoldHalf4 IntPrim.smax (BitVec.intMin 8) 16 4 (xlanes 8 r)) :=
  avx2_fold4 (by decide) 4 (by decide) IntPrim.smax (BitVec.intMin 8) E.fuel (by omega) r
/-- … which, `(IntPrim.smax, (BitVec.intMin 8))` being a commutative monoid, is the fold of all 32 lanes -/
theorem hmax_eq (f : Nat → BitVec 8) : hfoldHalf4 IntPrim.smax (BitVec.intMin 8) 16 4 f = sumR IntPrim.smax (BitVec.intMin 8) f 32 :=
  hfoldHalf4_eq_sumR (smax_monoid (by decide : 0 < 8)) 4 f
/-- the `FoldFaithful` record of `max_to_register` / `max_to_value` -/
theorem maxFold (E : Env) (hfuel : 5 ≤ E.fuel) : FoldFaithful 32 (xlanes 8) (sintSpec 8).cmpMax (hfoldHalf4 IntPrim.smax (BitVec.intMin 8) 16 4)
    (Avx2_i8.inst E).max_to_register (Avx2_i8.inst E).max_to_value :=
  foldFaithful_of (C13X86.Avx2_i8.max E) _ _ _ rfl (max_to_value E hfuel)
/-- `Avx2_i8.min_to_value`: halves combined lane-wise, then the 4-accumulator scalar loop -/
theorem min_to_value (E : Env) (hfuel : 5 ≤ E.fuel) (r : BitVec 256) :
    (Avx2_i8.inst E).min_to_value r = pure (hfoldHalf4 IntPrim.smin (BitVec.intMax 8) 16 4 (xlanes 8 r)) :=
  avx2_fold4 (by decide) 4 (by decide) IntPrim.smin (BitVec.intMax 8) E.fuel (by omega) r
/-- … which, `(IntPrim.smin, (BitVec.intMax 8))` being a commutative monoid, is the fold of all 32 lanes -/
theorem hmin_eq (f : Nat → BitVec 8) : hfoldHalf4 IntPrim.smin (BitVec.intMax 8) 16 4 f = sumR IntPrim.smin (BitVec.intMax 8) f 32 :=
  hfoldHalf4_eq_sumR (smin_monoid (by decide : 0 < 8)) 4 f
/-- the `FoldFaithful` record of `min_to_register` / `min_to_value` -/
theorem minFold (E : Env) (hfuel : 5 ≤ E.fuel) : FoldFaithful 32 (xlanes 8) (sintSpec 8).cmpMin (hfoldHalf4 IntPrim.smin (BitVec.intMax 8) 16 4)
    (Avx2_i8.inst E).min_to_register (Avx2_i8.inst E).min_to_value :=
  foldFaithful_of (C13X86.Avx2_i8.min E) _ _ _ rfl (min_to_value E hfuel)
end Avx2_i8

namespace Avx2_i16
/-- `Avx2_i16.sum_to_value`: halves combined lane-wise, then the 4-accumulator scalar loop -/
theorem sum_to_value (E : Env) (hfuel : 3 ≤ E.fuel) (r : BitVec 256) :
    (Avx2_i16.inst E).sum_to_value r = pure (hfoldHalf4 (· + ·) (0 : BitVec 16) 8 2 (xlanes 16 r)) :=
  avx2_fold4 (by decide) 2 (by decide) (· + ·) (0 : BitVec 16) E.fuel (by omega) r
/-- … which, `((· + ·), (0 : BitVec 16))` being a commutative monoid, is the fold of all 16 lanes -/
theorem hsum_eq (f : Nat → BitVec 16) : hfoldHalf4 (· + ·) (0 : BitVec 16) 8 2 f = sumR (· + ·) (0 : BitVec 16) f 16 :=
  hfoldHalf4_eq_sumR (add_monoid 16) 2 f
/-- the `FoldFaithful` record of `sum_to_register` / `sum_to_value` -/
theorem sumFold (E : Env) (hfuel : 3 ≤ E.fuel) : FoldFaithful 16 (xlanes 16) (sintSpec 16).add (hfoldHalf4 (· + ·) (0 : BitVec 16) 8 2)
    (Avx2_i16.inst E).sum_to_register (Avx2_i16.inst E).sum_to_value :=
  foldFaithful_of (C13X86.Avx2_i16.add E) _ _ _ rfl (sum_to_value E hfuel)
/-- `Avx2_i16.max_to_value`: halves combined lane-wise, then the 4-accumulator scalar loop -/
theorem max_to_value (E : Env) (hfuel : 3 ≤ E.fuel) (r : BitVec 256) :
    (Avx2_i16.inst E).max_to_value r = pure (hfoldHalf4 IntPrim.smax (BitVec.intMin 16) 8 2 (xlanes 16 r)) :=
  avx2_fold4 (by decide) 2 (by decide) IntPrim.smax (BitVec.intMin 16) E.fuel (by omega) r
/-- … which, `(IntPrim.smax, (BitVec.intMin 16))` being a commutative monoid, is the fold of all 16 lanes -/
theorem hmax_eq (f : Nat → BitVec 16) : hfoldHalf4 IntPrim.smax (BitVec.intMin 16) 8 2 f = sumR IntPrim.smax (BitVec.intMin 16) f 16 :=
  hfoldHalf4_eq_sumR (smax_monoid (by decide : 0 < 16)) 2 f
/-- the `FoldFaithful` record of `max_to_register` / `max_to_value` -/
theorem maxFold (E : Env) (hfuel : 3 ≤ E.fuel) : FoldFaithful 16 (xlanes 16) (sintSpec 16).cmpMax (hfoldHalf4 IntPrim.smax (BitVec.intMin 16) 8 2)
    (Avx2_i16.inst E).max_to_register (Avx2_i16.inst E).max_to_value :=
  foldFaithful_of (C13X86.Avx2_i16.max E) _ _ _ rfl (max_to_value E hfuel)
/-- `Avx2_i16.min_to_value`: halves combined lane-wise, then the 4-accumulator scalar loop -/
theorem min_to_value (E : Env) (hfuel : 3 ≤ E.fuel) (r : BitVec 256) :
    (Avx2_i16.inst E).min_to_value r = pure (hfoldHalf4 IntPrim.smin (BitVec.intMax 16) 8 2 (xlanes 16 r)) :=
  avx2_fold4 (by decide) 2 (by decide) IntPrim.smin (BitVec.intMax 16) E.fuel (by omega) r
/-- … which, `(IntPrim.smin, (BitVec.intMax 16))` being a commutative monoid, is the fold of all 16 lanes -/
theorem hmin_eq (f : Nat → BitVec 16) : hfoldHalf4 IntPrim.smin (BitVec.intMax 16) 8 2 f = sumR IntPrim.smin (BitVec.intMax 16) f 16 :=
  hfoldHalf4_eq_sumR (smin_monoid (by decide : 0 < 16)) 2 f
/-- the `FoldFaithful` record of `min_to_register` / `min_to_value` -/
theorem minFold (E : Env) (hfuel : 3 ≤ E.fuel) : FoldFaithful 16 (xlanes 16) (sintSpec 16).cmpMin (hfoldHalf4 IntPrim.smin (BitVec.intMax 16) 8 2)
    (Avx2_i16.inst E).min_to_register (Avx2_i16.inst E).min_to_value :=
  foldFaithful_of (C13X86.Avx2_i16.min E) _ _ _ rfl (min_to_value E hfuel)
end Avx2_i16

namespace Avx2_i32
/-- `Avx2_i32.sum_to_value`: halves combined lane-wise, then `(g0 ⊕ g1) ⊕ (g2 ⊕ g3)` -/
theorem sum_to_value (E : Env) (r : BitVec 256) :
    (Avx2_i32.inst E).sum_to_value r = pure (hfoldHalfQ (· + ·) (xlanes 32 r)) := by
  show _root_.Cfavml.Avx2_i32.sum_to_value E r = _
  unfold _root_.Cfavml.Avx2_i32.sum_to_value
  simp (config := {decide := true}) only [arrGet, unpackLanes, if_true, pure_bind]
  exact congrArg pure (avx2_foldQ (· + ·) r)
/-- … which, `((· + ·), (0 : BitVec 32))` being a commutative monoid, is the fold of all 8 lanes -/
theorem hsum_eq (f : Nat → BitVec 32) : hfoldHalfQ (· + ·) f = sumR (· + ·) (0 : BitVec 32) f 8 :=
  hfoldHalfQ_eq_sumR (add_monoid 32) f
/-- the `FoldFaithful` record of `sum_to_register` / `sum_to_value` -/
theorem sumFold (E : Env) : FoldFaithful 8 (xlanes 32) (sintSpec 32).add (hfoldHalfQ (· + ·))
    (Avx2_i32.inst E).sum_to_register (Avx2_i32.inst E).sum_to_value :=
  foldFaithful_of (C13X86.Avx2_i32.add E) _ _ _ rfl (sum_to_value E)
/-- `Avx2_i32.max_to_value`: halves combined lane-wise, then `(g0 ⊕ g1) ⊕ (g2 ⊕ g3)` -/
theorem max_to_value (E : Env) (r : BitVec 256) :
    (Avx2_i32.inst E).max_to_value r = pure (hfoldHalfQ IntPrim.smax (xlanes 32 r)) := by
  show _root_.Cfavml.Avx2_i32.max_to_value E r = _
  unfold _root_.Cfavml.Avx2_i32.max_to_value
  simp (config := {decide := true}) only [arrGet, unpackLanes, if_true, pure_bind]
  exact congrArg pure (avx2_foldQ IntPrim.smax r)
/-- … which, `(IntPrim.smax, (BitVec.intMin 32))` being a commutative monoid, is the fold of all 8 lanes -/
theorem hmax_eq (f : Nat → BitVec 32) : hfoldHalfQ IntPrim.smax f = sumR IntPrim.smax (BitVec.intMin 32) f 8 :=
  hfoldHalfQ_eq_sumR (smax_monoid (by decide : 0 < 32)) f
/-- the `FoldFaithful` record of `max_to_register` / `max_to_value` -/
theorem maxFold (E : Env) : FoldFaithful 8 (xlanes 32) (sintSpec 32).cmpMax (hfoldHalfQ IntPrim.smax)
    (Avx2_i32.inst E).max_to_register (Avx2_i32.inst E).max_to_value :=
  foldFaithful_of (C13X86.Avx2_i32.max E) _ _ _ rfl (max_to_value E)
/-- `Avx2_i32.min_to_value`: halves combined lane-wise, then `(g0 ⊕ g1) ⊕ (g2 ⊕ g3)` -/
theorem min_to_value (E : Env) (r : BitVec 256) :
    (Avx2_i32.inst E).min_to_value r = pure (hfoldHalfQ IntPrim.smin (xlanes 32 r)) := by
  show _root_.Cfavml.Avx2_i32.min_to_value E r = _
  unfold _root_.Cfavml.Avx2_i32.min_to_value
  simp (config := {decide := true}) only [arrGet, unpackLanes, if_true, pure_bind]
  exact congrArg pure (avx2_foldQ IntPrim.smin r)
/-- … which, `(IntPrim.smin, (BitVec.intMax 32))` being a commutative monoid, is the fold of all 8 lanes -/
theorem hmin_eq (f : Nat → BitVec 32) : hfoldHalfQ IntPrim.smin f = sumR IntPrim.smin (BitVec.intMax 32) f 8 :=
  hfoldHalfQ_eq_sumR (smin_monoid (by decide : 0 < 32)) f
/-- the `FoldFaithful` record of `min_to_register` / `min_to_value` -/
theorem minFold (E : Env) : FoldFaithful 8 (xlanes 32) (sintSpec 32).cmpMin (hfoldHalfQ IntPrim.smin)
    (Avx2_i32.inst E).min_to_register (Avx2_i32.inst E).min_to_value :=
  foldFaithful_of (C13X86.Avx2_i32.min E) _ _ _ rfl (min_to_value E)
end Avx2_i32

namespace Avx2_i64
/-- `Avx2_i64.sum_to_value`: halves combined lane-wise, then `g0 ⊕ g1` -/
theorem sum_to_value (E : Env) (r : BitVec 256) :
    (Avx2_i64.inst E).sum_to_value r = pure (hfoldHalfD (· + ·) (xlanes 64 r)) := by
  show _root_.Cfavml.Avx2_i64.sum_to_value E r = _
  unfold _root_.Cfavml.Avx2_i64.sum_to_value
  simp (config := {decide := true}) only [arrGet, unpackLanes, if_true, pure_bind]
  exact congrArg pure (avx2_foldD (· + ·) r)
/-- … which, `((· + ·), (0 : BitVec 64))` being a commutative monoid, is the fold of all 4 lanes -/
theorem hsum_eq (f : Nat → BitVec 64) : hfoldHalfD (· + ·) f = sumR (· + ·) (0 : BitVec 64) f 4 :=
  hfoldHalfD_eq_sumR (add_monoid 64) f
/-- the `FoldFaithful` record of `sum_to_register` / `sum_to_value` -/
theorem sumFold (E : Env) : FoldFaithful 4 (xlanes 64) (sintSpec 64).add (hfoldHalfD (· + ·))
    (Avx2_i64.inst E).sum_to_register (Avx2_i64.inst E).sum_to_value :=
  foldFaithful_of (C13X86.Avx2_i64.add E) _ _ _ rfl (sum_to_value E)
/-- `Avx2_i64.max_to_value`: halves combined with `cmpgt_epi64` + `blendv_epi8`, then the scalar combine -/
theorem max_to_value (E : Env) (r : BitVec 256) :
    (Avx2_i64.inst E).max_to_value r = pure (hfoldHalfD IntPrim.smax (xlanes 64 r)) := by
  show _root_.Cfavml.Avx2_i64.max_to_value E r = _
  unfold _root_.Cfavml.Avx2_i64.max_to_value
  simp (config := {decide := true}) only [arrGet, unpackLanes, if_true, pure_bind]
  exact congrArg pure (avx2_smaxD r)
/-- … which, `(IntPrim.smax, (BitVec.intMin 64))` being a commutative monoid, is the fold of all 4 lanes -/
theorem hmax_eq (f : Nat → BitVec 64) : hfoldHalfD IntPrim.smax f = sumR IntPrim.smax (BitVec.intMin 64) f 4 :=
  hfoldHalfD_eq_sumR (smax_monoid (by decide : 0 < 64)) f
/-- the `FoldFaithful` record of `max_to_register` / `max_to_value` -/
theorem maxFold (E : Env) : FoldFaithful 4 (xlanes 64) (sintSpec 64).cmpMax (hfoldHalfD IntPrim.smax)
    (Avx2_i64.inst E).max_to_register (Avx2_i64.inst E).max_to_value :=
  foldFaithful_of (C13X86Hard.Avx2_i64.max E) _ _ _ rfl (max_to_value E)
/-- `Avx2_i64.min_to_value`: halves combined with `cmpgt_epi64` + `blendv_epi8`, then the scalar combine -/
theorem min_to_value (E : Env) (r : BitVec 256) :
    (Avx2_i64.inst E).min_to_value r = pure (hfoldHalfD IntPrim.smin (xlanes 64 r)) := by
  show _root_.Cfavml.Avx2_i64.min_to_value E r = _
  unfold _root_.Cfavml.Avx2_i64.min_to_value
  simp (config := {decide := true}) only [arrGet, unpackLanes, if_true, pure_bind]
  exact congrArg pure (avx2_sminD r)
/-- … which, `(IntPrim.smin, (BitVec.intMax 64))` being a commutative monoid, is the fold of all 4 lanes -/
theorem hmin_eq (f : Nat → BitVec 64) : hfoldHalfD IntPrim.smin f = sumR IntPrim.smin (BitVec.intMax 64) f 4 :=
  hfoldHalfD_eq_sumR (smin_monoid (by decide : 0 < 64)) f
/-- the `FoldFaithful` record of `min_to_register` / `min_to_value` -/
theorem minFold (E : Env) : FoldFaithful 4 (xlanes 64) (sintSpec 64).cmpMin (hfoldHalfD IntPrim.smin)
    (Avx2_i64.inst E).min_to_register (Avx2_i64.inst E).min_to_value :=
  foldFaithful_of (C13X86Hard.Avx2_i64.min E) _ _ _ rfl (min_to_value E)
end Avx2_i64

namespace Avx2_u8
/-- `Avx2_u8.sum_to_value`: halves combined lane-wise, then the 4-accumulator scalar loop -/
theorem sum_to_value (E : Env) (hfuel : 5 ≤ E.fuel) (r : BitVec 256) :
    (Avx2_u8.inst E).sum_to_value r = pure (hfoldHalf4 (· + ·) (0 : BitVec 8) 16 4 (xlanes 8 r)) :=
  avx2_fold4 (by decide) 4 (by decide) (· + ·) (0 : BitVec 8) E.fuel (by omega) r
/-- … which, `((· + ·), (0 : BitVec 8))` being a commutative monoid, is the fold of all 32 lanes -/
theorem hsum_eq (f : Nat → BitVec 8) : hfoldHalf4 (· + ·) (0 : BitVec 8) 16 4 f = sumR (· + ·) (0 : BitVec 8) f 32 :=
  hfoldHalf4_eq_sumR (add_monoid 8) 4 f
/-- the `FoldFaithful` record of `sum_to_register` / `sum_to_value` -/
theorem sumFold (E : Env) (hfuel : 5 ≤ E.fuel) : FoldFaithful 32 (xlanes 8) (uintSpec 8).add (hfoldHalf4 (· + ·) (0 : BitVec 8) 16 4)
    (Avx2_u8.inst E).sum_to_register (Avx2_u8.inst E).sum_to_value :=
  foldFaithful_of (C13X86.Avx2_u8.add E) _ _ _ rfl (sum_to_value E hfuel)
/-- `Avx2_u8.max_to_value`: halves combined lane-wise, then the 4-accumulator scalar loop -/
theorem max_to_value (E : Env) (hfuel : 5 ≤ E.fuel) (r : BitVec 256) :
    (Avx2_u8.inst E).max_to_value r = pure (hfoldHalf4 IntPrim.umax (0 : BitVec 8) 16 4 (xlanes 8 r)) :=
  avx2_fold4 (by decide) 4 (by decide) IntPrim.umax (0 : BitVec 8) E.fuel (by omega) r
/-- … which, `(IntPrim.umax, (0 : BitVec 8))` being a commutative monoid, is the fold of all 32 lanes -/
theorem hmax_eq (f : Nat → BitVec 8) : hfoldHalf4 IntPrim.umax (0 : BitVec 8) 16 4 f = sumR IntPrim.umax (0 : BitVec 8) f 32 :=
  hfoldHalf4_eq_sumR (umax_monoid 8) 4 f
/-- the `FoldFaithful` record of `max_to_register` / `max_to_value` -/
theorem maxFold (E : Env) (hfuel : 5 ≤ E.fuel) : FoldFaithful 32 (xlanes 8) (uintSpec 8).cmpMax (hfoldHalf4 IntPrim.umax (0 : BitVec 8) 16 4)
    (Avx2_u8.inst E).max_to_register (Avx2_u8.inst E).max_to_value :=
  foldFaithful_of (C13X86.Avx2_u8.max E) _ _ _ rfl (max_to_value E hfuel)
/-- `Avx2_u8.min_to_value`: halves combined lane-wise, then the 4-accumulator scalar loop -/
theorem min_to_value (E : Env) (hfuel : 5 ≤ E.fuel) (r : BitVec 256) :
    (Avx2_u8.inst E).min_to_value r = pure (hfoldHalf4 IntPrim.umin (BitVec.allOnes 8) 16 4 (xlanes 8 r)) :=
  avx2_fold4 (by decide) 4 (by decide) IntPrim.umin (BitVec.allOnes 8) E.fuel (by omega) r
/-- … which, `(IntPrim.umin, (BitVec.allOnes 8))` being a commutative monoid, is the fold of all 32 lanes -/
theorem hmin_eq (f : Nat → BitVec 8) : hfoldHalf4 IntPrim.umin (BitVec.allOnes 8) 16 4 f = sumR IntPrim.umin (BitVec.allOnes 8) f 32 :=
  hfoldHalf4_eq_sumR (umin_monoid 8) 4 f
/-- the `FoldFaithful` record of `min_to_register` / `min_to_value` -/
theorem minFold (E : Env) (hfuel : 5 ≤ E.fuel) : FoldFaithful 32 (xlanes 8) (uintSpec 8).cmpMin (hfoldHalf4 IntPrim.umin (BitVec.allOnes 8) 16 4)
    (Avx2_u8.inst E).min_to_register (Avx2_u8.inst E).min_to_value :=
  foldFaithful_of (C13X86.Avx2_u8.min E) _ _ _ rfl (min_to_value E hfuel)
end Avx2_u8

namespace Avx2_u16
/-- `Avx2_u16.sum_to_value`: halves combined lane-wise, then the 4-accumulator scalar loop -/
theorem sum_to_value (E : Env) (hfuel : 3 ≤ E.fuel) (r : BitVec 256) :
    (Avx2_u16.inst E).sum_to_value r = pure (hfoldHalf4 (· + ·) (0 : BitVec 16) 8 2 (xlanes 16 r)) :=
  avx2_fold4 (by decide) 2 (by decide) (· + ·) (0 : BitVec 16) E.fuel (by omega) r
/-- … which, `((· + ·), (0 : BitVec 16))` being a commutative monoid, is the fold of all 16 lanes -/
theorem hsum_eq (f : Nat → BitVec 16) : hfoldHalf4 (· + ·) (0 : BitVec 16) 8 2 f = sumR (· + ·) (0 : BitVec 16) f 16 :=
  hfoldHalf4_eq_sumR (add_monoid 16) 2 f
/-- the `FoldFaithful` record of `sum_to_register` / `sum_to_value` -/
theorem sumFold (E : Env) (hfuel : 3 ≤ E.fuel) : FoldFaithful 16 (xlanes 16) (uintSpec 16).add (hfoldHalf4 (· + ·) (0 : BitVec 16) 8 2)
    (Avx2_u16.inst E).sum_to_register (Avx2_u16.inst E).sum_to_value :=
  foldFaithful_of (C13X86.Avx2_u16.add E) _ _ _ rfl (sum_to_value E hfuel)
/-- `Avx2_u16.max_to_value`: halves combined lane-wise, then the 4-accumulator scalar loop -/
theorem max_to_value (E : Env) (hfuel : 3 ≤ E.fuel) (r : BitVec 256) :
    (Avx2_u16.inst E).max_to_value r = pure (hfoldHalf4 IntPrim.umax (0 : BitVec 16) 8 2 (xlanes 16 r)) :=
  avx2_fold4 (by decide) 2 (by decide) IntPrim.umax (0 : BitVec 16) E.fuel (by omega) r
/-- … which, `(IntPrim.umax, (0 : BitVec 16))` being a commutative monoid, is the fold of all 16 lanes -/
theorem hmax_eq (f : Nat → BitVec 16) : hfoldHalf4 IntPrim.umax (0 : BitVec 16) 8 2 f = sumR IntPrim.umax (0 : BitVec 16) f 16 :=
  hfoldHalf4_eq_sumR (umax_monoid 16) 2 f
/-- the `FoldFaithful` record of `max_to_register` / `max_to_value` -/
theorem maxFold (E : Env) (hfuel : 3 ≤ E.fuel) : FoldFaithful 16 (xlanes 16) (uintSpec 16).cmpMax (hfoldHalf4 IntPrim.umax (0 : BitVec 16) 8 2)
    (Avx2_u16.inst E).max_to_register (Avx2_u16.inst E).max_to_value :=
  foldFaithful_of (C13X86.Avx2_u16.max E) _ _ _ rfl (max_to_value E hfuel)
/-- `Avx2_u16.min_to_value`: halves combined lane-wise, then the 4-accumulator scalar loop -/
theorem min_to_value (E : Env) (hfuel : 3 ≤ E.fuel) (r : BitVec 256) :
    (Avx2_u16.inst E).min_to_value r = pure (hfoldHalf4 IntPrim.umin (BitVec.allOnes 16) 8 2 (xlanes 16 r)) :=
  avx2_fold4 (by decide) 2 (by decide) IntPrim.umin (BitVec.allOnes 16) E.fuel (by omega) r
/-- … which, `(IntPrim.umin, (BitVec.allOnes 16))` being a commutative monoid, is the fold of all 16 lanes -/
theorem hmin_eq (f : Nat → BitVec 16) : hfoldHalf4 IntPrim.umin (BitVec.allOnes 16) 8 2 f = sumR IntPrim.umin (BitVec.allOnes 16) f 16 :=
  hfoldHalf4_eq_sumR (umin_monoid 16) 2 f
/-- the `FoldFaithful` record of `min_to_register` / `min_to_value` -/
theorem minFold (E : Env) (hfuel : 3 ≤ E.fuel) : FoldFaithful 16 (xlanes 16) (uintSpec 16).cmpMin (hfoldHalf4 IntPrim.umin (BitVec.allOnes 16) 8 2)
    (Avx2_u16.inst E).min_to_register (Avx2_u16.inst E).min_to_value :=
  foldFaithful_of (C13X86.Avx2_u16.min E) _ _ _ rfl (min_to_value E hfuel)
end Avx2_u16

namespace Avx2_u32
/-- `Avx2_u32.sum_to_value`: halves combined lane-wise, then `(g0 ⊕ g1) ⊕ (g2 ⊕ g3)` -/
theorem sum_to_value (E : Env) (r : BitVec 256) :
    (Avx2_u32.inst E).sum_to_value r = pure (hfoldHalfQ (· + ·) (xlanes 32 r)) := by
  show _root_.Cfavml.Avx2_u32.sum_to_value E r = _
  unfold _root_.Cfavml.Avx2_u32.sum_to_value
  simp (config := {decide := true}) only [arrGet, unpackLanes, if_true, pure_bind]
  exact congrArg pure (avx2_foldQ (· + ·) r)
/-- … which, `((· + ·), (0 : BitVec 32))` being a commutative monoid, is the fold of all 8 lanes -/
theorem hsum_eq (f : Nat → BitVec 32) : hfoldHalfQ (· + ·) f = sumR (· + ·) (0 : BitVec 32) f 8 :=
  hfoldHalfQ_eq_sumR (add_monoid 32) f
/-- the `FoldFaithful` record of `sum_to_register` / `sum_to_value` -/
theorem sumFold (E : Env) : FoldFaithful 8 (xlanes 32) (uintSpec 32).add (hfoldHalfQ (· + ·))
    (Avx2_u32.inst E).sum_to_register (Avx2_u32.inst E).sum_to_value :=
  foldFaithful_of (C13X86.Avx2_u32.add E) _ _ _ rfl (sum_to_value E)
/-- `Avx2_u32.max_to_value`: halves combined lane-wise, then `(g0 ⊕ g1) ⊕ (g2 ⊕ g3)` -/
theorem max_to_value (E : Env) (r : BitVec 256) :
    (Avx2_u32.inst E).max_to_value r = pure (hfoldHalfQ IntPrim.umax (xlanes 32 r)) := by
  show _root_.Cfavml.Avx2_u32.max_to_value E r = _
  unfold _root_.Cfavml.Avx2_u32.max_to_value
  simp (config := {decide := true}) only [arrGet, unpackLanes, if_true, pure_bind]
  exact congrArg pure (avx2_foldQ IntPrim.umax r)
/-- … which, `(IntPrim.umax, (0 : BitVec 32))` being a commutative monoid, is the fold of all 8 lanes -/
theorem hmax_eq (f : Nat → BitVec 32) : hfoldHalfQ IntPrim.umax f = sumR IntPrim.umax (0 : BitVec 32) f 8 :=
  hfoldHalfQ_eq_sumR (umax_monoid 32) f
/-- the `FoldFaithful` record of `max_to_register` / `max_to_value` -/
theorem maxFold (E : Env) : FoldFaithful 8 (xlanes 32) (uintSpec 32).cmpMax (hfoldHalfQ IntPrim.umax)
    (Avx2_u32.inst E).max_to_register (Avx2_u32.inst E).max_to_value :=
  foldFaithful_of (C13X86.Avx2_u32.max E) _ _ _ rfl (max_to_value E)
/-- `Avx2_u32.min_to_value`: halves combined lane-wise, then `(g0 ⊕ g1) ⊕ (g2 ⊕ g3)` -/
theorem min_to_value (E : Env) (r : BitVec 256) :
    (Avx2_u32.inst E).min_to_value r = pure (hfoldHalfQ IntPrim.umin (xlanes 32 r)) := by
  show _root_.Cfavml.Avx2_u32.min_to_value E r = _
  unfold _root_.Cfavml.Avx2_u32.min_to_value
  simp (config := {decide := true}) only [arrGet, unpackLanes, if_true, pure_bind]
  exact congrArg pure (avx2_foldQ IntPrim.umin r)
/-- … which, `(IntPrim.umin, (BitVec.allOnes 32))` being a commutative monoid, is the fold of all 8 lanes -/
theorem hmin_eq (f : Nat → BitVec 32) : hfoldHalfQ IntPrim.umin f = sumR IntPrim.umin (BitVec.allOnes 32) f 8 :=
  hfoldHalfQ_eq_sumR (umin_monoid 32) f
/-- the `FoldFaithful` record of `min_to_register` / `min_to_value` -/
theorem minFold (E : Env) : FoldFaithful 8 (xlanes 32) (uintSpec 32).cmpMin (hfoldHalfQ IntPrim.umin)
    (Avx2_u32.inst E).min_to_register (Avx2_u32.inst E).min_to_value :=
  foldFaithful_of (C13X86.Avx2_u32.min E) _ _ _ rfl (min_to_value E)
end Avx2_u32

namespace Avx2_u64
/-- `Avx2_u64.sum_to_value`: halves combined lane-wise, then `g0 ⊕ g1` -/
theorem sum_to_value (E : Env) (r : BitVec 256) :
    (Avx2_u64.inst E).sum_to_value r = pure (hfoldHalfD (· + ·) (xlanes 64 r)) := by
  show _root_.Cfavml.Avx2_u64.sum_to_value E r = _
  unfold _root_.Cfavml.Avx2_u64.sum_to_value
  simp (config := {decide := true}) only [arrGet, unpackLanes, if_true, pure_bind]
  exact congrArg pure (avx2_foldD (· + ·) r)
/-- … which, `((· + ·), (0 : BitVec 64))` being a commutative monoid, is the fold of all 4 lanes -/
theorem hsum_eq (f : Nat → BitVec 64) : hfoldHalfD (· + ·) f = sumR (· + ·) (0 : BitVec 64) f 4 :=
  hfoldHalfD_eq_sumR (add_monoid 64) f
/-- the `FoldFaithful` record of `sum_to_register` / `sum_to_value` -/
theorem sumFold (E : Env) : FoldFaithful 4 (xlanes 64) (uintSpec 64).add (hfoldHalfD (· + ·))
    (Avx2_u64.inst E).sum_to_register (Avx2_u64.inst E).sum_to_value :=
  foldFaithful_of (C13X86.Avx2_u64.add E) _ _ _ rfl (sum_to_value E)
/-- `Avx2_u64.max_to_value`: halves combined with `cmpgt_epi64` + `blendv_epi8`, then the scalar combine -/
theorem max_to_value (E : Env) (r : BitVec 256) :
    (Avx2_u64.inst E).max_to_value r = pure (hfoldHalfD IntPrim.umax (xlanes 64 r)) := by
  show _root_.Cfavml.Avx2_u64.max_to_value E r = _
  unfold _root_.Cfavml.Avx2_u64.max_to_value
  simp (config := {decide := true}) only [arrGet, unpackLanes, if_true, pure_bind]
  exact congrArg pure (avx2_umaxD r)
/-- … which, `(IntPrim.umax, (0 : BitVec 64))` being a commutative monoid, is the fold of all 4 lanes -/
theorem hmax_eq (f : Nat → BitVec 64) : hfoldHalfD IntPrim.umax f = sumR IntPrim.umax (0 : BitVec 64) f 4 :=
  hfoldHalfD_eq_sumR (umax_monoid 64) f
/-- the `FoldFaithful` record of `max_to_register` / `max_to_value` -/
theorem maxFold (E : Env) : FoldFaithful 4 (xlanes 64) (uintSpec 64).cmpMax (hfoldHalfD IntPrim.umax)
    (Avx2_u64.inst E).max_to_register (Avx2_u64.inst E).max_to_value :=
  foldFaithful_of (C13X86Hard.Avx2_u64.max E) _ _ _ rfl (max_to_value E)
/-- `Avx2_u64.min_to_value`: halves combined with `cmpgt_epi64` + `blendv_epi8`, then the scalar combine -/
theorem min_to_value (E : Env) (r : BitVec 256) :
    (Avx2_u64.inst E).min_to_value r = pure (hfoldHalfD IntPrim.umin (xlanes 64 r)) := by
  show _root_.Cfavml.Avx2_u64.min_to_value E r = _
  unfold _root_.Cfavml.Avx2_u64.min_to_value
  simp (config := {decide := true}) only [arrGet, unpackLanes, if_true, pure_bind]
  exact congrArg pure (avx2_uminD r)
/-- … which, `(IntPrim.umin, (BitVec.allOnes 64))` being a commutative monoid, is the fold of all 4 lanes -/
theorem hmin_eq (f : Nat → BitVec 64) : hfoldHalfD IntPrim.umin f = sumR IntPrim.umin (BitVec.allOnes 64) f 4 :=
  hfoldHalfD_eq_sumR (umin_monoid 64) f
/-- the `FoldFaithful` record of `min_to_register` / `min_to_value` -/
theorem minFold (E : Env) : FoldFaithful 4 (xlanes 64) (uintSpec 64).cmpMin (hfoldHalfD IntPrim.umin)
    (Avx2_u64.inst E).min_to_register (Avx2_u64.inst E).min_to_value :=
  foldFaithful_of (C13X86Hard.Avx2_u64.min E) _ _ _ rfl (min_to_value E)
end Avx2_u64

namespace Avx512_i8
/-- `Avx512_i8.sum_to_value`: 256-bit halves combined, then the AVX2 fold -/
theorem sum_to_value (E : Env) (hfuel : 5 ≤ E.fuel) (r : BitVec 512) :
    (Avx512_i8.inst E).sum_to_value r = pure (hfoldHalf512 (· + ·) (0 : BitVec 8) 16 4 (xlanes 8 r)) := by
  show _root_.Cfavml.Avx512_i8.sum_to_value E r = _
  unfold _root_.Cfavml.Avx512_i8.sum_to_value
  have := avx512_fold4 E (by decide) 4 (by decide) (by decide) (· + ·) (0 : BitVec 8) E.fuel (by omega) _ (shuffle_1032 E) r
  simp only [_root_.Cfavml.Avx2_i8.add, _root_.Cfavml.Avx2_i8.max, _root_.Cfavml.Avx2_i8.min, pure_bind]
  simp only [bind_pure] at this
  exact this
/-- … which, `((· + ·), (0 : BitVec 8))` being a commutative monoid, is the fold of all 64 lanes -/
theorem hsum_eq (f : Nat → BitVec 8) : hfoldHalf512 (· + ·) (0 : BitVec 8) 16 4 f = sumR (· + ·) (0 : BitVec 8) f 64 :=
  hfoldHalf512_eq_sumR (add_monoid 8) 4 f
/-- the `FoldFaithful` record of `sum_to_register` / `sum_to_value` -/
theorem sumFold (E : Env) (hfuel : 5 ≤ E.fuel) : FoldFaithful 64 (xlanes 8) (sintSpec 8).add (hfoldHalf512 (· + ·) (0 : BitVec 8) 16 4)
    (Avx512_i8.inst E).sum_to_register (Avx512_i8.inst E).sum_to_value :=
  foldFaithful_of (C13X86.Avx512_i8.add E) _ _ _ rfl (sum_to_value E hfuel)
/-- `Avx512_i8.max_to_value`: 256-bit halves combined, then the AVX2 fold -/
theorem max_to_value (E : Env) (hfuel : 5 ≤ E.fuel) (r : BitVec 512) :
    (Avx512_i8.inst E).max_to_value r = pure (hfoldHalf512 IntPrim.smax (BitVec.intMin 8) 16 4 (xlanes 8 r)) := by
  show _root_.Cfavml.Avx512_i8.max_to_value E r = _
  unfold _root_.Cfavml.Avx512_i8.max_to_value
  have := avx512_fold4 E (by decide) 4 (by decide) (by decide) IntPrim.smax (BitVec.intMin 8) E.fuel (by omega) _ (shuffle_1032 E) r
  simp only [_root_.Cfavml.Avx2_i8.add, _root_.Cfavml.Avx2_i8.max, _root_.Cfavml.Avx2_i8.min, pure_bind]
  simp only [bind_pure] at this
  exact this
/-- … which, `(IntPrim.smax, (BitVec.intMin 8))` being a commutative monoid, is the fold of all 64 lanes -/
theorem hmax_eq (f : Nat → BitVec 8) : hfoldHalf512 IntPrim.smax (BitVec.intMin 8) 16 4 f = sumR IntPrim.smax (BitVec.intMin 8) f 64 :=
  hfoldHalf512_eq_sumR (smax_monoid (by decide : 0 < 8)) 4 f
/-- the `FoldFaithful` record of `max_to_register` / `max_to_value` -/
theorem maxFold (E : Env) (hfuel : 5 ≤ E.fuel) : FoldFaithful 64 (xlanes 8) (sintSpec 8).cmpMax (hfoldHalf512 IntPrim.smax (BitVec.intMin 8) 16 4)
    (Avx512_i8.inst E).max_to_register (Avx512_i8.inst E).max_to_value :=
  foldFaithful_of (C13X86.Avx512_i8.max E) _ _ _ rfl (max_to_value E hfuel)
/-- `Avx512_i8.min_to_value`: 256-bit halves combined, then the AVX2 fold -/
theorem min_to_value (E : Env) (hfuel : 5 ≤ E.fuel) (r : BitVec 512) :
    (Avx512_i8.inst E).min_to_value r = pure (hfoldHalf512 IntPrim.smin (BitVec.intMax 8) 16 4 (xlanes 8 r)) := by
  show _root_.Cfavml.Avx512_i8.min_to_value E r = _
  unfold _root_.Cfavml.Avx512_i8.min_to_value
  have := avx512_fold4 E (by decide) 4 (by decide) (by decide) IntPrim.smin (BitVec.intMax 8) E.fuel (by omega) _ (shuffle_1032 E) r
  simp only [_root_.Cfavml.Avx2_i8.add, _root_.Cfavml.Avx2_i8.max, _root_.Cfavml.Avx2_i8.min, pure_bind]
  simp only [bind_pure] at this
  exact this
/-- … which, `(IntPrim.smin, (BitVec.intMax 8))` being a commutative monoid, is the fold of all 64 lanes -/
theorem hmin_eq (f : Nat → BitVec 8) : hfoldHalf512 IntPrim.smin (BitVec.intMax 8) 16 4 f = sumR IntPrim.smin (BitVec.intMax 8) f 64 :=
  hfoldHalf512_eq_sumR (smin_monoid (by decide : 0 < 8)) 4 f
/-- the `FoldFaithful` record of `min_to_register` / `min_to_value` -/
theorem minFold (E : Env) (hfuel : 5 ≤ E.fuel) : FoldFaithful 64 (xlanes 8) (sintSpec 8).cmpMin (hfoldHalf512 IntPrim.smin (BitVec.intMax 8) 16 4)
    (Avx512_i8.inst E).min_to_register (Avx512_i8.inst E).min_to_value :=
  foldFaithful_of (C13X86.Avx512_i8.min E) _ _ _ rfl (min_to_value E hfuel)
end Avx512_i8

namespace Avx512_i16
/-- `Avx512_i16.sum_to_value`: 256-bit halves combined, then the AVX2 fold -/
theorem sum_to_value (E : Env) (hfuel : 3 ≤ E.fuel) (r : BitVec 512) :
    (Avx512_i16.inst E).sum_to_value r = pure (hfoldHalf512 (· + ·) (0 : BitVec 16) 8 2 (xlanes 16 r)) := by
  show _root_.Cfavml.Avx512_i16.sum_to_value E r = _
  unfold _root_.Cfavml.Avx512_i16.sum_to_value
  have := avx512_fold4 E (by decide) 2 (by decide) (by decide) (· + ·) (0 : BitVec 16) E.fuel (by omega) _ (shuffle_1032 E) r
  simp only [_root_.Cfavml.Avx2_i16.add, _root_.Cfavml.Avx2_i16.max, _root_.Cfavml.Avx2_i16.min, pure_bind]
  simp only [bind_pure] at this
  exact this
/-- … which, `((· + ·), (0 : BitVec 16))` being a commutative monoid, is the fold of all 32 lanes -/
theorem hsum_eq (f : Nat → BitVec 16) : hfoldHalf512 (· + ·) (0 : BitVec 16) 8 2 f = sumR (· + ·) (0 : BitVec 16) f 32 :=
  hfoldHalf512_eq_sumR (add_monoid 16) 2 f
/-- the `FoldFaithful` record of `sum_to_register` / `sum_to_value` -/
theorem sumFold (E : Env) (hfuel : 3 ≤ E.fuel) : FoldFaithful 32 (xlanes 16) (sintSpec 16).add (hfoldHalf512 (· + ·) (0 : BitVec 16) 8 2)
    (Avx512_i16.inst E).sum_to_register (Avx512_i16.inst E).sum_to_value :=
  foldFaithful_of (C13X86.Avx512_i16.add E) _ _ _ rfl (sum_to_value E hfuel)
/-- `Avx512_i16.max_to_value`: 256-bit halves combined, then the AVX2 fold -/
theorem max_to_value (E : Env) (hfuel : 3 ≤ E.fuel) (r : BitVec 512) :
    (Avx512_i16.inst E).max_to_value r = pure (hfoldHalf512 IntPrim.smax (BitVec.intMin 16) 8 2 (xlanes 16 r)) := by
  show _root_.Cfavml.Avx512_i16.max_to_value E r = _
  unfold _root_.Cfavml.Avx512_i16.max_to_value
  have := avx512_fold4 E (by decide) 2 (by decide) (by decide) IntPrim.smax (BitVec.intMin 16) E.fuel (by omega) _ (shuffle_1032 E) r
  simp only [_root_.Cfavml.Avx2_i16.add, _root_.Cfavml.Avx2_i16.max, _root_.Cfavml.Avx2_i16.min, pure_bind]
  simp only [bind_pure] at this
  exact this
/-- … which, `(IntPrim.smax, (BitVec.intMin 16))` being a commutative monoid, is the fold of all 32 lanes -/
theorem hmax_eq (f : Nat → BitVec 16) : hfoldHalf512 IntPrim.smax (BitVec.intMin 16) 8 2 f = sumR IntPrim.smax (BitVec.intMin 16) f 32 :=
  hfoldHalf512_eq_sumR (smax_monoid (by decide : 0 < 16)) 2 f
/-- the `FoldFaithful` record of `max_to_register` / `max_to_value` -/
theorem maxFold (E : Env) (hfuel : 3 ≤ E.fuel) : FoldFaithful 32 (xlanes 16) (sintSpec 16).cmpMax (hfoldHalf512 IntPrim.smax (BitVec.intMin 16) 8 2)
    (Avx512_i16.inst E).max_to_register (Avx512_i16.inst E).max_to_value :=
  foldFaithful_of (C13X86.Avx512_i16.max E) _ _ _ rfl (max_to_value E hfuel)
/-- `Avx512_i16.min_to_value`: 256-bit halves combined, then the AVX2 fold -/
theorem min_to_value (E : Env) (hfuel : 3 ≤ E.fuel) (r : BitVec 512) :
    (Avx512_i16.inst E).min_to_value r = pure (hfoldHalf512 IntPrim.smin (BitVec.intMax 16) 8 2 (xlanes 16 r)) := by
  show _root_.Cfavml.Avx512_i16.min_to_value E r = _
  unfold _root_.Cfavml.Avx512_i16.min_to_value
  have := avx512_fold4 E (by decide) 2 (by decide) (by decide) IntPrim.smin (BitVec.intMax 16) E.fuel (by omega) _ (shuffle_1032 E) r
  simp only [_root_.Cfavml.Avx2_i16.add, _root_.Cfavml.Avx2_i16.max, _root_.Cfavml.Avx2_i16.min, pure_bind]
  simp only [bind_pure] at this
  exact this
/-- … which, `(IntPrim.smin, (BitVec.intMax 16))` being a commutative monoid, is the fold of all 32 lanes -/
theorem hmin_eq (f : Nat → BitVec 16) : hfoldHalf512 IntPrim.smin (BitVec.intMax 16) 8 2 f = sumR IntPrim.smin (BitVec.intMax 16) f 32 :=
  hfoldHalf512_eq_sumR (smin_monoid (by decide : 0 < 16)) 2 f
/-- the `FoldFaithful` record of `min_to_register` / `min_to_value` -/
theorem minFold (E : Env) (hfuel : 3 ≤ E.fuel) : FoldFaithful 32 (xlanes 16) (sintSpec 16).cmpMin (hfoldHalf512 IntPrim.smin (BitVec.intMax 16) 8 2)
    (Avx512_i16.inst E).min_to_register (Avx512_i16.inst E).min_to_value :=
  foldFaithful_of (C13X86.Avx512_i16.min E) _ _ _ rfl (min_to_value E hfuel)
end Avx512_i16

namespace Avx512_i32
/-- `Avx512_i32.sum_to_value`: the in-order `_mm512_reduce_*` intrinsic -/
theorem sum_to_value (E : Env) (r : BitVec 512) :
    (Avx512_i32.inst E).sum_to_value r = pure (X86.reduceOrdered (· + ·) (0 : BitVec 32) 16 (xlanes 32 r)) :=
  rfl
/-- … which, `((· + ·), (0 : BitVec 32))` being a commutative monoid, is the fold of all 16 lanes -/
theorem hsum_eq (f : Nat → BitVec 32) : X86.reduceOrdered (· + ·) (0 : BitVec 32) 16 f = sumR (· + ·) (0 : BitVec 32) f 16 :=
  reduceOrdered_eq_sumR (0 : BitVec 32) 16 f
/-- the `FoldFaithful` record of `sum_to_register` / `sum_to_value` -/
theorem sumFold (E : Env) : FoldFaithful 16 (xlanes 32) (sintSpec 32).add (X86.reduceOrdered (· + ·) (0 : BitVec 32) 16)
    (Avx512_i32.inst E).sum_to_register (Avx512_i32.inst E).sum_to_value :=
  foldFaithful_of (C13X86.Avx512_i32.add E) _ _ _ rfl (sum_to_value E)
/-- `Avx512_i32.max_to_value`: the in-order `_mm512_reduce_*` intrinsic -/
theorem max_to_value (E : Env) (r : BitVec 512) :
    (Avx512_i32.inst E).max_to_value r = pure (X86.reduceOrdered IntPrim.smax (BitVec.intMin 32) 16 (xlanes 32 r)) :=
  rfl
/-- … which, `(IntPrim.smax, (BitVec.intMin 32))` being a commutative monoid, is the fold of all 16 lanes -/
theorem hmax_eq (f : Nat → BitVec 32) : X86.reduceOrdered IntPrim.smax (BitVec.intMin 32) 16 f = sumR IntPrim.smax (BitVec.intMin 32) f 16 :=
  reduceOrdered_eq_sumR (BitVec.intMin 32) 16 f
/-- the `FoldFaithful` record of `max_to_register` / `max_to_value` -/
theorem maxFold (E : Env) : FoldFaithful 16 (xlanes 32) (sintSpec 32).cmpMax (X86.reduceOrdered IntPrim.smax (BitVec.intMin 32) 16)
    (Avx512_i32.inst E).max_to_register (Avx512_i32.inst E).max_to_value :=
  foldFaithful_of (C13X86.Avx512_i32.max E) _ _ _ rfl (max_to_value E)
/-- `Avx512_i32.min_to_value`: the in-order `_mm512_reduce_*` intrinsic -/
theorem min_to_value (E : Env) (r : BitVec 512) :
    (Avx512_i32.inst E).min_to_value r = pure (X86.reduceOrdered IntPrim.smin (BitVec.intMax 32) 16 (xlanes 32 r)) :=
  rfl
/-- … which, `(IntPrim.smin, (BitVec.intMax 32))` being a commutative monoid, is the fold of all 16 lanes -/
theorem hmin_eq (f : Nat → BitVec 32) : X86.reduceOrdered IntPrim.smin (BitVec.intMax 32) 16 f = sumR IntPrim.smin (BitVec.intMax 32) f 16 :=
  reduceOrdered_eq_sumR (BitVec.intMax 32) 16 f
/-- the `FoldFaithful` record of `min_to_register` / `min_to_value` -/
theorem minFold (E : Env) : FoldFaithful 16 (xlanes 32) (sintSpec 32).cmpMin (X86.reduceOrdered IntPrim.smin (BitVec.intMax 32) 16)
    (Avx512_i32.inst E).min_to_register (Avx512_i32.inst E).min_to_value :=
  foldFaithful_of (C13X86.Avx512_i32.min E) _ _ _ rfl (min_to_value E)
end Avx512_i32

namespace Avx512_i64
/-- `Avx512_i64.sum_to_value`: the in-order `_mm512_reduce_*` intrinsic -/
theorem sum_to_value (E : Env) (r : BitVec 512) :
    (Avx512_i64.inst E).sum_to_value r = pure (X86.reduceOrdered (· + ·) (0 : BitVec 64) 8 (xlanes 64 r)) :=
  rfl
/-- … which, `((· + ·), (0 : BitVec 64))` being a commutative monoid, is the fold of all 8 lanes -/
theorem hsum_eq (f : Nat → BitVec 64) : X86.reduceOrdered (· + ·) (0 : BitVec 64) 8 f = sumR (· + ·) (0 : BitVec 64) f 8 :=
  reduceOrdered_eq_sumR (0 : BitVec 64) 8 f
/-- the `FoldFaithful` record of `sum_to_register` / `sum_to_value` -/
theorem sumFold (E : Env) : FoldFaithful 8 (xlanes 64) (sintSpec 64).add (X86.reduceOrdered (· + ·) (0 : BitVec 64) 8)
    (Avx512_i64.inst E).sum_to_register (Avx512_i64.inst E).sum_to_value :=
  foldFaithful_of (C13X86.Avx512_i64.add E) _ _ _ rfl (sum_to_value E)
/-- `Avx512_i64.max_to_value`: the in-order `_mm512_reduce_*` intrinsic -/
theorem max_to_value (E : Env) (r : BitVec 512) :
    (Avx512_i64.inst E).max_to_value r = pure (X86.reduceOrdered IntPrim.smax (BitVec.intMin 64) 8 (xlanes 64 r)) :=
  rfl
/-- … which, `(IntPrim.smax, (BitVec.intMin 64))` being a commutative monoid, is the fold of all 8 lanes -/
theorem hmax_eq (f : Nat → BitVec 64) : X86.reduceOrdered IntPrim.smax (BitVec.intMin 64) 8 f = sumR IntPrim.smax (BitVec.intMin 64) f 8 :=
  reduceOrdered_eq_sumR (BitVec.intMin 64) 8 f
/-- the `FoldFaithful` record of `max_to_register` / `max_to_value` -/
theorem maxFold (E : Env) : FoldFaithful 8 (xlanes 64) (sintSpec 64).cmpMax (X86.reduceOrdered IntPrim.smax (BitVec.intMin 64) 8)
    (Avx512_i64.inst E).max_to_register (Avx512_i64.inst E).max_to_value :=
  foldFaithful_of (C13X86.Avx512_i64.max E) _ _ _ rfl (max_to_value E)
/-- `Avx512_i64.min_to_value`: the in-order `_mm512_reduce_*` intrinsic -/
theorem min_to_value (E : Env) (r : BitVec 512) :
    (Avx512_i64.inst E).min_to_value r = pure (X86.reduceOrdered IntPrim.smin (BitVec.intMax 64) 8 (xlanes 64 r)) :=
  rfl
/-- … which, `(IntPrim.smin, (BitVec.intMax 64))` being a commutative monoid, is the fold of all 8 lanes -/
theorem hmin_eq (f : Nat → BitVec 64) : X86.reduceOrdered IntPrim.smin (BitVec.intMax 64) 8 f = sumR IntPrim.smin (BitVec.intMax 64) f 8 :=
  reduceOrdered_eq_sumR (BitVec.intMax 64) 8 f
/-- the `FoldFaithful` record of `min_to_register` / `min_to_value` -/
theorem minFold (E : Env) : FoldFaithful 8 (xlanes 64) (sintSpec 64).cmpMin (X86.reduceOrdered IntPrim.smin (BitVec.intMax 64) 8)
    (Avx512_i64.inst E).min_to_register (Avx512_i64.inst E).min_to_value :=
  foldFaithful_of (C13X86.Avx512_i64.min E) _ _ _ rfl (min_to_value E)
end Avx512_i64

namespace Avx512_u8
/-- `Avx512_u8.sum_to_value`: delegates to the `i8` fold -/
theorem sum_to_value (E : Env) (hfuel : 5 ≤ E.fuel) (r : BitVec 512) :
    (Avx512_u8.inst E).sum_to_value r = pure (hfoldHalf512 (· + ·) (0 : BitVec 8) 16 4 (xlanes 8 r)) := by
  have h : (Avx512_u8.inst E).sum_to_value r = ((Avx512_i8.inst E).sum_to_value r >>= fun t => pure t) := rfl
  rw [h, Avx512_i8.sum_to_value E hfuel r]
  rfl
/-- … which, `((· + ·), (0 : BitVec 8))` being a commutative monoid, is the fold of all 64 lanes -/
theorem hsum_eq (f : Nat → BitVec 8) : hfoldHalf512 (· + ·) (0 : BitVec 8) 16 4 f = sumR (· + ·) (0 : BitVec 8) f 64 :=
  hfoldHalf512_eq_sumR (add_monoid 8) 4 f
/-- the `FoldFaithful` record of `sum_to_register` / `sum_to_value` -/
theorem sumFold (E : Env) (hfuel : 5 ≤ E.fuel) : FoldFaithful 64 (xlanes 8) (uintSpec 8).add (hfoldHalf512 (· + ·) (0 : BitVec 8) 16 4)
    (Avx512_u8.inst E).sum_to_register (Avx512_u8.inst E).sum_to_value :=
  foldFaithful_of (C13X86.Avx512_u8.add E) _ _ _ rfl (sum_to_value E hfuel)
/-- `Avx512_u8.max_to_value`: 256-bit halves combined, then the AVX2 fold -/
theorem max_to_value (E : Env) (hfuel : 5 ≤ E.fuel) (r : BitVec 512) :
    (Avx512_u8.inst E).max_to_value r = pure (hfoldHalf512 IntPrim.umax (0 : BitVec 8) 16 4 (xlanes 8 r)) := by
  show _root_.Cfavml.Avx512_u8.max_to_value E r = _
  unfold _root_.Cfavml.Avx512_u8.max_to_value
  have := avx512_fold4 E (by decide) 4 (by decide) (by decide) IntPrim.umax (0 : BitVec 8) E.fuel (by omega) _ (shuffle_1032 E) r
  simp only [_root_.Cfavml.Avx2_u8.add, _root_.Cfavml.Avx2_u8.max, _root_.Cfavml.Avx2_u8.min, pure_bind]
  simp only [bind_pure] at this
  exact this
/-- … which, `(IntPrim.umax, (0 : BitVec 8))` being a commutative monoid, is the fold of all 64 lanes -/
theorem hmax_eq (f : Nat → BitVec 8) : hfoldHalf512 IntPrim.umax (0 : BitVec 8) 16 4 f = sumR IntPrim.umax (0 : BitVec 8) f 64 :=
  hfoldHalf512_eq_sumR (umax_monoid 8) 4 f
/-- the `FoldFaithful` record of `max_to_register` / `max_to_value` -/
theorem maxFold (E : Env) (hfuel : 5 ≤ E.fuel) : FoldFaithful 64 (xlanes 8) (uintSpec 8).cmpMax (hfoldHalf512 IntPrim.umax (0 : BitVec 8) 16 4)
    (Avx512_u8.inst E).max_to_register (Avx512_u8.inst E).max_to_value :=
  foldFaithful_of (C13X86.Avx512_u8.max E) _ _ _ rfl (max_to_value E hfuel)
/-- `Avx512_u8.min_to_value`: 256-bit halves combined, then the AVX2 fold -/
theorem min_to_value (E : Env) (hfuel : 5 ≤ E.fuel) (r : BitVec 512) :
    (Avx512_u8.inst E).min_to_value r = pure (hfoldHalf512 IntPrim.umin (BitVec.allOnes 8) 16 4 (xlanes 8 r)) := by
  show _root_.Cfavml.Avx512_u8.min_to_value E r = _
  unfold _root_.Cfavml.Avx512_u8.min_to_value
  have := avx512_fold4 E (by decide) 4 (by decide) (by decide) IntPrim.umin (BitVec.allOnes 8) E.fuel (by omega) _ (shuffle_1032 E) r
  simp only [_root_.Cfavml.Avx2_u8.add, _root_.Cfavml.Avx2_u8.max, _root_.Cfavml.Avx2_u8.min, pure_bind]
  simp only [bind_pure] at this
  exact this
/-- … which, `(IntPrim.umin, (BitVec.allOnes 8))` being a commutative monoid, is the fold of all 64 lanes -/
theorem hmin_eq (f : Nat → BitVec 8) : hfoldHalf512 IntPrim.umin (BitVec.allOnes 8) 16 4 f = sumR IntPrim.umin (BitVec.allOnes 8) f 64 :=
  hfoldHalf512_eq_sumR (umin_monoid 8) 4 f
/-- the `FoldFaithful` record of `min_to_register` / `min_to_value` -/
theorem minFold (E : Env) (hfuel : 5 ≤ E.fuel) : FoldFaithful 64 (xlanes 8) (uintSpec 8).cmpMin (hfoldHalf512 IntPrim.umin (BitVec.allOnes 8) 16 4)
    (Avx512_u8.inst E).min_to_register (Avx512_u8.inst E).min_to_value :=
  foldFaithful_of (C13X86.Avx512_u8.min E) _ _ _ rfl (min_to_value E hfuel)
end Avx512_u8

namespace Avx512_u16
/-- `Avx512_u16.sum_to_value`: delegates to the `i16` fold -/
theorem sum_to_value (E : Env) (hfuel : 3 ≤ E.fuel) (r : BitVec 512) :
    (Avx512_u16.inst E).sum_to_value r = pure (hfoldHalf512 (· + ·) (0 : BitVec 16) 8 2 (xlanes 16 r)) := by
  have h : (Avx512_u16.inst E).sum_to_value r = ((Avx512_i16.inst E).sum_to_value r >>= fun t => pure t) := rfl
  rw [h, Avx512_i16.sum_to_value E hfuel r]
  rfl
/-- … which, `((· + ·), (0 : BitVec 16))` being a commutative monoid, is the fold of all 32 lanes -/
theorem hsum_eq (f : Nat → BitVec 16) : hfoldHalf512 (· + ·) (0 : BitVec 16) 8 2 f = sumR (· + ·) (0 : BitVec 16) f 32 :=
  hfoldHalf512_eq_sumR (add_monoid 16) 2 f
/-- the `FoldFaithful` record of `sum_to_register` / `sum_to_value` -/
theorem sumFold (E : Env) (hfuel : 3 ≤ E.fuel) : FoldFaithful 32 (xlanes 16) (uintSpec 16).add (hfoldHalf512 (· + ·) (0 : BitVec 16) 8 2)
    (Avx512_u16.inst E).sum_to_register (Avx512_u16.inst E).sum_to_value :=
  foldFaithful_of (C13X86.Avx512_u16.add E) _ _ _ rfl (sum_to_value E hfuel)
/-- `Avx512_u16.max_to_value`: 256-bit halves combined, then the AVX2 fold -/
theorem max_to_value (E : Env) (hfuel : 3 ≤ E.fuel) (r : BitVec 512) :
    (Avx512_u16.inst E).max_to_value r = pure (hfoldHalf512 IntPrim.umax (0 : BitVec 16) 8 2 (xlanes 16 r)) := by
  show _root_.Cfavml.Avx512_u16.max_to_value E r = _
  unfold _root_.Cfavml.Avx512_u16.max_to_value
  have := avx512_fold4 E (by decide) 2 (by decide) (by decide) IntPrim.umax (0 : BitVec 16) E.fuel (by omega) _ (shuffle_1032 E) r
  simp only [_root_.Cfavml.Avx2_u16.add, _root_.Cfavml.Avx2_u16.max, _root_.Cfavml.Avx2_u16.min, pure_bind]
  simp only [bind_pure] at this
  exact this
/-- … which, `(IntPrim.umax, (0 : BitVec 16))` being a commutative monoid, is the fold of all 32 lanes -/
theorem hmax_eq (f : Nat → BitVec 16) : hfoldHalf512 IntPrim.umax (0 : BitVec 16) 8 2 f = sumR IntPrim.umax (0 : BitVec 16) f 32 :=
  hfoldHalf512_eq_sumR (umax_monoid 16) 2 f
/-- the `FoldFaithful` record of `max_to_register` / `max_to_value` -/
theorem maxFold (E : Env) (hfuel : 3 ≤ E.fuel) : FoldFaithful 32 (xlanes 16) (uintSpec 16).cmpMax (hfoldHalf512 IntPrim.umax (0 : BitVec 16) 8 2)
    (Avx512_u16.inst E).max_to_register (Avx512_u16.inst E).max_to_value :=
  foldFaithful_of (C13X86.Avx512_u16.max E) _ _ _ rfl (max_to_value E hfuel)
/-- `Avx512_u16.min_to_value`: 256-bit halves combined, then the AVX2 fold -/
theorem min_to_value (E : Env) (hfuel : 3 ≤ E.fuel) (r : BitVec 512) :
    (Avx512_u16.inst E).min_to_value r = pure (hfoldHalf512 IntPrim.umin (BitVec.allOnes 16) 8 2 (xlanes 16 r)) := by
  show _root_.Cfavml.Avx512_u16.min_to_value E r = _
  unfold _root_.Cfavml.Avx512_u16.min_to_value
  have := avx512_fold4 E (by decide) 2 (by decide) (by decide) IntPrim.umin (BitVec.allOnes 16) E.fuel (by omega) _ (shuffle_1032 E) r
  simp only [_root_.Cfavml.Avx2_u16.add, _root_.Cfavml.Avx2_u16.max, _root_.Cfavml.Avx2_u16.min, pure_bind]
  simp only [bind_pure] at this
  exact this
/-- … which, `(IntPrim.umin, (BitVec.allOnes 16))` being a commutative monoid, is the fold of all 32 lanes -/
theorem hmin_eq (f : Nat → BitVec 16) : hfoldHalf512 IntPrim.umin (BitVec.allOnes 16) 8 2 f = sumR IntPrim.umin (BitVec.allOnes 16) f 32 :=
  hfoldHalf512_eq_sumR (umin_monoid 16) 2 f
/-- the `FoldFaithful` record of `min_to_register` / `min_to_value` -/
theorem minFold (E : Env) (hfuel : 3 ≤ E.fuel) : FoldFaithful 32 (xlanes 16) (uintSpec 16).cmpMin (hfoldHalf512 IntPrim.umin (BitVec.allOnes 16) 8 2)
    (Avx512_u16.inst E).min_to_register (Avx512_u16.inst E).min_to_value :=
  foldFaithful_of (C13X86.Avx512_u16.min E) _ _ _ rfl (min_to_value E hfuel)
end Avx512_u16

namespace Avx512_u32
/-- `Avx512_u32.sum_to_value`: the in-order `_mm512_reduce_*` intrinsic -/
theorem sum_to_value (E : Env) (r : BitVec 512) :
    (Avx512_u32.inst E).sum_to_value r = pure (X86.reduceOrdered (· + ·) (0 : BitVec 32) 16 (xlanes 32 r)) :=
  rfl
/-- … which, `((· + ·), (0 : BitVec 32))` being a commutative monoid, is the fold of all 16 lanes -/
theorem hsum_eq (f : Nat → BitVec 32) : X86.reduceOrdered (· + ·) (0 : BitVec 32) 16 f = sumR (· + ·) (0 : BitVec 32) f 16 :=
  reduceOrdered_eq_sumR (0 : BitVec 32) 16 f
/-- the `FoldFaithful` record of `sum_to_register` / `sum_to_value` -/
theorem sumFold (E : Env) : FoldFaithful 16 (xlanes 32) (uintSpec 32).add (X86.reduceOrdered (· + ·) (0 : BitVec 32) 16)
    (Avx512_u32.inst E).sum_to_register (Avx512_u32.inst E).sum_to_value :=
  foldFaithful_of (C13X86.Avx512_u32.add E) _ _ _ rfl (sum_to_value E)
/-- `Avx512_u32.max_to_value`: the in-order `_mm512_reduce_*` intrinsic -/
theorem max_to_value (E : Env) (r : BitVec 512) :
    (Avx512_u32.inst E).max_to_value r = pure (X86.reduceOrdered IntPrim.umax (0 : BitVec 32) 16 (xlanes 32 r)) :=
  rfl
/-- … which, `(IntPrim.umax, (0 : BitVec 32))` being a commutative monoid, is the fold of all 16 lanes -/
theorem hmax_eq (f : Nat → BitVec 32) : X86.reduceOrdered IntPrim.umax (0 : BitVec 32) 16 f = sumR IntPrim.umax (0 : BitVec 32) f 16 :=
  reduceOrdered_eq_sumR (0 : BitVec 32) 16 f
/-- the `FoldFaithful` record of `max_to_register` / `max_to_value` -/
theorem maxFold (E : Env) : FoldFaithful 16 (xlanes 32) (uintSpec 32).cmpMax (X86.reduceOrdered IntPrim.umax (0 : BitVec 32) 16)
    (Avx512_u32.inst E).max_to_register (Avx512_u32.inst E).max_to_value :=
  foldFaithful_of (C13X86.Avx512_u32.max E) _ _ _ rfl (max_to_value E)
/-- `Avx512_u32.min_to_value`: the in-order `_mm512_reduce_*` intrinsic -/
theorem min_to_value (E : Env) (r : BitVec 512) :
    (Avx512_u32.inst E).min_to_value r = pure (X86.reduceOrdered IntPrim.umin (BitVec.allOnes 32) 16 (xlanes 32 r)) :=
  rfl
/-- … which, `(IntPrim.umin, (BitVec.allOnes 32))` being a commutative monoid, is the fold of all 16 lanes -/
theorem hmin_eq (f : Nat → BitVec 32) : X86.reduceOrdered IntPrim.umin (BitVec.allOnes 32) 16 f = sumR IntPrim.umin (BitVec.allOnes 32) f 16 :=
  reduceOrdered_eq_sumR (BitVec.allOnes 32) 16 f
/-- the `FoldFaithful` record of `min_to_register` / `min_to_value` -/
theorem minFold (E : Env) : FoldFaithful 16 (xlanes 32) (uintSpec 32).cmpMin (X86.reduceOrdered IntPrim.umin (BitVec.allOnes 32) 16)
    (Avx512_u32.inst E).min_to_register (Avx512_u32.inst E).min_to_value :=
  foldFaithful_of (C13X86.Avx512_u32.min E) _ _ _ rfl (min_to_value E)
end Avx512_u32

namespace Avx512_u64
/-- `Avx512_u64.sum_to_value`: the in-order `_mm512_reduce_*` intrinsic -/
theorem sum_to_value (E : Env) (r : BitVec 512) :
    (Avx512_u64.inst E).sum_to_value r = pure (X86.reduceOrdered (· + ·) (0 : BitVec 64) 8 (xlanes 64 r)) :=
  rfl
/-- … which, `((· + ·), (0 : BitVec 64))` being a commutative monoid, is the fold of all 8 lanes -/
theorem hsum_eq (f : Nat → BitVec 64) : X86.reduceOrdered (· + ·) (0 : BitVec 64) 8 f = sumR (· + ·) (0 : BitVec 64) f 8 :=
  reduceOrdered_eq_sumR (0 : BitVec 64) 8 f
/-- the `FoldFaithful` record of `sum_to_register` / `sum_to_value` -/
theorem sumFold (E : Env) : FoldFaithful 8 (xlanes 64) (uintSpec 64).add (X86.reduceOrdered (· + ·) (0 : BitVec 64) 8)
    (Avx512_u64.inst E).sum_to_register (Avx512_u64.inst E).sum_to_value :=
  foldFaithful_of (C13X86.Avx512_u64.add E) _ _ _ rfl (sum_to_value E)
/-- `Avx512_u64.max_to_value`: the in-order `_mm512_reduce_*` intrinsic -/
theorem max_to_value (E : Env) (r : BitVec 512) :
    (Avx512_u64.inst E).max_to_value r = pure (X86.reduceOrdered IntPrim.umax (0 : BitVec 64) 8 (xlanes 64 r)) :=
  rfl
/-- … which, `(IntPrim.umax, (0 : BitVec 64))` being a commutative monoid, is the fold of all 8 lanes -/
theorem hmax_eq (f : Nat → BitVec 64) : X86.reduceOrdered IntPrim.umax (0 : BitVec 64) 8 f = sumR IntPrim.umax (0 : BitVec 64) f 8 :=
  reduceOrdered_eq_sumR (0 : BitVec 64) 8 f
/-- the `FoldFaithful` record of `max_to_register` / `max_to_value` -/
theorem maxFold (E : Env) : FoldFaithful 8 (xlanes 64) (uintSpec 64).cmpMax (X86.reduceOrdered IntPrim.umax (0 : BitVec 64) 8)
    (Avx512_u64.inst E).max_to_register (Avx512_u64.inst E).max_to_value :=
  foldFaithful_of (C13X86.Avx512_u64.max E) _ _ _ rfl (max_to_value E)
/-- `Avx512_u64.min_to_value`: the in-order `_mm512_reduce_*` intrinsic -/
theorem min_to_value (E : Env) (r : BitVec 512) :
    (Avx512_u64.inst E).min_to_value r = pure (X86.reduceOrdered IntPrim.umin (BitVec.allOnes 64) 8 (xlanes 64 r)) :=
  rfl
/-- … which, `(IntPrim.umin, (BitVec.allOnes 64))` being a commutative monoid, is the fold of all 8 lanes -/
theorem hmin_eq (f : Nat → BitVec 64) : X86.reduceOrdered IntPrim.umin (BitVec.allOnes 64) 8 f = sumR IntPrim.umin (BitVec.allOnes 64) f 8 :=
  reduceOrdered_eq_sumR (BitVec.allOnes 64) 8 f
/-- the `FoldFaithful` record of `min_to_register` / `min_to_value` -/
theorem minFold (E : Env) : FoldFaithful 8 (xlanes 64) (uintSpec 64).cmpMin (X86.reduceOrdered IntPrim.umin (BitVec.allOnes 64) 8)
    (Avx512_u64.inst E).min_to_register (Avx512_u64.inst E).min_to_value :=
  foldFaithful_of (C13X86.Avx512_u64.min E) _ _ _ rfl (min_to_value E)
end Avx512_u64

end Cfavml.Thm.C13X86Hard
