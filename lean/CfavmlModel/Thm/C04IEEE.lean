/-
C04 / C06 with the arithmetic hypothesis reduced to IEEE-754 correct rounding (`Lemmas/IEEE.lean`, `Lemmas/FloatIEEE.lean`):
if every finite result of `+`, `×` (and `fma`) is a float nearest to the exact result, the dot-product kernels of the real
backends are within `γ(n+3)·Σ|aᵢbᵢ|` with `u = 2^{-24}` (binary32) / `2^{-53}` (binary64). "No product underflows" is the
statement that each exact product `aᵢ·bᵢ` lies on the grid `2^emin·ℤ` of the format.
-/
import CfavmlModel.Lemmas.FloatIEEE
import CfavmlModel.Thm.X86Float
import CfavmlModel.Thm.NeonFloat

namespace Cfavml.Thm.C04IEEE
open Cfavml.Thm KernelModel FloatReduce Rounding IEEE

/-- `Avx2` × `f32` (unfused): binary32, `u = 2^{-24}` -/
theorem avx2_f32_dot (E : Env) (hn : E.feat_nightly = false) (val : F32 → ℝ) (Fin : F32 → Prop)
    (C : CorrectlyRounded (f32Spec E false) 24 (-149) val Fin)
    (a b : Slice F32) (hb : b.size = a.size) (hfuel : a.size < E.fuel)
    (hk : ((a.size + 3 : ℕ) : ℝ) * (2 : ℝ) ^ (-(24 : ℤ)) < 1)
    (hgrid : ∀ i, OnGrid (-149) (val (a.get i) * val (b.get i))) :
    ∃ v, generic_dot_product E (Avx2_f32.inst E) (AutoMath_f32 E) a.size a b = pure v ∧
      (Fin v → |val v - ((List.range a.size).map (fun i => val (a.get i) * val (b.get i))).sum|
        ≤ gamma ((2 : ℝ) ^ (-(24 : ℤ))) (a.size + 3) * ((List.range a.size).map (fun i => |val (a.get i) * val (b.get i)|)).sum) :=
  (X86Float.Avx2_f32_bounds E hn (FloatSem.ofIEEE C) a b hb hfuel hk hgrid).1

/-- `Avx512` × `f64` (fused): binary64, `u = 2^{-53}` -/
theorem avx512_f64_dot (E : Env) (hn : E.feat_nightly = false) (val : F64 → ℝ) (Fin : F64 → Prop)
    (C : CorrectlyRounded (f64Spec E false) 53 (-1074) val Fin)
    (hfma : ∀ x y acc, Fin (E.F.fma64 x y acc) → Fin acc ∧ IsNearest 53 (-1074) (val x * val y + val acc) (val (E.F.fma64 x y acc)))
    (a b : Slice F64) (hb : b.size = a.size) (hfuel : a.size < E.fuel)
    (hk : ((a.size + 3 : ℕ) : ℝ) * (2 : ℝ) ^ (-(53 : ℤ)) < 1)
    (hgrid : ∀ i, OnGrid (-1074) (val (a.get i) * val (b.get i))) :
    ∃ v, generic_dot_product E (Avx512_f64.inst E) (AutoMath_f64 E) a.size a b = pure v ∧
      (Fin v → |val v - ((List.range a.size).map (fun i => val (a.get i) * val (b.get i))).sum|
        ≤ gamma ((2 : ℝ) ^ (-(53 : ℤ))) (a.size + 3) * ((List.range a.size).map (fun i => |val (a.get i) * val (b.get i)|)).sum) :=
  (X86Float.Avx512_f64_bounds E hn (FloatSem.ofIEEEFused C hfma) a b hb hfuel hk hgrid).1

/-- `Neon` × `f32` (fused) -/
theorem neon_f32_dot (E : Env) (hn : E.feat_nightly = false) (val : F32 → ℝ) (Fin : F32 → Prop)
    (C : CorrectlyRounded (f32Spec E false) 24 (-149) val Fin)
    (hfma : ∀ x y acc, Fin (E.F.fma32 x y acc) → Fin acc ∧ IsNearest 24 (-149) (val x * val y + val acc) (val (E.F.fma32 x y acc)))
    (a b : Slice F32) (hb : b.size = a.size) (hfuel : a.size < E.fuel)
    (hk : ((a.size + 3 : ℕ) : ℝ) * (2 : ℝ) ^ (-(24 : ℤ)) < 1)
    (hgrid : ∀ i, OnGrid (-149) (val (a.get i) * val (b.get i))) :
    ∃ v, generic_dot_product E (Neon_f32.inst E) (AutoMath_f32 E) a.size a b = pure v ∧
      (Fin v → |val v - ((List.range a.size).map (fun i => val (a.get i) * val (b.get i))).sum|
        ≤ gamma ((2 : ℝ) ^ (-(24 : ℤ))) (a.size + 3) * ((List.range a.size).map (fun i => |val (a.get i) * val (b.get i)|)).sum) :=
  (NeonFloat.Neon_f32_bounds E hn (FloatSem.ofIEEEFused C hfma) a b hb hfuel hk hgrid).1

/-- the hypotheses are satisfiable: a float of the format is its own nearest float (non-vacuity of `IsNearest`),
and `1 = 2^23 · 2^{-23}` is a binary32 float -/
example : IsFloat 24 (-149) 1 ∧ IsNearest 24 (-149) 1 1 := by
  have h : IsFloat 24 (-149) 1 := ⟨2 ^ 23, -23, by norm_num, by norm_num, by norm_num [zpow_neg]⟩
  exact ⟨h, h, fun f _ => by simp⟩

end Cfavml.Thm.C04IEEE
