/-
C18 — the scalar math layer agrees with the primitive types it wraps.
For every element type the generated `StdMath` / `FastMath` / `AutoMath` dictionaries (Gen/Math.lean,
regenerated from math/default.rs and math/fast_math.rs, including the `define_int_ops!` expansions) compute
exactly the primitive operations of `Spec/Scalar.lean`; the algebraic facts the property lists are then
facts about `BitVec` arithmetic (integers) or named IEEE hypotheses on `FloatOps` (floats).
-/
import CfavmlModel.Spec.Scalar
import CfavmlModel.Gen.Math

namespace Cfavml.Thm.C18

/-! ### the dictionaries are the primitives -/

section ints
open IntPrim

theorem sdivW_ok {w : Nat} (x y : BitVec w) (h : (y != 0) = true) :
    (do let t ← sdivW x y; pure t) = (pure (BitVec.sdiv x y) : Exec _) := by
  have hy : ¬ (y = 0) := by simpa using h
  unfold sdivW; rw [if_neg hy]
theorem sdivW_panic {w : Nat} (x y : BitVec w) (h : (y != 0) = false) :
    (do let t ← sdivW x y; pure t) = (throw Fault.panic : Exec _) := by
  have hy : y = 0 := by simpa using h
  unfold sdivW; rw [if_pos hy]
theorem udivW_ok {w : Nat} (x y : BitVec w) (h : (y != 0) = true) :
    (do let t ← udivW x y; pure t) = (pure (x / y) : Exec _) := by
  have hy : ¬ (y = 0) := by simpa using h
  unfold udivW; rw [if_neg hy]
theorem udivW_panic {w : Nat} (x y : BitVec w) (h : (y != 0) = false) :
    (do let t ← udivW x y; pure t) = (throw Fault.panic : Exec _) := by
  have hy : y = 0 := by simpa using h
  unfold udivW; rw [if_pos hy]

theorem std_i8 (E : Env) : MathFaithful (StdMath_i8 E) (sintSpec 8) :=
  ⟨rfl, rfl, rfl, rfl, fun _ _ => rfl, fun _ _ => rfl, fun _ _ => rfl, fun x y h => sdivW_ok x y h, fun x y h => sdivW_panic x y h, fun _ _ => rfl, fun _ _ => rfl, fun _ _ => rfl⟩
theorem std_i16 (E : Env) : MathFaithful (StdMath_i16 E) (sintSpec 16) :=
  ⟨rfl, rfl, rfl, rfl, fun _ _ => rfl, fun _ _ => rfl, fun _ _ => rfl, fun x y h => sdivW_ok x y h, fun x y h => sdivW_panic x y h, fun _ _ => rfl, fun _ _ => rfl, fun _ _ => rfl⟩
theorem std_i32 (E : Env) : MathFaithful (StdMath_i32 E) (sintSpec 32) :=
  ⟨rfl, rfl, rfl, rfl, fun _ _ => rfl, fun _ _ => rfl, fun _ _ => rfl, fun x y h => sdivW_ok x y h, fun x y h => sdivW_panic x y h, fun _ _ => rfl, fun _ _ => rfl, fun _ _ => rfl⟩
theorem std_i64 (E : Env) : MathFaithful (StdMath_i64 E) (sintSpec 64) :=
  ⟨rfl, rfl, rfl, rfl, fun _ _ => rfl, fun _ _ => rfl, fun _ _ => rfl, fun x y h => sdivW_ok x y h, fun x y h => sdivW_panic x y h, fun _ _ => rfl, fun _ _ => rfl, fun _ _ => rfl⟩
theorem std_u8 (E : Env) : MathFaithful (StdMath_u8 E) (uintSpec 8) :=
  ⟨rfl, rfl, rfl, rfl, fun _ _ => rfl, fun _ _ => rfl, fun _ _ => rfl, fun x y h => udivW_ok x y h, fun x y h => udivW_panic x y h, fun _ _ => rfl, fun _ _ => rfl, fun _ _ => rfl⟩
theorem std_u16 (E : Env) : MathFaithful (StdMath_u16 E) (uintSpec 16) :=
  ⟨rfl, rfl, rfl, rfl, fun _ _ => rfl, fun _ _ => rfl, fun _ _ => rfl, fun x y h => udivW_ok x y h, fun x y h => udivW_panic x y h, fun _ _ => rfl, fun _ _ => rfl, fun _ _ => rfl⟩
theorem std_u32 (E : Env) : MathFaithful (StdMath_u32 E) (uintSpec 32) :=
  ⟨rfl, rfl, rfl, rfl, fun _ _ => rfl, fun _ _ => rfl, fun _ _ => rfl, fun x y h => udivW_ok x y h, fun x y h => udivW_panic x y h, fun _ _ => rfl, fun _ _ => rfl, fun _ _ => rfl⟩
theorem std_u64 (E : Env) : MathFaithful (StdMath_u64 E) (uintSpec 64) :=
  ⟨rfl, rfl, rfl, rfl, fun _ _ => rfl, fun _ _ => rfl, fun _ _ => rfl, fun x y h => udivW_ok x y h, fun x y h => udivW_panic x y h, fun _ _ => rfl, fun _ _ => rfl, fun _ _ => rfl⟩
theorem fast_i8 (E : Env) : MathFaithful (FastMath_i8 E) (sintSpec 8) :=
  ⟨rfl, rfl, rfl, rfl, fun _ _ => rfl, fun _ _ => rfl, fun _ _ => rfl, fun x y h => sdivW_ok x y h, fun x y h => sdivW_panic x y h, fun _ _ => rfl, fun _ _ => rfl, fun _ _ => rfl⟩
theorem fast_i16 (E : Env) : MathFaithful (FastMath_i16 E) (sintSpec 16) :=
  ⟨rfl, rfl, rfl, rfl, fun _ _ => rfl, fun _ _ => rfl, fun _ _ => rfl, fun x y h => sdivW_ok x y h, fun x y h => sdivW_panic x y h, fun _ _ => rfl, fun _ _ => rfl, fun _ _ => rfl⟩
theorem fast_i32 (E : Env) : MathFaithful (FastMath_i32 E) (sintSpec 32) :=
  ⟨rfl, rfl, rfl, rfl, fun _ _ => rfl, fun _ _ => rfl, fun _ _ => rfl, fun x y h => sdivW_ok x y h, fun x y h => sdivW_panic x y h, fun _ _ => rfl, fun _ _ => rfl, fun _ _ => rfl⟩
theorem fast_i64 (E : Env) : MathFaithful (FastMath_i64 E) (sintSpec 64) :=
  ⟨rfl, rfl, rfl, rfl, fun _ _ => rfl, fun _ _ => rfl, fun _ _ => rfl, fun x y h => sdivW_ok x y h, fun x y h => sdivW_panic x y h, fun _ _ => rfl, fun _ _ => rfl, fun _ _ => rfl⟩
theorem fast_u8 (E : Env) : MathFaithful (FastMath_u8 E) (uintSpec 8) :=
  ⟨rfl, rfl, rfl, rfl, fun _ _ => rfl, fun _ _ => rfl, fun _ _ => rfl, fun x y h => udivW_ok x y h, fun x y h => udivW_panic x y h, fun _ _ => rfl, fun _ _ => rfl, fun _ _ => rfl⟩
theorem fast_u16 (E : Env) : MathFaithful (FastMath_u16 E) (uintSpec 16) :=
  ⟨rfl, rfl, rfl, rfl, fun _ _ => rfl, fun _ _ => rfl, fun _ _ => rfl, fun x y h => udivW_ok x y h, fun x y h => udivW_panic x y h, fun _ _ => rfl, fun _ _ => rfl, fun _ _ => rfl⟩
theorem fast_u32 (E : Env) : MathFaithful (FastMath_u32 E) (uintSpec 32) :=
  ⟨rfl, rfl, rfl, rfl, fun _ _ => rfl, fun _ _ => rfl, fun _ _ => rfl, fun x y h => udivW_ok x y h, fun x y h => udivW_panic x y h, fun _ _ => rfl, fun _ _ => rfl, fun _ _ => rfl⟩
theorem fast_u64 (E : Env) : MathFaithful (FastMath_u64 E) (uintSpec 64) :=
  ⟨rfl, rfl, rfl, rfl, fun _ _ => rfl, fun _ _ => rfl, fun _ _ => rfl, fun x y h => udivW_ok x y h, fun x y h => udivW_panic x y h, fun _ _ => rfl, fun _ _ => rfl, fun _ _ => rfl⟩

end ints

/-! ### floats: the dictionaries are the IEEE primitives (`E.F`), the fast layer the `f*_algebraic` ones -/

theorem std_f32 (E : Env) : MathFaithful (StdMath_f32 E) (f32Spec E false) :=
  ⟨rfl, rfl, rfl, rfl, fun _ _ => rfl, fun _ _ => rfl, fun _ _ => rfl, fun _ _ _ => rfl,
   fun _ _ h => by simp [f32Spec] at h, fun _ _ => rfl, fun _ _ => rfl, fun _ _ => rfl⟩
theorem std_f64 (E : Env) : MathFaithful (StdMath_f64 E) (f64Spec E false) :=
  ⟨rfl, rfl, rfl, rfl, fun _ _ => rfl, fun _ _ => rfl, fun _ _ => rfl, fun _ _ _ => rfl,
   fun _ _ h => by simp [f64Spec] at h, fun _ _ => rfl, fun _ _ => rfl, fun _ _ => rfl⟩
theorem fast_f32 (E : Env) : MathFaithful (FastMath_f32 E) (f32Spec E true) :=
  ⟨rfl, rfl, rfl, rfl, fun _ _ => rfl, fun _ _ => rfl, fun _ _ => rfl, fun _ _ _ => rfl,
   fun _ _ h => by simp [f32Spec] at h, fun _ _ => rfl, fun _ _ => rfl, fun _ _ => rfl⟩
theorem fast_f64 (E : Env) : MathFaithful (FastMath_f64 E) (f64Spec E true) :=
  ⟨rfl, rfl, rfl, rfl, fun _ _ => rfl, fun _ _ => rfl, fun _ _ => rfl, fun _ _ _ => rfl,
   fun _ _ h => by simp [f64Spec] at h, fun _ _ => rfl, fun _ _ => rfl, fun _ _ => rfl⟩

/-- the float square root of the std build is the IEEE square root primitive; without `std` it is the
bit-trick approximation `f32_sqrt_fast` (modelled, nothing is claimed about its accuracy) -/
theorem std_f32_sqrt (E : Env) (h : E.feat_std = true) (a : F32) : (StdMath_f32 E).sqrt a = pure (E.F.sqrt32 a) := by
  show StdMath_f32.sqrt E a = _
  unfold StdMath_f32.sqrt
  simp [h]
theorem std_f64_sqrt (E : Env) (h : E.feat_std = true) (a : F64) : (StdMath_f64 E).sqrt a = pure (E.F.sqrt64 a) := by
  show StdMath_f64.sqrt E a = _
  unfold StdMath_f64.sqrt
  simp [h]

/-- integer square root: `(a as f64).sqrt() as T` -/
theorem std_i32_sqrt (E : Env) (h : E.feat_std = true) (a : I32) :
    (StdMath_i32 E).sqrt a = pure (BitVec.ofInt 32 (E.F.f64ToInt (E.F.sqrt64 (E.F.intToF64 a.toInt)) (-2147483648) 2147483647)) := by
  show StdMath_i32.sqrt E a = _
  unfold StdMath_i32.sqrt
  rw [std_f64_sqrt E h]
  rfl
theorem std_u64_sqrt (E : Env) (h : E.feat_std = true) (a : U64) :
    (StdMath_u64 E).sqrt a = pure (BitVec.ofInt 64 (E.F.f64ToInt (E.F.sqrt64 (E.F.intToF64 (BitVec.toNat a : Int))) 0 18446744073709551615)) := by
  show StdMath_u64.sqrt E a = _
  unfold StdMath_u64.sqrt
  rw [std_f64_sqrt E h]
  rfl

/-! ### `AutoMath`: `StdMath` by default, `FastMath` with the `nightly` feature -/

theorem auto_f32 (E : Env) : MathFaithful (AutoMath_f32 E) (f32Spec E E.feat_nightly) := by
  unfold AutoMath_f32
  cases h : E.feat_nightly
  · simpa [h] using std_f32 E
  · simpa [h] using fast_f32 E
theorem auto_f64 (E : Env) : MathFaithful (AutoMath_f64 E) (f64Spec E E.feat_nightly) := by
  unfold AutoMath_f64
  cases h : E.feat_nightly
  · simpa [h] using std_f64 E
  · simpa [h] using fast_f64 E

theorem auto_i8 (E : Env) : MathFaithful (AutoMath_i8 E) (sintSpec 8) := by
  unfold AutoMath_i8; split; exact std_i8 E; exact fast_i8 E
theorem auto_i16 (E : Env) : MathFaithful (AutoMath_i16 E) (sintSpec 16) := by
  unfold AutoMath_i16; split; exact std_i16 E; exact fast_i16 E
theorem auto_i32 (E : Env) : MathFaithful (AutoMath_i32 E) (sintSpec 32) := by
  unfold AutoMath_i32; split; exact std_i32 E; exact fast_i32 E
theorem auto_i64 (E : Env) : MathFaithful (AutoMath_i64 E) (sintSpec 64) := by
  unfold AutoMath_i64; split; exact std_i64 E; exact fast_i64 E
theorem auto_u8 (E : Env) : MathFaithful (AutoMath_u8 E) (uintSpec 8) := by
  unfold AutoMath_u8; split; exact std_u8 E; exact fast_u8 E
theorem auto_u16 (E : Env) : MathFaithful (AutoMath_u16 E) (uintSpec 16) := by
  unfold AutoMath_u16; split; exact std_u16 E; exact fast_u16 E
theorem auto_u32 (E : Env) : MathFaithful (AutoMath_u32 E) (uintSpec 32) := by
  unfold AutoMath_u32; split; exact std_u32 E; exact fast_u32 E
theorem auto_u64 (E : Env) : MathFaithful (AutoMath_u64 E) (uintSpec 64) := by
  unfold AutoMath_u64; split; exact std_u64 E; exact fast_u64 E

/-! ### what the primitives satisfy (integers: for every value; proved on `BitVec`) -/

theorem int_zero_one_identities {w : Nat} (x : BitVec w) :
    (sintSpec w).add x (sintSpec w).zero = x ∧ (sintSpec w).mul x (sintSpec w).one = x
    ∧ (uintSpec w).add x (uintSpec w).zero = x ∧ (uintSpec w).mul x (uintSpec w).one = x := by
  simp [sintSpec, uintSpec]

/-- signed MIN/MAX bound every value -/
theorem sint_bounds {w : Nat} (hw : 0 < w) (x : BitVec w) :
    BitVec.sle (sintSpec w).minVal x = true ∧ BitVec.sle x (sintSpec w).maxVal = true := by
  have hlt : 2 ^ (w - 1) < 2 ^ w := Nat.pow_lt_pow_right (by decide) (by omega)
  have h1 : (BitVec.intMin w).toInt = -((2 ^ (w - 1) : Nat) : Int) := by
    rw [BitVec.toInt_intMin, Nat.mod_eq_of_lt hlt]
  have h2 := @BitVec.toInt_intMax w
  have h3 := @BitVec.le_toInt w x
  have h4 := @BitVec.toInt_lt w x
  constructor
  · apply decide_eq_true
    show (BitVec.intMin w).toInt ≤ x.toInt
    rw [h1]; push_cast; omega
  · apply decide_eq_true
    show x.toInt ≤ (BitVec.intMax w).toInt
    rw [h2]; omega

/-- unsigned MIN/MAX bound every value -/
theorem uint_bounds {w : Nat} (x : BitVec w) :
    BitVec.ule (uintSpec w).minVal x = true ∧ BitVec.ule x (uintSpec w).maxVal = true := by
  constructor
  · apply decide_eq_true
    show (0 : BitVec w).toNat ≤ x.toNat
    simp
  · apply decide_eq_true
    show x.toNat ≤ (BitVec.allOnes w).toNat
    rw [BitVec.toNat_allOnes]
    exact Nat.le_sub_one_of_lt x.isLt

/-- `cmp_max` / `cmp_min` return one of their arguments, the larger / smaller one (signed order) -/
theorem sint_max_min {w : Nat} (x y : BitVec w) :
    let m := (sintSpec w).cmpMax x y
    let n := (sintSpec w).cmpMin x y
    (m = x ∨ m = y) ∧ BitVec.sle x m = true ∧ BitVec.sle y m = true
    ∧ (n = x ∨ n = y) ∧ BitVec.sle n x = true ∧ BitVec.sle n y = true := by
  simp only [sintSpec, IntPrim.smax, IntPrim.smin, BitVec.slt, BitVec.sle, decide_eq_true_eq]
  by_cases h1 : x.toInt < y.toInt <;> by_cases h2 : y.toInt < x.toInt <;> simp [h1, h2] <;> omega

theorem uint_max_min {w : Nat} (x y : BitVec w) :
    let m := (uintSpec w).cmpMax x y
    let n := (uintSpec w).cmpMin x y
    (m = x ∨ m = y) ∧ BitVec.ule x m = true ∧ BitVec.ule y m = true
    ∧ (n = x ∨ n = y) ∧ BitVec.ule n x = true ∧ BitVec.ule n y = true := by
  simp only [uintSpec, IntPrim.umax, IntPrim.umin, BitVec.ult, BitVec.ule, decide_eq_true_eq]
  by_cases h1 : x.toNat < y.toNat <;> by_cases h2 : y.toNat < x.toNat <;> simp [h1, h2] <;> omega

/-- equality is primitive equality -/
theorem int_eq {w : Nat} (x y : BitVec w) : ((sintSpec w).eq x y = true ↔ x = y) ∧ ((uintSpec w).eq x y = true ↔ x = y) := by
  simp [sintSpec, uintSpec]

/-- wrapping add/sub/mul are arithmetic modulo 2^w -/
theorem int_wrapping {w : Nat} (x y : BitVec w) :
    ((sintSpec w).add x y).toNat = (x.toNat + y.toNat) % 2 ^ w
    ∧ ((sintSpec w).mul x y).toNat = (x.toNat * y.toNat) % 2 ^ w
    ∧ ((sintSpec w).sub x y).toNat = (2 ^ w - y.toNat + x.toNat) % 2 ^ w := by
  simp [sintSpec, BitVec.toNat_add, BitVec.toNat_mul, BitVec.toNat_sub]

/-- unsigned division is truncating division; dividing by zero is the panic case of `div_panic` -/
theorem uint_div {w : Nat} (x y : BitVec w) : ((uintSpec w).div x y).toNat = x.toNat / y.toNat := by
  simp [uintSpec]

/-- non-vacuity: concrete values -/
example : (sintSpec 8).div (BitVec.intMin 8) (-1) = BitVec.intMin 8 ∧ (sintSpec 8).div (-7) 2 = -3
    ∧ (sintSpec 8).divOk 0 = false := by decide

end Cfavml.Thm.C18
