/-
C14 — the core library allocates nothing and builds without std.
Source level: the table of every path, `use`, macro and `extern crate` of the cfavml crate whose root is
`std` or `alloc`, with the `#[cfg]` context it sits in (module-level cfgs included); the crate attributes;
the dependency table of Cargo.toml.  ("Performs no heap allocation" of the *compiled* code is validated by
the counting-allocator run and `cargo build --no-default-features` in the check, not proved here.)
-/
import CfavmlModel.Gen.RefTables
import CfavmlModel.Spec.Names
import CfavmlModel.Spec.NoStd

namespace Cfavml.Thm.C14
open Tables Spec

/-- **C14 (a).** Nothing in the crate names `alloc`, and no `extern crate` exists. -/
theorem no_alloc_refs : externalRefs.all (fun r => !r.path.startsWith "alloc" && r.kind != "extern-crate") = true := by
  decide +kernel

/-- **C14 (a'').** No `extern` block is compiled into a shipped build: the library declares no symbol that something outside
`core` (libm, libc, …) would have to provide at link time. -/
theorem no_foreign_symbols :
    externalRefs.all (fun r => r.kind != "foreign" || (noStdBuilds ++ stdBuilds).all (fun b => !compiledIn b r)) = true := by
  decide +kernel

/-- **C14 (a').** No allocating item of the std prelude — `vec!`, `format!`, `Vec`, `Box`, `String`, `Rc`, `Arc`, `.to_vec()`,
`.to_owned()`, `.to_string()` … (they are not spelled `std::` / `alloc::`, so they have their own row kind) — is compiled
into a shipped build, with or without `std`: every such occurrence sits under `cfg(test)`. -/
theorem no_prelude_alloc :
    externalRefs.all (fun r => r.kind != "prelude-alloc" ||
      (noStdBuilds ++ stdBuilds).all (fun b => !compiledIn b r)) = true := by
  decide +kernel

/-- non-vacuity: the table does contain such items (in the test code) -/
example : externalRefs.any (fun r => r.kind == "prelude-alloc") = true := by decide +kernel

/-- **C14 (b).** Every reference to `std` is compiled out of every build without the `std` feature
(it sits under `cfg(feature = "std")` or `cfg(test)`), so a no_std build references nothing outside `core`. -/
theorem std_refs_gated : externalRefs.all (fun r => noStdBuilds.all (fun b => !compiledIn b r)) = true := by
  decide +kernel

/-- **C14 (c).** With the `std` feature the shipped (non-test) code names only the CPU feature detection
macros of `std` — nothing that allocates. -/
theorem std_refs_are_detection_only :
    externalRefs.all (fun r => stdBuilds.all (fun b => !compiledIn b r || allowedStd.contains r.path)) = true := by
  decide +kernel

/-- **C14 (d).** The crate is `no_std` whenever the `std` feature is off, and has no dependencies. -/
theorem no_std_attr_and_no_deps :
    crateAttrs.contains "cfg_attr(not(feature=\"std\"),no_std)" = true ∧ cargoDependencies = [] := by
  decide +kernel

/-- **C14 (e).** With default features disabled, `std` is enabled only when it is requested: no other feature of the manifest
(`nightly`, the benchmark switches) pulls it in, so the no-std builds of `Spec.noStdBuilds` — among them
`--no-default-features --features nightly` — exist as cargo resolves them. -/
theorem no_feature_implies_std : noFeatureImpliesStd cargoFeatureGraph = true := by
  decide +kernel

/-- non-vacuity: the closure does follow the manifest's edges (`default` switches `std` on) -/
example : (featureClosure cargoFeatureGraph ["default"]).contains "std" = true := by decide +kernel
example : noFeatureImpliesStd [("nightly", ["fast"]), ("fast", ["std"]), ("std", [])] = false := by decide +kernel

/-- non-vacuity: the table does contain std references (gated ones) -/
example : externalRefs.any (fun r => r.path == "std::arch::is_x86_feature_detected") = true := by decide +kernel

end Cfavml.Thm.C14
