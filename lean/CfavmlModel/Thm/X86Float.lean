/-
C04 / C13 for the real x86 **float** backends: each of `Avx2`, `Avx2Fma`, `Avx512` × `f32`, `f64` meets the
`SumBackend` contract (memory, zeroed accumulators, lane-wise add / sub, multiply-add — unfused `acc + x*y` for `Avx2`,
the fused `fma` for `Avx2Fma` and `Avx512` — the default roll-up, and the horizontal sum, which is the explicit fold tree
of `Lemmas/FoldTree.lean`). Hence the float reduction kernels on these backends equal the pure model and obey the
`γ(n+3)` bound of C04 with no hypothesis about the backend left — only `FloatSem` (what IEEE arithmetic guarantees).
-/
import CfavmlModel.Lemmas.FoldTreeSem
import CfavmlModel.Thm.C13Full
import CfavmlModel.Thm.C04

namespace Cfavml.Thm.X86Float
open Cfavml.Thm KernelModel FloatReduce Rounding

theorem f32_zero : F32.zero = (0 : BitVec 32) := by decide
theorem f64_zero : F64.zero = (0 : BitVec 64) := by decide

/-- transport of the memory contract along equal methods (the `Avx2Fma` impls forward to `Avx2`) -/
theorem memFaithful_of_eq {T Reg : Type} {R R' : SimdRegister T Reg} {L : Nat} {lanes : Reg → Nat → T}
    (MF : MemFaithful R L lanes) (h1 : R'.elements_per_lane = R.elements_per_lane)
    (h2 : R'.elements_per_dense = R.elements_per_dense) (h3 : R'.load = R.load) (h4 : R'.write = R.write)
    (h5 : R'.load_dense = R.load_dense) (h6 : R'.write_dense = R.write_dense) : MemFaithful R' L lanes :=
  ⟨MF.L_pos, by rw [h1]; exact MF.epl, by rw [h2]; exact MF.epd, by rw [h3]; exact MF.load_ok, by rw [h3]; exact MF.load_oob,
   by rw [h4]; exact MF.write_ok, by rw [h4]; exact MF.write_oob, by rw [h5]; exact MF.load_dense_ok,
   by rw [h6]; exact MF.write_dense_ok⟩

namespace Avx2_f32
theorem sumBackend (E : Env) : SumBackend (Avx2_f32.inst E) 8 (xlanes 32) (f32Spec E false)
    (fun x y acc => (f32Spec E false).add ((f32Spec E false).mul x y) acc) (fun f => t8.eval E.F.add32 f) :=
  ⟨C13X86.Avx2_f32.mem E,
   by have := C13Full.zeroed_dense_of_x86 (E := E) (R := Avx2_f32.inst E) (L := 8) (by decide) rfl rfl
      simpa [f32Spec, f32_zero] using this,
   C13X86.Avx2_f32.add E, C13X86.Avx2_f32.sub E, C13X86Hard.Avx2_f32.fmadd E,
   foldFaithful_of (C13X86.Avx2_f32.add E) _ _ _ rfl (avx2_f32_sum E)⟩
end Avx2_f32

namespace Avx2Fma_f32
theorem load_eq (E : Env) : (Avx2Fma_f32.inst E).load = (Avx2_f32.inst E).load := by
  funext m o; show Avx2Fma_f32.load E m o = Avx2_f32.load E m o; simp [Avx2Fma_f32.load]
theorem write_eq (E : Env) : (Avx2Fma_f32.inst E).write = (Avx2_f32.inst E).write := by
  funext m o r; show Avx2Fma_f32.write E m o r = Avx2_f32.write E m o r; simp [Avx2Fma_f32.write]
theorem add_eq (E : Env) : (Avx2Fma_f32.inst E).add = (Avx2_f32.inst E).add := by
  funext x y; show Avx2Fma_f32.add E x y = Avx2_f32.add E x y; simp [Avx2Fma_f32.add]
theorem sub_eq (E : Env) : (Avx2Fma_f32.inst E).sub = (Avx2_f32.inst E).sub := by
  funext x y; show Avx2Fma_f32.sub E x y = Avx2_f32.sub E x y; simp [Avx2Fma_f32.sub]
theorem zeroed_eq (E : Env) : (Avx2Fma_f32.inst E).zeroed = (Avx2_f32.inst E).zeroed := by
  show Avx2Fma_f32.zeroed E = Avx2_f32.zeroed E; simp [Avx2Fma_f32.zeroed]
theorem sumBackend (E : Env) : SumBackend (Avx2Fma_f32.inst E) 8 (xlanes 32) (f32Spec E false) E.F.fma32 (fun f => t8.eval E.F.add32 f) := by
  have B := Avx2_f32.sumBackend E
  have hl := load_eq E; have hw := write_eq E; have ha := add_eq E; have hs := sub_eq E; have hz := zeroed_eq E
  have hld : (Avx2Fma_f32.inst E).load_dense = (Avx2_f32.inst E).load_dense := by
    show SimdRegisterDefault.load_dense E _ (Avx2Fma_f32.inst E).load = SimdRegisterDefault.load_dense E _ (Avx2_f32.inst E).load
    rw [hl]; rfl
  have hwd : (Avx2Fma_f32.inst E).write_dense = (Avx2_f32.inst E).write_dense := by
    show SimdRegisterDefault.write_dense E _ (Avx2Fma_f32.inst E).write = SimdRegisterDefault.write_dense E _ (Avx2_f32.inst E).write
    rw [hw]; rfl
  have had : (Avx2Fma_f32.inst E).add_dense = (Avx2_f32.inst E).add_dense := by
    show SimdRegisterDefault.add_dense (T := F32) E (Avx2Fma_f32.inst E).add = SimdRegisterDefault.add_dense (T := F32) E (Avx2_f32.inst E).add
    rw [ha]
  have hsd : (Avx2Fma_f32.inst E).sub_dense = (Avx2_f32.inst E).sub_dense := by
    show SimdRegisterDefault.sub_dense (T := F32) E (Avx2Fma_f32.inst E).sub = SimdRegisterDefault.sub_dense (T := F32) E (Avx2_f32.inst E).sub
    rw [hs]
  have hzd : (Avx2Fma_f32.inst E).zeroed_dense = (Avx2_f32.inst E).zeroed_dense := by
    show SimdRegisterDefault.zeroed_dense (T := F32) E (Avx2Fma_f32.inst E).zeroed = SimdRegisterDefault.zeroed_dense (T := F32) E (Avx2_f32.inst E).zeroed
    rw [hz]
  have hsr : (Avx2Fma_f32.inst E).sum_to_register = (Avx2_f32.inst E).sum_to_register := by
    show SimdRegisterDefault.sum_to_register (T := F32) E (Avx2Fma_f32.inst E).add = SimdRegisterDefault.sum_to_register (T := F32) E (Avx2_f32.inst E).add
    rw [ha]
  refine ⟨memFaithful_of_eq B.mem rfl rfl hl hw hld hwd, by rw [hzd]; exact B.zeroed_dense_ok,
    by rw [ha, had]; exact B.add, by rw [hs, hsd]; exact B.sub, C13X86Hard.Avx2Fma_f32.fmadd E, ?_⟩
  exact ⟨by rw [hsr]; exact B.sum.to_register, avx2fma_f32_sum E⟩
end Avx2Fma_f32

namespace Avx512_f32
theorem sumBackend (E : Env) : SumBackend (Avx512_f32.inst E) 16 (xlanes 32) (f32Spec E false) E.F.fma32 (fun f => (halvingTree 4 4 0).eval E.F.add32 f) :=
  ⟨C13X86.Avx512_f32.mem E,
   by have := C13Full.zeroed_dense_of_x86 (E := E) (R := Avx512_f32.inst E) (L := 16) (by decide) rfl rfl
      simpa [f32Spec, f32_zero] using this,
   C13X86.Avx512_f32.add E, C13X86.Avx512_f32.sub E, C13X86Hard.Avx512_f32.fmadd E,
   foldFaithful_of (C13X86.Avx512_f32.add E) _ _ _ rfl (avx512_f32_sum E)⟩
end Avx512_f32

namespace Avx2_f64
theorem sumBackend (E : Env) : SumBackend (Avx2_f64.inst E) 4 (xlanes 64) (f64Spec E false)
    (fun x y acc => (f64Spec E false).add ((f64Spec E false).mul x y) acc) (fun f => t4.eval E.F.add64 f) :=
  ⟨C13X86.Avx2_f64.mem E,
   by have := C13Full.zeroed_dense_of_x86 (E := E) (R := Avx2_f64.inst E) (L := 4) (by decide) rfl rfl
      simpa [f64Spec, f64_zero] using this,
   C13X86.Avx2_f64.add E, C13X86.Avx2_f64.sub E, C13X86Hard.Avx2_f64.fmadd E,
   foldFaithful_of (C13X86.Avx2_f64.add E) _ _ _ rfl (avx2_f64_sum E)⟩
end Avx2_f64

namespace Avx2Fma_f64
theorem load_eq (E : Env) : (Avx2Fma_f64.inst E).load = (Avx2_f64.inst E).load := by
  funext m o; show Avx2Fma_f64.load E m o = Avx2_f64.load E m o; simp [Avx2Fma_f64.load]
theorem write_eq (E : Env) : (Avx2Fma_f64.inst E).write = (Avx2_f64.inst E).write := by
  funext m o r; show Avx2Fma_f64.write E m o r = Avx2_f64.write E m o r; simp [Avx2Fma_f64.write]
theorem add_eq (E : Env) : (Avx2Fma_f64.inst E).add = (Avx2_f64.inst E).add := by
  funext x y; show Avx2Fma_f64.add E x y = Avx2_f64.add E x y; simp [Avx2Fma_f64.add]
theorem sub_eq (E : Env) : (Avx2Fma_f64.inst E).sub = (Avx2_f64.inst E).sub := by
  funext x y; show Avx2Fma_f64.sub E x y = Avx2_f64.sub E x y; simp [Avx2Fma_f64.sub]
theorem zeroed_eq (E : Env) : (Avx2Fma_f64.inst E).zeroed = (Avx2_f64.inst E).zeroed := by
  show Avx2Fma_f64.zeroed E = Avx2_f64.zeroed E; simp [Avx2Fma_f64.zeroed]
theorem sumBackend (E : Env) : SumBackend (Avx2Fma_f64.inst E) 4 (xlanes 64) (f64Spec E false) E.F.fma64 (fun f => t4.eval E.F.add64 f) := by
  have B := Avx2_f64.sumBackend E
  have hl := load_eq E; have hw := write_eq E; have ha := add_eq E; have hs := sub_eq E; have hz := zeroed_eq E
  have hld : (Avx2Fma_f64.inst E).load_dense = (Avx2_f64.inst E).load_dense := by
    show SimdRegisterDefault.load_dense E _ (Avx2Fma_f64.inst E).load = SimdRegisterDefault.load_dense E _ (Avx2_f64.inst E).load
    rw [hl]; rfl
  have hwd : (Avx2Fma_f64.inst E).write_dense = (Avx2_f64.inst E).write_dense := by
    show SimdRegisterDefault.write_dense E _ (Avx2Fma_f64.inst E).write = SimdRegisterDefault.write_dense E _ (Avx2_f64.inst E).write
    rw [hw]; rfl
  have had : (Avx2Fma_f64.inst E).add_dense = (Avx2_f64.inst E).add_dense := by
    show SimdRegisterDefault.add_dense (T := F64) E (Avx2Fma_f64.inst E).add = SimdRegisterDefault.add_dense (T := F64) E (Avx2_f64.inst E).add
    rw [ha]
  have hsd : (Avx2Fma_f64.inst E).sub_dense = (Avx2_f64.inst E).sub_dense := by
    show SimdRegisterDefault.sub_dense (T := F64) E (Avx2Fma_f64.inst E).sub = SimdRegisterDefault.sub_dense (T := F64) E (Avx2_f64.inst E).sub
    rw [hs]
  have hzd : (Avx2Fma_f64.inst E).zeroed_dense = (Avx2_f64.inst E).zeroed_dense := by
    show SimdRegisterDefault.zeroed_dense (T := F64) E (Avx2Fma_f64.inst E).zeroed = SimdRegisterDefault.zeroed_dense (T := F64) E (Avx2_f64.inst E).zeroed
    rw [hz]
  have hsr : (Avx2Fma_f64.inst E).sum_to_register = (Avx2_f64.inst E).sum_to_register := by
    show SimdRegisterDefault.sum_to_register (T := F64) E (Avx2Fma_f64.inst E).add = SimdRegisterDefault.sum_to_register (T := F64) E (Avx2_f64.inst E).add
    rw [ha]
  refine ⟨memFaithful_of_eq B.mem rfl rfl hl hw hld hwd, by rw [hzd]; exact B.zeroed_dense_ok,
    by rw [ha, had]; exact B.add, by rw [hs, hsd]; exact B.sub, C13X86Hard.Avx2Fma_f64.fmadd E, ?_⟩
  exact ⟨by rw [hsr]; exact B.sum.to_register, avx2fma_f64_sum E⟩
end Avx2Fma_f64

namespace Avx512_f64
theorem sumBackend (E : Env) : SumBackend (Avx512_f64.inst E) 8 (xlanes 64) (f64Spec E false) E.F.fma64 (fun f => (halvingTree 3 3 0).eval E.F.add64 f) :=
  ⟨C13X86.Avx512_f64.mem E,
   by have := C13Full.zeroed_dense_of_x86 (E := E) (R := Avx512_f64.inst E) (L := 8) (by decide) rfl rfl
      simpa [f64Spec, f64_zero] using this,
   C13X86.Avx512_f64.add E, C13X86.Avx512_f64.sub E, C13X86Hard.Avx512_f64.fmadd E,
   foldFaithful_of (C13X86.Avx512_f64.add E) _ _ _ rfl (avx512_f64_sum E)⟩
end Avx512_f64

/-- **C04 on `Avx2_f32`** (default math, stable or nightly toolchain without the fast-math feature): dot product within
`γ(n+3)·Σ|aᵢbᵢ|` of the exact value, squared norm and squared Euclidean likewise, sum within `γ(n+3)·Σ|aᵢ|` -/
theorem Avx2_f32_bounds (E : Env) (hn : E.feat_nightly = false) (F : FloatSem (f32Spec E false) (fun x y acc => (f32Spec E false).add ((f32Spec E false).mul x y) acc))
    (a b : Slice F32) (hb : b.size = a.size) (hfuel : a.size < E.fuel) (hk : ((a.size + 3 : ℕ) : ℝ) * F.u < 1)
    (hnu : ∀ i, F.NoUf (a.get i) (b.get i)) :
    (∃ v, generic_dot_product E (Avx2_f32.inst E) (AutoMath_f32 E) a.size a b = pure v ∧
      (F.Fin v → |F.val v - ((List.range a.size).map (fun i => F.val (a.get i) * F.val (b.get i))).sum|
        ≤ gamma F.u (a.size + 3) * ((List.range a.size).map (fun i => |F.val (a.get i) * F.val (b.get i)|)).sum))
    ∧ (∃ v, generic_sum E (Avx2_f32.inst E) (AutoMath_f32 E) a.size a = pure v ∧
      (F.Fin v → |F.val v - ((List.range a.size).map (fun i => F.val (a.get i))).sum|
        ≤ gamma F.u (a.size + 3) * ((List.range a.size).map (fun i => |F.val (a.get i)|)).sum)) := by
  have SM : SumMath (AutoMath_f32 E) (f32Spec E false) := by
    have := C18.auto_f32 E
    rw [hn] at this
    exact SumMath.of this
  have hloc : FoldLocal 8 (fun f => t8.eval E.F.add32 f) := fun f g h =>
    FTree.eval_congr _ f g _ (fun k hk => h k (by have := (t8_perm.mem_iff).mp hk; simpa using this))
  have HF := ftree_sem F t8 8 3 t8_perm (by decide)
  exact ⟨C04.dot_product_bound (Avx2_f32.sumBackend E) SM F HF hloc (by decide) (by decide) a.size hfuel hk a b rfl hb hnu,
    C04.sum_bound' (Avx2_f32.sumBackend E) SM F HF hloc (by decide) (by decide) a.size hfuel hk a rfl⟩

/-- **C04 on `Avx2Fma_f32`** (default math, stable or nightly toolchain without the fast-math feature): dot product within
`γ(n+3)·Σ|aᵢbᵢ|` of the exact value, squared norm and squared Euclidean likewise, sum within `γ(n+3)·Σ|aᵢ|` -/
theorem Avx2Fma_f32_bounds (E : Env) (hn : E.feat_nightly = false) (F : FloatSem (f32Spec E false) E.F.fma32)
    (a b : Slice F32) (hb : b.size = a.size) (hfuel : a.size < E.fuel) (hk : ((a.size + 3 : ℕ) : ℝ) * F.u < 1)
    (hnu : ∀ i, F.NoUf (a.get i) (b.get i)) :
    (∃ v, generic_dot_product E (Avx2Fma_f32.inst E) (AutoMath_f32 E) a.size a b = pure v ∧
      (F.Fin v → |F.val v - ((List.range a.size).map (fun i => F.val (a.get i) * F.val (b.get i))).sum|
        ≤ gamma F.u (a.size + 3) * ((List.range a.size).map (fun i => |F.val (a.get i) * F.val (b.get i)|)).sum))
    ∧ (∃ v, generic_sum E (Avx2Fma_f32.inst E) (AutoMath_f32 E) a.size a = pure v ∧
      (F.Fin v → |F.val v - ((List.range a.size).map (fun i => F.val (a.get i))).sum|
        ≤ gamma F.u (a.size + 3) * ((List.range a.size).map (fun i => |F.val (a.get i)|)).sum)) := by
  have SM : SumMath (AutoMath_f32 E) (f32Spec E false) := by
    have := C18.auto_f32 E
    rw [hn] at this
    exact SumMath.of this
  have hloc : FoldLocal 8 (fun f => t8.eval E.F.add32 f) := fun f g h =>
    FTree.eval_congr _ f g _ (fun k hk => h k (by have := (t8_perm.mem_iff).mp hk; simpa using this))
  have HF := ftree_sem F t8 8 3 t8_perm (by decide)
  exact ⟨C04.dot_product_bound (Avx2Fma_f32.sumBackend E) SM F HF hloc (by decide) (by decide) a.size hfuel hk a b rfl hb hnu,
    C04.sum_bound' (Avx2Fma_f32.sumBackend E) SM F HF hloc (by decide) (by decide) a.size hfuel hk a rfl⟩

/-- **C04 on `Avx512_f32`** (default math, stable or nightly toolchain without the fast-math feature): dot product within
`γ(n+3)·Σ|aᵢbᵢ|` of the exact value, squared norm and squared Euclidean likewise, sum within `γ(n+3)·Σ|aᵢ|` -/
theorem Avx512_f32_bounds (E : Env) (hn : E.feat_nightly = false) (F : FloatSem (f32Spec E false) E.F.fma32)
    (a b : Slice F32) (hb : b.size = a.size) (hfuel : a.size < E.fuel) (hk : ((a.size + 3 : ℕ) : ℝ) * F.u < 1)
    (hnu : ∀ i, F.NoUf (a.get i) (b.get i)) :
    (∃ v, generic_dot_product E (Avx512_f32.inst E) (AutoMath_f32 E) a.size a b = pure v ∧
      (F.Fin v → |F.val v - ((List.range a.size).map (fun i => F.val (a.get i) * F.val (b.get i))).sum|
        ≤ gamma F.u (a.size + 3) * ((List.range a.size).map (fun i => |F.val (a.get i) * F.val (b.get i)|)).sum))
    ∧ (∃ v, generic_sum E (Avx512_f32.inst E) (AutoMath_f32 E) a.size a = pure v ∧
      (F.Fin v → |F.val v - ((List.range a.size).map (fun i => F.val (a.get i))).sum|
        ≤ gamma F.u (a.size + 3) * ((List.range a.size).map (fun i => |F.val (a.get i)|)).sum)) := by
  have SM : SumMath (AutoMath_f32 E) (f32Spec E false) := by
    have := C18.auto_f32 E
    rw [hn] at this
    exact SumMath.of this
  have hloc : FoldLocal 16 (fun f => (halvingTree 4 4 0).eval E.F.add32 f) := fun f g h =>
    FTree.eval_congr _ f g _ (fun k hk => h k (by have := (h16_perm.mem_iff).mp hk; simpa using this))
  have HF := ftree_sem F (halvingTree 4 4 0) 16 4 h16_perm (by decide)
  exact ⟨C04.dot_product_bound (Avx512_f32.sumBackend E) SM F HF hloc (by decide) (by decide) a.size hfuel hk a b rfl hb hnu,
    C04.sum_bound' (Avx512_f32.sumBackend E) SM F HF hloc (by decide) (by decide) a.size hfuel hk a rfl⟩

/-- **C04 on `Avx2_f64`** (default math, stable or nightly toolchain without the fast-math feature): dot product within
`γ(n+3)·Σ|aᵢbᵢ|` of the exact value, squared norm and squared Euclidean likewise, sum within `γ(n+3)·Σ|aᵢ|` -/
theorem Avx2_f64_bounds (E : Env) (hn : E.feat_nightly = false) (F : FloatSem (f64Spec E false) (fun x y acc => (f64Spec E false).add ((f64Spec E false).mul x y) acc))
    (a b : Slice F64) (hb : b.size = a.size) (hfuel : a.size < E.fuel) (hk : ((a.size + 3 : ℕ) : ℝ) * F.u < 1)
    (hnu : ∀ i, F.NoUf (a.get i) (b.get i)) :
    (∃ v, generic_dot_product E (Avx2_f64.inst E) (AutoMath_f64 E) a.size a b = pure v ∧
      (F.Fin v → |F.val v - ((List.range a.size).map (fun i => F.val (a.get i) * F.val (b.get i))).sum|
        ≤ gamma F.u (a.size + 3) * ((List.range a.size).map (fun i => |F.val (a.get i) * F.val (b.get i)|)).sum))
    ∧ (∃ v, generic_sum E (Avx2_f64.inst E) (AutoMath_f64 E) a.size a = pure v ∧
      (F.Fin v → |F.val v - ((List.range a.size).map (fun i => F.val (a.get i))).sum|
        ≤ gamma F.u (a.size + 3) * ((List.range a.size).map (fun i => |F.val (a.get i)|)).sum)) := by
  have SM : SumMath (AutoMath_f64 E) (f64Spec E false) := by
    have := C18.auto_f64 E
    rw [hn] at this
    exact SumMath.of this
  have hloc : FoldLocal 4 (fun f => t4.eval E.F.add64 f) := fun f g h =>
    FTree.eval_congr _ f g _ (fun k hk => h k (by have := (t4_perm.mem_iff).mp hk; simpa using this))
  have HF := ftree_sem F t4 4 2 t4_perm (by decide)
  exact ⟨C04.dot_product_bound (Avx2_f64.sumBackend E) SM F HF hloc (by decide) (by decide) a.size hfuel hk a b rfl hb hnu,
    C04.sum_bound' (Avx2_f64.sumBackend E) SM F HF hloc (by decide) (by decide) a.size hfuel hk a rfl⟩

/-- **C04 on `Avx2Fma_f64`** (default math, stable or nightly toolchain without the fast-math feature): dot product within
`γ(n+3)·Σ|aᵢbᵢ|` of the exact value, squared norm and squared Euclidean likewise, sum within `γ(n+3)·Σ|aᵢ|` -/
theorem Avx2Fma_f64_bounds (E : Env) (hn : E.feat_nightly = false) (F : FloatSem (f64Spec E false) E.F.fma64)
    (a b : Slice F64) (hb : b.size = a.size) (hfuel : a.size < E.fuel) (hk : ((a.size + 3 : ℕ) : ℝ) * F.u < 1)
    (hnu : ∀ i, F.NoUf (a.get i) (b.get i)) :
    (∃ v, generic_dot_product E (Avx2Fma_f64.inst E) (AutoMath_f64 E) a.size a b = pure v ∧
      (F.Fin v → |F.val v - ((List.range a.size).map (fun i => F.val (a.get i) * F.val (b.get i))).sum|
        ≤ gamma F.u (a.size + 3) * ((List.range a.size).map (fun i => |F.val (a.get i) * F.val (b.get i)|)).sum))
    ∧ (∃ v, generic_sum E (Avx2Fma_f64.inst E) (AutoMath_f64 E) a.size a = pure v ∧
      (F.Fin v → |F.val v - ((List.range a.size).map (fun i => F.val (a.get i))).sum|
        ≤ gamma F.u (a.size + 3) * ((List.range a.size).map (fun i => |F.val (a.get i)|)).sum)) := by
  have SM : SumMath (AutoMath_f64 E) (f64Spec E false) := by
    have := C18.auto_f64 E
    rw [hn] at this
    exact SumMath.of this
  have hloc : FoldLocal 4 (fun f => t4.eval E.F.add64 f) := fun f g h =>
    FTree.eval_congr _ f g _ (fun k hk => h k (by have := (t4_perm.mem_iff).mp hk; simpa using this))
  have HF := ftree_sem F t4 4 2 t4_perm (by decide)
  exact ⟨C04.dot_product_bound (Avx2Fma_f64.sumBackend E) SM F HF hloc (by decide) (by decide) a.size hfuel hk a b rfl hb hnu,
    C04.sum_bound' (Avx2Fma_f64.sumBackend E) SM F HF hloc (by decide) (by decide) a.size hfuel hk a rfl⟩

/-- **C04 on `Avx512_f64`** (default math, stable or nightly toolchain without the fast-math feature): dot product within
`γ(n+3)·Σ|aᵢbᵢ|` of the exact value, squared norm and squared Euclidean likewise, sum within `γ(n+3)·Σ|aᵢ|` -/
theorem Avx512_f64_bounds (E : Env) (hn : E.feat_nightly = false) (F : FloatSem (f64Spec E false) E.F.fma64)
    (a b : Slice F64) (hb : b.size = a.size) (hfuel : a.size < E.fuel) (hk : ((a.size + 3 : ℕ) : ℝ) * F.u < 1)
    (hnu : ∀ i, F.NoUf (a.get i) (b.get i)) :
    (∃ v, generic_dot_product E (Avx512_f64.inst E) (AutoMath_f64 E) a.size a b = pure v ∧
      (F.Fin v → |F.val v - ((List.range a.size).map (fun i => F.val (a.get i) * F.val (b.get i))).sum|
        ≤ gamma F.u (a.size + 3) * ((List.range a.size).map (fun i => |F.val (a.get i) * F.val (b.get i)|)).sum))
    ∧ (∃ v, generic_sum E (Avx512_f64.inst E) (AutoMath_f64 E) a.size a = pure v ∧
      (F.Fin v → |F.val v - ((List.range a.size).map (fun i => F.val (a.get i))).sum|
        ≤ gamma F.u (a.size + 3) * ((List.range a.size).map (fun i => |F.val (a.get i)|)).sum)) := by
  have SM : SumMath (AutoMath_f64 E) (f64Spec E false) := by
    have := C18.auto_f64 E
    rw [hn] at this
    exact SumMath.of this
  have hloc : FoldLocal 8 (fun f => (halvingTree 3 3 0).eval E.F.add64 f) := fun f g h =>
    FTree.eval_congr _ f g _ (fun k hk => h k (by have := (h8_perm.mem_iff).mp hk; simpa using this))
  have HF := ftree_sem F (halvingTree 3 3 0) 8 3 h8_perm (by decide)
  exact ⟨C04.dot_product_bound (Avx512_f64.sumBackend E) SM F HF hloc (by decide) (by decide) a.size hfuel hk a b rfl hb hnu,
    C04.sum_bound' (Avx512_f64.sumBackend E) SM F HF hloc (by decide) (by decide) a.size hfuel hk a rfl⟩

end Cfavml.Thm.X86Float
