/-
GENERATED TEXT (lean/tools/gen_neonint.py): the reduction kernels on the NEON integer backends with no remaining hypothesis
about the backend (contracts: Thm/C13Neon.lean) — exact integer sums modulo 2^w (C03), true extremes (C05), the integer
cosine formula (C06), and bit-identical results with the Fallback backend. NEON intrinsic semantics: Prim/Neon.lean (trusted,
not validated on hardware here).
-/
import CfavmlModel.Thm.C13Neon
import CfavmlModel.Thm.C13Full

namespace Cfavml.Thm.NeonInt
open Cfavml.Thm

namespace Neon_i8
/-- `i8_xany_neon_nofma_dot`: the exact integer dot product modulo 2^8, every input, every length -/
theorem dot_exact (E : Env) (a b : Slice I8) (hb : b.size = a.size) (hfuel : a.size < E.fuel) :
    generic_dot_product E (Neon_i8.inst E) (AutoMath_i8 E) a.size a b
      = pure (BitVec.ofInt 8 (isum (fun j => (a.get j).toInt * (b.get j).toInt) a.size)) :=
  C03.dot_exact (C03.sint_isInt 8) (C13Neon.Neon_i8.arith E) (C13Neon.Neon_i8.reduce E) (C18.auto_i8 E)
    C13Neon.Neon_i8.hsum_is_sum a.size hfuel a b rfl hb
theorem sum_exact (E : Env) (a : Slice I8) (hfuel : a.size < E.fuel) :
    generic_sum E (Neon_i8.inst E) (AutoMath_i8 E) a.size a = pure (BitVec.ofInt 8 (isum (fun j => (a.get j).toInt) a.size)) :=
  C03.sum_exact (C03.sint_isInt 8) (C13Neon.Neon_i8.arith E) (C13Neon.Neon_i8.reduce E) (C18.auto_i8 E)
    C13Neon.Neon_i8.hsum_is_sum a.size hfuel a rfl
theorem squared_norm_exact (E : Env) (a : Slice I8) (hfuel : a.size < E.fuel) :
    generic_squared_norm E (Neon_i8.inst E) (AutoMath_i8 E) a.size a
      = pure (BitVec.ofInt 8 (isum (fun j => (a.get j).toInt * (a.get j).toInt) a.size)) :=
  C03.squared_norm_exact (C03.sint_isInt 8) (C13Neon.Neon_i8.arith E) (C13Neon.Neon_i8.reduce E) (C18.auto_i8 E)
    C13Neon.Neon_i8.hsum_is_sum a.size hfuel a rfl
theorem euclidean_exact (E : Env) (a b : Slice I8) (hb : b.size = a.size) (hfuel : a.size < E.fuel) :
    generic_euclidean E (Neon_i8.inst E) (AutoMath_i8 E) a.size a b
      = pure (BitVec.ofInt 8 (isum (fun j => ((a.get j).toInt - (b.get j).toInt) * ((a.get j).toInt - (b.get j).toInt)) a.size)) :=
  C03.euclidean_exact (C03.sint_isInt 8) (C13Neon.Neon_i8.arith E) (C13Neon.Neon_i8.reduce E) (C18.auto_i8 E)
    C13Neon.Neon_i8.hsum_is_sum a.size hfuel a b rfl hb
/-- horizontal max = the `max`-fold of all elements from the type minimum (the true maximum, C05.*_fold_is_max) -/
theorem max_horizontal (E : Env) (a : Slice I8) (hfuel : a.size < E.fuel) :
    generic_max_horizontal E (Neon_i8.inst E) (AutoMath_i8 E) a.size a = pure (sumR IntPrim.smax (BitVec.intMin 8) a.get a.size) :=
  ReduceKernels.max_horizontal (C13Neon.Neon_i8.arith E) (C13Neon.Neon_i8.reduce E) (C18.auto_i8 E) a.size hfuel
    (smax_monoid (by decide : 0 < 8)) C13Neon.Neon_i8.hmax_is_max a rfl
theorem min_horizontal (E : Env) (a : Slice I8) (hfuel : a.size < E.fuel) :
    generic_min_horizontal E (Neon_i8.inst E) (AutoMath_i8 E) a.size a = pure (sumR IntPrim.smin (BitVec.intMax 8) a.get a.size) :=
  ReduceKernels.min_horizontal (C13Neon.Neon_i8.arith E) (C13Neon.Neon_i8.reduce E) (C18.auto_i8 E) a.size hfuel
    (smin_monoid (by decide : 0 < 8)) C13Neon.Neon_i8.hmin_is_min a rfl
/-- integer cosine: the formula on the exact wrapped sums (so identical on every backend), `sq` = the math layer's root -/
theorem cosine_exact (E : Env) (sq : I8 → I8) (hsq : ∀ x, (AutoMath_i8 E).sqrt x = pure (sq x))
    (a b : Slice I8) (hb : b.size = a.size) (hfuel : a.size < E.fuel) :
    generic_cosine E (Neon_i8.inst E) (AutoMath_i8 E) a.size a b
      = cosineVal (sintSpec 8) sq (BitVec.ofInt 8 (isum (fun j => (a.get j).toInt * (b.get j).toInt) a.size))
          (BitVec.ofInt 8 (isum (fun j => (a.get j).toInt * (a.get j).toInt) a.size))
          (BitVec.ofInt 8 (isum (fun j => (b.get j).toInt * (b.get j).toInt) a.size)) :=
  C06.cosine_int_exact (C03.sint_isInt 8) (C13Neon.Neon_i8.arith E) (C13Neon.Neon_i8.reduce E) (C18.auto_i8 E) sq hsq
    C13Neon.Neon_i8.hsum_is_sum a.size hfuel a b rfl hb
end Neon_i8

namespace Neon_i16
/-- `i16_xany_neon_nofma_dot`: the exact integer dot product modulo 2^16, every input, every length -/
theorem dot_exact (E : Env) (a b : Slice I16) (hb : b.size = a.size) (hfuel : a.size < E.fuel) :
    generic_dot_product E (Neon_i16.inst E) (AutoMath_i16 E) a.size a b
      = pure (BitVec.ofInt 16 (isum (fun j => (a.get j).toInt * (b.get j).toInt) a.size)) :=
  C03.dot_exact (C03.sint_isInt 16) (C13Neon.Neon_i16.arith E) (C13Neon.Neon_i16.reduce E) (C18.auto_i16 E)
    C13Neon.Neon_i16.hsum_is_sum a.size hfuel a b rfl hb
theorem sum_exact (E : Env) (a : Slice I16) (hfuel : a.size < E.fuel) :
    generic_sum E (Neon_i16.inst E) (AutoMath_i16 E) a.size a = pure (BitVec.ofInt 16 (isum (fun j => (a.get j).toInt) a.size)) :=
  C03.sum_exact (C03.sint_isInt 16) (C13Neon.Neon_i16.arith E) (C13Neon.Neon_i16.reduce E) (C18.auto_i16 E)
    C13Neon.Neon_i16.hsum_is_sum a.size hfuel a rfl
theorem squared_norm_exact (E : Env) (a : Slice I16) (hfuel : a.size < E.fuel) :
    generic_squared_norm E (Neon_i16.inst E) (AutoMath_i16 E) a.size a
      = pure (BitVec.ofInt 16 (isum (fun j => (a.get j).toInt * (a.get j).toInt) a.size)) :=
  C03.squared_norm_exact (C03.sint_isInt 16) (C13Neon.Neon_i16.arith E) (C13Neon.Neon_i16.reduce E) (C18.auto_i16 E)
    C13Neon.Neon_i16.hsum_is_sum a.size hfuel a rfl
theorem euclidean_exact (E : Env) (a b : Slice I16) (hb : b.size = a.size) (hfuel : a.size < E.fuel) :
    generic_euclidean E (Neon_i16.inst E) (AutoMath_i16 E) a.size a b
      = pure (BitVec.ofInt 16 (isum (fun j => ((a.get j).toInt - (b.get j).toInt) * ((a.get j).toInt - (b.get j).toInt)) a.size)) :=
  C03.euclidean_exact (C03.sint_isInt 16) (C13Neon.Neon_i16.arith E) (C13Neon.Neon_i16.reduce E) (C18.auto_i16 E)
    C13Neon.Neon_i16.hsum_is_sum a.size hfuel a b rfl hb
/-- horizontal max = the `max`-fold of all elements from the type minimum (the true maximum, C05.*_fold_is_max) -/
theorem max_horizontal (E : Env) (a : Slice I16) (hfuel : a.size < E.fuel) :
    generic_max_horizontal E (Neon_i16.inst E) (AutoMath_i16 E) a.size a = pure (sumR IntPrim.smax (BitVec.intMin 16) a.get a.size) :=
  ReduceKernels.max_horizontal (C13Neon.Neon_i16.arith E) (C13Neon.Neon_i16.reduce E) (C18.auto_i16 E) a.size hfuel
    (smax_monoid (by decide : 0 < 16)) C13Neon.Neon_i16.hmax_is_max a rfl
theorem min_horizontal (E : Env) (a : Slice I16) (hfuel : a.size < E.fuel) :
    generic_min_horizontal E (Neon_i16.inst E) (AutoMath_i16 E) a.size a = pure (sumR IntPrim.smin (BitVec.intMax 16) a.get a.size) :=
  ReduceKernels.min_horizontal (C13Neon.Neon_i16.arith E) (C13Neon.Neon_i16.reduce E) (C18.auto_i16 E) a.size hfuel
    (smin_monoid (by decide : 0 < 16)) C13Neon.Neon_i16.hmin_is_min a rfl
/-- integer cosine: the formula on the exact wrapped sums (so identical on every backend), `sq` = the math layer's root -/
theorem cosine_exact (E : Env) (sq : I16 → I16) (hsq : ∀ x, (AutoMath_i16 E).sqrt x = pure (sq x))
    (a b : Slice I16) (hb : b.size = a.size) (hfuel : a.size < E.fuel) :
    generic_cosine E (Neon_i16.inst E) (AutoMath_i16 E) a.size a b
      = cosineVal (sintSpec 16) sq (BitVec.ofInt 16 (isum (fun j => (a.get j).toInt * (b.get j).toInt) a.size))
          (BitVec.ofInt 16 (isum (fun j => (a.get j).toInt * (a.get j).toInt) a.size))
          (BitVec.ofInt 16 (isum (fun j => (b.get j).toInt * (b.get j).toInt) a.size)) :=
  C06.cosine_int_exact (C03.sint_isInt 16) (C13Neon.Neon_i16.arith E) (C13Neon.Neon_i16.reduce E) (C18.auto_i16 E) sq hsq
    C13Neon.Neon_i16.hsum_is_sum a.size hfuel a b rfl hb
end Neon_i16

namespace Neon_i32
/-- `i32_xany_neon_nofma_dot`: the exact integer dot product modulo 2^32, every input, every length -/
theorem dot_exact (E : Env) (a b : Slice I32) (hb : b.size = a.size) (hfuel : a.size < E.fuel) :
    generic_dot_product E (Neon_i32.inst E) (AutoMath_i32 E) a.size a b
      = pure (BitVec.ofInt 32 (isum (fun j => (a.get j).toInt * (b.get j).toInt) a.size)) :=
  C03.dot_exact (C03.sint_isInt 32) (C13Neon.Neon_i32.arith E) (C13Neon.Neon_i32.reduce E) (C18.auto_i32 E)
    C13Neon.Neon_i32.hsum_is_sum a.size hfuel a b rfl hb
theorem sum_exact (E : Env) (a : Slice I32) (hfuel : a.size < E.fuel) :
    generic_sum E (Neon_i32.inst E) (AutoMath_i32 E) a.size a = pure (BitVec.ofInt 32 (isum (fun j => (a.get j).toInt) a.size)) :=
  C03.sum_exact (C03.sint_isInt 32) (C13Neon.Neon_i32.arith E) (C13Neon.Neon_i32.reduce E) (C18.auto_i32 E)
    C13Neon.Neon_i32.hsum_is_sum a.size hfuel a rfl
theorem squared_norm_exact (E : Env) (a : Slice I32) (hfuel : a.size < E.fuel) :
    generic_squared_norm E (Neon_i32.inst E) (AutoMath_i32 E) a.size a
      = pure (BitVec.ofInt 32 (isum (fun j => (a.get j).toInt * (a.get j).toInt) a.size)) :=
  C03.squared_norm_exact (C03.sint_isInt 32) (C13Neon.Neon_i32.arith E) (C13Neon.Neon_i32.reduce E) (C18.auto_i32 E)
    C13Neon.Neon_i32.hsum_is_sum a.size hfuel a rfl
theorem euclidean_exact (E : Env) (a b : Slice I32) (hb : b.size = a.size) (hfuel : a.size < E.fuel) :
    generic_euclidean E (Neon_i32.inst E) (AutoMath_i32 E) a.size a b
      = pure (BitVec.ofInt 32 (isum (fun j => ((a.get j).toInt - (b.get j).toInt) * ((a.get j).toInt - (b.get j).toInt)) a.size)) :=
  C03.euclidean_exact (C03.sint_isInt 32) (C13Neon.Neon_i32.arith E) (C13Neon.Neon_i32.reduce E) (C18.auto_i32 E)
    C13Neon.Neon_i32.hsum_is_sum a.size hfuel a b rfl hb
/-- horizontal max = the `max`-fold of all elements from the type minimum (the true maximum, C05.*_fold_is_max) -/
theorem max_horizontal (E : Env) (a : Slice I32) (hfuel : a.size < E.fuel) :
    generic_max_horizontal E (Neon_i32.inst E) (AutoMath_i32 E) a.size a = pure (sumR IntPrim.smax (BitVec.intMin 32) a.get a.size) :=
  ReduceKernels.max_horizontal (C13Neon.Neon_i32.arith E) (C13Neon.Neon_i32.reduce E) (C18.auto_i32 E) a.size hfuel
    (smax_monoid (by decide : 0 < 32)) C13Neon.Neon_i32.hmax_is_max a rfl
theorem min_horizontal (E : Env) (a : Slice I32) (hfuel : a.size < E.fuel) :
    generic_min_horizontal E (Neon_i32.inst E) (AutoMath_i32 E) a.size a = pure (sumR IntPrim.smin (BitVec.intMax 32) a.get a.size) :=
  ReduceKernels.min_horizontal (C13Neon.Neon_i32.arith E) (C13Neon.Neon_i32.reduce E) (C18.auto_i32 E) a.size hfuel
    (smin_monoid (by decide : 0 < 32)) C13Neon.Neon_i32.hmin_is_min a rfl
/-- integer cosine: the formula on the exact wrapped sums (so identical on every backend), `sq` = the math layer's root -/
theorem cosine_exact (E : Env) (sq : I32 → I32) (hsq : ∀ x, (AutoMath_i32 E).sqrt x = pure (sq x))
    (a b : Slice I32) (hb : b.size = a.size) (hfuel : a.size < E.fuel) :
    generic_cosine E (Neon_i32.inst E) (AutoMath_i32 E) a.size a b
      = cosineVal (sintSpec 32) sq (BitVec.ofInt 32 (isum (fun j => (a.get j).toInt * (b.get j).toInt) a.size))
          (BitVec.ofInt 32 (isum (fun j => (a.get j).toInt * (a.get j).toInt) a.size))
          (BitVec.ofInt 32 (isum (fun j => (b.get j).toInt * (b.get j).toInt) a.size)) :=
  C06.cosine_int_exact (C03.sint_isInt 32) (C13Neon.Neon_i32.arith E) (C13Neon.Neon_i32.reduce E) (C18.auto_i32 E) sq hsq
    C13Neon.Neon_i32.hsum_is_sum a.size hfuel a b rfl hb
end Neon_i32

namespace Neon_i64
/-- `i64_xany_neon_nofma_dot`: the exact integer dot product modulo 2^64, every input, every length -/
theorem dot_exact (E : Env) (a b : Slice I64) (hb : b.size = a.size) (hfuel : a.size < E.fuel) :
    generic_dot_product E (Neon_i64.inst E) (AutoMath_i64 E) a.size a b
      = pure (BitVec.ofInt 64 (isum (fun j => (a.get j).toInt * (b.get j).toInt) a.size)) :=
  C03.dot_exact (C03.sint_isInt 64) (C13Neon.Neon_i64.arith E) (C13Neon.Neon_i64.reduce E) (C18.auto_i64 E)
    C13Neon.Neon_i64.hsum_is_sum a.size hfuel a b rfl hb
theorem sum_exact (E : Env) (a : Slice I64) (hfuel : a.size < E.fuel) :
    generic_sum E (Neon_i64.inst E) (AutoMath_i64 E) a.size a = pure (BitVec.ofInt 64 (isum (fun j => (a.get j).toInt) a.size)) :=
  C03.sum_exact (C03.sint_isInt 64) (C13Neon.Neon_i64.arith E) (C13Neon.Neon_i64.reduce E) (C18.auto_i64 E)
    C13Neon.Neon_i64.hsum_is_sum a.size hfuel a rfl
theorem squared_norm_exact (E : Env) (a : Slice I64) (hfuel : a.size < E.fuel) :
    generic_squared_norm E (Neon_i64.inst E) (AutoMath_i64 E) a.size a
      = pure (BitVec.ofInt 64 (isum (fun j => (a.get j).toInt * (a.get j).toInt) a.size)) :=
  C03.squared_norm_exact (C03.sint_isInt 64) (C13Neon.Neon_i64.arith E) (C13Neon.Neon_i64.reduce E) (C18.auto_i64 E)
    C13Neon.Neon_i64.hsum_is_sum a.size hfuel a rfl
theorem euclidean_exact (E : Env) (a b : Slice I64) (hb : b.size = a.size) (hfuel : a.size < E.fuel) :
    generic_euclidean E (Neon_i64.inst E) (AutoMath_i64 E) a.size a b
      = pure (BitVec.ofInt 64 (isum (fun j => ((a.get j).toInt - (b.get j).toInt) * ((a.get j).toInt - (b.get j).toInt)) a.size)) :=
  C03.euclidean_exact (C03.sint_isInt 64) (C13Neon.Neon_i64.arith E) (C13Neon.Neon_i64.reduce E) (C18.auto_i64 E)
    C13Neon.Neon_i64.hsum_is_sum a.size hfuel a b rfl hb
/-- horizontal max = the `max`-fold of all elements from the type minimum (the true maximum, C05.*_fold_is_max) -/
theorem max_horizontal (E : Env) (a : Slice I64) (hfuel : a.size < E.fuel) :
    generic_max_horizontal E (Neon_i64.inst E) (AutoMath_i64 E) a.size a = pure (sumR IntPrim.smax (BitVec.intMin 64) a.get a.size) :=
  ReduceKernels.max_horizontal (C13Neon.Neon_i64.arith E) (C13Neon.Neon_i64.reduce E) (C18.auto_i64 E) a.size hfuel
    (smax_monoid (by decide : 0 < 64)) C13Neon.Neon_i64.hmax_is_max a rfl
theorem min_horizontal (E : Env) (a : Slice I64) (hfuel : a.size < E.fuel) :
    generic_min_horizontal E (Neon_i64.inst E) (AutoMath_i64 E) a.size a = pure (sumR IntPrim.smin (BitVec.intMax 64) a.get a.size) :=
  ReduceKernels.min_horizontal (C13Neon.Neon_i64.arith E) (C13Neon.Neon_i64.reduce E) (C18.auto_i64 E) a.size hfuel
    (smin_monoid (by decide : 0 < 64)) C13Neon.Neon_i64.hmin_is_min a rfl
/-- integer cosine: the formula on the exact wrapped sums (so identical on every backend), `sq` = the math layer's root -/
theorem cosine_exact (E : Env) (sq : I64 → I64) (hsq : ∀ x, (AutoMath_i64 E).sqrt x = pure (sq x))
    (a b : Slice I64) (hb : b.size = a.size) (hfuel : a.size < E.fuel) :
    generic_cosine E (Neon_i64.inst E) (AutoMath_i64 E) a.size a b
      = cosineVal (sintSpec 64) sq (BitVec.ofInt 64 (isum (fun j => (a.get j).toInt * (b.get j).toInt) a.size))
          (BitVec.ofInt 64 (isum (fun j => (a.get j).toInt * (a.get j).toInt) a.size))
          (BitVec.ofInt 64 (isum (fun j => (b.get j).toInt * (b.get j).toInt) a.size)) :=
  C06.cosine_int_exact (C03.sint_isInt 64) (C13Neon.Neon_i64.arith E) (C13Neon.Neon_i64.reduce E) (C18.auto_i64 E) sq hsq
    C13Neon.Neon_i64.hsum_is_sum a.size hfuel a b rfl hb
end Neon_i64

namespace Neon_u8
/-- `u8_xany_neon_nofma_dot`: the exact integer dot product modulo 2^8, every input, every length -/
theorem dot_exact (E : Env) (a b : Slice U8) (hb : b.size = a.size) (hfuel : a.size < E.fuel) :
    generic_dot_product E (Neon_u8.inst E) (AutoMath_u8 E) a.size a b
      = pure (BitVec.ofInt 8 (isum (fun j => (a.get j).toInt * (b.get j).toInt) a.size)) :=
  C03.dot_exact (C03.uint_isInt 8) (C13Neon.Neon_u8.arith E) (C13Neon.Neon_u8.reduce E) (C18.auto_u8 E)
    C13Neon.Neon_u8.hsum_is_sum a.size hfuel a b rfl hb
theorem sum_exact (E : Env) (a : Slice U8) (hfuel : a.size < E.fuel) :
    generic_sum E (Neon_u8.inst E) (AutoMath_u8 E) a.size a = pure (BitVec.ofInt 8 (isum (fun j => (a.get j).toInt) a.size)) :=
  C03.sum_exact (C03.uint_isInt 8) (C13Neon.Neon_u8.arith E) (C13Neon.Neon_u8.reduce E) (C18.auto_u8 E)
    C13Neon.Neon_u8.hsum_is_sum a.size hfuel a rfl
theorem squared_norm_exact (E : Env) (a : Slice U8) (hfuel : a.size < E.fuel) :
    generic_squared_norm E (Neon_u8.inst E) (AutoMath_u8 E) a.size a
      = pure (BitVec.ofInt 8 (isum (fun j => (a.get j).toInt * (a.get j).toInt) a.size)) :=
  C03.squared_norm_exact (C03.uint_isInt 8) (C13Neon.Neon_u8.arith E) (C13Neon.Neon_u8.reduce E) (C18.auto_u8 E)
    C13Neon.Neon_u8.hsum_is_sum a.size hfuel a rfl
theorem euclidean_exact (E : Env) (a b : Slice U8) (hb : b.size = a.size) (hfuel : a.size < E.fuel) :
    generic_euclidean E (Neon_u8.inst E) (AutoMath_u8 E) a.size a b
      = pure (BitVec.ofInt 8 (isum (fun j => ((a.get j).toInt - (b.get j).toInt) * ((a.get j).toInt - (b.get j).toInt)) a.size)) :=
  C03.euclidean_exact (C03.uint_isInt 8) (C13Neon.Neon_u8.arith E) (C13Neon.Neon_u8.reduce E) (C18.auto_u8 E)
    C13Neon.Neon_u8.hsum_is_sum a.size hfuel a b rfl hb
/-- horizontal max = the `max`-fold of all elements from the type minimum (the true maximum, C05.*_fold_is_max) -/
theorem max_horizontal (E : Env) (a : Slice U8) (hfuel : a.size < E.fuel) :
    generic_max_horizontal E (Neon_u8.inst E) (AutoMath_u8 E) a.size a = pure (sumR IntPrim.umax (0 : BitVec 8) a.get a.size) :=
  ReduceKernels.max_horizontal (C13Neon.Neon_u8.arith E) (C13Neon.Neon_u8.reduce E) (C18.auto_u8 E) a.size hfuel
    (umax_monoid 8) C13Neon.Neon_u8.hmax_is_max a rfl
theorem min_horizontal (E : Env) (a : Slice U8) (hfuel : a.size < E.fuel) :
    generic_min_horizontal E (Neon_u8.inst E) (AutoMath_u8 E) a.size a = pure (sumR IntPrim.umin (BitVec.allOnes 8) a.get a.size) :=
  ReduceKernels.min_horizontal (C13Neon.Neon_u8.arith E) (C13Neon.Neon_u8.reduce E) (C18.auto_u8 E) a.size hfuel
    (umin_monoid 8) C13Neon.Neon_u8.hmin_is_min a rfl
/-- integer cosine: the formula on the exact wrapped sums (so identical on every backend), `sq` = the math layer's root -/
theorem cosine_exact (E : Env) (sq : U8 → U8) (hsq : ∀ x, (AutoMath_u8 E).sqrt x = pure (sq x))
    (a b : Slice U8) (hb : b.size = a.size) (hfuel : a.size < E.fuel) :
    generic_cosine E (Neon_u8.inst E) (AutoMath_u8 E) a.size a b
      = cosineVal (uintSpec 8) sq (BitVec.ofInt 8 (isum (fun j => (a.get j).toInt * (b.get j).toInt) a.size))
          (BitVec.ofInt 8 (isum (fun j => (a.get j).toInt * (a.get j).toInt) a.size))
          (BitVec.ofInt 8 (isum (fun j => (b.get j).toInt * (b.get j).toInt) a.size)) :=
  C06.cosine_int_exact (C03.uint_isInt 8) (C13Neon.Neon_u8.arith E) (C13Neon.Neon_u8.reduce E) (C18.auto_u8 E) sq hsq
    C13Neon.Neon_u8.hsum_is_sum a.size hfuel a b rfl hb
end Neon_u8

namespace Neon_u16
/-- `u16_xany_neon_nofma_dot`: the exact integer dot product modulo 2^16, every input, every length -/
theorem dot_exact (E : Env) (a b : Slice U16) (hb : b.size = a.size) (hfuel : a.size < E.fuel) :
    generic_dot_product E (Neon_u16.inst E) (AutoMath_u16 E) a.size a b
      = pure (BitVec.ofInt 16 (isum (fun j => (a.get j).toInt * (b.get j).toInt) a.size)) :=
  C03.dot_exact (C03.uint_isInt 16) (C13Neon.Neon_u16.arith E) (C13Neon.Neon_u16.reduce E) (C18.auto_u16 E)
    C13Neon.Neon_u16.hsum_is_sum a.size hfuel a b rfl hb
theorem sum_exact (E : Env) (a : Slice U16) (hfuel : a.size < E.fuel) :
    generic_sum E (Neon_u16.inst E) (AutoMath_u16 E) a.size a = pure (BitVec.ofInt 16 (isum (fun j => (a.get j).toInt) a.size)) :=
  C03.sum_exact (C03.uint_isInt 16) (C13Neon.Neon_u16.arith E) (C13Neon.Neon_u16.reduce E) (C18.auto_u16 E)
    C13Neon.Neon_u16.hsum_is_sum a.size hfuel a rfl
theorem squared_norm_exact (E : Env) (a : Slice U16) (hfuel : a.size < E.fuel) :
    generic_squared_norm E (Neon_u16.inst E) (AutoMath_u16 E) a.size a
      = pure (BitVec.ofInt 16 (isum (fun j => (a.get j).toInt * (a.get j).toInt) a.size)) :=
  C03.squared_norm_exact (C03.uint_isInt 16) (C13Neon.Neon_u16.arith E) (C13Neon.Neon_u16.reduce E) (C18.auto_u16 E)
    C13Neon.Neon_u16.hsum_is_sum a.size hfuel a rfl
theorem euclidean_exact (E : Env) (a b : Slice U16) (hb : b.size = a.size) (hfuel : a.size < E.fuel) :
    generic_euclidean E (Neon_u16.inst E) (AutoMath_u16 E) a.size a b
      = pure (BitVec.ofInt 16 (isum (fun j => ((a.get j).toInt - (b.get j).toInt) * ((a.get j).toInt - (b.get j).toInt)) a.size)) :=
  C03.euclidean_exact (C03.uint_isInt 16) (C13Neon.Neon_u16.arith E) (C13Neon.Neon_u16.reduce E) (C18.auto_u16 E)
    C13Neon.Neon_u16.hsum_is_sum a.size hfuel a b rfl hb
/-- horizontal max = the `max`-fold of all elements from the type minimum (the true maximum, C05.*_fold_is_max) -/
theorem max_horizontal (E : Env) (a : Slice U16) (hfuel : a.size < E.fuel) :
    generic_max_horizontal E (Neon_u16.inst E) (AutoMath_u16 E) a.size a = pure (sumR IntPrim.umax (0 : BitVec 16) a.get a.size) :=
  ReduceKernels.max_horizontal (C13Neon.Neon_u16.arith E) (C13Neon.Neon_u16.reduce E) (C18.auto_u16 E) a.size hfuel
    (umax_monoid 16) C13Neon.Neon_u16.hmax_is_max a rfl
theorem min_horizontal (E : Env) (a : Slice U16) (hfuel : a.size < E.fuel) :
    generic_min_horizontal E (Neon_u16.inst E) (AutoMath_u16 E) a.size a = pure (sumR IntPrim.umin (BitVec.allOnes 16) a.get a.size) :=
  ReduceKernels.min_horizontal (C13Neon.Neon_u16.arith E) (C13Neon.Neon_u16.reduce E) (C18.auto_u16 E) a.size hfuel
    (umin_monoid 16) C13Neon.Neon_u16.hmin_is_min a rfl
/-- integer cosine: the formula on the exact wrapped sums (so identical on every backend), `sq` = the math layer's root -/
theorem cosine_exact (E : Env) (sq : U16 → U16) (hsq : ∀ x, (AutoMath_u16 E).sqrt x = pure (sq x))
    (a b : Slice U16) (hb : b.size = a.size) (hfuel : a.size < E.fuel) :
    generic_cosine E (Neon_u16.inst E) (AutoMath_u16 E) a.size a b
      = cosineVal (uintSpec 16) sq (BitVec.ofInt 16 (isum (fun j => (a.get j).toInt * (b.get j).toInt) a.size))
          (BitVec.ofInt 16 (isum (fun j => (a.get j).toInt * (a.get j).toInt) a.size))
          (BitVec.ofInt 16 (isum (fun j => (b.get j).toInt * (b.get j).toInt) a.size)) :=
  C06.cosine_int_exact (C03.uint_isInt 16) (C13Neon.Neon_u16.arith E) (C13Neon.Neon_u16.reduce E) (C18.auto_u16 E) sq hsq
    C13Neon.Neon_u16.hsum_is_sum a.size hfuel a b rfl hb
end Neon_u16

namespace Neon_u32
/-- `u32_xany_neon_nofma_dot`: the exact integer dot product modulo 2^32, every input, every length -/
theorem dot_exact (E : Env) (a b : Slice U32) (hb : b.size = a.size) (hfuel : a.size < E.fuel) :
    generic_dot_product E (Neon_u32.inst E) (AutoMath_u32 E) a.size a b
      = pure (BitVec.ofInt 32 (isum (fun j => (a.get j).toInt * (b.get j).toInt) a.size)) :=
  C03.dot_exact (C03.uint_isInt 32) (C13Neon.Neon_u32.arith E) (C13Neon.Neon_u32.reduce E) (C18.auto_u32 E)
    C13Neon.Neon_u32.hsum_is_sum a.size hfuel a b rfl hb
theorem sum_exact (E : Env) (a : Slice U32) (hfuel : a.size < E.fuel) :
    generic_sum E (Neon_u32.inst E) (AutoMath_u32 E) a.size a = pure (BitVec.ofInt 32 (isum (fun j => (a.get j).toInt) a.size)) :=
  C03.sum_exact (C03.uint_isInt 32) (C13Neon.Neon_u32.arith E) (C13Neon.Neon_u32.reduce E) (C18.auto_u32 E)
    C13Neon.Neon_u32.hsum_is_sum a.size hfuel a rfl
theorem squared_norm_exact (E : Env) (a : Slice U32) (hfuel : a.size < E.fuel) :
    generic_squared_norm E (Neon_u32.inst E) (AutoMath_u32 E) a.size a
      = pure (BitVec.ofInt 32 (isum (fun j => (a.get j).toInt * (a.get j).toInt) a.size)) :=
  C03.squared_norm_exact (C03.uint_isInt 32) (C13Neon.Neon_u32.arith E) (C13Neon.Neon_u32.reduce E) (C18.auto_u32 E)
    C13Neon.Neon_u32.hsum_is_sum a.size hfuel a rfl
theorem euclidean_exact (E : Env) (a b : Slice U32) (hb : b.size = a.size) (hfuel : a.size < E.fuel) :
    generic_euclidean E (Neon_u32.inst E) (AutoMath_u32 E) a.size a b
      = pure (BitVec.ofInt 32 (isum (fun j => ((a.get j).toInt - (b.get j).toInt) * ((a.get j).toInt - (b.get j).toInt)) a.size)) :=
  C03.euclidean_exact (C03.uint_isInt 32) (C13Neon.Neon_u32.arith E) (C13Neon.Neon_u32.reduce E) (C18.auto_u32 E)
    C13Neon.Neon_u32.hsum_is_sum a.size hfuel a b rfl hb
/-- horizontal max = the `max`-fold of all elements from the type minimum (the true maximum, C05.*_fold_is_max) -/
theorem max_horizontal (E : Env) (a : Slice U32) (hfuel : a.size < E.fuel) :
    generic_max_horizontal E (Neon_u32.inst E) (AutoMath_u32 E) a.size a = pure (sumR IntPrim.umax (0 : BitVec 32) a.get a.size) :=
  ReduceKernels.max_horizontal (C13Neon.Neon_u32.arith E) (C13Neon.Neon_u32.reduce E) (C18.auto_u32 E) a.size hfuel
    (umax_monoid 32) C13Neon.Neon_u32.hmax_is_max a rfl
theorem min_horizontal (E : Env) (a : Slice U32) (hfuel : a.size < E.fuel) :
    generic_min_horizontal E (Neon_u32.inst E) (AutoMath_u32 E) a.size a = pure (sumR IntPrim.umin (BitVec.allOnes 32) a.get a.size) :=
  ReduceKernels.min_horizontal (C13Neon.Neon_u32.arith E) (C13Neon.Neon_u32.reduce E) (C18.auto_u32 E) a.size hfuel
    (umin_monoid 32) C13Neon.Neon_u32.hmin_is_min a rfl
/-- integer cosine: the formula on the exact wrapped sums (so identical on every backend), `sq` = the math layer's root -/
theorem cosine_exact (E : Env) (sq : U32 → U32) (hsq : ∀ x, (AutoMath_u32 E).sqrt x = pure (sq x))
    (a b : Slice U32) (hb : b.size = a.size) (hfuel : a.size < E.fuel) :
    generic_cosine E (Neon_u32.inst E) (AutoMath_u32 E) a.size a b
      = cosineVal (uintSpec 32) sq (BitVec.ofInt 32 (isum (fun j => (a.get j).toInt * (b.get j).toInt) a.size))
          (BitVec.ofInt 32 (isum (fun j => (a.get j).toInt * (a.get j).toInt) a.size))
          (BitVec.ofInt 32 (isum (fun j => (b.get j).toInt * (b.get j).toInt) a.size)) :=
  C06.cosine_int_exact (C03.uint_isInt 32) (C13Neon.Neon_u32.arith E) (C13Neon.Neon_u32.reduce E) (C18.auto_u32 E) sq hsq
    C13Neon.Neon_u32.hsum_is_sum a.size hfuel a b rfl hb
end Neon_u32

namespace Neon_u64
/-- `u64_xany_neon_nofma_dot`: the exact integer dot product modulo 2^64, every input, every length -/
theorem dot_exact (E : Env) (a b : Slice U64) (hb : b.size = a.size) (hfuel : a.size < E.fuel) :
    generic_dot_product E (Neon_u64.inst E) (AutoMath_u64 E) a.size a b
      = pure (BitVec.ofInt 64 (isum (fun j => (a.get j).toInt * (b.get j).toInt) a.size)) :=
  C03.dot_exact (C03.uint_isInt 64) (C13Neon.Neon_u64.arith E) (C13Neon.Neon_u64.reduce E) (C18.auto_u64 E)
    C13Neon.Neon_u64.hsum_is_sum a.size hfuel a b rfl hb
theorem sum_exact (E : Env) (a : Slice U64) (hfuel : a.size < E.fuel) :
    generic_sum E (Neon_u64.inst E) (AutoMath_u64 E) a.size a = pure (BitVec.ofInt 64 (isum (fun j => (a.get j).toInt) a.size)) :=
  C03.sum_exact (C03.uint_isInt 64) (C13Neon.Neon_u64.arith E) (C13Neon.Neon_u64.reduce E) (C18.auto_u64 E)
    C13Neon.Neon_u64.hsum_is_sum a.size hfuel a rfl
theorem squared_norm_exact (E : Env) (a : Slice U64) (hfuel : a.size < E.fuel) :
    generic_squared_norm E (Neon_u64.inst E) (AutoMath_u64 E) a.size a
      = pure (BitVec.ofInt 64 (isum (fun j => (a.get j).toInt * (a.get j).toInt) a.size)) :=
  C03.squared_norm_exact (C03.uint_isInt 64) (C13Neon.Neon_u64.arith E) (C13Neon.Neon_u64.reduce E) (C18.auto_u64 E)
    C13Neon.Neon_u64.hsum_is_sum a.size hfuel a rfl
theorem euclidean_exact (E : Env) (a b : Slice U64) (hb : b.size = a.size) (hfuel : a.size < E.fuel) :
    generic_euclidean E (Neon_u64.inst E) (AutoMath_u64 E) a.size a b
      = pure (BitVec.ofInt 64 (isum (fun j => ((a.get j).toInt - (b.get j).toInt) * ((a.get j).toInt - (b.get j).toInt)) a.size)) :=
  C03.euclidean_exact (C03.uint_isInt 64) (C13Neon.Neon_u64.arith E) (C13Neon.Neon_u64.reduce E) (C18.auto_u64 E)
    C13Neon.Neon_u64.hsum_is_sum a.size hfuel a b rfl hb
/-- horizontal max = the `max`-fold of all elements from the type minimum (the true maximum, C05.*_fold_is_max) -/
theorem max_horizontal (E : Env) (a : Slice U64) (hfuel : a.size < E.fuel) :
    generic_max_horizontal E (Neon_u64.inst E) (AutoMath_u64 E) a.size a = pure (sumR IntPrim.umax (0 : BitVec 64) a.get a.size) :=
  ReduceKernels.max_horizontal (C13Neon.Neon_u64.arith E) (C13Neon.Neon_u64.reduce E) (C18.auto_u64 E) a.size hfuel
    (umax_monoid 64) C13Neon.Neon_u64.hmax_is_max a rfl
theorem min_horizontal (E : Env) (a : Slice U64) (hfuel : a.size < E.fuel) :
    generic_min_horizontal E (Neon_u64.inst E) (AutoMath_u64 E) a.size a = pure (sumR IntPrim.umin (BitVec.allOnes 64) a.get a.size) :=
  ReduceKernels.min_horizontal (C13Neon.Neon_u64.arith E) (C13Neon.Neon_u64.reduce E) (C18.auto_u64 E) a.size hfuel
    (umin_monoid 64) C13Neon.Neon_u64.hmin_is_min a rfl
/-- integer cosine: the formula on the exact wrapped sums (so identical on every backend), `sq` = the math layer's root -/
theorem cosine_exact (E : Env) (sq : U64 → U64) (hsq : ∀ x, (AutoMath_u64 E).sqrt x = pure (sq x))
    (a b : Slice U64) (hb : b.size = a.size) (hfuel : a.size < E.fuel) :
    generic_cosine E (Neon_u64.inst E) (AutoMath_u64 E) a.size a b
      = cosineVal (uintSpec 64) sq (BitVec.ofInt 64 (isum (fun j => (a.get j).toInt * (b.get j).toInt) a.size))
          (BitVec.ofInt 64 (isum (fun j => (a.get j).toInt * (a.get j).toInt) a.size))
          (BitVec.ofInt 64 (isum (fun j => (b.get j).toInt * (b.get j).toInt) a.size)) :=
  C06.cosine_int_exact (C03.uint_isInt 64) (C13Neon.Neon_u64.arith E) (C13Neon.Neon_u64.reduce E) (C18.auto_u64 E) sq hsq
    C13Neon.Neon_u64.hsum_is_sum a.size hfuel a b rfl hb
end Neon_u64

/-- **backend independence (i8 dot product)**: NEON and Fallback return the same bits for every input -/
theorem i8_dot_neon_agrees (E : Env) (a b : Slice I8) (hb : b.size = a.size) (hfuel : a.size < E.fuel) :
    generic_dot_product E (Neon_i8.inst E) (AutoMath_i8 E) a.size a b
      = generic_dot_product E (Fallback.inst E (AutoMath_i8 E) 1) (AutoMath_i8 E) a.size a b := by
  rw [Neon_i8.dot_exact E a b hb hfuel]
  exact (C03.dot_exact (C03.sint_isInt 8) (C02.fallback_arith E _ _ 1 (by omega) (C18.auto_i8 E))
    (C13Fallback.reduce E _ 1 (C18.auto_i8 E)) (C18.auto_i8 E)
    (C03.fallback_hsum (add_monoid 8)) a.size hfuel a b rfl hb).symm

/-- **backend independence (i16 dot product)**: NEON and Fallback return the same bits for every input -/
theorem i16_dot_neon_agrees (E : Env) (a b : Slice I16) (hb : b.size = a.size) (hfuel : a.size < E.fuel) :
    generic_dot_product E (Neon_i16.inst E) (AutoMath_i16 E) a.size a b
      = generic_dot_product E (Fallback.inst E (AutoMath_i16 E) 2) (AutoMath_i16 E) a.size a b := by
  rw [Neon_i16.dot_exact E a b hb hfuel]
  exact (C03.dot_exact (C03.sint_isInt 16) (C02.fallback_arith E _ _ 2 (by omega) (C18.auto_i16 E))
    (C13Fallback.reduce E _ 2 (C18.auto_i16 E)) (C18.auto_i16 E)
    (C03.fallback_hsum (add_monoid 16)) a.size hfuel a b rfl hb).symm

/-- **backend independence (i32 dot product)**: NEON and Fallback return the same bits for every input -/
theorem i32_dot_neon_agrees (E : Env) (a b : Slice I32) (hb : b.size = a.size) (hfuel : a.size < E.fuel) :
    generic_dot_product E (Neon_i32.inst E) (AutoMath_i32 E) a.size a b
      = generic_dot_product E (Fallback.inst E (AutoMath_i32 E) 4) (AutoMath_i32 E) a.size a b := by
  rw [Neon_i32.dot_exact E a b hb hfuel]
  exact (C03.dot_exact (C03.sint_isInt 32) (C02.fallback_arith E _ _ 4 (by omega) (C18.auto_i32 E))
    (C13Fallback.reduce E _ 4 (C18.auto_i32 E)) (C18.auto_i32 E)
    (C03.fallback_hsum (add_monoid 32)) a.size hfuel a b rfl hb).symm

/-- **backend independence (i64 dot product)**: NEON and Fallback return the same bits for every input -/
theorem i64_dot_neon_agrees (E : Env) (a b : Slice I64) (hb : b.size = a.size) (hfuel : a.size < E.fuel) :
    generic_dot_product E (Neon_i64.inst E) (AutoMath_i64 E) a.size a b
      = generic_dot_product E (Fallback.inst E (AutoMath_i64 E) 8) (AutoMath_i64 E) a.size a b := by
  rw [Neon_i64.dot_exact E a b hb hfuel]
  exact (C03.dot_exact (C03.sint_isInt 64) (C02.fallback_arith E _ _ 8 (by omega) (C18.auto_i64 E))
    (C13Fallback.reduce E _ 8 (C18.auto_i64 E)) (C18.auto_i64 E)
    (C03.fallback_hsum (add_monoid 64)) a.size hfuel a b rfl hb).symm

/-- **backend independence (u8 dot product)**: NEON and Fallback return the same bits for every input -/
theorem u8_dot_neon_agrees (E : Env) (a b : Slice U8) (hb : b.size = a.size) (hfuel : a.size < E.fuel) :
    generic_dot_product E (Neon_u8.inst E) (AutoMath_u8 E) a.size a b
      = generic_dot_product E (Fallback.inst E (AutoMath_u8 E) 1) (AutoMath_u8 E) a.size a b := by
  rw [Neon_u8.dot_exact E a b hb hfuel]
  exact (C03.dot_exact (C03.uint_isInt 8) (C02.fallback_arith E _ _ 1 (by omega) (C18.auto_u8 E))
    (C13Fallback.reduce E _ 1 (C18.auto_u8 E)) (C18.auto_u8 E)
    (C03.fallback_hsum (add_monoid 8)) a.size hfuel a b rfl hb).symm

/-- **backend independence (u16 dot product)**: NEON and Fallback return the same bits for every input -/
theorem u16_dot_neon_agrees (E : Env) (a b : Slice U16) (hb : b.size = a.size) (hfuel : a.size < E.fuel) :
    generic_dot_product E (Neon_u16.inst E) (AutoMath_u16 E) a.size a b
      = generic_dot_product E (Fallback.inst E (AutoMath_u16 E) 2) (AutoMath_u16 E) a.size a b := by
  rw [Neon_u16.dot_exact E a b hb hfuel]
  exact (C03.dot_exact (C03.uint_isInt 16) (C02.fallback_arith E _ _ 2 (by omega) (C18.auto_u16 E))
    (C13Fallback.reduce E _ 2 (C18.auto_u16 E)) (C18.auto_u16 E)
    (C03.fallback_hsum (add_monoid 16)) a.size hfuel a b rfl hb).symm

/-- **backend independence (u32 dot product)**: NEON and Fallback return the same bits for every input -/
theorem u32_dot_neon_agrees (E : Env) (a b : Slice U32) (hb : b.size = a.size) (hfuel : a.size < E.fuel) :
    generic_dot_product E (Neon_u32.inst E) (AutoMath_u32 E) a.size a b
      = generic_dot_product E (Fallback.inst E (AutoMath_u32 E) 4) (AutoMath_u32 E) a.size a b := by
  rw [Neon_u32.dot_exact E a b hb hfuel]
  exact (C03.dot_exact (C03.uint_isInt 32) (C02.fallback_arith E _ _ 4 (by omega) (C18.auto_u32 E))
    (C13Fallback.reduce E _ 4 (C18.auto_u32 E)) (C18.auto_u32 E)
    (C03.fallback_hsum (add_monoid 32)) a.size hfuel a b rfl hb).symm

/-- **backend independence (u64 dot product)**: NEON and Fallback return the same bits for every input -/
theorem u64_dot_neon_agrees (E : Env) (a b : Slice U64) (hb : b.size = a.size) (hfuel : a.size < E.fuel) :
    generic_dot_product E (Neon_u64.inst E) (AutoMath_u64 E) a.size a b
      = generic_dot_product E (Fallback.inst E (AutoMath_u64 E) 8) (AutoMath_u64 E) a.size a b := by
  rw [Neon_u64.dot_exact E a b hb hfuel]
  exact (C03.dot_exact (C03.uint_isInt 64) (C02.fallback_arith E _ _ 8 (by omega) (C18.auto_u64 E))
    (C13Fallback.reduce E _ 8 (C18.auto_u64 E)) (C18.auto_u64 E)
    (C03.fallback_hsum (add_monoid 64)) a.size hfuel a b rfl hb).symm

end Cfavml.Thm.NeonInt
