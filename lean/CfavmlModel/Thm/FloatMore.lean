/-
GENERATED TEXT (/verif/tools/gen_float_more.py). C04 on the eight real float backends, remaining instances:
squared norm and squared Euclidean distance within `γ(n+3)·Σ|terms|`, and exactness — for finite integer-valued data with
`Σ|aᵢbᵢ| ≤ P` the dot product is finite and exactly `Σ aᵢbᵢ` (so a one-hot marker at any index of any length is counted
exactly once), fused or not, whatever the fold tree.
-/
import CfavmlModel.Thm.X86Float
import CfavmlModel.Thm.NeonFloat

namespace Cfavml.Thm.FloatMore
open Cfavml.Thm KernelModel FloatReduce Rounding

/-- **C04 on `Avx2_f32`: squared norm and squared Euclidean distance** -/
theorem Avx2_f32_norm_euclid_bounds (E : Env) (hn : E.feat_nightly = false) (F : FloatSem (f32Spec E false) (fun x y acc => (f32Spec E false).add ((f32Spec E false).mul x y) acc))
    (a b : Slice F32) (hb : b.size = a.size) (hfuel : a.size < E.fuel) (hk : ((a.size + 3 : ℕ) : ℝ) * F.u < 1)
    (hnua : ∀ i, F.NoUf (a.get i) (a.get i))
    (hnud : ∀ i, F.NoUf ((f32Spec E false).sub (a.get i) (b.get i)) ((f32Spec E false).sub (a.get i) (b.get i))) :
    (∃ v, generic_squared_norm E (Avx2_f32.inst E) (AutoMath_f32 E) a.size a = pure v ∧
      (F.Fin v → |F.val v - ((List.range a.size).map (fun i => F.val (a.get i) * F.val (a.get i))).sum|
        ≤ gamma F.u (a.size + 3) * ((List.range a.size).map (fun i => |F.val (a.get i) * F.val (a.get i)|)).sum))
    ∧ (∃ v, generic_euclidean E (Avx2_f32.inst E) (AutoMath_f32 E) a.size a b = pure v ∧
      (F.Fin v → |F.val v - ((List.range a.size).map (fun i =>
            F.val ((f32Spec E false).sub (a.get i) (b.get i)) * F.val ((f32Spec E false).sub (a.get i) (b.get i)))).sum|
        ≤ gamma F.u (a.size + 3) * ((List.range a.size).map (fun i =>
            |F.val ((f32Spec E false).sub (a.get i) (b.get i)) * F.val ((f32Spec E false).sub (a.get i) (b.get i))|)).sum)) := by
  have SM : SumMath (AutoMath_f32 E) (f32Spec E false) := by
    have := C18.auto_f32 E
    rw [hn] at this
    exact SumMath.of this
  have hloc : FoldLocal 8 (fun f => t8.eval E.F.add32 f) := (fun f g h => FTree.eval_congr _ f g _ (fun k hk => h k (by have := (t8_perm.mem_iff).mp hk; simpa using this)))
  have HF := ftree_sem F t8 8 3 t8_perm (by decide)
  exact ⟨C04.squared_norm_bound (X86Float.Avx2_f32.sumBackend E) SM F HF hloc (by decide) (by decide) a.size hfuel hk a rfl hnua,
    C04.euclidean_bound (X86Float.Avx2_f32.sumBackend E) SM F HF hloc (by decide) (by decide) a.size hfuel hk a b rfl hb hnud⟩

/-- **C04 on `Avx2_f32`: exactness** -/
theorem Avx2_f32_dot_exact (E : Env) (hn : E.feat_nightly = false) (X : ExactSem (f32Spec E false) (fun x y acc => (f32Spec E false).add ((f32Spec E false).mul x y) acc))
    (a b : Slice F32) (hb : b.size = a.size) (hfuel : a.size < E.fuel)
    (hin : ∀ i, X.Fin (a.get i) ∧ X.Fin (b.get i) ∧ IsInt (X.val (a.get i)) ∧ IsInt (X.val (b.get i)))
    (hP : ((List.range a.size).map (fun i => |X.val (a.get i) * X.val (b.get i)|)).sum ≤ X.P) :
    ∃ v, generic_dot_product E (Avx2_f32.inst E) (AutoMath_f32 E) a.size a b = pure v ∧ X.Fin v
      ∧ X.val v = ((List.range a.size).map (fun i => X.val (a.get i) * X.val (b.get i))).sum := by
  have SM : SumMath (AutoMath_f32 E) (f32Spec E false) := by
    have := C18.auto_f32 E
    rw [hn] at this
    exact SumMath.of this
  have hloc : FoldLocal 8 (fun f => t8.eval E.F.add32 f) := (fun f g h => FTree.eval_congr _ f g _ (fun k hk => h k (by have := (t8_perm.mem_iff).mp hk; simpa using this)))
  exact C04.dot_product_exact' (X86Float.Avx2_f32.sumBackend E) SM X (ftree_shape t8 8 3 t8_perm (by decide)) hloc (by decide) a.size hfuel a b rfl hb hin
    (fun f g h => ftree_relX X a.get b.get hin t8 f g (fun k hk => h k (by have := (t8_perm.mem_iff).mp hk; simpa using this))) hP

/-- **C04 on `Avx2Fma_f32`: squared norm and squared Euclidean distance** -/
theorem Avx2Fma_f32_norm_euclid_bounds (E : Env) (hn : E.feat_nightly = false) (F : FloatSem (f32Spec E false) E.F.fma32)
    (a b : Slice F32) (hb : b.size = a.size) (hfuel : a.size < E.fuel) (hk : ((a.size + 3 : ℕ) : ℝ) * F.u < 1)
    (hnua : ∀ i, F.NoUf (a.get i) (a.get i))
    (hnud : ∀ i, F.NoUf ((f32Spec E false).sub (a.get i) (b.get i)) ((f32Spec E false).sub (a.get i) (b.get i))) :
    (∃ v, generic_squared_norm E (Avx2Fma_f32.inst E) (AutoMath_f32 E) a.size a = pure v ∧
      (F.Fin v → |F.val v - ((List.range a.size).map (fun i => F.val (a.get i) * F.val (a.get i))).sum|
        ≤ gamma F.u (a.size + 3) * ((List.range a.size).map (fun i => |F.val (a.get i) * F.val (a.get i)|)).sum))
    ∧ (∃ v, generic_euclidean E (Avx2Fma_f32.inst E) (AutoMath_f32 E) a.size a b = pure v ∧
      (F.Fin v → |F.val v - ((List.range a.size).map (fun i =>
            F.val ((f32Spec E false).sub (a.get i) (b.get i)) * F.val ((f32Spec E false).sub (a.get i) (b.get i)))).sum|
        ≤ gamma F.u (a.size + 3) * ((List.range a.size).map (fun i =>
            |F.val ((f32Spec E false).sub (a.get i) (b.get i)) * F.val ((f32Spec E false).sub (a.get i) (b.get i))|)).sum)) := by
  have SM : SumMath (AutoMath_f32 E) (f32Spec E false) := by
    have := C18.auto_f32 E
    rw [hn] at this
    exact SumMath.of this
  have hloc : FoldLocal 8 (fun f => t8.eval E.F.add32 f) := (fun f g h => FTree.eval_congr _ f g _ (fun k hk => h k (by have := (t8_perm.mem_iff).mp hk; simpa using this)))
  have HF := ftree_sem F t8 8 3 t8_perm (by decide)
  exact ⟨C04.squared_norm_bound (X86Float.Avx2Fma_f32.sumBackend E) SM F HF hloc (by decide) (by decide) a.size hfuel hk a rfl hnua,
    C04.euclidean_bound (X86Float.Avx2Fma_f32.sumBackend E) SM F HF hloc (by decide) (by decide) a.size hfuel hk a b rfl hb hnud⟩

/-- **C04 on `Avx2Fma_f32`: exactness** -/
theorem Avx2Fma_f32_dot_exact (E : Env) (hn : E.feat_nightly = false) (X : ExactSem (f32Spec E false) E.F.fma32)
    (a b : Slice F32) (hb : b.size = a.size) (hfuel : a.size < E.fuel)
    (hin : ∀ i, X.Fin (a.get i) ∧ X.Fin (b.get i) ∧ IsInt (X.val (a.get i)) ∧ IsInt (X.val (b.get i)))
    (hP : ((List.range a.size).map (fun i => |X.val (a.get i) * X.val (b.get i)|)).sum ≤ X.P) :
    ∃ v, generic_dot_product E (Avx2Fma_f32.inst E) (AutoMath_f32 E) a.size a b = pure v ∧ X.Fin v
      ∧ X.val v = ((List.range a.size).map (fun i => X.val (a.get i) * X.val (b.get i))).sum := by
  have SM : SumMath (AutoMath_f32 E) (f32Spec E false) := by
    have := C18.auto_f32 E
    rw [hn] at this
    exact SumMath.of this
  have hloc : FoldLocal 8 (fun f => t8.eval E.F.add32 f) := (fun f g h => FTree.eval_congr _ f g _ (fun k hk => h k (by have := (t8_perm.mem_iff).mp hk; simpa using this)))
  exact C04.dot_product_exact' (X86Float.Avx2Fma_f32.sumBackend E) SM X (ftree_shape t8 8 3 t8_perm (by decide)) hloc (by decide) a.size hfuel a b rfl hb hin
    (fun f g h => ftree_relX X a.get b.get hin t8 f g (fun k hk => h k (by have := (t8_perm.mem_iff).mp hk; simpa using this))) hP

/-- **C04 on `Avx512_f32`: squared norm and squared Euclidean distance** -/
theorem Avx512_f32_norm_euclid_bounds (E : Env) (hn : E.feat_nightly = false) (F : FloatSem (f32Spec E false) E.F.fma32)
    (a b : Slice F32) (hb : b.size = a.size) (hfuel : a.size < E.fuel) (hk : ((a.size + 3 : ℕ) : ℝ) * F.u < 1)
    (hnua : ∀ i, F.NoUf (a.get i) (a.get i))
    (hnud : ∀ i, F.NoUf ((f32Spec E false).sub (a.get i) (b.get i)) ((f32Spec E false).sub (a.get i) (b.get i))) :
    (∃ v, generic_squared_norm E (Avx512_f32.inst E) (AutoMath_f32 E) a.size a = pure v ∧
      (F.Fin v → |F.val v - ((List.range a.size).map (fun i => F.val (a.get i) * F.val (a.get i))).sum|
        ≤ gamma F.u (a.size + 3) * ((List.range a.size).map (fun i => |F.val (a.get i) * F.val (a.get i)|)).sum))
    ∧ (∃ v, generic_euclidean E (Avx512_f32.inst E) (AutoMath_f32 E) a.size a b = pure v ∧
      (F.Fin v → |F.val v - ((List.range a.size).map (fun i =>
            F.val ((f32Spec E false).sub (a.get i) (b.get i)) * F.val ((f32Spec E false).sub (a.get i) (b.get i)))).sum|
        ≤ gamma F.u (a.size + 3) * ((List.range a.size).map (fun i =>
            |F.val ((f32Spec E false).sub (a.get i) (b.get i)) * F.val ((f32Spec E false).sub (a.get i) (b.get i))|)).sum)) := by
  have SM : SumMath (AutoMath_f32 E) (f32Spec E false) := by
    have := C18.auto_f32 E
    rw [hn] at this
    exact SumMath.of this
  have hloc : FoldLocal 16 (fun f => (halvingTree 4 4 0).eval E.F.add32 f) := (fun f g h => FTree.eval_congr _ f g _ (fun k hk => h k (by have := (h16_perm.mem_iff).mp hk; simpa using this)))
  have HF := ftree_sem F (halvingTree 4 4 0) 16 4 h16_perm (by decide)
  exact ⟨C04.squared_norm_bound (X86Float.Avx512_f32.sumBackend E) SM F HF hloc (by decide) (by decide) a.size hfuel hk a rfl hnua,
    C04.euclidean_bound (X86Float.Avx512_f32.sumBackend E) SM F HF hloc (by decide) (by decide) a.size hfuel hk a b rfl hb hnud⟩

/-- **C04 on `Avx512_f32`: exactness** -/
theorem Avx512_f32_dot_exact (E : Env) (hn : E.feat_nightly = false) (X : ExactSem (f32Spec E false) E.F.fma32)
    (a b : Slice F32) (hb : b.size = a.size) (hfuel : a.size < E.fuel)
    (hin : ∀ i, X.Fin (a.get i) ∧ X.Fin (b.get i) ∧ IsInt (X.val (a.get i)) ∧ IsInt (X.val (b.get i)))
    (hP : ((List.range a.size).map (fun i => |X.val (a.get i) * X.val (b.get i)|)).sum ≤ X.P) :
    ∃ v, generic_dot_product E (Avx512_f32.inst E) (AutoMath_f32 E) a.size a b = pure v ∧ X.Fin v
      ∧ X.val v = ((List.range a.size).map (fun i => X.val (a.get i) * X.val (b.get i))).sum := by
  have SM : SumMath (AutoMath_f32 E) (f32Spec E false) := by
    have := C18.auto_f32 E
    rw [hn] at this
    exact SumMath.of this
  have hloc : FoldLocal 16 (fun f => (halvingTree 4 4 0).eval E.F.add32 f) := (fun f g h => FTree.eval_congr _ f g _ (fun k hk => h k (by have := (h16_perm.mem_iff).mp hk; simpa using this)))
  exact C04.dot_product_exact' (X86Float.Avx512_f32.sumBackend E) SM X (ftree_shape (halvingTree 4 4 0) 16 4 h16_perm (by decide)) hloc (by decide) a.size hfuel a b rfl hb hin
    (fun f g h => ftree_relX X a.get b.get hin (halvingTree 4 4 0) f g (fun k hk => h k (by have := (h16_perm.mem_iff).mp hk; simpa using this))) hP

/-- **C04 on `Avx2_f64`: squared norm and squared Euclidean distance** -/
theorem Avx2_f64_norm_euclid_bounds (E : Env) (hn : E.feat_nightly = false) (F : FloatSem (f64Spec E false) (fun x y acc => (f64Spec E false).add ((f64Spec E false).mul x y) acc))
    (a b : Slice F64) (hb : b.size = a.size) (hfuel : a.size < E.fuel) (hk : ((a.size + 3 : ℕ) : ℝ) * F.u < 1)
    (hnua : ∀ i, F.NoUf (a.get i) (a.get i))
    (hnud : ∀ i, F.NoUf ((f64Spec E false).sub (a.get i) (b.get i)) ((f64Spec E false).sub (a.get i) (b.get i))) :
    (∃ v, generic_squared_norm E (Avx2_f64.inst E) (AutoMath_f64 E) a.size a = pure v ∧
      (F.Fin v → |F.val v - ((List.range a.size).map (fun i => F.val (a.get i) * F.val (a.get i))).sum|
        ≤ gamma F.u (a.size + 3) * ((List.range a.size).map (fun i => |F.val (a.get i) * F.val (a.get i)|)).sum))
    ∧ (∃ v, generic_euclidean E (Avx2_f64.inst E) (AutoMath_f64 E) a.size a b = pure v ∧
      (F.Fin v → |F.val v - ((List.range a.size).map (fun i =>
            F.val ((f64Spec E false).sub (a.get i) (b.get i)) * F.val ((f64Spec E false).sub (a.get i) (b.get i)))).sum|
        ≤ gamma F.u (a.size + 3) * ((List.range a.size).map (fun i =>
            |F.val ((f64Spec E false).sub (a.get i) (b.get i)) * F.val ((f64Spec E false).sub (a.get i) (b.get i))|)).sum)) := by
  have SM : SumMath (AutoMath_f64 E) (f64Spec E false) := by
    have := C18.auto_f64 E
    rw [hn] at this
    exact SumMath.of this
  have hloc : FoldLocal 4 (fun f => t4.eval E.F.add64 f) := (fun f g h => FTree.eval_congr _ f g _ (fun k hk => h k (by have := (t4_perm.mem_iff).mp hk; simpa using this)))
  have HF := ftree_sem F t4 4 2 t4_perm (by decide)
  exact ⟨C04.squared_norm_bound (X86Float.Avx2_f64.sumBackend E) SM F HF hloc (by decide) (by decide) a.size hfuel hk a rfl hnua,
    C04.euclidean_bound (X86Float.Avx2_f64.sumBackend E) SM F HF hloc (by decide) (by decide) a.size hfuel hk a b rfl hb hnud⟩

/-- **C04 on `Avx2_f64`: exactness** -/
theorem Avx2_f64_dot_exact (E : Env) (hn : E.feat_nightly = false) (X : ExactSem (f64Spec E false) (fun x y acc => (f64Spec E false).add ((f64Spec E false).mul x y) acc))
    (a b : Slice F64) (hb : b.size = a.size) (hfuel : a.size < E.fuel)
    (hin : ∀ i, X.Fin (a.get i) ∧ X.Fin (b.get i) ∧ IsInt (X.val (a.get i)) ∧ IsInt (X.val (b.get i)))
    (hP : ((List.range a.size).map (fun i => |X.val (a.get i) * X.val (b.get i)|)).sum ≤ X.P) :
    ∃ v, generic_dot_product E (Avx2_f64.inst E) (AutoMath_f64 E) a.size a b = pure v ∧ X.Fin v
      ∧ X.val v = ((List.range a.size).map (fun i => X.val (a.get i) * X.val (b.get i))).sum := by
  have SM : SumMath (AutoMath_f64 E) (f64Spec E false) := by
    have := C18.auto_f64 E
    rw [hn] at this
    exact SumMath.of this
  have hloc : FoldLocal 4 (fun f => t4.eval E.F.add64 f) := (fun f g h => FTree.eval_congr _ f g _ (fun k hk => h k (by have := (t4_perm.mem_iff).mp hk; simpa using this)))
  exact C04.dot_product_exact' (X86Float.Avx2_f64.sumBackend E) SM X (ftree_shape t4 4 2 t4_perm (by decide)) hloc (by decide) a.size hfuel a b rfl hb hin
    (fun f g h => ftree_relX X a.get b.get hin t4 f g (fun k hk => h k (by have := (t4_perm.mem_iff).mp hk; simpa using this))) hP

/-- **C04 on `Avx2Fma_f64`: squared norm and squared Euclidean distance** -/
theorem Avx2Fma_f64_norm_euclid_bounds (E : Env) (hn : E.feat_nightly = false) (F : FloatSem (f64Spec E false) E.F.fma64)
    (a b : Slice F64) (hb : b.size = a.size) (hfuel : a.size < E.fuel) (hk : ((a.size + 3 : ℕ) : ℝ) * F.u < 1)
    (hnua : ∀ i, F.NoUf (a.get i) (a.get i))
    (hnud : ∀ i, F.NoUf ((f64Spec E false).sub (a.get i) (b.get i)) ((f64Spec E false).sub (a.get i) (b.get i))) :
    (∃ v, generic_squared_norm E (Avx2Fma_f64.inst E) (AutoMath_f64 E) a.size a = pure v ∧
      (F.Fin v → |F.val v - ((List.range a.size).map (fun i => F.val (a.get i) * F.val (a.get i))).sum|
        ≤ gamma F.u (a.size + 3) * ((List.range a.size).map (fun i => |F.val (a.get i) * F.val (a.get i)|)).sum))
    ∧ (∃ v, generic_euclidean E (Avx2Fma_f64.inst E) (AutoMath_f64 E) a.size a b = pure v ∧
      (F.Fin v → |F.val v - ((List.range a.size).map (fun i =>
            F.val ((f64Spec E false).sub (a.get i) (b.get i)) * F.val ((f64Spec E false).sub (a.get i) (b.get i)))).sum|
        ≤ gamma F.u (a.size + 3) * ((List.range a.size).map (fun i =>
            |F.val ((f64Spec E false).sub (a.get i) (b.get i)) * F.val ((f64Spec E false).sub (a.get i) (b.get i))|)).sum)) := by
  have SM : SumMath (AutoMath_f64 E) (f64Spec E false) := by
    have := C18.auto_f64 E
    rw [hn] at this
    exact SumMath.of this
  have hloc : FoldLocal 4 (fun f => t4.eval E.F.add64 f) := (fun f g h => FTree.eval_congr _ f g _ (fun k hk => h k (by have := (t4_perm.mem_iff).mp hk; simpa using this)))
  have HF := ftree_sem F t4 4 2 t4_perm (by decide)
  exact ⟨C04.squared_norm_bound (X86Float.Avx2Fma_f64.sumBackend E) SM F HF hloc (by decide) (by decide) a.size hfuel hk a rfl hnua,
    C04.euclidean_bound (X86Float.Avx2Fma_f64.sumBackend E) SM F HF hloc (by decide) (by decide) a.size hfuel hk a b rfl hb hnud⟩

/-- **C04 on `Avx2Fma_f64`: exactness** -/
theorem Avx2Fma_f64_dot_exact (E : Env) (hn : E.feat_nightly = false) (X : ExactSem (f64Spec E false) E.F.fma64)
    (a b : Slice F64) (hb : b.size = a.size) (hfuel : a.size < E.fuel)
    (hin : ∀ i, X.Fin (a.get i) ∧ X.Fin (b.get i) ∧ IsInt (X.val (a.get i)) ∧ IsInt (X.val (b.get i)))
    (hP : ((List.range a.size).map (fun i => |X.val (a.get i) * X.val (b.get i)|)).sum ≤ X.P) :
    ∃ v, generic_dot_product E (Avx2Fma_f64.inst E) (AutoMath_f64 E) a.size a b = pure v ∧ X.Fin v
      ∧ X.val v = ((List.range a.size).map (fun i => X.val (a.get i) * X.val (b.get i))).sum := by
  have SM : SumMath (AutoMath_f64 E) (f64Spec E false) := by
    have := C18.auto_f64 E
    rw [hn] at this
    exact SumMath.of this
  have hloc : FoldLocal 4 (fun f => t4.eval E.F.add64 f) := (fun f g h => FTree.eval_congr _ f g _ (fun k hk => h k (by have := (t4_perm.mem_iff).mp hk; simpa using this)))
  exact C04.dot_product_exact' (X86Float.Avx2Fma_f64.sumBackend E) SM X (ftree_shape t4 4 2 t4_perm (by decide)) hloc (by decide) a.size hfuel a b rfl hb hin
    (fun f g h => ftree_relX X a.get b.get hin t4 f g (fun k hk => h k (by have := (t4_perm.mem_iff).mp hk; simpa using this))) hP

/-- **C04 on `Avx512_f64`: squared norm and squared Euclidean distance** -/
theorem Avx512_f64_norm_euclid_bounds (E : Env) (hn : E.feat_nightly = false) (F : FloatSem (f64Spec E false) E.F.fma64)
    (a b : Slice F64) (hb : b.size = a.size) (hfuel : a.size < E.fuel) (hk : ((a.size + 3 : ℕ) : ℝ) * F.u < 1)
    (hnua : ∀ i, F.NoUf (a.get i) (a.get i))
    (hnud : ∀ i, F.NoUf ((f64Spec E false).sub (a.get i) (b.get i)) ((f64Spec E false).sub (a.get i) (b.get i))) :
    (∃ v, generic_squared_norm E (Avx512_f64.inst E) (AutoMath_f64 E) a.size a = pure v ∧
      (F.Fin v → |F.val v - ((List.range a.size).map (fun i => F.val (a.get i) * F.val (a.get i))).sum|
        ≤ gamma F.u (a.size + 3) * ((List.range a.size).map (fun i => |F.val (a.get i) * F.val (a.get i)|)).sum))
    ∧ (∃ v, generic_euclidean E (Avx512_f64.inst E) (AutoMath_f64 E) a.size a b = pure v ∧
      (F.Fin v → |F.val v - ((List.range a.size).map (fun i =>
            F.val ((f64Spec E false).sub (a.get i) (b.get i)) * F.val ((f64Spec E false).sub (a.get i) (b.get i)))).sum|
        ≤ gamma F.u (a.size + 3) * ((List.range a.size).map (fun i =>
            |F.val ((f64Spec E false).sub (a.get i) (b.get i)) * F.val ((f64Spec E false).sub (a.get i) (b.get i))|)).sum)) := by
  have SM : SumMath (AutoMath_f64 E) (f64Spec E false) := by
    have := C18.auto_f64 E
    rw [hn] at this
    exact SumMath.of this
  have hloc : FoldLocal 8 (fun f => (halvingTree 3 3 0).eval E.F.add64 f) := (fun f g h => FTree.eval_congr _ f g _ (fun k hk => h k (by have := (h8_perm.mem_iff).mp hk; simpa using this)))
  have HF := ftree_sem F (halvingTree 3 3 0) 8 3 h8_perm (by decide)
  exact ⟨C04.squared_norm_bound (X86Float.Avx512_f64.sumBackend E) SM F HF hloc (by decide) (by decide) a.size hfuel hk a rfl hnua,
    C04.euclidean_bound (X86Float.Avx512_f64.sumBackend E) SM F HF hloc (by decide) (by decide) a.size hfuel hk a b rfl hb hnud⟩

/-- **C04 on `Avx512_f64`: exactness** -/
theorem Avx512_f64_dot_exact (E : Env) (hn : E.feat_nightly = false) (X : ExactSem (f64Spec E false) E.F.fma64)
    (a b : Slice F64) (hb : b.size = a.size) (hfuel : a.size < E.fuel)
    (hin : ∀ i, X.Fin (a.get i) ∧ X.Fin (b.get i) ∧ IsInt (X.val (a.get i)) ∧ IsInt (X.val (b.get i)))
    (hP : ((List.range a.size).map (fun i => |X.val (a.get i) * X.val (b.get i)|)).sum ≤ X.P) :
    ∃ v, generic_dot_product E (Avx512_f64.inst E) (AutoMath_f64 E) a.size a b = pure v ∧ X.Fin v
      ∧ X.val v = ((List.range a.size).map (fun i => X.val (a.get i) * X.val (b.get i))).sum := by
  have SM : SumMath (AutoMath_f64 E) (f64Spec E false) := by
    have := C18.auto_f64 E
    rw [hn] at this
    exact SumMath.of this
  have hloc : FoldLocal 8 (fun f => (halvingTree 3 3 0).eval E.F.add64 f) := (fun f g h => FTree.eval_congr _ f g _ (fun k hk => h k (by have := (h8_perm.mem_iff).mp hk; simpa using this)))
  exact C04.dot_product_exact' (X86Float.Avx512_f64.sumBackend E) SM X (ftree_shape (halvingTree 3 3 0) 8 3 h8_perm (by decide)) hloc (by decide) a.size hfuel a b rfl hb hin
    (fun f g h => ftree_relX X a.get b.get hin (halvingTree 3 3 0) f g (fun k hk => h k (by have := (h8_perm.mem_iff).mp hk; simpa using this))) hP

/-- **C04 on `Neon_f32`: squared norm and squared Euclidean distance** -/
theorem Neon_f32_norm_euclid_bounds (E : Env) (hn : E.feat_nightly = false) (F : FloatSem (f32Spec E false) E.F.fma32)
    (a b : Slice F32) (hb : b.size = a.size) (hfuel : a.size < E.fuel) (hk : ((a.size + 3 : ℕ) : ℝ) * F.u < 1)
    (hnua : ∀ i, F.NoUf (a.get i) (a.get i))
    (hnud : ∀ i, F.NoUf ((f32Spec E false).sub (a.get i) (b.get i)) ((f32Spec E false).sub (a.get i) (b.get i))) :
    (∃ v, generic_squared_norm E (Neon_f32.inst E) (AutoMath_f32 E) a.size a = pure v ∧
      (F.Fin v → |F.val v - ((List.range a.size).map (fun i => F.val (a.get i) * F.val (a.get i))).sum|
        ≤ gamma F.u (a.size + 3) * ((List.range a.size).map (fun i => |F.val (a.get i) * F.val (a.get i)|)).sum))
    ∧ (∃ v, generic_euclidean E (Neon_f32.inst E) (AutoMath_f32 E) a.size a b = pure v ∧
      (F.Fin v → |F.val v - ((List.range a.size).map (fun i =>
            F.val ((f32Spec E false).sub (a.get i) (b.get i)) * F.val ((f32Spec E false).sub (a.get i) (b.get i)))).sum|
        ≤ gamma F.u (a.size + 3) * ((List.range a.size).map (fun i =>
            |F.val ((f32Spec E false).sub (a.get i) (b.get i)) * F.val ((f32Spec E false).sub (a.get i) (b.get i))|)).sum)) := by
  have SM : SumMath (AutoMath_f32 E) (f32Spec E false) := by
    have := C18.auto_f32 E
    rw [hn] at this
    exact SumMath.of this
  have hloc : FoldLocal 4 (fun f => C13Neon.tN4.eval E.F.add32 f) := (fun f g h => FTree.eval_congr _ f g _ (fun k hk => h k (by have := (C13Neon.tN4_perm.mem_iff).mp hk; simpa using this)))
  have HF := ftree_sem F C13Neon.tN4 4 2 C13Neon.tN4_perm (by decide)
  exact ⟨C04.squared_norm_bound (C13Neon.Neon_f32.sumBackend E) SM F HF hloc (by decide) (by decide) a.size hfuel hk a rfl hnua,
    C04.euclidean_bound (C13Neon.Neon_f32.sumBackend E) SM F HF hloc (by decide) (by decide) a.size hfuel hk a b rfl hb hnud⟩

/-- **C04 on `Neon_f32`: exactness** -/
theorem Neon_f32_dot_exact (E : Env) (hn : E.feat_nightly = false) (X : ExactSem (f32Spec E false) E.F.fma32)
    (a b : Slice F32) (hb : b.size = a.size) (hfuel : a.size < E.fuel)
    (hin : ∀ i, X.Fin (a.get i) ∧ X.Fin (b.get i) ∧ IsInt (X.val (a.get i)) ∧ IsInt (X.val (b.get i)))
    (hP : ((List.range a.size).map (fun i => |X.val (a.get i) * X.val (b.get i)|)).sum ≤ X.P) :
    ∃ v, generic_dot_product E (Neon_f32.inst E) (AutoMath_f32 E) a.size a b = pure v ∧ X.Fin v
      ∧ X.val v = ((List.range a.size).map (fun i => X.val (a.get i) * X.val (b.get i))).sum := by
  have SM : SumMath (AutoMath_f32 E) (f32Spec E false) := by
    have := C18.auto_f32 E
    rw [hn] at this
    exact SumMath.of this
  have hloc : FoldLocal 4 (fun f => C13Neon.tN4.eval E.F.add32 f) := (fun f g h => FTree.eval_congr _ f g _ (fun k hk => h k (by have := (C13Neon.tN4_perm.mem_iff).mp hk; simpa using this)))
  exact C04.dot_product_exact' (C13Neon.Neon_f32.sumBackend E) SM X (ftree_shape C13Neon.tN4 4 2 C13Neon.tN4_perm (by decide)) hloc (by decide) a.size hfuel a b rfl hb hin
    (fun f g h => ftree_relX X a.get b.get hin C13Neon.tN4 f g (fun k hk => h k (by have := (C13Neon.tN4_perm.mem_iff).mp hk; simpa using this))) hP

/-- **C04 on `Neon_f64`: squared norm and squared Euclidean distance** -/
theorem Neon_f64_norm_euclid_bounds (E : Env) (hn : E.feat_nightly = false) (F : FloatSem (f64Spec E false) E.F.fma64)
    (a b : Slice F64) (hb : b.size = a.size) (hfuel : a.size < E.fuel) (hk : ((a.size + 3 : ℕ) : ℝ) * F.u < 1)
    (hnua : ∀ i, F.NoUf (a.get i) (a.get i))
    (hnud : ∀ i, F.NoUf ((f64Spec E false).sub (a.get i) (b.get i)) ((f64Spec E false).sub (a.get i) (b.get i))) :
    (∃ v, generic_squared_norm E (Neon_f64.inst E) (AutoMath_f64 E) a.size a = pure v ∧
      (F.Fin v → |F.val v - ((List.range a.size).map (fun i => F.val (a.get i) * F.val (a.get i))).sum|
        ≤ gamma F.u (a.size + 3) * ((List.range a.size).map (fun i => |F.val (a.get i) * F.val (a.get i)|)).sum))
    ∧ (∃ v, generic_euclidean E (Neon_f64.inst E) (AutoMath_f64 E) a.size a b = pure v ∧
      (F.Fin v → |F.val v - ((List.range a.size).map (fun i =>
            F.val ((f64Spec E false).sub (a.get i) (b.get i)) * F.val ((f64Spec E false).sub (a.get i) (b.get i)))).sum|
        ≤ gamma F.u (a.size + 3) * ((List.range a.size).map (fun i =>
            |F.val ((f64Spec E false).sub (a.get i) (b.get i)) * F.val ((f64Spec E false).sub (a.get i) (b.get i))|)).sum)) := by
  have SM : SumMath (AutoMath_f64 E) (f64Spec E false) := by
    have := C18.auto_f64 E
    rw [hn] at this
    exact SumMath.of this
  have hloc : FoldLocal 2 (fun f => C13Neon.tN2.eval E.F.add64 f) := (fun f g h => FTree.eval_congr _ f g _ (fun k hk => h k (by have := (C13Neon.tN2_perm.mem_iff).mp hk; simpa using this)))
  have HF := ftree_sem F C13Neon.tN2 2 1 C13Neon.tN2_perm (by decide)
  exact ⟨C04.squared_norm_bound (C13Neon.Neon_f64.sumBackend E) SM F HF hloc (by decide) (by decide) a.size hfuel hk a rfl hnua,
    C04.euclidean_bound (C13Neon.Neon_f64.sumBackend E) SM F HF hloc (by decide) (by decide) a.size hfuel hk a b rfl hb hnud⟩

/-- **C04 on `Neon_f64`: exactness** -/
theorem Neon_f64_dot_exact (E : Env) (hn : E.feat_nightly = false) (X : ExactSem (f64Spec E false) E.F.fma64)
    (a b : Slice F64) (hb : b.size = a.size) (hfuel : a.size < E.fuel)
    (hin : ∀ i, X.Fin (a.get i) ∧ X.Fin (b.get i) ∧ IsInt (X.val (a.get i)) ∧ IsInt (X.val (b.get i)))
    (hP : ((List.range a.size).map (fun i => |X.val (a.get i) * X.val (b.get i)|)).sum ≤ X.P) :
    ∃ v, generic_dot_product E (Neon_f64.inst E) (AutoMath_f64 E) a.size a b = pure v ∧ X.Fin v
      ∧ X.val v = ((List.range a.size).map (fun i => X.val (a.get i) * X.val (b.get i))).sum := by
  have SM : SumMath (AutoMath_f64 E) (f64Spec E false) := by
    have := C18.auto_f64 E
    rw [hn] at this
    exact SumMath.of this
  have hloc : FoldLocal 2 (fun f => C13Neon.tN2.eval E.F.add64 f) := (fun f g h => FTree.eval_congr _ f g _ (fun k hk => h k (by have := (C13Neon.tN2_perm.mem_iff).mp hk; simpa using this)))
  exact C04.dot_product_exact' (C13Neon.Neon_f64.sumBackend E) SM X (ftree_shape C13Neon.tN2 2 1 C13Neon.tN2_perm (by decide)) hloc (by decide) a.size hfuel a b rfl hb hin
    (fun f g h => ftree_relX X a.get b.get hin C13Neon.tN2 f g (fun k hk => h k (by have := (C13Neon.tN2_perm.mem_iff).mp hk; simpa using this))) hP

end Cfavml.Thm.FloatMore
