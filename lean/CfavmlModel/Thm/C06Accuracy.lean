/-
C06 — accuracy of the floating-point cosine distance: `|ĉ − c| ≤ 4(n+8)u`.

`ĉ` is what the regenerated `generic_cosine` returns on any backend meeting the sum contract (`SumBackend`: Fallback, the
model registers, all six x86 float impls), `c = 1 − (Σaᵢbᵢ)/√(Σaᵢ²·Σbᵢ²)` is the exact real value. Ingredients:
the C04 bounds for the dot product and the two squared norms (`γ(n+3)`), Cauchy–Schwarz, and one rounding each for the
product of the norms, the square root, the division and the subtraction (`Lemmas/CosineAccuracy.lean`).
Assumptions on the arithmetic: `FloatSem` for the reductions, and the standard model for those four final scalar
operations on the operands that occur (stated as hypotheses `hm hs hd hsub`: they hold for IEEE arithmetic when, as the
property requires, the norms and their product neither overflow nor fall into the subnormal range).
-/
import Mathlib.Algebra.Order.Chebyshev
import CfavmlModel.Lemmas.CosineAccuracy
import CfavmlModel.Lemmas.CosineModel
import CfavmlModel.Thm.C04
import CfavmlModel.Thm.C06

namespace Cfavml.Thm.C06
open Rounding FloatReduce KernelModel

theorem list_range_sum (f : ℕ → ℝ) (n : ℕ) : ((List.range n).map f).sum = ∑ i ∈ Finset.range n, f i := by
  induction n with
  | zero => simp
  | succ n ih => rw [List.range_succ, List.map_append, List.sum_append, ih, Finset.sum_range_succ]; simp

/-- Cauchy–Schwarz for the sums that occur: `Σ|aᵢbᵢ| ≤ √(Σaᵢ² · Σbᵢ²)` -/
theorem cauchy_schwarz_range (x y : ℕ → ℝ) (n : ℕ) :
    ((List.range n).map (fun i => |x i * y i|)).sum
      ≤ Real.sqrt (((List.range n).map (fun i => x i * x i)).sum * ((List.range n).map (fun i => y i * y i)).sum) := by
  rw [list_range_sum, list_range_sum, list_range_sum]
  apply Real.le_sqrt_of_sq_le
  have := Finset.sum_mul_sq_le_sq_mul_sq (Finset.range n) (fun i => |x i|) (fun i => |y i|)
  simp only [sq_abs] at this
  calc (∑ i ∈ Finset.range n, |x i * y i|) ^ 2 = (∑ i ∈ Finset.range n, |x i| * |y i|) ^ 2 := by
        congr 1; apply Finset.sum_congr rfl; intro i _; exact abs_mul _ _
    _ ≤ (∑ i ∈ Finset.range n, x i ^ 2) * ∑ i ∈ Finset.range n, y i ^ 2 := this
    _ = (∑ i ∈ Finset.range n, x i * x i) * ∑ i ∈ Finset.range n, y i * y i := by
        congr 1 <;> (apply Finset.sum_congr rfl; intro i _; ring)

/-- the exact cosine distance lies in `[0, 2]` (so the computed one is within the tolerance of that interval) -/
theorem exact_cosine_range (x y : ℕ → ℝ) (n : ℕ)
    (hx : 0 < ((List.range n).map (fun i => x i * x i)).sum) (hy : 0 < ((List.range n).map (fun i => y i * y i)).sum) :
    let c := 1 - ((List.range n).map (fun i => x i * y i)).sum
      / Real.sqrt (((List.range n).map (fun i => x i * x i)).sum * ((List.range n).map (fun i => y i * y i)).sum)
    0 ≤ c ∧ c ≤ 2 := by
  intro c
  have hs : 0 < Real.sqrt (((List.range n).map (fun i => x i * x i)).sum * ((List.range n).map (fun i => y i * y i)).sum) :=
    Real.sqrt_pos.mpr (mul_pos hx hy)
  have hA := cauchy_schwarz_range x y n
  have hD : |((List.range n).map (fun i => x i * y i)).sum| ≤ ((List.range n).map (fun i => |x i * y i|)).sum :=
    FloatReduce.abs_list_sum_le _ _
  have hq : |((List.range n).map (fun i => x i * y i)).sum
      / Real.sqrt (((List.range n).map (fun i => x i * x i)).sum * ((List.range n).map (fun i => y i * y i)).sum)| ≤ 1 := by
    rw [abs_div, abs_of_pos hs, div_le_one hs]; linarith
  have := abs_le.mp hq
  constructor <;> simp only [c] <;> linarith

/-- the exact cosine distance of a non-zero vector to itself is `0` -/
theorem exact_cosine_self (x : ℕ → ℝ) (n : ℕ) (hx : 0 < ((List.range n).map (fun i => x i * x i)).sum) :
    1 - ((List.range n).map (fun i => x i * x i)).sum
      / Real.sqrt (((List.range n).map (fun i => x i * x i)).sum * ((List.range n).map (fun i => x i * x i)).sum) = 0 := by
  rw [Real.sqrt_mul_self hx.le, div_self hx.ne']; ring

section
variable {T Reg : Type} {E : Env} {R : SimdRegister T Reg} {M : Math T} {L : Nat} {lanes : Reg → Nat → T}
variable {S : ScalarSpec T} {fm : T → T → T → T} {hsum : (Nat → T) → T}

/-- the standard model for the four scalar operations of the final combination `1 − dot/√(nx·ny)`, on the operands that
occur (IEEE arithmetic guarantees each when its result is finite and not subnormal — the "well-scaled" clause) -/
structure FinalOps (F : FloatSem S fm) (sq : T → T) (dotv nav nbv : T) : Prop where
  mul : ∃ δ₁, |δ₁| ≤ F.u ∧ F.val (S.mul nav nbv) = F.val nav * F.val nbv * (1 + δ₁)
  sqrt : ∃ δ₂, |δ₂| ≤ F.u ∧ F.val (sq (S.mul nav nbv)) = Real.sqrt (F.val (S.mul nav nbv)) * (1 + δ₂)
  divOk : S.divOk (sq (S.mul nav nbv)) = true
  div : ∃ δ₃, |δ₃| ≤ F.u ∧ F.val (S.div dotv (sq (S.mul nav nbv))) = F.val dotv / F.val (sq (S.mul nav nbv)) * (1 + δ₃)
  sub : ∃ δ₄, |δ₄| ≤ F.u ∧ F.val (S.sub S.one (S.div dotv (sq (S.mul nav nbv))))
      = (1 - F.val (S.div dotv (sq (S.mul nav nbv)))) * (1 + δ₄)

/-- **C06 (accuracy).** -/
theorem cosine_accuracy (SB : SumBackend R L lanes S fm hsum) (MFa : MathFaithful M S) (F : FloatSem S fm)
    {hd : ℕ} {hfoldA : (ℕ → Ab) → Ab} (HF : HFoldSem F L hd hsum hfoldA) (hloc : FoldLocal L hsum)
    (hsmall : L * 8 < usizeMod) (hhd : hd + 1 ≤ L) (sq : T → T) (hsqrt : ∀ x, M.sqrt x = pure (sq x))
    (a b : Slice T) (hb : b.size = a.size) (hfuel : a.size < E.fuel)
    (hx : ((a.size : ℝ) + 8) * F.u ≤ 1 / 16)
    (hnu : ∀ i, F.NoUf (a.get i) (b.get i)) (hnua : ∀ i, F.NoUf (a.get i) (a.get i)) (hnub : ∀ i, F.NoUf (b.get i) (b.get i))
    (heq0 : ∀ x, F.Fin x → (S.eq x S.zero = true ↔ F.val x = 0))
    -- the exact quantities
    (D Nx Ny : ℝ)
    (hD : D = ((List.range a.size).map (fun i => F.val (a.get i) * F.val (b.get i))).sum)
    (hNx : Nx = ((List.range a.size).map (fun i => F.val (a.get i) * F.val (a.get i))).sum)
    (hNy : Ny = ((List.range a.size).map (fun i => F.val (b.get i) * F.val (b.get i))).sum)
    (hNx0 : 0 < Nx) (hNy0 : 0 < Ny)
    -- the computed dot product and norms (their values are what the reduction kernels return, see `parts_are_the_kernels`)
    (dotv nav nbv : T)
    (edot : dotv = reduceModel (dotOps S fm hsum a.get b.get) L a.size)
    (ena : nav = reduceModel (normOps S fm hsum a.get) L a.size)
    (enb : nbv = reduceModel (normOps S fm hsum b.get) L a.size)
    (hfin : F.Fin dotv ∧ F.Fin nav ∧ F.Fin nbv)
    (FO : FinalOps F sq dotv nav nbv) :
    ∃ v, generic_cosine E R M a.size a b = pure v
      ∧ |F.val v - (1 - D / Real.sqrt (Nx * Ny))| ≤ 4 * ((a.size : ℝ) + 8) * F.u := by
  obtain ⟨hb1, hg18, hu64, hg0⟩ := cosine_bound_of_gamma F.u F.hu a.size hx
  have hk : ((a.size + 3 : ℕ) : ℝ) * F.u < 1 := by
    have : (0 : ℝ) ≤ (a.size : ℝ) := Nat.cast_nonneg _
    push_cast; nlinarith [F.hu]
  have hLp := SB.mem.L_pos
  -- C04 bounds for the three reductions
  have bd := dot_bound F E L hd a.size hLp hsmall hhd hsum hfoldA HF a.get b.get hnu (edot ▸ hfin.1) hk
  have bx := dot_bound F E L hd a.size hLp hsmall hhd hsum hfoldA HF a.get a.get hnua (ena ▸ hfin.2.1) hk
  have by' := dot_bound F E L hd a.size hLp hsmall hhd hsum hfoldA HF b.get b.get hnub (enb ▸ hfin.2.2) hk
  rw [← edot] at bd
  rw [show reduceModel (dotOps S fm hsum a.get a.get) L a.size = nav from ena.symm] at bx
  rw [show reduceModel (dotOps S fm hsum b.get b.get) L a.size = nbv from enb.symm] at by'
  have ht : ∀ p q : ℕ → T, termR F p q = fun i => F.val (p i) * F.val (q i) := fun _ _ => rfl
  simp only [termR, ht] at bd bx by'
  -- |aᵢ aᵢ| = aᵢ aᵢ
  have habs : ∀ (x : ℕ → ℝ), ((List.range a.size).map (fun i => |x i * x i|)).sum = ((List.range a.size).map (fun i => x i * x i)).sum := by
    intro x; congr 1; apply List.map_congr_left; intro i _; exact abs_of_nonneg (mul_self_nonneg _)
  rw [habs (fun i => F.val (a.get i)), ← hNx] at bx
  rw [habs (fun i => F.val (b.get i)), ← hNy] at by'
  rw [← hD] at bd
  -- the computed norms are non-zero, so the kernel takes the formula branch
  have hnav0 : F.val nav ≠ 0 := by
    intro h0; rw [h0] at bx
    have := abs_le.mp bx; nlinarith
  have hnbv0 : F.val nbv ≠ 0 := by
    intro h0; rw [h0] at by'
    have := abs_le.mp by'; nlinarith
  have e1 : S.eq nav S.zero = false := by
    cases h : S.eq nav S.zero
    · rfl
    · exact absurd ((heq0 nav hfin.2.1).mp h) hnav0
  have e2 : S.eq nbv S.zero = false := by
    cases h : S.eq nbv S.zero
    · rfl
    · exact absurd ((heq0 nbv hfin.2.2).mp h) hnbv0
  refine ⟨S.sub S.one (S.div dotv (sq (S.mul nav nbv))), ?_, ?_⟩
  · rw [generic_cosine_model' SB MFa sq hsqrt hloc a.size hfuel a b rfl hb, ← edot, ← ena, ← enb]
    exact cos_formula S sq dotv nav nbv e1 e2 FO.divOk
  · obtain ⟨δ₁, h1, m1⟩ := FO.mul
    obtain ⟨δ₂, h2, m2⟩ := FO.sqrt
    obtain ⟨δ₃, h3, m3⟩ := FO.div
    obtain ⟨δ₄, h4, m4⟩ := FO.sub
    have hA := cauchy_schwarz_range (fun i => F.val (a.get i)) (fun i => F.val (b.get i)) a.size
    rw [← hNx, ← hNy] at hA
    have hdA : |D| ≤ ((List.range a.size).map (fun i => |F.val (a.get i) * F.val (b.get i)|)).sum := by
      rw [hD]; exact abs_list_sum_le _ _
    have key := cosine_real_bound hg0 F.hu hg18 hu64 hNx0 hNy0 hA hdA bd bx by' h1 h2 h3 h4
    rw [m4, m3, m2, m1]
    exact key.trans hb1

/-- the same, with the three parts named as what the dot-product and squared-norm kernels return -/
theorem cosine_accuracy_kernels (SB : SumBackend R L lanes S fm hsum) (MFa : MathFaithful M S) (F : FloatSem S fm)
    {hd : ℕ} {hfoldA : (ℕ → Ab) → Ab} (HF : HFoldSem F L hd hsum hfoldA) (hloc : FoldLocal L hsum)
    (hsmall : L * 8 < usizeMod) (hhd : hd + 1 ≤ L) (sq : T → T) (hsqrt : ∀ x, M.sqrt x = pure (sq x))
    (a b : Slice T) (hb : b.size = a.size) (hfuel : a.size < E.fuel)
    (hx : ((a.size : ℝ) + 8) * F.u ≤ 1 / 16)
    (hnu : ∀ i, F.NoUf (a.get i) (b.get i)) (hnua : ∀ i, F.NoUf (a.get i) (a.get i)) (hnub : ∀ i, F.NoUf (b.get i) (b.get i))
    (heq0 : ∀ x, F.Fin x → (S.eq x S.zero = true ↔ F.val x = 0))
    (hNx0 : 0 < ((List.range a.size).map (fun i => F.val (a.get i) * F.val (a.get i))).sum)
    (hNy0 : 0 < ((List.range a.size).map (fun i => F.val (b.get i) * F.val (b.get i))).sum)
    (dotv nav nbv : T)
    (kdot : generic_dot_product E R M a.size a b = pure dotv)
    (kna : generic_squared_norm E R M a.size a = pure nav)
    (knb : generic_squared_norm E R M a.size b = pure nbv)
    (hfin : F.Fin dotv ∧ F.Fin nav ∧ F.Fin nbv) (FO : FinalOps F sq dotv nav nbv) :
    ∃ v, generic_cosine E R M a.size a b = pure v
      ∧ |F.val v - (1 - ((List.range a.size).map (fun i => F.val (a.get i) * F.val (b.get i))).sum
            / Real.sqrt (((List.range a.size).map (fun i => F.val (a.get i) * F.val (a.get i))).sum
                * ((List.range a.size).map (fun i => F.val (b.get i) * F.val (b.get i))).sum))|
          ≤ 4 * ((a.size : ℝ) + 8) * F.u := by
  have SM := SumMath.of MFa
  have e1 := (dot_product' SB SM a.size hfuel hloc a b rfl hb).symm.trans kdot
  have e2 := (squared_norm' SB SM a.size hfuel hloc a rfl).symm.trans kna
  have e3 := (squared_norm' SB SM a.size hfuel hloc b hb).symm.trans knb
  exact cosine_accuracy SB MFa F HF hloc hsmall hhd sq hsqrt a b hb hfuel hx hnu hnua hnub heq0 _ _ _ rfl rfl rfl hNx0 hNy0
    dotv nav nbv (Except.ok.inj e1).symm (Except.ok.inj e2).symm (Except.ok.inj e3).symm hfin FO

end
end Cfavml.Thm.C06
