/-
The safe API, as the driver executes it from the regenerated tables (`Spec.safePlan`, validated against the real safe
functions by the safe-API level of the correspondence), is the specification:

* the wrapper panics exactly when a slice length (or `DIMS`) does not match — otherwise
* it runs the operation the function is named after (`kernelOfSafeRow`),
* on the backend of the first slot, in the documented priority order AVX-512, AVX2+FMA, AVX2, NEON, that the wrapper
  supplies and whose features are available (`specSelected`, `regOfSlot`) — the fallback when none qualifies,
* with the wrapper's parameters in order, and `DIMS` (const form) or `a.len()` (runtime form) as the dimension.

So C01 (mismatch ⇒ panic), C09 (dispatch order, wiring), C11 (a name means its operation and backend) and C12 (both forms
reach the same routine family) are facts about one executable function that the correspondence run ties to the code.
-/
import CfavmlModel.Spec.SafeApi
import CfavmlModel.Lemmas.ListAll
import CfavmlModel.Thm.C01

namespace Cfavml.Thm.SafeApi
open Tables Spec

def allAvail : List Avail :=
  [false, true].flatMap fun a => [false, true].flatMap fun b => [false, true].flatMap fun c => [false, true].map fun d => ⟨a, b, c, d⟩

/-- the plan the specification prescribes for a row, an arm of its macro, an availability answer and a build -/
def specPlan (r : SafeRow) (op : Kernel) (arm : SafeArmFn) (av : Avail) (nightly : Bool) : SafePlan :=
  ⟨regOfSlot (specSelected (hostBuild nightly) (suppliedBy arm) av) r.ty op, op, arm.params.map (·.1), arm.constDims⟩

def rowPlanOk (r : SafeRow) : Bool :=
  match kernelOfSafeRow r with
  | none => false
  | some op =>
    (safeArms.filter (fun a => a.macro_ == r.macro_)).all fun arm =>
      allAvail.all fun av => [false, true].all fun n =>
        planStatic r arm av n == some (specPlan r op arm av n)

theorem plan_chunks_ok : safeRows_chunks.all (fun c => c.all rowPlanOk) = true := by decide +kernel

/-- the const form, and only it, passes `DIMS` -/
theorem arms_constDims : safeArms.all (fun a => a.constDims == (a.form == .xconst)) = true := by decide +kernel

theorem mem_allAvail (av : Avail) : av ∈ allAvail := by
  obtain ⟨a, b, c, d⟩ := av
  cases a <;> cases b <;> cases c <;> cases d <;> simp [allAvail]

/-- **the static plan is the specification**, for all 190 safe macro invocations, both forms, all 16 availability answers,
stable and nightly builds -/
theorem planStatic_spec (r : SafeRow) (hr : r ∈ safeRows) (arm : SafeArmFn) (harm : arm ∈ safeArms)
    (hm : arm.macro_ = r.macro_) (av : Avail) (nightly : Bool) :
    ∃ op, kernelOfSafeRow r = some op ∧ planStatic r arm av nightly = some (specPlan r op arm av nightly) := by
  have h := all_flatten_of_all_chunks rowPlanOk safeRows_chunks plan_chunks_ok r hr
  unfold rowPlanOk at h
  cases hk : kernelOfSafeRow r with
  | none => rw [hk] at h; exact absurd h (by simp)
  | some op =>
    rw [hk] at h
    simp only [List.all_eq_true] at h
    have h1 := h arm (by simp [List.mem_filter, harm, hm]) av (mem_allAvail av) nightly (by cases nightly <;> simp)
    exact ⟨op, rfl, by simpa using h1⟩

/-- **the whole call**: a panic exactly on a mismatch, otherwise the specified plan with the specified dimension -/
theorem safePlan_spec (r : SafeRow) (hr : r ∈ safeRows) (form : Form) (lens : Param → Nat) (D : Nat) (av : Avail)
    (nightly : Bool) (arm : SafeArmFn)
    (harm : safeArms.find? (fun a => a.macro_ == r.macro_ && a.form == form) = some arm) :
    ∃ op, kernelOfSafeRow r = some op ∧
      safePlan r form lens D av nightly =
        some (if assertsPass lens D arm.asserts then some (specPlan r op arm av nightly, kernelDims arm.form lens D) else none) := by
  have hmem : arm ∈ safeArms := List.mem_of_find?_eq_some harm
  have hp := List.find?_some harm
  simp only [Bool.and_eq_true, beq_iff_eq] at hp
  obtain ⟨op, hk, hs⟩ := planStatic_spec r hr arm hmem hp.1 av nightly
  refine ⟨op, hk, ?_⟩
  unfold safePlan
  rw [harm]
  by_cases ha : assertsPass lens D arm.asserts = true
  · have hcd := forall_mem_of_all _ _ arms_constDims arm hmem
    simp only [beq_iff_eq] at hcd
    have hd : (if (specPlan r op arm av nightly).passesDims = true then D else lens .a) = kernelDims arm.form lens D := by
      simp only [specPlan, hcd]
      cases arm.form <;> simp [kernelDims]
    simp only [ha, Bool.not_true, Bool.false_eq_true, if_false, if_true, hs, Option.map_some, hd]
  · simp only [Bool.not_eq_true] at ha
    simp [ha]

end Cfavml.Thm.SafeApi

namespace Cfavml.Thm.SafeApi
open Tables Spec

/-- non-vacuity: `f32_xany_dot` on an AVX2+FMA CPU runs the dot kernel on the `Avx2Fma` backend; with FMA masked off, on `Avx2` -/
example :
    (safeRows.find? (fun r => r.anyNameStr == "f32_xany_dot")).bind
        (fun r => safePlan r .xany (fun _ => 5) 0 ⟨false, true, true, false⟩ false)
      = some (some (⟨.Avx2Fma, .generic_dot_product, [.a, .b], false⟩, 5))
    ∧ (safeRows.find? (fun r => r.anyNameStr == "f32_xany_dot")).bind
        (fun r => safePlan r .xany (fun _ => 5) 0 ⟨false, true, false, false⟩ false)
      = some (some (⟨.Avx2, .generic_dot_product, [.a, .b], false⟩, 5)) := by
  constructor <;> rfl

end Cfavml.Thm.SafeApi
