/-
C04 — float sum / dot / squared norm / squared Euclidean stay within `γ(n+3) · Σ|terms|`, whatever the accumulation
order and whether or not FMA is used; exact when every product and partial sum is exactly representable.

Chain of reasoning (all machine-checked):
  kernel (regenerated from op_*.rs)  =  `reduceModel …`          for every lane-wise faithful backend (Lemmas/ReduceKernelsModel)
  `reduceModel …`                     ~  abstract run (indices, #roundings)   operation by operation (Lemmas/ReduceRel)
  abstract run:  indices = a permutation of 0..n−1  (commutative-monoid theorem at multisets of indices)
                 #roundings ≤ n + 3                 (for every lane count L ≥ 1 and fold depth ≤ L − 1)
  ⇒  |value − Σ termᵢ| ≤ ((1+u)^(n+3) − 1) Σ|termᵢ| ≤ γ(n+3) Σ|termᵢ|     (Lemmas/ApproxList, Rounding)

What is assumed of the arithmetic is the record `FloatSem` (standard model for finite, non-underflowing results; a
non-finite operand makes the result non-finite) — stated once, for IEEE-754 it is the textbook model; nothing is
assumed about association order or fusion. `u` is the unit roundoff, `γ(k) = ku/(1−ku)`.
-/
import CfavmlModel.Lemmas.FloatReduce
import CfavmlModel.Thm.C13Fallback
import CfavmlModel.Thm.C02

namespace Cfavml.Thm.C04
open Rounding FloatReduce KernelModel

section kernels
variable {T Reg : Type} {E : Env} {R : SimdRegister T Reg} {M : Math T} {L : Nat} {lanes : Reg → Nat → T}
variable {S : ScalarSpec T} {fm : T → T → T → T} {hsum hmax hmin : (Nat → T) → T}
variable (SB : SumBackend R L lanes S fm hsum) (SM : SumMath M S)
variable (F : FloatSem S fm) {hd : ℕ} {hfoldA : (ℕ → Ab) → Ab} (HF : HFoldSem F L hd hsum hfoldA)
variable (hloc : FoldLocal L hsum) (hsmall : L * 8 < usizeMod) (hhd : hd + 1 ≤ L)
variable (dims : Nat) (hfuel : dims < E.fuel) (hk : ((dims + 3 : ℕ) : ℝ) * F.u < 1)
include SB SM HF hloc hsmall hhd hfuel hk

/-- **C04 (dot product).** The kernel returns a value `v` without fault; if `v` is finite and no product `aᵢ·bᵢ`
underflows, `|v − Σ aᵢbᵢ| ≤ γ(n+3) · Σ|aᵢbᵢ|`. -/
theorem dot_product_bound (a b : Slice T) (ha : a.size = dims) (hb : b.size = dims)
    (hnu : ∀ i, F.NoUf (a.get i) (b.get i)) :
    ∃ v, generic_dot_product E R M dims a b = pure v ∧
      (F.Fin v → |F.val v - ((List.range dims).map (fun i => F.val (a.get i) * F.val (b.get i))).sum|
        ≤ gamma F.u (dims + 3) * ((List.range dims).map (fun i => |F.val (a.get i) * F.val (b.get i)|)).sum) :=
  ⟨_, KernelModel.dot_product' SB SM dims hfuel hloc a b ha hb, fun hfin =>
    dot_bound F E L hd dims SB.mem.L_pos hsmall hhd hsum hfoldA HF a.get b.get hnu hfin hk⟩

/-- **C04 (squared L2 norm)** = the dot product of the vector with itself -/
theorem squared_norm_bound (a : Slice T) (ha : a.size = dims) (hnu : ∀ i, F.NoUf (a.get i) (a.get i)) :
    ∃ v, generic_squared_norm E R M dims a = pure v ∧
      (F.Fin v → |F.val v - ((List.range dims).map (fun i => F.val (a.get i) * F.val (a.get i))).sum|
        ≤ gamma F.u (dims + 3) * ((List.range dims).map (fun i => |F.val (a.get i) * F.val (a.get i)|)).sum) :=
  ⟨_, KernelModel.squared_norm' SB SM dims hfuel hloc a ha, fun hfin =>
    dot_bound F E L hd dims SB.mem.L_pos hsmall hhd hsum hfoldA HF a.get a.get hnu hfin hk⟩

/-- **C04 (squared Euclidean distance).** The accumulated terms are the squares of the *computed* differences
`dᵢ = fl(aᵢ − bᵢ)`; the result is within `γ(n+3) · Σ dᵢ²` of `Σ dᵢ²`. -/
theorem euclidean_bound (a b : Slice T) (ha : a.size = dims) (hb : b.size = dims)
    (hnu : ∀ i, F.NoUf (S.sub (a.get i) (b.get i)) (S.sub (a.get i) (b.get i))) :
    ∃ v, generic_euclidean E R M dims a b = pure v ∧
      (F.Fin v → |F.val v - ((List.range dims).map (fun i =>
            F.val (S.sub (a.get i) (b.get i)) * F.val (S.sub (a.get i) (b.get i)))).sum|
        ≤ gamma F.u (dims + 3) * ((List.range dims).map (fun i =>
            |F.val (S.sub (a.get i) (b.get i)) * F.val (S.sub (a.get i) (b.get i))|)).sum) :=
  ⟨_, KernelModel.euclidean' SB SM dims hfuel hloc a b ha hb, fun hfin =>
    dot_bound F E L hd dims SB.mem.L_pos hsmall hhd hsum hfoldA HF _ _ hnu hfin hk⟩

/-- **C04 (sum).** -/
theorem sum_bound' (a : Slice T) (ha : a.size = dims) :
    ∃ v, generic_sum E R M dims a = pure v ∧
      (F.Fin v → |F.val v - ((List.range dims).map (fun i => F.val (a.get i))).sum|
        ≤ gamma F.u (dims + 3) * ((List.range dims).map (fun i => |F.val (a.get i)|)).sum) :=
  ⟨_, KernelModel.sum' SB SM dims hfuel hloc a ha, fun hfin =>
    sum_bound F E L hd dims SB.mem.L_pos hsmall hhd hsum hfoldA HF a.get hfin hk⟩

end kernels

section exact
variable {T Reg : Type} {E : Env} {R : SimdRegister T Reg} {M : Math T} {L : Nat} {lanes : Reg → Nat → T}
variable {S : ScalarSpec T} {fm : T → T → T → T} {hsum hmax hmin : (Nat → T) → T}

/-- **C04 (exactness, every element counted exactly once).** For integer-valued finite inputs with
`Σ|aᵢ bᵢ| ≤ P` (`P = 2^p`, the largest magnitude up to which every integer is representable) the kernel returns a
finite value that is *exactly* `Σ aᵢ bᵢ`, on every faithful backend, lane count and fold — e.g. a one-hot marker at any
index of any length comes back unchanged. -/
theorem dot_product_exact' (SB : SumBackend R L lanes S fm hsum) (SM : SumMath M S)
    (X : ExactSem S fm) {hd : ℕ} {hfoldA : (ℕ → Ab) → Ab} (HS : HFoldShape L hd hfoldA)
    (hloc : FoldLocal L hsum) (hsmall : L * 8 < usizeMod) (dims : Nat) (hfuel : dims < E.fuel)
    (a b : Slice T) (ha : a.size = dims) (hb : b.size = dims)
    (hin : ∀ i, X.Fin (a.get i) ∧ X.Fin (b.get i) ∧ IsInt (X.val (a.get i)) ∧ IsInt (X.val (b.get i)))
    (hrelf : ∀ (f : ℕ → T) (g : ℕ → Ab), (∀ k, k < L → RelX X a.get b.get (f k) (g k)) → RelX X a.get b.get (hsum f) (hfoldA g))
    (hP : ((List.range dims).map (fun i => |X.val (a.get i) * X.val (b.get i)|)).sum ≤ X.P) :
    ∃ v, generic_dot_product E R M dims a b = pure v ∧ X.Fin v
      ∧ X.val v = ((List.range dims).map (fun i => X.val (a.get i) * X.val (b.get i))).sum := by
  obtain ⟨h1, h2⟩ := dot_exact X a.get b.get hin E L hd dims SB.mem.L_pos hsmall hsum hfoldA HS hrelf hP
  exact ⟨_, KernelModel.dot_product' SB SM dims hfuel hloc a b ha hb, h1, h2⟩

theorem dot_product_exact (AF : ArithFaithful R L lanes S) (RF : ReduceFaithful R L lanes S fm hsum hmax hmin)
    (MFa : MathFaithful M S) (X : ExactSem S fm) {hd : ℕ} {hfoldA : (ℕ → Ab) → Ab} (HS : HFoldShape L hd hfoldA)
    (hloc : FoldLocal L hsum) (hsmall : L * 8 < usizeMod) (dims : Nat) (hfuel : dims < E.fuel)
    (a b : Slice T) (ha : a.size = dims) (hb : b.size = dims)
    (hin : ∀ i, X.Fin (a.get i) ∧ X.Fin (b.get i) ∧ IsInt (X.val (a.get i)) ∧ IsInt (X.val (b.get i)))
    (hrelf : ∀ (f : ℕ → T) (g : ℕ → Ab), (∀ k, k < L → RelX X a.get b.get (f k) (g k)) → RelX X a.get b.get (hsum f) (hfoldA g))
    (hP : ((List.range dims).map (fun i => |X.val (a.get i) * X.val (b.get i)|)).sum ≤ X.P) :
    ∃ v, generic_dot_product E R M dims a b = pure v ∧ X.Fin v
      ∧ X.val v = ((List.range dims).map (fun i => X.val (a.get i) * X.val (b.get i))).sum :=
  dot_product_exact' (SumBackend.of AF RF) (SumMath.of MFa) X HS hloc hsmall dims hfuel a b ha hb hin hrelf hP

end exact

/-! ### instances: the Fallback backend (one lane) and model registers with any number of lanes -/

/-- Fallback (`f32`/`f64`, default math): one lane, unfused `acc + x*y`, fold of depth 0 -/
theorem fallback_dot_bound {T : Type} (E : Env) (AM : Math T) (sz : Nat) (hsz : 0 < sz) {S : ScalarSpec T}
    (MFa : MathFaithful AM S)
    (val : T → ℝ) (u : ℝ) (hu : 0 ≤ u) (Fin : T → Prop) (NoUf : T → T → Prop) (zero_val : val S.zero = 0)
    (add_std : ∀ x y, Fin (S.add x y) → Fin x ∧ Fin y ∧ ∃ δ, |δ| ≤ u ∧ val (S.add x y) = (val x + val y) * (1 + δ))
    (mul_std : ∀ x y, Fin (S.mul x y) → NoUf x y → ∃ δ, |δ| ≤ u ∧ val (S.mul x y) = val x * val y * (1 + δ))
    (a b : Slice T) (hb : b.size = a.size) (hfuel : a.size < E.fuel) (hk : ((a.size + 3 : ℕ) : ℝ) * u < 1)
    (hnu : ∀ i, NoUf (a.get i) (b.get i)) :
    ∃ v, generic_dot_product E (Fallback.inst E AM sz) AM a.size a b = pure v ∧
      (Fin v → |val v - ((List.range a.size).map (fun i => val (a.get i) * val (b.get i))).sum|
        ≤ gamma u (a.size + 3) * ((List.range a.size).map (fun i => |val (a.get i) * val (b.get i)|)).sum) := by
  let F : FloatSem S (fun x y acc => S.add (S.mul x y) acc) :=
    FloatSem.ofUnfused val u hu Fin NoUf zero_val add_std mul_std
  exact dot_product_bound (E := E)
    (SumBackend.of (C02.fallback_arith E AM S sz hsz MFa) (C13Fallback.reduce E AM sz MFa)) (SumMath.of MFa) F
    (hfold1_sem F) (fun f g h => h 0 (by omega)) (by decide) (by omega) a.size hfuel hk a b rfl hb hnu

/-- a model register with `L` lanes, fused multiply-add, sequential horizontal fold: the bound holds for every `L ≥ 1`
(in particular 1, 2, 3, 4, 5, 16 lanes and the 4/8/16 of the x86 float backends) -/
theorem model_register_dot_bound {T : Type} (E : Env) (S : ScalarSpec T) (fm : T → T → T → T) (F : FloatSem S fm)
    (L : ℕ) (hL : 0 < L) (hsmall : L * 8 < usizeMod) (sq : T → T) (hmax hmin : (ℕ → T) → T)
    (a b : Slice T) (hb : b.size = a.size) (hk : ((a.size + 3 : ℕ) : ℝ) * F.u < 1)
    (hnu : ∀ i, F.NoUf (a.get i) (b.get i)) :
    ∃ v, generic_dot_product (ModelReg.withFuel E a.size)
          (ModelReg.inst (ModelReg.withFuel E a.size) S L fm (fun f => seqFold S.add f L) hmax hmin)
          (ModelReg.math S sq) a.size a b = pure v ∧
      (F.Fin v → |F.val v - ((List.range a.size).map (fun i => F.val (a.get i) * F.val (b.get i))).sum|
        ≤ gamma F.u (a.size + 3) * ((List.range a.size).map (fun i => |F.val (a.get i) * F.val (b.get i)|)).sum) := by
  have hloc : FoldLocal L (fun f => seqFold S.add f L) := by
    intro f g h
    obtain ⟨n, rfl⟩ : ∃ n, L = n + 1 := ⟨L - 1, by omega⟩
    clear hL hsmall
    induction n with
    | zero => simpa [seqFold] using h 0 (by omega)
    | succ n ih =>
      show seqFold S.add f (n + 2) = seqFold S.add g (n + 2)
      have ih' : seqFold S.add f (n + 1) = seqFold S.add g (n + 1) := ih (fun k hk => h k (by omega))
      rw [seqFold, seqFold, ih', h (n + 1) (by omega)]
  exact dot_product_bound
    (SumBackend.of (ModelReg.arith _ S L fm _ hmax hmin hL hsmall) (ModelReg.reduce _ S L fm _ hmax hmin hL))
    (SumMath.of (ModelReg.math_faithful S sq)) F (seqFold_sem F L hL) hloc hsmall (by omega) a.size
    (by simp [ModelReg.withFuel]) hk a b rfl hb hnu

/-! ### non-vacuity: the assumptions on the arithmetic are satisfiable -/

/-- exact real arithmetic (`u = 0`, everything finite) is a `FloatSem`, for fused and unfused multiply-add alike;
the bound then says the kernel layout computes exactly `Σ aᵢ bᵢ` -/
noncomputable def realSpec : ScalarSpec ℝ where
  zero := 0
  one := 1
  minVal := 0
  maxVal := 0
  add := (· + ·)
  sub := (· - ·)
  mul := (· * ·)
  div := (· / ·)
  divOk := fun _ => true
  cmpMax := max
  cmpMin := min
  eq := fun _ _ => false

noncomputable def realSem : FloatSem realSpec (fun x y acc => x * y + acc) where
  val := id
  u := 0
  hu := le_refl 0
  Fin := fun _ => True
  NoUf := fun _ _ => True
  zero_val := rfl
  add_std := fun x y _ => ⟨trivial, trivial, 0, by simp, by simp [realSpec]⟩
  mul_std := fun x y _ _ => ⟨0, by simp, by simp [realSpec]⟩
  fm_std := fun x y acc _ _ => ⟨trivial, 0, 0, by simp, by simp, by simp⟩

example (E : Env) (a b : Slice ℝ) (hb : b.size = a.size) :
    ∃ v, generic_dot_product (ModelReg.withFuel E a.size)
          (ModelReg.inst (ModelReg.withFuel E a.size) realSpec 5 (fun x y acc => x * y + acc)
            (fun f => seqFold realSpec.add f 5) (fun f => f 0) (fun f => f 0))
          (ModelReg.math realSpec id) a.size a b = pure v
      ∧ v = ((List.range a.size).map (fun i => a.get i * b.get i)).sum := by
  obtain ⟨v, e, h⟩ := model_register_dot_bound E realSpec _ realSem 5 (by omega) (by decide) id (fun f => f 0) (fun f => f 0)
    a b hb (by simp [realSem]) (fun _ => trivial)
  refine ⟨v, e, ?_⟩
  have := h trivial
  simp [realSem, gamma] at this
  linarith

end Cfavml.Thm.C04
