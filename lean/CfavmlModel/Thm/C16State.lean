/-
C16, as a refinement: every history of operations on aligned buffers (`zeroed`, element writes and reads through the views,
`copy_from_slice`, `clone`, `clone_from`, `len` / `allocated_size`) behaves like the same history on a heap of independent
vectors (`Hand.specStep`), for every element size dividing 64, every length and every interleaving — and no view ever
leaves its allocation.  Over the byte-level model `Hand/AlignedBufferState.lean`, tied to the code by the `abufs`
correspondence run.
-/
import CfavmlModel.Hand.AlignedBufferState
import CfavmlModel.Thm.C16

namespace Cfavml.Thm.C16State
open Hand

/-- the abstraction: a buffer is the list of its `len` elements -/
def abs (b : ABufV) : List (List Nat) := (List.range b.hdr.len).map b.elem

/-- the representation invariant of one buffer of element size `sizeT` -/
structure Inv (sizeT : Nat) (b : ABufV) : Prop where
  size : b.sizeT = sizeT
  pos : sizeT ≠ 0
  dvd : 64 % sizeT = 0
  hdr : zeroed sizeT b.hdr.len = pure b.hdr
  store : b.store.size = b.hdr.numChunks * 64

theorem pure_inj {α : Type} {a b : α} (h : (pure a : Exec α) = pure b) : a = b := by
  cases h; rfl

/-- a buffer that exists was allocatable -/
theorem Inv.fits {s : Nat} {b : ABufV} (h : Inv s b) : Hand.fits s b.hdr.len :=
  ((C16.zeroed_ok_iff s b.hdr.len).mp ⟨_, h.hdr⟩).2.2

theorem Inv.hdr_eq {s : Nat} {b : ABufV} (h : Inv s b) :
    b.hdr = { len := b.hdr.len, allocatedSize := allocOf s b.hdr.len, numChunks := b.hdr.len / (64 / s) + 1 } := by
  have := h.hdr
  rw [C16.zeroed_eq s b.hdr.len h.pos h.dvd h.fits] at this
  exact (pure_inj this).symm

theorem Inv.alloc {s : Nat} {b : ABufV} (h : Inv s b) : b.hdr.allocatedSize = allocOf s b.hdr.len := by
  have := h.hdr_eq
  rw [this]

/-- the views lie inside the allocation -/
theorem Inv.viewOk {s : Nat} {b : ABufV} (h : Inv s b) : b.viewOk = true := by
  obtain ⟨b', hb', _, hle, _, _, _⟩ := C16.zeroed_sizes s b.hdr.len h.pos h.dvd h.fits
  have e : b' = b.hdr := pure_inj (hb'.symm.trans h.hdr)
  subst e
  unfold ABufV.viewOk
  rw [h.size, h.store]
  simpa [ABuf.storageBytes, chunkBytes] using hle

theorem abs_length (b : ABufV) : (abs b).length = b.hdr.len := by simp [abs]

theorem getD_range_map (v : List Nat) : (List.range v.length).map (fun t => v.getD t 0) = v := by
  apply List.ext_getElem
  · simp
  · intro i h1 h2
    simp only [List.getElem_map, List.getElem_range]
    simp only [List.length_map, List.length_range] at h1
    simp [List.getD_eq_getElem?_getD, h1]

theorem elem_setElem_same (b : ABufV) (i : Nat) (v : List Nat) (hv : v.length = b.sizeT) : (b.setElem i v).elem i = v := by
  unfold ABufV.elem ABufV.setElem
  simp only
  have hm : ∀ t, t ∈ List.range b.sizeT →
      (if i * b.sizeT ≤ i * b.sizeT + t ∧ i * b.sizeT + t < (i + 1) * b.sizeT then v.getD (i * b.sizeT + t - i * b.sizeT) 0
        else b.store.get (i * b.sizeT + t)) = v.getD t 0 := by
    intro t ht
    have ht' : t < b.sizeT := List.mem_range.mp ht
    have h1 : (i + 1) * b.sizeT = i * b.sizeT + b.sizeT := Nat.succ_mul _ _
    rw [if_pos ⟨by omega, by omega⟩]
    congr 1; omega
  rw [List.map_congr_left hm, ← hv]
  exact getD_range_map v

theorem elem_setElem_other (b : ABufV) (i j : Nat) (v : List Nat) (hji : j ≠ i) : (b.setElem i v).elem j = b.elem j := by
  unfold ABufV.elem ABufV.setElem
  simp only
  apply List.map_congr_left
  intro t ht
  have ht' : t < b.sizeT := List.mem_range.mp ht
  have h1 : (i + 1) * b.sizeT = i * b.sizeT + b.sizeT := Nat.succ_mul _ _
  have h2 : (j + 1) * b.sizeT = j * b.sizeT + b.sizeT := Nat.succ_mul _ _
  rw [if_neg]
  intro ⟨ha, hb⟩
  rcases Nat.lt_or_gt_of_ne hji with hlt | hgt
  · have : (j + 1) * b.sizeT ≤ i * b.sizeT := Nat.mul_le_mul_right _ hlt
    omega
  · have : (i + 1) * b.sizeT ≤ j * b.sizeT := Nat.mul_le_mul_right _ hgt
    omega

theorem abs_setElem (b : ABufV) (i : Nat) (v : List Nat) (hv : v.length = b.sizeT) :
    abs (b.setElem i v) = (abs b).set i v := by
  apply List.ext_getElem
  · simp [abs, ABufV.setElem]
  · intro j h1 h2
    have hj : j < b.hdr.len := by simpa [abs, ABufV.setElem] using h1
    rw [List.getElem_set]
    by_cases hij : i = j
    · subst hij
      rw [if_pos rfl]
      simp only [abs, List.getElem_map, List.getElem_range]
      exact elem_setElem_same b i v hv
    · rw [if_neg hij]
      simp only [abs, List.getElem_map, List.getElem_range]
      exact elem_setElem_other b i j v (fun h => hij h.symm)

theorem abs_clone (b : ABufV) : abs b.clone = abs b := rfl

theorem Inv.clone {s : Nat} {b : ABufV} (h : Inv s b) : Inv s b.clone := ⟨h.size, h.pos, h.dvd, h.hdr, h.store⟩

theorem Inv.setElem {s : Nat} {b : ABufV} (h : Inv s b) (i : Nat) (v : List Nat) : Inv s (b.setElem i v) :=
  ⟨h.size, h.pos, h.dvd, h.hdr, h.store⟩

/-- a fresh buffer: invariant, and every element zero -/
theorem zeroedV_spec (s len : Nat) (h0 : s ≠ 0) (h1 : 64 % s = 0) (hf : Hand.fits s len) :
    ∃ b, zeroedV s len = .ok b ∧ Inv s b ∧ b.hdr.len = len ∧ b.hdr.allocatedSize = allocOf s len
      ∧ abs b = List.replicate len (List.replicate s 0) := by
  have hz := C16.zeroed_eq s len h0 h1 hf
  refine ⟨{ sizeT := s, hdr := { len := len, allocatedSize := allocOf s len, numChunks := len / (64 / s) + 1 },
            store := ⟨(len / (64 / s) + 1) * chunkBytes, fun _ => 0⟩ }, ?_, ?_, rfl, rfl, ?_⟩
  · unfold zeroedV
    rw [hz]; rfl
  · exact ⟨rfl, h0, h1, hz, rfl⟩
  · apply List.ext_getElem
    · simp [abs]
    · intro j h1' h2'
      simp only [abs, List.getElem_map, List.getElem_range, List.getElem_replicate]
      unfold ABufV.elem
      apply List.ext_getElem
      · simp
      · intro t _ _
        simp

theorem zeroedV_panics (s len : Nat) (h : ¬ (s ≠ 0 ∧ 64 % s = 0 ∧ Hand.fits s len)) : zeroedV s len = .error Fault.panic := by
  unfold zeroedV
  rw [C16.zeroed_panics_otherwise s len h]; rfl

theorem abs_copyFrom (b : ABufV) (vs : List (List Nat)) (_hs : b.sizeT ≠ 0) (hl : vs.length = b.hdr.len)
    (hall : ∀ v ∈ vs, v.length = b.sizeT) :
    abs { b with store := ⟨b.store.size, fun p =>
      if p < b.hdr.len * b.sizeT then (vs.getD (p / b.sizeT) []).getD (p % b.sizeT) 0 else b.store.get p⟩ } = vs := by
  apply List.ext_getElem
  · simp [abs, hl]
  · intro j h1 h2
    have hj : j < b.hdr.len := by simpa [abs] using h1
    simp only [abs, List.getElem_map, List.getElem_range]
    unfold ABufV.elem
    simp only
    have hvj : vs[j].length = b.sizeT := hall _ (List.getElem_mem h2)
    have hm : ∀ t, t ∈ List.range b.sizeT →
        (if j * b.sizeT + t < b.hdr.len * b.sizeT then (vs.getD ((j * b.sizeT + t) / b.sizeT) []).getD ((j * b.sizeT + t) % b.sizeT) 0
          else b.store.get (j * b.sizeT + t)) = vs[j].getD t 0 := by
      intro t ht
      have ht' : t < b.sizeT := List.mem_range.mp ht
      have h3 : (j + 1) * b.sizeT = j * b.sizeT + b.sizeT := Nat.succ_mul _ _
      have h4 : (j + 1) * b.sizeT ≤ b.hdr.len * b.sizeT := Nat.mul_le_mul_right _ hj
      rw [if_pos (by omega)]
      have hd : (j * b.sizeT + t) / b.sizeT = j := Nat.div_eq_of_lt_le (by omega) (by omega)
      have hmod : (j * b.sizeT + t) % b.sizeT = t := by
        have := Nat.div_add_mod (j * b.sizeT + t) b.sizeT
        rw [hd, Nat.mul_comm] at this
        omega
      rw [hd, hmod]
      simp [List.getD_eq_getElem?_getD, h2]
    rw [List.map_congr_left hm, ← hvj]
    exact getD_range_map _

/-! ### one step refines the specification -/

theorem mem_set_inv {s : Nat} {h : List ABufV} (hinv : ∀ b ∈ h, Inv s b) (k : Nat) (b' : ABufV) (hb' : Inv s b') :
    ∀ b ∈ h.set k b', Inv s b := by
  intro b hb
  rcases List.mem_or_eq_of_mem_set hb with h1 | h1
  · exact hinv b h1
  · rw [h1]; exact hb'

theorem mem_append_inv {s : Nat} {h : List ABufV} (hinv : ∀ b ∈ h, Inv s b) (b' : ABufV) (hb' : Inv s b') :
    ∀ b ∈ h ++ [b'], Inv s b := by
  intro b hb
  rcases List.mem_append.mp hb with h1 | h1
  · exact hinv b h1
  · rw [List.mem_singleton.mp h1]; exact hb'

/-- **C16 (refinement, one operation).** On a heap whose buffers satisfy the invariant, an operation returns what the
specification returns on the abstracted heap, the new heap abstracts to the specification's new heap, and the invariant is
kept. -/
theorem step_refines (s : Nat) (h : List ABufV) (hinv : ∀ b ∈ h, Inv s b) (op : AOp) :
    (step s h op).2 = (specStep s (h.map abs) op).2
    ∧ (step s h op).1.map abs = (specStep s (h.map abs) op).1
    ∧ (∀ b ∈ (step s h op).1, Inv s b) := by
  cases op with
  | zeroed len =>
    by_cases hs : s ≠ 0 ∧ 64 % s = 0 ∧ Hand.fits s len
    · obtain ⟨b, hb, hi, hl, ha, habs⟩ := zeroedV_spec s len hs.1 hs.2.1 hs.2.2
      simp only [step, specStep, hb, if_pos hs, hl, ha, List.map_append, List.map_cons, List.map_nil, habs]
      exact ⟨trivial, trivial, mem_append_inv hinv b hi⟩
    · simp only [step, specStep, zeroedV_panics s len hs, if_neg hs]
      exact ⟨trivial, trivial, hinv⟩
  | write k i v =>
    simp only [step, specStep, List.getElem?_map]
    cases hk : h[k]? with
    | none => exact ⟨rfl, rfl, hinv⟩
    | some b =>
      have hb : Inv s b := hinv b (List.mem_of_getElem? hk)
      simp only [Option.map_some]
      by_cases hv : v.length ≠ s
      · simp only [if_pos hv]; exact ⟨trivial, trivial, hinv⟩
      · simp only [if_neg hv, abs_length]
        have hv' : v.length = b.sizeT := by rw [hb.size]; exact Classical.not_not.mp hv
        unfold ABufV.writeAt
        simp only [hb.viewOk, Bool.not_true, Bool.false_eq_true, if_false]
        by_cases hi : i < b.hdr.len
        · simp only [if_pos hi]
          refine ⟨trivial, ?_, mem_set_inv hinv k _ (hb.setElem i v)⟩
          show (h.set k (b.setElem i v)).map abs = (h.map abs).set k ((abs b).set i v)
          rw [List.map_set, abs_setElem b i v hv']
        · simp only [if_neg hi]; exact ⟨trivial, trivial, hinv⟩
  | read k i =>
    simp only [step, specStep, List.getElem?_map]
    cases hk : h[k]? with
    | none => exact ⟨rfl, rfl, hinv⟩
    | some b =>
      have hb : Inv s b := hinv b (List.mem_of_getElem? hk)
      simp only [Option.map_some]
      unfold ABufV.readAt
      simp only [hb.viewOk, Bool.not_true, Bool.false_eq_true, if_false]
      by_cases hi : i < b.hdr.len
      · have hi' : i < (abs b).length := by rw [abs_length]; exact hi
        simp only [if_pos hi, dif_pos hi']
        refine ⟨?_, trivial, hinv⟩
        simp [abs]
      · have hi' : ¬ i < (abs b).length := by rw [abs_length]; exact hi
        simp only [if_neg hi, dif_neg hi']
        exact ⟨trivial, trivial, hinv⟩
  | clone k =>
    simp only [step, specStep, List.getElem?_map]
    cases hk : h[k]? with
    | none => exact ⟨rfl, rfl, hinv⟩
    | some b =>
      have hb : Inv s b := hinv b (List.mem_of_getElem? hk)
      simp only [Option.map_some, abs_length, hb.alloc, List.map_append, List.map_cons, List.map_nil, abs_clone]
      exact ⟨trivial, trivial, mem_append_inv hinv _ hb.clone⟩
  | cloneFrom d sidx =>
    simp only [step, specStep, List.getElem?_map]
    cases hd : h[d]? with
    | none => exact ⟨rfl, rfl, hinv⟩
    | some bd =>
      cases hk : h[sidx]? with
      | none => exact ⟨rfl, rfl, hinv⟩
      | some b =>
        have hb : Inv s b := hinv b (List.mem_of_getElem? hk)
        simp only [Option.map_some, abs_length, hb.alloc, List.map_set, abs_clone]
        exact ⟨trivial, trivial, mem_set_inv hinv d _ hb.clone⟩
  | copyFrom k vs =>
    simp only [step, specStep, List.getElem?_map]
    cases hk : h[k]? with
    | none => exact ⟨rfl, rfl, hinv⟩
    | some b =>
      have hb : Inv s b := hinv b (List.mem_of_getElem? hk)
      simp only [Option.map_some]
      by_cases hall : (!vs.all (fun v => v.length == s)) = true
      · simp only [hall, if_true]; exact ⟨trivial, trivial, hinv⟩
      · simp only [hall, Bool.false_eq_true, if_false, abs_length]
        have hall' : ∀ v ∈ vs, v.length = b.sizeT := by
          intro v hv
          have : vs.all (fun v => v.length == s) = true := by simpa using hall
          rw [hb.size]
          simpa using List.all_eq_true.mp this v hv
        unfold ABufV.copyFrom
        simp only [hb.viewOk, Bool.not_true, Bool.false_eq_true, if_false]
        by_cases hl : vs.length = b.hdr.len
        · simp only [if_pos hl]
          refine ⟨trivial, ?_, mem_set_inv hinv k _ ⟨hb.size, hb.pos, hb.dvd, hb.hdr, hb.store⟩⟩
          rw [List.map_set, abs_copyFrom b vs (by rw [hb.size]; exact hb.pos) hl hall']
        · simp only [if_neg hl]; exact ⟨trivial, trivial, hinv⟩
  | info k =>
    simp only [step, specStep, List.getElem?_map]
    cases hk : h[k]? with
    | none => exact ⟨rfl, rfl, hinv⟩
    | some b =>
      have hb : Inv s b := hinv b (List.mem_of_getElem? hk)
      simp only [Option.map_some, abs_length, hb.alloc]
      exact ⟨trivial, trivial, hinv⟩
  | dump k =>
    simp only [step, specStep, List.getElem?_map]
    cases hk : h[k]? with
    | none => exact ⟨rfl, rfl, hinv⟩
    | some b =>
      have hb : Inv s b := hinv b (List.mem_of_getElem? hk)
      simp only [Option.map_some]
      unfold ABufV.dump
      simp only [hb.viewOk, Bool.not_true, Bool.false_eq_true, if_false]
      exact ⟨rfl, trivial, hinv⟩

/-- **C16 (refinement, every history).** Any sequence of operations, from any heap satisfying the invariant (in
particular the empty one), produces exactly the outputs of the specification. -/
theorem run_refines (s : Nat) (ops : List AOp) (h : List ABufV) (hinv : ∀ b ∈ h, Inv s b) :
    (run s h ops).2 = (specRun s (h.map abs) ops).2
    ∧ (run s h ops).1.map abs = (specRun s (h.map abs) ops).1
    ∧ (∀ b ∈ (run s h ops).1, Inv s b) := by
  induction ops generalizing h with
  | nil => exact ⟨rfl, rfl, hinv⟩
  | cons op ops ih =>
    obtain ⟨h1, h2, h3⟩ := step_refines s h hinv op
    obtain ⟨i1, i2, i3⟩ := ih (step s h op).1 h3
    simp only [run, specRun]
    rw [← h2, ← h1]
    exact ⟨by rw [i1], i2, i3⟩

theorem run_refines_empty (s : Nat) (ops : List AOp) : (run s [] ops).2 = (specRun s [] ops).2 :=
  (run_refines s ops [] (by intro b hb; cases hb)).1

/-! ### what the specification says (and therefore the model, for every history) -/

/-- the specification never reports an out-of-bounds view … -/
theorem specStep_no_oob (s : Nat) (h : List (List (List Nat))) (op : AOp) :
    (specStep s h op).2 ≠ .fault Fault.oobRead ∧ (specStep s h op).2 ≠ .fault Fault.oobWrite := by
  cases op <;> simp only [specStep] <;> (repeat' split) <;> simp

/-- **C16 (views stay inside the storage).** … so no operation of any history does: the `len` elements of every view
lie inside the buffer's allocation in every reachable state (`clone_from` into a shorter or longer buffer included). -/
theorem step_no_oob (s : Nat) (h : List ABufV) (hinv : ∀ b ∈ h, Inv s b) (op : AOp) :
    (step s h op).2 ≠ .fault Fault.oobRead ∧ (step s h op).2 ≠ .fault Fault.oobWrite := by
  rw [(step_refines s h hinv op).1]
  exact specStep_no_oob s _ op

/-- the buffer an operation modifies -/
def target : AOp → Option Nat
  | .write k _ _ => some k
  | .cloneFrom d _ => some d
  | .copyFrom k _ => some k
  | _ => none

/-- frame property of the specification: an operation leaves every existing buffer other than its target as it was -/
theorem specStep_frame (s : Nat) (h : List (List (List Nat))) (op : AOp) (j : Nat) (hj : j < h.length)
    (ht : target op ≠ some j) : (specStep s h op).1[j]? = h[j]? := by
  cases op with
  | zeroed len =>
    simp only [specStep]; split
    · exact List.getElem?_append_left hj
    · rfl
  | write k i v =>
    have hk : k ≠ j := fun e => ht (by rw [target, e])
    simp only [specStep]
    repeat' split
    all_goals first | rfl | exact List.getElem?_set_ne hk
  | read k i =>
    simp only [specStep]
    split
    · rfl
    · split <;> rfl
  | clone k =>
    simp only [specStep]; split
    · rfl
    · exact List.getElem?_append_left hj
  | cloneFrom d sidx =>
    have hk : d ≠ j := fun e => ht (by rw [target, e])
    simp only [specStep]
    split
    · exact List.getElem?_set_ne hk
    · rfl
  | copyFrom k vs =>
    have hk : k ≠ j := fun e => ht (by rw [target, e])
    simp only [specStep]
    repeat' split
    all_goals first | rfl | exact List.getElem?_set_ne hk
  | info k => simp only [specStep]; split <;> rfl
  | dump k => simp only [specStep]; split <;> rfl

/-- **C16 (independence).** In the model, an operation leaves the contents of every buffer other than its target
unchanged — a clone is not affected by writes to the buffer it was cloned from, nor the other way round, nor any fresh
buffer by anything done to the others. -/
theorem step_frame (s : Nat) (h : List ABufV) (hinv : ∀ b ∈ h, Inv s b) (op : AOp) (j : Nat) (hj : j < h.length)
    (ht : target op ≠ some j) : ((step s h op).1[j]?).map abs = (h[j]?).map abs := by
  have h2 := (step_refines s h hinv op).2.1
  have := specStep_frame s (h.map abs) op j (by simpa using hj) ht
  rw [← h2, List.getElem?_map, List.getElem?_map] at this
  exact this

/-- a clone starts as an equal copy: the new buffer's contents are those of the original -/
theorem clone_copies (s : Nat) (h : List ABufV) (k : Nat) (b : ABufV) (hk : h[k]? = some b) :
    ((step s h (.clone k)).1[h.length]?).map abs = some (abs b) := by
  simp [step, hk, abs_clone]

/-- … and so does the target of `clone_from`, whatever it held and however long it was -/
theorem cloneFrom_copies (s : Nat) (h : List ABufV) (d k : Nat) (bd b : ABufV) (hd : h[d]? = some bd) (hk : h[k]? = some b) :
    ((step s h (.cloneFrom d k)).1[d]?).map abs = some (abs b) := by
  have hdl : d < h.length := by
    rcases Nat.lt_or_ge d h.length with h1 | h1
    · exact h1
    · rw [List.getElem?_eq_none h1] at hd; cases hd
  simp [step, hd, hk, abs_clone, hdl]

/-- reading back what was written: in the specification by `List.getElem_set_self`, hence in the model -/
theorem read_after_write (s : Nat) (h : List ABufV) (hinv : ∀ b ∈ h, Inv s b) (k i : Nat) (v : List Nat) (b : ABufV)
    (hk : h[k]? = some b) (hv : v.length = s) (hi : i < b.hdr.len) :
    (step s (step s h (.write k i v)).1 (.read k i)).2 = .elem v := by
  have hb : Inv s b := hinv b (List.mem_of_getElem? hk)
  have hkl : k < h.length := by
    rcases Nat.lt_or_ge k h.length with h1 | h1
    · exact h1
    · rw [List.getElem?_eq_none h1] at hk; cases hk
  have e1 : (step s h (.write k i v)).1 = h.set k (b.setElem i v) := by
    simp [step, hk, hv, ABufV.writeAt, hb.viewOk, hi]
  rw [e1]
  have hv' : v.length = b.sizeT := by rw [hb.size]; exact hv
  have hvo : (b.setElem i v).viewOk = true := (hb.setElem i v).viewOk
  have hlen : (b.setElem i v).hdr.len = b.hdr.len := rfl
  simp only [step, List.getElem?_set_self hkl, ABufV.readAt, hvo, Bool.not_true, Bool.false_eq_true, if_false, hlen, if_pos hi,
    elem_setElem_same b i v hv']

/-- non-vacuity: a concrete history on 4-byte elements — a clone, a write to the original, `clone_from` into a longer
buffer — evaluated by the model and by the specification -/
example :
    (run 4 [] [.zeroed 3, .write 0 1 [1, 2, 3, 4], .clone 0, .write 0 2 [9, 9, 9, 9], .read 1 2, .read 0 2, .zeroed 40,
               .cloneFrom 2 0, .info 2, .read 2 1, .read 2 3, .copyFrom 1 [[5, 0, 0, 0], [6, 0, 0, 0]]]).2
    = [.info 3 16, .unit, .info 3 16, .unit, .elem [0, 0, 0, 0], .elem [9, 9, 9, 9], .info 40 48, .info 3 16, .info 3 16,
       .elem [1, 2, 3, 4], .fault Fault.panic, .fault Fault.panic] := by
  decide

end Cfavml.Thm.C16State
