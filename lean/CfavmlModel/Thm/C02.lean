/-
C02 — element-wise add/sub/mul/div are exact on every backend.
`generic_*_vector` (vector × vector) and `generic_*_value` (vector × scalar) as generated from the source,
for every lane-wise faithful backend (`ArithFaithful`, i.e. property C13; proved for Fallback in
`Thm.C13Fallback`, for the x86 backends in `Thm.C13X86`), every lane count, every length, every operand
value in every position: the call terminates without fault, and output element `j` is exactly the scalar
operation of `Spec/Scalar.lean` on `a[j]`, `b[j]` (wrapping two's complement for the integer types, the
IEEE primitive of `E.F` bit for bit for floats — operand order as written). Integer division is covered
for non-zero divisors here; a zero divisor is the `div_panic` case of `MathFaithful`.
-/
import CfavmlModel.Thm.KernelShapes
import CfavmlModel.Thm.C13Fallback
import CfavmlModel.Thm.C18
import CfavmlModel.Spec.Backend

namespace Cfavml.Thm.C02
variable {T Reg : Type} {E : Env} {R : SimdRegister T Reg} {M : Math T} {L : Nat} {lanes : Reg → Nat → T}
variable {S : ScalarSpec T}

/-- what "exact element-wise result" means -/
def ExactMap2 (f : T → T → T) (dims : Nat) (a b result : Slice T) (out : Exec (Slice T)) : Prop :=
  ∃ res', out = pure res' ∧ res'.size = dims ∧ (∀ j, j < dims → res'.get j = f (a.get j) (b.get j))
    ∧ (∀ j, dims ≤ j → res'.get j = result.get j)

section generic
variable (AF : ArithFaithful R L lanes S) (MFa : MathFaithful M S)
variable (dims : Nat) (a b result : Slice T) (ha : a.size = dims) (hb : b.size = dims) (hr : result.size = dims)
variable (hfuel : dims < E.fuel)
include AF MFa ha hb hr hfuel

theorem add_vector : ExactMap2 S.add dims a b result (generic_add_vector E R M dims a b result) := by
  rw [Shapes.add_vector]
  exact map2T_spec AF.mem AF.add (fun x y _ => MFa.add x y) true dims a b result ha hb hr (fun _ _ => trivial) hfuel

theorem sub_vector : ExactMap2 S.sub dims a b result (generic_sub_vector E R M dims a b result) := by
  rw [Shapes.sub_vector]
  exact map2T_spec AF.mem AF.sub (fun x y _ => MFa.sub x y) true dims a b result ha hb hr (fun _ _ => trivial) hfuel

theorem mul_vector : ExactMap2 S.mul dims a b result (generic_mul_vector E R M dims a b result) := by
  rw [Shapes.mul_vector]
  exact map2T_spec AF.mem AF.mul (fun x y _ => MFa.mul x y) true dims a b result ha hb hr (fun _ _ => trivial) hfuel

/-- division: exact (truncating for integers, `MIN / -1 = MIN`; IEEE for floats) whenever no processed
divisor is one the scalar division panics on -/
theorem div_vector (hnz : ∀ j, j < dims → S.divOk (b.get j) = true) :
    ExactMap2 S.div dims a b result (generic_div_vector E R M dims a b result) := by
  rw [Shapes.div_vector]
  exact map2T_spec AF.mem AF.div (fun x y h => MFa.div_ok x y h) true dims a b result ha hb hr hnz hfuel

end generic

/-! ### vector × scalar -/

def ExactMap1v (f : T → T → T) (dims : Nat) (value : T) (a result : Slice T) (out : Exec (Slice T)) : Prop :=
  ∃ res', out = pure res' ∧ res'.size = dims ∧ (∀ j, j < dims → res'.get j = f (a.get j) value)
    ∧ (∀ j, dims ≤ j → res'.get j = result.get j)

section generic_value
variable (AF : ArithFaithful R L lanes S) (MFa : MathFaithful M S)
variable (dims : Nat) (value : T) (a result : Slice T) (ha : a.size = dims) (hr : result.size = dims)
variable (hfuel : dims < E.fuel)
include AF MFa ha hr hfuel

theorem arithValue_spec {f : T → T → T} {ok : T → Prop}
    {opDense : DenseLane Reg → DenseLane Reg → Exec (DenseLane Reg)} {opReg : Reg → Reg → Exec Reg}
    {opTail : T → T → Exec T} (LW : Lanewise2 L lanes f ok opReg opDense) (SC : Scalar2 f ok opTail)
    (hok : ok value) :
    ExactMap1v f dims value a result (Shapes.arithValueT E R opDense opReg opTail dims value a result) := by
  unfold Shapes.arithValueT
  rw [ha, hr]
  simp only [debugAssertEq_self, pure_bind]
  obtain ⟨vr, e, hv⟩ := AF.bcast.filled_ok value
  rw [e]; simp only [pure_bind]
  exact map1vCore_spec AF.mem LW SC dims value vr (DenseLane.copy vr) hv
    (fun k hk => by rw [dlanes_copy AF.mem.L_pos vr k hk]; exact hv _ (Nat.mod_lt _ AF.mem.L_pos))
    a result ha hr hok hfuel

theorem minmaxValue_spec {f : T → T → T} {ok : T → Prop}
    {opDense : DenseLane Reg → DenseLane Reg → Exec (DenseLane Reg)} {opReg : Reg → Reg → Exec Reg}
    {opTail : T → T → Exec T} (LW : Lanewise2 L lanes f ok opReg opDense) (SC : Scalar2 f ok opTail)
    (hok : ok value) :
    ExactMap1v f dims value a result (Shapes.minmaxValueT E R opDense opReg opTail dims value a result) := by
  unfold Shapes.minmaxValueT
  rw [ha]
  simp only [debugAssertEq_self, pure_bind]
  obtain ⟨bd, e, hvd, hva⟩ := AF.bcast.filled_dense_ok value
  rw [e]; simp only [pure_bind]
  exact map1vCore_spec AF.mem LW SC dims value bd.a bd hva hvd a result ha hr hok hfuel

theorem add_value : ExactMap1v S.add dims value a result (generic_add_value E R M dims value a result) := by
  rw [Shapes.add_value]
  exact arithValue_spec AF MFa dims value a result ha hr hfuel AF.add (fun x y _ => MFa.add x y) trivial
theorem sub_value : ExactMap1v S.sub dims value a result (generic_sub_value E R M dims value a result) := by
  rw [Shapes.sub_value]
  exact arithValue_spec AF MFa dims value a result ha hr hfuel AF.sub (fun x y _ => MFa.sub x y) trivial
theorem mul_value : ExactMap1v S.mul dims value a result (generic_mul_value E R M dims value a result) := by
  rw [Shapes.mul_value]
  exact arithValue_spec AF MFa dims value a result ha hr hfuel AF.mul (fun x y _ => MFa.mul x y) trivial
/-- `a[j] / value` (the vector is the dividend), for a divisor the scalar division does not panic on -/
theorem div_value (hnz : S.divOk value = true) :
    ExactMap1v S.div dims value a result (generic_div_value E R M dims value a result) := by
  rw [Shapes.div_value]
  exact arithValue_spec AF MFa dims value a result ha hr hfuel AF.div (fun x y h => MFa.div_ok x y h) hnz

end generic_value

/-! ### the Fallback backend, every element type at once -/

theorem fallback_arith (E : Env) {T : Type} (AM : Math T) (S : ScalarSpec T) (sz : Nat) (hsz : 0 < sz)
    (MFa : MathFaithful AM S) : ArithFaithful (Fallback.inst E AM sz) 1 C13Fallback.lanes1 S :=
  ⟨C13Fallback.mem E AM sz hsz, C13Fallback.bcast E AM sz, C13Fallback.add E AM sz MFa, C13Fallback.sub E AM sz MFa,
   C13Fallback.mul E AM sz MFa, C13Fallback.div E AM sz MFa, C13Fallback.max E AM sz MFa,
   C13Fallback.min E AM sz MFa⟩

/-- e.g. `i32_xany_fallback_nofma_add_vector` (= `generic_add_vector::<_, Fallback, AutoMath>(a.len(), ..)`
by the export arm of `Thm.C12`): exact wrapping addition for every input -/
theorem i32_fallback_add_vector (E : Env) (a b result : Slice I32) (hb : b.size = a.size)
    (hr : result.size = a.size) (hfuel : a.size < E.fuel) :
    ExactMap2 (· + ·) a.size a b result
      (generic_add_vector E (Fallback.inst E (AutoMath_i32 E) 4) (AutoMath_i32 E) a.size a b result) :=
  add_vector (fallback_arith E _ _ 4 (by omega) (C18.auto_i32 E)) (C18.auto_i32 E) a.size a b result rfl hb hr hfuel

/-- `f32` on the Fallback backend: the IEEE addition primitive, bit for bit (default math) -/
theorem f32_fallback_add_vector (E : Env) (hn : E.feat_nightly = false) (a b result : Slice F32)
    (hb : b.size = a.size) (hr : result.size = a.size) (hfuel : a.size < E.fuel) :
    ExactMap2 E.F.add32 a.size a b result
      (generic_add_vector E (Fallback.inst E (AutoMath_f32 E) 4) (AutoMath_f32 E) a.size a b result) := by
  have h := add_vector (fallback_arith E _ _ 4 (by omega) (C18.auto_f32 E)) (C18.auto_f32 E) a.size a b result rfl hb hr hfuel
  simpa [f32Spec, hn] using h

/-- non-vacuity: the hypotheses are satisfiable (length 3 slices, fuel 10) and the conclusion is not
trivially about an empty range -/
example : ∃ (a : Slice I32), a.size = 3 ∧ (3 : Nat) < 10 := ⟨⟨3, fun _ => 0⟩, rfl, by decide⟩

end Cfavml.Thm.C02
