/-
C05 for backends whose register max/min (`vop`) differs from the scalar one (`top`) — the x86 float backends, where the
registers use `maxps`/`minps` and the scalar tail Rust's `max`/`min`.

Vertical and by-value kernels: element `j` is `vop a[j] b[j]` where a whole register covers it and `top a[j] b[j]` in the
tail (`map2T_spec2`, `map1vCore_spec2`); if both operations are a max (min) on numbers, every element of the result on
NaN-free inputs is a number whose value is the max (min) of the two input values. The per-backend instances and the
horizontal kernels are in the generated `Thm/X86FloatExt.lean`.
-/
import CfavmlModel.Thm.KernelShapes
import CfavmlModel.Lemmas.Map2
import CfavmlModel.Lemmas.Map1v
import CfavmlModel.Lemmas.ExtremeSem

namespace Cfavml.Thm.C05Float
open ExtremeSem

variable {T Reg : Type} {E : Env} {R : SimdRegister T Reg} {M : Math T} {L : Nat} {lanes : Reg → Nat → T}
variable {vop top : T → T → T}

/-- what a mixed vertical kernel returns: no fault, `dims` results, element-wise `Post`, frame preserved -/
def MixedMap2 (Post : Nat → T → Prop) (dims : Nat) (result : Slice T) (out : Exec (Slice T)) : Prop :=
  ∃ res', out = pure res' ∧ res'.size = dims ∧ (∀ j, j < dims → Post j (res'.get j))
    ∧ (∀ j, dims ≤ j → res'.get j = result.get j)

section kernels
variable (MF : MemFaithful R L lanes) (dims : Nat) (hfuel : dims < E.fuel)
include MF hfuel

theorem max_vertical_mixed (LW : Lanewise2 L lanes vop (fun _ => True) R.max R.max_dense)
    (hcmp : ∀ x y, M.cmp_max x y = pure (top x y))
    (a b result : Slice T) (ha : a.size = dims) (hb : b.size = dims) (hr : result.size = dims) :
    MixedMap2 (fun j x => x = mixG (dims - dims % L) vop top a b j) dims result
      (generic_max_vertical E R M dims a b result) := by
  rw [Shapes.max_vertical]
  exact map2T_spec2 MF LW (fun x y _ => hcmp x y) false dims a b result ha hb hr (fun _ _ => trivial) hfuel

theorem min_vertical_mixed (LW : Lanewise2 L lanes vop (fun _ => True) R.min R.min_dense)
    (hcmp : ∀ x y, M.cmp_min x y = pure (top x y))
    (a b result : Slice T) (ha : a.size = dims) (hb : b.size = dims) (hr : result.size = dims) :
    MixedMap2 (fun j x => x = mixG (dims - dims % L) vop top a b j) dims result
      (generic_min_vertical E R M dims a b result) := by
  rw [Shapes.min_vertical]
  exact map2T_spec2 MF LW (fun x y _ => hcmp x y) false dims a b result ha hb hr (fun _ _ => trivial) hfuel

theorem max_value_mixed (BF : BroadcastFaithful R L lanes) (LW : Lanewise2 L lanes vop (fun _ => True) R.max R.max_dense)
    (hcmp : ∀ x y, M.cmp_max x y = pure (top x y))
    (value : T) (a result : Slice T) (ha : a.size = dims) (hr : result.size = dims) :
    MixedMap2 (fun j x => x = mixGv (dims - dims % L) vop top a value j) dims result
      (generic_max_value E R M dims value a result) := by
  rw [Shapes.max_value]
  unfold Shapes.minmaxValueT
  rw [ha]
  simp only [debugAssertEq_self, pure_bind]
  obtain ⟨bd, e, hvd, hva⟩ := BF.filled_dense_ok value
  rw [e]; simp only [pure_bind]
  exact map1vCore_spec2 MF LW (fun x y _ => hcmp x y) dims value bd.a bd hva hvd a result ha hr trivial hfuel

theorem min_value_mixed (BF : BroadcastFaithful R L lanes) (LW : Lanewise2 L lanes vop (fun _ => True) R.min R.min_dense)
    (hcmp : ∀ x y, M.cmp_min x y = pure (top x y))
    (value : T) (a result : Slice T) (ha : a.size = dims) (hr : result.size = dims) :
    MixedMap2 (fun j x => x = mixGv (dims - dims % L) vop top a value j) dims result
      (generic_min_value E R M dims value a result) := by
  rw [Shapes.min_value]
  unfold Shapes.minmaxValueT
  rw [ha]
  simp only [debugAssertEq_self, pure_bind]
  obtain ⟨bd, e, hvd, hva⟩ := BF.filled_dense_ok value
  rw [e]; simp only [pure_bind]
  exact map1vCore_spec2 MF LW (fun x y _ => hcmp x y) dims value bd.a bd hva hvd a result ha hr trivial hfuel

end kernels

/-! ### semantic reading -/

theorem MixedMap2.mono {P Q : Nat → T → Prop} {dims : Nat} {result : Slice T} {out : Exec (Slice T)}
    (h : MixedMap2 P dims result out) (hpq : ∀ j x, j < dims → P j x → Q j x) : MixedMap2 Q dims result out := by
  obtain ⟨r, e, h1, h2, h3⟩ := h
  exact ⟨r, e, h1, fun j hj => hpq j _ hj (h2 j hj), h3⟩

section
variable {V : Type} [LinearOrder V]

theorem mixG_isMax (Num : T → Prop) (val : T → V) (hv : IsMaxOn Num val vop) (ht : IsMaxOn Num val top)
    (cut : Nat) (a b : Slice T) (j : Nat) (ha : Num (a.get j)) (hb : Num (b.get j)) :
    Num (mixG cut vop top a b j) ∧ val (mixG cut vop top a b j) = max (val (a.get j)) (val (b.get j)) := by
  unfold mixG
  split
  · exact hv _ _ ha hb
  · exact ht _ _ ha hb

theorem mixGv_isMax (Num : T → Prop) (val : T → V) (hv : IsMaxOn Num val vop) (ht : IsMaxOn Num val top)
    (cut : Nat) (a : Slice T) (value : T) (j : Nat) (ha : Num (a.get j)) (hb : Num value) :
    Num (mixGv cut vop top a value j) ∧ val (mixGv cut vop top a value j) = max (val (a.get j)) (val value) := by
  unfold mixGv
  split
  · exact hv _ _ ha hb
  · exact ht _ _ ha hb

theorem mixG_isMin (Num : T → Prop) (val : T → V) (hv : IsMinOn Num val vop) (ht : IsMinOn Num val top)
    (cut : Nat) (a b : Slice T) (j : Nat) (ha : Num (a.get j)) (hb : Num (b.get j)) :
    Num (mixG cut vop top a b j) ∧ val (mixG cut vop top a b j) = min (val (a.get j)) (val (b.get j)) := by
  unfold mixG
  split
  · exact hv _ _ ha hb
  · exact ht _ _ ha hb

theorem mixGv_isMin (Num : T → Prop) (val : T → V) (hv : IsMinOn Num val vop) (ht : IsMinOn Num val top)
    (cut : Nat) (a : Slice T) (value : T) (j : Nat) (ha : Num (a.get j)) (hb : Num value) :
    Num (mixGv cut vop top a value j) ∧ val (mixGv cut vop top a value j) = min (val (a.get j)) (val value) := by
  unfold mixGv
  split
  · exact hv _ _ ha hb
  · exact ht _ _ ha hb

end
end Cfavml.Thm.C05Float
