/-
C13 (Fallback backend) — `impl<T> SimdRegister<T> for Fallback` is lane-wise faithful with one lane per
register: a register *is* the element, every operation is the `AutoMath` scalar operation.
Proved once for every element type `T` and every math dictionary `AM`.
-/
import CfavmlModel.Gen.ImplFallback
import CfavmlModel.Lemmas.Defaults
import CfavmlModel.Spec.Scalar
import CfavmlModel.Spec.Backend

namespace Cfavml.Thm.C13Fallback
variable {T : Type} (E : Env) (AM : Math T) (sz : Nat)

/-- lanes of a Fallback register: the single element -/
def lanes1 (r : T) (_ : Nat) : T := r

theorem set_eq_setRange (s : Slice T) (i : Nat) (v : T) : s.set i v = s.setRange i 1 (fun _ => v) := by
  unfold Slice.set Slice.setRange
  congr 1
  funext j
  by_cases h : j = i
  · subst h; simp
  · have : ¬ (i ≤ j ∧ j < i + 1) := by omega
    simp [h, this]

theorem core (hsz : 0 < sz) : CoreFaithful (Fallback.inst E AM sz) 1 lanes1 := by
  refine ⟨by omega, by decide, ?_, ?_, ?_, ?_, ?_⟩
  · show Fallback.elements_per_lane E AM sz = _
    unfold Fallback.elements_per_lane SimdRegisterDefault.elements_per_lane udiv
    have : sz ≠ 0 := by omega
    simp [this, Nat.div_self hsz]
  · intro s i hi
    refine ⟨s.get i, ?_, ?_⟩
    · show Fallback.load E AM sz s i = _
      unfold Fallback.load Slice.read
      have : i < s.size := by omega
      simp [this]
    · intro k hk
      have : k = 0 := by omega
      subst this; rfl
  · intro s i hi
    show Fallback.load E AM sz s i = _
    unfold Fallback.load Slice.read
    have : ¬ (i < s.size) := by omega
    simp [this]
  · intro s i r hi
    show Fallback.write E AM sz s i r = _
    unfold Fallback.write Slice.write
    have : i < s.size := by omega
    simp only [this, if_true, pure_bind]
    rw [set_eq_setRange]
    rfl
  · intro s i r hi
    show Fallback.write E AM sz s i r = _
    unfold Fallback.write Slice.write
    have : ¬ (i < s.size) := by omega
    simp [this]

theorem usesDefaults : UsesDefaultMem E (Fallback.inst E AM sz) := ⟨rfl, rfl, rfl⟩

/-- **C13 (Fallback, memory).** one lane per register, loads/stores move exactly that element, faults
exactly when it is outside the slice; the dense forms are eight of those. -/
theorem mem (hsz : 0 < sz) : MemFaithful (Fallback.inst E AM sz) 1 lanes1 :=
  memFaithful_of_defaults (core E AM sz hsz) (usesDefaults E AM sz)

/-- **C13 (Fallback, broadcast).** `filled` is the value itself; the dense form is eight copies. -/
theorem bcast : BroadcastFaithful (Fallback.inst E AM sz) 1 lanes1 :=
  broadcastFaithful_of_default (E := E) (by omega) (fun v => ⟨v, rfl, fun _ _ => rfl⟩) rfl

variable {S : ScalarSpec T} (MFa : MathFaithful AM S)
include MFa

theorem add : Lanewise2 1 lanes1 S.add (fun _ => True) (Fallback.inst E AM sz).add (Fallback.inst E AM sz).add_dense :=
  lanewise2_of_applyDense (by omega) (fun x y _ => ⟨S.add x y, by
    show Fallback.add E AM sz x y = _
    unfold Fallback.add; rw [MFa.add], fun _ _ => rfl⟩)
theorem sub : Lanewise2 1 lanes1 S.sub (fun _ => True) (Fallback.inst E AM sz).sub (Fallback.inst E AM sz).sub_dense :=
  lanewise2_of_applyDense (by omega) (fun x y _ => ⟨S.sub x y, by
    show Fallback.sub E AM sz x y = _
    unfold Fallback.sub; rw [MFa.sub], fun _ _ => rfl⟩)
theorem mul : Lanewise2 1 lanes1 S.mul (fun _ => True) (Fallback.inst E AM sz).mul (Fallback.inst E AM sz).mul_dense :=
  lanewise2_of_applyDense (by omega) (fun x y _ => ⟨S.mul x y, by
    show Fallback.mul E AM sz x y = _
    unfold Fallback.mul; rw [MFa.mul], fun _ _ => rfl⟩)
theorem div : Lanewise2 1 lanes1 S.div (fun y => S.divOk y = true) (Fallback.inst E AM sz).div (Fallback.inst E AM sz).div_dense :=
  lanewise2_of_applyDense (by omega) (fun x y hok => ⟨S.div x y, by
    show Fallback.div E AM sz x y = _
    unfold Fallback.div; rw [MFa.div_ok x y (hok 0 (by omega))], fun _ _ => rfl⟩)
theorem max : Lanewise2 1 lanes1 S.cmpMax (fun _ => True) (Fallback.inst E AM sz).max (Fallback.inst E AM sz).max_dense :=
  lanewise2_of_applyDense (by omega) (fun x y _ => ⟨S.cmpMax x y, by
    show Fallback.max E AM sz x y = _
    unfold Fallback.max; rw [MFa.cmp_max], fun _ _ => rfl⟩)
theorem min : Lanewise2 1 lanes1 S.cmpMin (fun _ => True) (Fallback.inst E AM sz).min (Fallback.inst E AM sz).min_dense :=
  lanewise2_of_applyDense (by omega) (fun x y _ => ⟨S.cmpMin x y, by
    show Fallback.min E AM sz x y = _
    unfold Fallback.min; rw [MFa.cmp_min], fun _ _ => rfl⟩)


/-- the horizontal fold of a one-lane register is its lane -/
def hfold1 (f : Nat → T) : T := f 0

/-- **C13 (Fallback, reductions).** zeroed accumulators are zero, `fmadd` is `x*y + acc` (unfused) in every
lane, the dense forms are the single form on the eight fields, the roll-ups are the lane-wise tree of the
eight registers, and the horizontal folds return the single lane. -/
theorem reduce : ReduceFaithful (Fallback.inst E AM sz) 1 lanes1 S (fun x y acc => S.add (S.mul x y) acc)
    hfold1 hfold1 hfold1 := by
  have hadd := add E AM sz MFa
  have hmul := mul E AM sz MFa
  have hmax := max E AM sz MFa
  have hmin := min E AM sz MFa
  refine ⟨?_, ?_, ⟨?_, fun r => rfl⟩, ⟨?_, fun r => rfl⟩, ⟨?_, fun r => rfl⟩⟩
  · refine ⟨DenseLane.copy S.zero, ?_, ?_⟩
    · show Fallback.zeroed_dense E AM sz = _
      unfold Fallback.zeroed_dense SimdRegisterDefault.zeroed_dense Fallback.zeroed
      rw [MFa.zero]; rfl
    · intro k hk
      rw [dlanes_copy (by omega) _ k hk]; rfl
  · exact lanewise3_of_mul_add hmul hadd (fun x y z => rfl) (fun x y z => by
      show Fallback.fmadd_dense E AM sz x y z = _
      unfold Fallback.fmadd_dense
      congr 1)
  · intro d
    exact rollup8_lanewise (fun x y => hadd.single x y (fun _ _ => trivial)) d
  · intro d
    exact rollup8_lanewise (fun x y => hmax.single x y (fun _ _ => trivial)) d
  · intro d
    exact rollup8_lanewise (fun x y => hmin.single x y (fun _ _ => trivial)) d

end Cfavml.Thm.C13Fallback
