/-
C01, end to end (model level): a safe wrapper applied to slices of **arbitrary** lengths either panics or completes, and it
never produces an out-of-bounds read, an out-of-bounds write or a divergence; a length / `DIMS` mismatch always panics.

`runArm arm lens D k` is the meaning of an extracted wrapper arm: evaluate its `assert_eq!` list (`Thm.C01` shows nothing
else precedes the dispatch), then hand `kernelDims` to the selected routine `k`. Composition:
  asserts pass ⇔ every slice has length `dims`          (`C01.asserts_iff_all_lengths_match`, over the extracted arms)
  every slice has length `dims` ⇒ the kernel runs to completion (`C02` / `C05` / `KernelModel.*`, over the generated kernels)
for every one of the 16 wrapper functions and each kernel class it dispatches to, every lane-wise faithful backend
(hence, by `C13*`, Fallback, the 16 + 6 x86 and the 10 NEON register impls) and every lane count.
-/
import CfavmlModel.Thm.C01
import CfavmlModel.Thm.C07
import CfavmlModel.Thm.C06
import CfavmlModel.Lemmas.ReduceKernelsModel

namespace Cfavml.Thm.C01
open Tables Spec KernelModel

/-- outcomes a safe call may have: a panic or a value — not `oobRead`, `oobWrite` or `diverge` -/
def SafeOutcome {α : Type} (x : Exec α) : Prop := x = throw Fault.panic ∨ ∃ v, x = pure v

/-- a wrapper arm: the assertions, then the selected routine on `kernelDims` -/
def runArm {α : Type} (arm : SafeArmFn) (lens : Param → Nat) (D : Nat) (k : Nat → Exec α) : Exec α :=
  if assertsPass lens D arm.asserts then k (kernelDims arm.form lens D) else throw Fault.panic

/-- **any mismatch panics** before a backend routine runs -/
theorem runArm_mismatch_panics {α : Type} (arm : SafeArmFn) (harm : arm ∈ safeArms) (lens : Param → Nat) (D : Nat)
    (k : Nat → Exec α) (p : Param) (hp : p ∈ sliceParams arm) (hne : lens p ≠ kernelDims arm.form lens D) :
    runArm arm lens D k = throw Fault.panic := by
  unfold runArm
  have : ¬ assertsPass lens D arm.asserts = true :=
    fun h => hne ((asserts_iff_all_lengths_match arm harm lens D).mp h p hp)
  rw [if_neg this]

/-- **the composition**: if the routine completes (or panics) whenever all slices have length `dims`, the wrapper's outcome
is a panic or a value, whatever the lengths -/
theorem runArm_safe {α : Type} (arm : SafeArmFn) (harm : arm ∈ safeArms) (lens : Param → Nat) (D : Nat)
    (k : Nat → Exec α)
    (hk : (∀ p ∈ sliceParams arm, lens p = kernelDims arm.form lens D) → SafeOutcome (k (kernelDims arm.form lens D))) :
    SafeOutcome (runArm arm lens D k) := by
  unfold runArm
  by_cases h : assertsPass lens D arm.asserts = true
  · rw [if_pos h]
    exact hk ((asserts_iff_all_lengths_match arm harm lens D).mp h)
  · rw [if_neg h]; exact Or.inl rfl

theorem safeOutcome_of_noFault {α : Type} {x : Exec α} (h : C07.NoFault x) : SafeOutcome x := Or.inr h

/-! ### the eight wrapper macros, each with the kernels it dispatches to -/

section
variable {T Reg : Type} {E : Env} {R : SimdRegister T Reg} {M : Math T} {L : Nat} {lanes : Reg → Nat → T}
variable {S : ScalarSpec T} {fm : T → T → T → T} {hsum hmax hmin : (Nat → T) → T}
variable (AF : ArithFaithful R L lanes S) (RF : ReduceFaithful R L lanes S fm hsum hmax hmin) (MFa : MathFaithful M S)

/-- slice lengths as the wrapper sees them -/
def lens3 (a b result : Slice T) : Param → Nat
  | .a => a.size
  | .b => b.size
  | .result => result.size
  | _ => 0

theorem params_vxv : ∀ f, sliceParams (safeArmOf .export_safe_arithmetic_vector_x_vector_op f) = [.a, .b, .result] := by
  intro f; cases f <;> decide
theorem params_vertical : ∀ f, sliceParams (safeArmOf .export_safe_vertical_op f) = [.a, .b, .result] := by
  intro f; cases f <;> decide
theorem params_vxval : ∀ f, sliceParams (safeArmOf .export_safe_arithmetic_vector_x_value_op f) = [.a, .result] := by
  intro f; cases f <;> decide
theorem params_value : ∀ f, sliceParams (safeArmOf .export_safe_value_op f) = [.a, .result] := by
  intro f; cases f <;> decide
theorem params_horizontal : ∀ f, sliceParams (safeArmOf .export_safe_horizontal_op f) = [.a] := by
  intro f; cases f <;> decide
theorem params_distance : ∀ f, sliceParams (safeArmOf .export_safe_distance_op f) = [.a, .b] := by
  intro f; cases f <;> decide
theorem params_fma_norm : ∀ f, sliceParams (safeArmOf .export_safe_fma_norm_op f) = [.a] := by
  intro f; cases f <;> decide
theorem params_nofma_norm : ∀ f, sliceParams (safeArmOf .export_safe_nofma_norm_op f) = [.a] := by
  intro f; cases f <;> decide

theorem find_getD_mem {α : Type} (l : List α) (p : α → Bool) (d : α) (h : (l.find? p).isSome = true) :
    (l.find? p).getD d ∈ l := by
  cases hf : l.find? p with
  | none => rw [hf] at h; exact absurd h (by simp)
  | some x => exact List.mem_of_find?_eq_some hf

theorem arm_mem (m : SafeMacro) (f : Form) : safeArmOf m f ∈ safeArms := by
  unfold safeArmOf
  apply find_getD_mem
  cases m <;> cases f <;> decide

include AF MFa in
/-- **safe add / sub / mul / max / min of two vectors** (both wrapper forms): any three slice lengths, any `DIMS` -/
theorem safe_vector_x_vector (f : Form) (D : Nat) (a b result : Slice T) (hfuel : ∀ n, n ≤ max D a.size → n < E.fuel) :
    let lens := lens3 a b result
    SafeOutcome (runArm (safeArmOf .export_safe_arithmetic_vector_x_vector_op f) lens D (fun d => generic_add_vector E R M d a b result))
    ∧ SafeOutcome (runArm (safeArmOf .export_safe_arithmetic_vector_x_vector_op f) lens D (fun d => generic_sub_vector E R M d a b result))
    ∧ SafeOutcome (runArm (safeArmOf .export_safe_arithmetic_vector_x_vector_op f) lens D (fun d => generic_mul_vector E R M d a b result))
    ∧ SafeOutcome (runArm (safeArmOf .export_safe_vertical_op f) lens D (fun d => generic_max_vertical E R M d a b result))
    ∧ SafeOutcome (runArm (safeArmOf .export_safe_vertical_op f) lens D (fun d => generic_min_vertical E R M d a b result)) := by
  intro lens
  have hd : ∀ arm : SafeArmFn, arm.form = f → kernelDims arm.form lens D < E.fuel := by
    intro arm hf
    apply hfuel
    rw [hf]; cases f
    · exact Nat.le_max_left _ _
    · exact Nat.le_max_right _ _
  have key : ∀ (m : SafeMacro), sliceParams (safeArmOf m f) = [.a, .b, .result] → (safeArmOf m f).form = f →
      ∀ k : Nat → Exec (Slice T),
      (∀ d, d < E.fuel → a.size = d → b.size = d → result.size = d → C07.NoFault (k d)) →
      SafeOutcome (runArm (safeArmOf m f) lens D k) := by
    intro m hp hf k hk
    apply runArm_safe _ (arm_mem m f)
    intro hall
    rw [hp] at hall
    exact safeOutcome_of_noFault (hk _ (hd _ hf) (hall .a (by simp)) (hall .b (by simp)) (hall .result (by simp)))
  have f1 : (safeArmOf .export_safe_arithmetic_vector_x_vector_op f).form = f := by cases f <;> decide
  have f2 : (safeArmOf .export_safe_vertical_op f).form = f := by cases f <;> decide
  refine ⟨key _ (params_vxv f) f1 _ ?_, key _ (params_vxv f) f1 _ ?_, key _ (params_vxv f) f1 _ ?_,
    key _ (params_vertical f) f2 _ ?_, key _ (params_vertical f) f2 _ ?_⟩
  · intro d hd ha hb hr; exact C07.noFault_of_map2 (C02.add_vector AF MFa d a b result ha hb hr hd)
  · intro d hd ha hb hr; exact C07.noFault_of_map2 (C02.sub_vector AF MFa d a b result ha hb hr hd)
  · intro d hd ha hb hr; exact C07.noFault_of_map2 (C02.mul_vector AF MFa d a b result ha hb hr hd)
  · intro d hd ha hb hr; exact C07.noFault_of_map2 (C05.max_vertical AF MFa d hd a b result ha hb hr)
  · intro d hd ha hb hr; exact C07.noFault_of_map2 (C05.min_vertical AF MFa d hd a b result ha hb hr)

include AF MFa in
/-- **safe vector × scalar** (add / sub / mul / max / min by value) -/
theorem safe_vector_x_value (f : Form) (D : Nat) (value : T) (a result : Slice T)
    (hfuel : ∀ n, n ≤ max D a.size → n < E.fuel) :
    let lens := lens3 a a result
    SafeOutcome (runArm (safeArmOf .export_safe_arithmetic_vector_x_value_op f) lens D (fun d => generic_add_value E R M d value a result))
    ∧ SafeOutcome (runArm (safeArmOf .export_safe_arithmetic_vector_x_value_op f) lens D (fun d => generic_sub_value E R M d value a result))
    ∧ SafeOutcome (runArm (safeArmOf .export_safe_arithmetic_vector_x_value_op f) lens D (fun d => generic_mul_value E R M d value a result))
    ∧ SafeOutcome (runArm (safeArmOf .export_safe_value_op f) lens D (fun d => generic_max_value E R M d value a result))
    ∧ SafeOutcome (runArm (safeArmOf .export_safe_value_op f) lens D (fun d => generic_min_value E R M d value a result)) := by
  intro lens
  have hd : ∀ arm : SafeArmFn, arm.form = f → kernelDims arm.form lens D < E.fuel := by
    intro arm hf
    apply hfuel
    rw [hf]; cases f
    · exact Nat.le_max_left _ _
    · exact Nat.le_max_right _ _
  have key : ∀ (m : SafeMacro), sliceParams (safeArmOf m f) = [.a, .result] → (safeArmOf m f).form = f →
      ∀ k : Nat → Exec (Slice T),
      (∀ d, d < E.fuel → a.size = d → result.size = d → C07.NoFault (k d)) →
      SafeOutcome (runArm (safeArmOf m f) lens D k) := by
    intro m hp hf k hk
    apply runArm_safe _ (arm_mem m f)
    intro hall
    rw [hp] at hall
    exact safeOutcome_of_noFault (hk _ (hd _ hf) (hall .a (by simp)) (hall .result (by simp)))
  have f1 : (safeArmOf .export_safe_arithmetic_vector_x_value_op f).form = f := by cases f <;> decide
  have f2 : (safeArmOf .export_safe_value_op f).form = f := by cases f <;> decide
  refine ⟨key _ (params_vxval f) f1 _ ?_, key _ (params_vxval f) f1 _ ?_, key _ (params_vxval f) f1 _ ?_,
    key _ (params_value f) f2 _ ?_, key _ (params_value f) f2 _ ?_⟩
  · intro d hd ha hr; exact C07.noFault_of_map1v (C02.add_value AF MFa d value a result ha hr hd)
  · intro d hd ha hr; exact C07.noFault_of_map1v (C02.sub_value AF MFa d value a result ha hr hd)
  · intro d hd ha hr; exact C07.noFault_of_map1v (C02.mul_value AF MFa d value a result ha hr hd)
  · intro d hd ha hr; exact C07.noFault_of_map1v (C05.max_value AF MFa d hd value a result ha hr)
  · intro d hd ha hr; exact C07.noFault_of_map1v (C05.min_value AF MFa d hd value a result ha hr)

include AF RF MFa in
/-- **safe horizontal reductions and norms** (sum, max, min, squared norm), every element type -/
theorem safe_horizontal (f : Form) (D : Nat) (a : Slice T) (hfuel : ∀ n, n ≤ max D a.size → n < E.fuel)
    (hls : FoldLocal L hsum) (hlx : FoldLocal L hmax) (hln : FoldLocal L hmin) :
    let lens := lens3 a a a
    SafeOutcome (runArm (safeArmOf .export_safe_horizontal_op f) lens D (fun d => generic_sum E R M d a))
    ∧ SafeOutcome (runArm (safeArmOf .export_safe_horizontal_op f) lens D (fun d => generic_max_horizontal E R M d a))
    ∧ SafeOutcome (runArm (safeArmOf .export_safe_horizontal_op f) lens D (fun d => generic_min_horizontal E R M d a))
    ∧ SafeOutcome (runArm (safeArmOf .export_safe_nofma_norm_op f) lens D (fun d => generic_squared_norm E R M d a))
    ∧ SafeOutcome (runArm (safeArmOf .export_safe_fma_norm_op f) lens D (fun d => generic_squared_norm E R M d a)) := by
  intro lens
  have hd : ∀ arm : SafeArmFn, arm.form = f → kernelDims arm.form lens D < E.fuel := by
    intro arm hf
    apply hfuel
    rw [hf]; cases f
    · exact Nat.le_max_left _ _
    · exact Nat.le_max_right _ _
  have key : ∀ (m : SafeMacro), sliceParams (safeArmOf m f) = [.a] → (safeArmOf m f).form = f →
      ∀ k : Nat → Exec T, (∀ d, d < E.fuel → a.size = d → C07.NoFault (k d)) →
      SafeOutcome (runArm (safeArmOf m f) lens D k) := by
    intro m hp hf k hk
    apply runArm_safe _ (arm_mem m f)
    intro hall
    rw [hp] at hall
    exact safeOutcome_of_noFault (hk _ (hd _ hf) (hall .a (by simp)))
  have f1 : (safeArmOf .export_safe_horizontal_op f).form = f := by cases f <;> decide
  have f2 : (safeArmOf .export_safe_nofma_norm_op f).form = f := by cases f <;> decide
  have f3 : (safeArmOf .export_safe_fma_norm_op f).form = f := by cases f <;> decide
  refine ⟨key _ (params_horizontal f) f1 _ ?_, key _ (params_horizontal f) f1 _ ?_, key _ (params_horizontal f) f1 _ ?_,
    key _ (params_nofma_norm f) f2 _ ?_, key _ (params_fma_norm f) f3 _ ?_⟩
  · intro d hd ha; exact ⟨_, KernelModel.sum AF RF MFa d hd hls a ha⟩
  · intro d hd ha; exact ⟨_, KernelModel.max_horizontal AF RF MFa d hd hlx a ha⟩
  · intro d hd ha; exact ⟨_, KernelModel.min_horizontal AF RF MFa d hd hln a ha⟩
  · intro d hd ha; exact ⟨_, KernelModel.squared_norm AF RF MFa d hd hls a ha⟩
  · intro d hd ha; exact ⟨_, KernelModel.squared_norm AF RF MFa d hd hls a ha⟩

include AF RF MFa in
/-- **safe distances** (dot product, squared Euclidean, cosine — the integer cosine may panic on a zero root, never fault) -/
theorem safe_distance (f : Form) (D : Nat) (a b : Slice T) (hfuel : ∀ n, n ≤ max D a.size → n < E.fuel)
    (hls : FoldLocal L hsum) (sq : T → T) (hsqrt : ∀ x, M.sqrt x = pure (sq x)) :
    let lens := lens3 a b a
    SafeOutcome (runArm (safeArmOf .export_safe_distance_op f) lens D (fun d => generic_dot_product E R M d a b))
    ∧ SafeOutcome (runArm (safeArmOf .export_safe_distance_op f) lens D (fun d => generic_euclidean E R M d a b))
    ∧ SafeOutcome (runArm (safeArmOf .export_safe_distance_op f) lens D (fun d => generic_cosine E R M d a b)) := by
  intro lens
  have hd : ∀ arm : SafeArmFn, arm.form = f → kernelDims arm.form lens D < E.fuel := by
    intro arm hf
    apply hfuel
    rw [hf]; cases f
    · exact Nat.le_max_left _ _
    · exact Nat.le_max_right _ _
  have key : ∀ k : Nat → Exec T, (∀ d, d < E.fuel → a.size = d → b.size = d → SafeOutcome (k d)) →
      SafeOutcome (runArm (safeArmOf .export_safe_distance_op f) lens D k) := by
    intro k hk
    apply runArm_safe _ (arm_mem _ f)
    intro hall
    rw [params_distance f] at hall
    exact hk _ (hd _ (by cases f <;> decide)) (hall .a (by simp)) (hall .b (by simp))
  refine ⟨key _ ?_, key _ ?_, key _ ?_⟩
  · intro d hd ha hb; exact Or.inr ⟨_, KernelModel.dot_product AF RF MFa d hd hls a b ha hb⟩
  · intro d hd ha hb; exact Or.inr ⟨_, KernelModel.euclidean AF RF MFa d hd hls a b ha hb⟩
  · intro d hd ha hb
    rw [generic_cosine_model AF RF MFa sq hsqrt hls d hd a b ha hb]
    unfold cosineVal
    split
    · exact Or.inr ⟨_, rfl⟩
    · split
      · exact Or.inr ⟨_, rfl⟩
      · split
        · exact Or.inr ⟨_, rfl⟩
        · exact Or.inl rfl

end


/-! ### the same composition for any routine known to complete on matching lengths (used for the float backends, whose
register max/min are not the scalar ones: `Thm/C01Float.lean`) -/

section
variable {T : Type} {E : Env}

theorem safe_three_slices {α : Type} (m : SafeMacro) (f : Form) (D : Nat) (a b result : Slice T)
    (hp : sliceParams (safeArmOf m f) = [.a, .b, .result]) (hf : (safeArmOf m f).form = f)
    (hfuel : ∀ n, n ≤ max D a.size → n < E.fuel) (k : Nat → Exec α)
    (hk : ∀ d, d < E.fuel → a.size = d → b.size = d → result.size = d → SafeOutcome (k d)) :
    SafeOutcome (runArm (safeArmOf m f) (lens3 a b result) D k) := by
  apply runArm_safe _ (arm_mem m f)
  intro hall
  rw [hp] at hall
  refine hk _ ?_ (hall .a (by simp)) (hall .b (by simp)) (hall .result (by simp))
  apply hfuel
  rw [hf]; cases f
  · exact Nat.le_max_left _ _
  · exact Nat.le_max_right _ _

theorem safe_two_slices {α : Type} (m : SafeMacro) (f : Form) (D : Nat) (a result : Slice T)
    (hp : sliceParams (safeArmOf m f) = [.a, .result]) (hf : (safeArmOf m f).form = f)
    (hfuel : ∀ n, n ≤ max D a.size → n < E.fuel) (k : Nat → Exec α)
    (hk : ∀ d, d < E.fuel → a.size = d → result.size = d → SafeOutcome (k d)) :
    SafeOutcome (runArm (safeArmOf m f) (lens3 a a result) D k) := by
  apply runArm_safe _ (arm_mem m f)
  intro hall
  rw [hp] at hall
  refine hk _ ?_ (hall .a (by simp)) (hall .result (by simp))
  apply hfuel
  rw [hf]; cases f
  · exact Nat.le_max_left _ _
  · exact Nat.le_max_right _ _

theorem safe_ab_slices {α : Type} (m : SafeMacro) (f : Form) (D : Nat) (a b : Slice T)
    (hp : sliceParams (safeArmOf m f) = [.a, .b]) (hf : (safeArmOf m f).form = f)
    (hfuel : ∀ n, n ≤ max D a.size → n < E.fuel) (k : Nat → Exec α)
    (hk : ∀ d, d < E.fuel → a.size = d → b.size = d → SafeOutcome (k d)) :
    SafeOutcome (runArm (safeArmOf m f) (lens3 a b a) D k) := by
  apply runArm_safe _ (arm_mem m f)
  intro hall
  rw [hp] at hall
  refine hk _ ?_ (hall .a (by simp)) (hall .b (by simp))
  apply hfuel
  rw [hf]; cases f
  · exact Nat.le_max_left _ _
  · exact Nat.le_max_right _ _

theorem safe_one_slice {α : Type} (m : SafeMacro) (f : Form) (D : Nat) (a : Slice T)
    (hp : sliceParams (safeArmOf m f) = [.a]) (hf : (safeArmOf m f).form = f)
    (hfuel : ∀ n, n ≤ max D a.size → n < E.fuel) (k : Nat → Exec α)
    (hk : ∀ d, d < E.fuel → a.size = d → SafeOutcome (k d)) :
    SafeOutcome (runArm (safeArmOf m f) (lens3 a a a) D k) := by
  apply runArm_safe _ (arm_mem m f)
  intro hall
  rw [hp] at hall
  refine hk _ ?_ (hall .a (by simp))
  apply hfuel
  rw [hf]; cases f
  · exact Nat.le_max_left _ _
  · exact Nat.le_max_right _ _

theorem form_of (m : SafeMacro) (f : Form) : (safeArmOf m f).form = f := by cases m <;> cases f <;> decide

end

/-- non-vacuity: a mismatch is a panic, a match runs the routine (xconst distance wrapper, lengths 8/8 vs `DIMS` 16 and 8) -/
example : runArm (safeArmOf .export_safe_distance_op .xconst) (fun _ => 8) 16 (fun d => (pure d : Exec Nat)) = throw Fault.panic
    ∧ runArm (safeArmOf .export_safe_distance_op .xconst) (fun _ => 8) 8 (fun d => (pure d : Exec Nat)) = pure 8 := by
  constructor <;> rfl

end Cfavml.Thm.C01
