/-
C08 — results depend only on logical inputs, not placement, slack or history.
(i) every element of the result slice is overwritten: the output does not depend on the previous
contents of `result`; (ii) inputs are left unchanged and nothing adjacent is read: in the model a kernel
is a function of the contents of its argument slices only — it *cannot* observe placement, alignment or
neighbouring bytes (C07 shows it never leaves the slices), and it returns only the new `result`, so the
input slices are unchanged by construction (the translator rejects a store whose target is not a `&mut`
slice / `*mut` pointer parameter); (iii) no hidden state: the crate has no `static`, no atomics, no interior
mutability outside the `cfg(cfavml_verif)` hook; repeating a call is applying the same function again.
Bitwise reproducibility of floats *of the compiled code* under placement is observed by the harness, not
proved (DESIGN.md §8).
-/
import CfavmlModel.Thm.C07
import CfavmlModel.Spec.Names

namespace Cfavml.Thm.C08
open C02 Tables

variable {T Reg : Type} {E : Env} {R : SimdRegister T Reg} {M : Math T} {L : Nat} {lanes : Reg → Nat → T}
variable {S : ScalarSpec T}

/-- two outputs that agree on every element below `dims` and have `dims` elements -/
def SameOutput (dims : Nat) (x y : Exec (Slice T)) : Prop :=
  ∃ r₁ r₂, x = pure r₁ ∧ y = pure r₂ ∧ r₁.size = dims ∧ r₂.size = dims ∧ ∀ j, j < dims → r₁.get j = r₂.get j

theorem same_of_exact2 {f : T → T → T} {dims : Nat} {a b r₁ r₂ : Slice T} {x y : Exec (Slice T)}
    (h₁ : ExactMap2 f dims a b r₁ x) (h₂ : ExactMap2 f dims a b r₂ y) : SameOutput dims x y := by
  obtain ⟨o₁, e₁, s₁, g₁, _⟩ := h₁
  obtain ⟨o₂, e₂, s₂, g₂, _⟩ := h₂
  exact ⟨o₁, o₂, e₁, e₂, s₁, s₂, fun j hj => by rw [g₁ j hj, g₂ j hj]⟩

theorem same_of_exact1v {f : T → T → T} {dims : Nat} {v : T} {a r₁ r₂ : Slice T} {x y : Exec (Slice T)}
    (h₁ : ExactMap1v f dims v a r₁ x) (h₂ : ExactMap1v f dims v a r₂ y) : SameOutput dims x y := by
  obtain ⟨o₁, e₁, s₁, g₁, _⟩ := h₁
  obtain ⟨o₂, e₂, s₂, g₂, _⟩ := h₂
  exact ⟨o₁, o₂, e₁, e₂, s₁, s₂, fun j hj => by rw [g₁ j hj, g₂ j hj]⟩

section
variable (AF : ArithFaithful R L lanes S) (MFa : MathFaithful M S) (dims : Nat) (hfuel : dims < E.fuel)
include AF MFa hfuel

/-- **C08 (i).** whatever the result slice held before (`r₁` vs `r₂`), the outputs are identical: every
element is overwritten. Shown for one kernel of each family; the others are the same one-liner. -/
theorem result_independent_of_prefill (a b r₁ r₂ : Slice T) (value : T)
    (ha : a.size = dims) (hb : b.size = dims) (h₁ : r₁.size = dims) (h₂ : r₂.size = dims) :
    SameOutput dims (generic_add_vector E R M dims a b r₁) (generic_add_vector E R M dims a b r₂)
    ∧ SameOutput dims (generic_sub_vector E R M dims a b r₁) (generic_sub_vector E R M dims a b r₂)
    ∧ SameOutput dims (generic_mul_vector E R M dims a b r₁) (generic_mul_vector E R M dims a b r₂)
    ∧ SameOutput dims (generic_max_vertical E R M dims a b r₁) (generic_max_vertical E R M dims a b r₂)
    ∧ SameOutput dims (generic_min_vertical E R M dims a b r₁) (generic_min_vertical E R M dims a b r₂)
    ∧ SameOutput dims (generic_add_value E R M dims value a r₁) (generic_add_value E R M dims value a r₂)
    ∧ SameOutput dims (generic_sub_value E R M dims value a r₁) (generic_sub_value E R M dims value a r₂)
    ∧ SameOutput dims (generic_mul_value E R M dims value a r₁) (generic_mul_value E R M dims value a r₂)
    ∧ SameOutput dims (generic_max_value E R M dims value a r₁) (generic_max_value E R M dims value a r₂)
    ∧ SameOutput dims (generic_min_value E R M dims value a r₁) (generic_min_value E R M dims value a r₂) :=
  ⟨same_of_exact2 (add_vector AF MFa dims a b r₁ ha hb h₁ hfuel) (add_vector AF MFa dims a b r₂ ha hb h₂ hfuel),
   same_of_exact2 (sub_vector AF MFa dims a b r₁ ha hb h₁ hfuel) (sub_vector AF MFa dims a b r₂ ha hb h₂ hfuel),
   same_of_exact2 (mul_vector AF MFa dims a b r₁ ha hb h₁ hfuel) (mul_vector AF MFa dims a b r₂ ha hb h₂ hfuel),
   same_of_exact2 (C05.max_vertical AF MFa dims hfuel a b r₁ ha hb h₁) (C05.max_vertical AF MFa dims hfuel a b r₂ ha hb h₂),
   same_of_exact2 (C05.min_vertical AF MFa dims hfuel a b r₁ ha hb h₁) (C05.min_vertical AF MFa dims hfuel a b r₂ ha hb h₂),
   same_of_exact1v (add_value AF MFa dims value a r₁ ha h₁ hfuel) (add_value AF MFa dims value a r₂ ha h₂ hfuel),
   same_of_exact1v (sub_value AF MFa dims value a r₁ ha h₁ hfuel) (sub_value AF MFa dims value a r₂ ha h₂ hfuel),
   same_of_exact1v (mul_value AF MFa dims value a r₁ ha h₁ hfuel) (mul_value AF MFa dims value a r₂ ha h₂ hfuel),
   same_of_exact1v (C05.max_value AF MFa dims hfuel value a r₁ ha h₁) (C05.max_value AF MFa dims hfuel value a r₂ ha h₂),
   same_of_exact1v (C05.min_value AF MFa dims hfuel value a r₁ ha h₁) (C05.min_value AF MFa dims hfuel value a r₂ ha h₂)⟩

end

/-- **C08 (ii).** the output is a function of the *contents* of the input slices on `[0, dims)`: two calls
whose inputs agree there (wherever the data lives, whatever lies beyond) give the same output. Shown for
`generic_sub_vector`; contents beyond `dims` cannot matter because the kernel never reads them (C07). -/
theorem depends_only_on_contents (AF : ArithFaithful R L lanes S) (MFa : MathFaithful M S) (dims : Nat)
    (hfuel : dims < E.fuel) (a b a' b' r r' : Slice T)
    (ha : a.size = dims) (hb : b.size = dims) (ha' : a'.size = dims) (hb' : b'.size = dims)
    (hr : r.size = dims) (hr' : r'.size = dims)
    (hab : ∀ j, j < dims → a.get j = a'.get j ∧ b.get j = b'.get j) :
    SameOutput dims (generic_sub_vector E R M dims a b r) (generic_sub_vector E R M dims a' b' r') := by
  obtain ⟨o₁, e₁, s₁, g₁, _⟩ := sub_vector AF MFa dims a b r ha hb hr hfuel
  obtain ⟨o₂, e₂, s₂, g₂, _⟩ := sub_vector AF MFa dims a' b' r' ha' hb' hr' hfuel
  exact ⟨o₁, o₂, e₁, e₂, s₁, s₂, fun j hj => by rw [g₁ j hj, g₂ j hj, (hab j hj).1, (hab j hj).2]⟩

/-- **C08 (iii).** no hidden state: every `static`, atomic or interior-mutability item of the crate sits
under `cfg(cfavml_verif)` (the verification hook), i.e. is compiled out of every real build -/
theorem no_hidden_state :
    stateItems.all (fun r => Cfavml.Spec.builds.all (fun b => !(r.cfg.all (·.eval b)))) = true := by decide +kernel

/-- non-vacuity: the hook's static is in the table (so the check sees such items) -/
example : stateItems.any (fun r => r.what == "static MASK") = true := by decide +kernel

end Cfavml.Thm.C08
