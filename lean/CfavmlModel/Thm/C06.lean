/-
C06 — cosine distance: zero-vector cases, the formula, symmetry, the integer form and its panic.

`generic_cosine` (regenerated from op_cosine.rs) equals, for every backend meeting the lane-wise contracts (C13),
every element type, every lane count and every length,

    cosineVal S sq dot nx ny      with   dot = model of generic_dot_product,  nx, ny = models of the squared norms

(`Lemmas/CosineModel.lean`). The statements below are about `cosineVal` and about those three values.
The floating-point accuracy bound `|ĉ − c| ≤ 4(n+8)u` is in `Thm/C06Accuracy.lean` (real analysis, Mathlib).
-/
import CfavmlModel.Lemmas.CosineModel
import CfavmlModel.Thm.C03
import CfavmlModel.Spec.ModelReg

namespace Cfavml.Thm.C06
open KernelModel

section scalar
variable {T : Type} (S : ScalarSpec T) (sq : T → T) (dot nx ny : T)

/-- **both norms zero ⇒ 0** -/
theorem cos_both_zero (h1 : S.eq nx S.zero = true) (h2 : S.eq ny S.zero = true) :
    cosineVal S sq dot nx ny = pure S.zero := by
  simp [cosineVal, h1, h2]

/-- **exactly one norm zero ⇒ 1** -/
theorem cos_one_zero (h : S.eq nx S.zero ≠ S.eq ny S.zero) : cosineVal S sq dot nx ny = pure S.one := by
  unfold cosineVal
  cases h1 : S.eq nx S.zero <;> cases h2 : S.eq ny S.zero <;> simp_all

/-- **otherwise `1 − dot / sqrt(nx · ny)`**, in the arithmetic of the element type -/
theorem cos_formula (h1 : S.eq nx S.zero = false) (h2 : S.eq ny S.zero = false)
    (hok : S.divOk (sq (S.mul nx ny)) = true) :
    cosineVal S sq dot nx ny = pure (S.sub S.one (S.div dot (sq (S.mul nx ny)))) := by
  simp [cosineVal, h1, h2, hok]

/-- **panics exactly when** neither norm is zero and the root of their product is a divisor that panics
(for the integer types: is zero; floats never) -/
theorem cos_panics_iff :
    cosineVal S sq dot nx ny = throw Fault.panic
      ↔ (S.eq nx S.zero = false ∧ S.eq ny S.zero = false ∧ S.divOk (sq (S.mul nx ny)) = false) := by
  unfold cosineVal
  cases h1 : S.eq nx S.zero <;> cases h2 : S.eq ny S.zero <;> cases h3 : S.divOk (sq (S.mul nx ny)) <;>
    simp [pure, Except.pure, throw, throwThe, MonadExceptOf.throw]

/-- the scalar combination is symmetric in the two norms when the multiplication is commutative -/
theorem cosineVal_symm (hmul : ∀ x y, S.mul x y = S.mul y x) :
    cosineVal S sq dot nx ny = cosineVal S sq dot ny nx := by
  unfold cosineVal
  rw [hmul nx ny, Bool.and_comm, Bool.or_comm]

end scalar

section kernel
variable {T Reg : Type} {E : Env} {R : SimdRegister T Reg} {M : Math T} {L : Nat} {lanes : Reg → Nat → T}
variable {S : ScalarSpec T} {fm : T → T → T → T} {hsum hmax hmin : (Nat → T) → T}
variable (AF : ArithFaithful R L lanes S) (RF : ReduceFaithful R L lanes S fm hsum hmax hmin)
variable (MFa : MathFaithful M S) (sq : T → T) (hsqrt : ∀ x, M.sqrt x = pure (sq x)) (hloc : FoldLocal L hsum)
variable (dims : Nat) (hfuel : dims < E.fuel)
include AF RF MFa hsqrt hloc hfuel

/-- **C06 (kernel = formula).** the cosine kernel is the scalar combination of the dot product and the two squared
norms that the reduction kernels compute (restated from `generic_cosine_model`) -/
theorem cosine_is_formula (a b : Slice T) (ha : a.size = dims) (hb : b.size = dims) :
    generic_cosine E R M dims a b
      = cosineVal S sq (reduceModel (dotOps S fm hsum a.get b.get) L dims)
          (reduceModel (normOps S fm hsum a.get) L dims) (reduceModel (normOps S fm hsum b.get) L dims) :=
  generic_cosine_model AF RF MFa sq hsqrt hloc dims hfuel a b ha hb

/-- the three values are exactly what the reduction kernels return on the same backend -/
theorem parts_are_the_kernels (a b : Slice T) (ha : a.size = dims) (hb : b.size = dims) :
    generic_dot_product E R M dims a b = pure (reduceModel (dotOps S fm hsum a.get b.get) L dims)
    ∧ generic_squared_norm E R M dims a = pure (reduceModel (normOps S fm hsum a.get) L dims)
    ∧ generic_squared_norm E R M dims b = pure (reduceModel (normOps S fm hsum b.get) L dims) :=
  ⟨KernelModel.dot_product AF RF MFa dims hfuel hloc a b ha hb,
   KernelModel.squared_norm AF RF MFa dims hfuel hloc a ha, KernelModel.squared_norm AF RF MFa dims hfuel hloc b hb⟩

/-- **C06 (exact symmetry).** `cosine(a, b)` and `cosine(b, a)` are the same bits — including for floating point —
when the scalar product and the lane multiply-add are commutative in their two factors (true of IEEE `*` and `fma`) -/
theorem cosine_symmetric (hmul : ∀ x y, S.mul x y = S.mul y x) (hfm : ∀ x y acc, fm x y acc = fm y x acc)
    (a b : Slice T) (ha : a.size = dims) (hb : b.size = dims) :
    generic_cosine E R M dims a b = generic_cosine E R M dims b a := by
  rw [generic_cosine_model AF RF MFa sq hsqrt hloc dims hfuel a b ha hb,
    generic_cosine_model AF RF MFa sq hsqrt hloc dims hfuel b a hb ha, cosineVal_symm S sq _ _ _ hmul]
  have : dotOps S fm hsum a.get b.get = dotOps S fm hsum b.get a.get := by
    unfold dotOps
    congr 1
    · funext acc i; exact hfm _ _ _
    · funext v i; rw [hmul]
  rw [this]

end kernel

/-! ### integer types: the formula in wrapping arithmetic, bit-identical on every backend -/

section ints
variable {w : Nat} {Reg : Type} {E : Env} {R : SimdRegister (BitVec w) Reg} {M : Math (BitVec w)} {L : Nat}
variable {lanes : Reg → Nat → BitVec w} {S : ScalarSpec (BitVec w)}
variable {hsum hmax hmin : (Nat → BitVec w) → BitVec w}

/-- **C06 (integers).** the cosine kernel returns `cosineVal` of the three *exact* integer sums reduced modulo `2^w`
(C03), so it does not depend on the backend, the lane count or the association order; `sq` is the truncated `f64`
square root of the math layer (C18) and the kernel panics exactly when that root of the wrapped product is zero. -/
theorem cosine_int_exact (hS : C03.IsIntSpec S) (AF : ArithFaithful R L lanes S)
    (RF : ReduceFaithful R L lanes S (fun x y acc => S.add (S.mul x y) acc) hsum hmax hmin)
    (MFa : MathFaithful M S) (sq : BitVec w → BitVec w) (hsqrt : ∀ x, M.sqrt x = pure (sq x))
    (hh : ∀ f, hsum f = sumR S.add S.zero f L)
    (dims : Nat) (hfuel : dims < E.fuel) (a b : Slice (BitVec w)) (ha : a.size = dims) (hb : b.size = dims) :
    generic_cosine E R M dims a b
      = cosineVal S sq (BitVec.ofInt w (isum (fun j => (a.get j).toInt * (b.get j).toInt) dims))
          (BitVec.ofInt w (isum (fun j => (a.get j).toInt * (a.get j).toInt) dims))
          (BitVec.ofInt w (isum (fun j => (b.get j).toInt * (b.get j).toInt) dims)) := by
  have hloc : FoldLocal L hsum := by
    intro f g hfg; rw [hh, hh]; exact sumR_congr _ _ _ hfg
  rw [generic_cosine_model AF RF MFa sq hsqrt hloc dims hfuel a b ha hb]
  -- each model value is what the corresponding kernel returns, and C03 gives that kernel's exact value
  have inj : ∀ {x y : BitVec w}, (pure x : Exec (BitVec w)) = pure y → x = y := by
    intro x y h; exact Except.ok.inj h
  have e1 := inj ((KernelModel.dot_product AF RF MFa dims hfuel hloc a b ha hb).symm.trans
    (C03.dot_exact hS AF RF MFa hh dims hfuel a b ha hb))
  have e2 := inj ((KernelModel.squared_norm AF RF MFa dims hfuel hloc a ha).symm.trans
    (C03.squared_norm_exact hS AF RF MFa hh dims hfuel a ha))
  have e3 := inj ((KernelModel.squared_norm AF RF MFa dims hfuel hloc b hb).symm.trans
    (C03.squared_norm_exact hS AF RF MFa hh dims hfuel b hb))
  rw [e1, e2, e3]

/-- two backends that both meet the contracts return the same integer cosine, or both panic -/
theorem cosine_int_backends_agree {Reg₂ : Type} {R₂ : SimdRegister (BitVec w) Reg₂} {L₂ : Nat}
    {lanes₂ : Reg₂ → Nat → BitVec w} {hs₂ hx₂ hn₂ : (Nat → BitVec w) → BitVec w}
    (hS : C03.IsIntSpec S) (MFa : MathFaithful M S) (sq : BitVec w → BitVec w) (hsqrt : ∀ x, M.sqrt x = pure (sq x))
    (AF : ArithFaithful R L lanes S)
    (RF : ReduceFaithful R L lanes S (fun x y acc => S.add (S.mul x y) acc) hsum hmax hmin)
    (hh : ∀ f, hsum f = sumR S.add S.zero f L)
    (AF₂ : ArithFaithful R₂ L₂ lanes₂ S)
    (RF₂ : ReduceFaithful R₂ L₂ lanes₂ S (fun x y acc => S.add (S.mul x y) acc) hs₂ hx₂ hn₂)
    (hh₂ : ∀ f, hs₂ f = sumR S.add S.zero f L₂)
    (dims : Nat) (hfuel : dims < E.fuel) (a b : Slice (BitVec w)) (ha : a.size = dims) (hb : b.size = dims) :
    generic_cosine E R M dims a b = generic_cosine E R₂ M dims a b := by
  rw [cosine_int_exact hS AF RF MFa sq hsqrt hh dims hfuel a b ha hb,
    cosine_int_exact hS AF₂ RF₂ MFa sq hsqrt hh₂ dims hfuel a b ha hb]

end ints

/-! ### instances and non-vacuity -/

/-- on the model register with 3 lanes and `u8` arithmetic the hypotheses are met, for every length -/
example (E : Env) (a b : Slice U8) (hb : b.size = a.size) (sq : U8 → U8) :
    generic_cosine (ModelReg.withFuel E a.size)
        (ModelReg.inst (ModelReg.withFuel E a.size) (uintSpec 8) 3 (fun x y acc => x * y + acc)
          (fun f => sumR (· + ·) 0 f 3) (fun f => f 0) (fun f => f 0))
        (ModelReg.math (uintSpec 8) sq) a.size a b
      = cosineVal (uintSpec 8) sq (BitVec.ofInt 8 (isum (fun j => (a.get j).toInt * (b.get j).toInt) a.size))
          (BitVec.ofInt 8 (isum (fun j => (a.get j).toInt * (a.get j).toInt) a.size))
          (BitVec.ofInt 8 (isum (fun j => (b.get j).toInt * (b.get j).toInt) a.size)) :=
  cosine_int_exact (C03.uint_isInt 8)
    (ModelReg.arith _ _ 3 _ _ _ _ (by omega) (by decide))
    (ModelReg.reduce _ (uintSpec 8) 3 (fun x y acc => x * y + acc) _ _ _ (by omega))
    (ModelReg.math_faithful _ sq) sq (fun _ => rfl) (fun _ => rfl) a.size (by simp [ModelReg.withFuel]) a b rfl hb

/-- the three cases are inhabited: `u8` norms (0, 0) ↦ 0; (0, 4) ↦ 1; (4, 9) with dot 6 and root 6 ↦ 1 − 6/6 = 0;
(16, 16) whose product wraps to 0 ↦ panic -/
example : cosineVal (uintSpec 8) (fun x => if x = 36#8 then 6#8 else 0#8) 6#8 0#8 0#8 = pure 0#8
    ∧ cosineVal (uintSpec 8) (fun x => if x = 36#8 then 6#8 else 0#8) 6#8 0#8 4#8 = pure 1#8
    ∧ cosineVal (uintSpec 8) (fun x => if x = 36#8 then 6#8 else 0#8) 6#8 4#8 9#8 = pure 0#8
    ∧ cosineVal (uintSpec 8) (fun x => if x = 36#8 then 6#8 else 0#8) 6#8 16#8 16#8 = throw Fault.panic := by
  refine ⟨?_, ?_, ?_, ?_⟩ <;> rfl

end Cfavml.Thm.C06
