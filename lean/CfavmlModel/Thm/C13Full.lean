/-
C13 — assembled: for every integer element type on the AVX2 and AVX-512 backends (16 impls), the complete
lane-wise contract `ArithFaithful` (memory, broadcast, add/sub/mul/div/max/min incl. the emulated 8-bit and 64-bit
multiplies and 64-bit compares) and the complete reduction contract `ReduceFaithful` (zeroed accumulators, fmadd,
the three roll-ups and the three horizontal folds, each shown equal to the monoid fold of the lanes).
With these the generic theorems of C02/C03/C05/C06 hold for the real x86 backends with no remaining hypothesis.
File assembled mechanically from the lemma names in C13X86.lean / C13X86Hard.lean (lean/tools/gen_c13full.py).
-/
import CfavmlModel.Thm.C13X86Hard
import CfavmlModel.Thm.C13
import CfavmlModel.Thm.C03
import CfavmlModel.Thm.C05
import CfavmlModel.Thm.C06

namespace Cfavml.Thm.C13Full
open Cfavml.Thm

/-- the default `zeroed_dense` of an x86 backend whose `zeroed` is the all-zero register -/
theorem zeroed_dense_of_x86 {w n L : Nat} {E : Env} {R : SimdRegister (BitVec w) (BitVec n)} (hL : 0 < L)
    (hz : R.zeroed = pure 0) (hd : R.zeroed_dense = SimdRegisterDefault.zeroed_dense (T := BitVec w) E R.zeroed) :
    ∃ d, R.zeroed_dense = pure d ∧ ∀ k, k < L * 8 → dlanes L (xlanes w) d k = 0 := by
  refine ⟨DenseLane.copy 0, by rw [hd]; unfold SimdRegisterDefault.zeroed_dense; rw [hz]; rfl, ?_⟩
  intro k hk
  rw [dlanes_copy hL _ k hk]
  exact xlanes_zero _

namespace Avx2_i8
theorem arith (E : Env) : ArithFaithful (Avx2_i8.inst E) 32 (xlanes 8) (sintSpec 8) :=
  ⟨C13X86.Avx2_i8.mem E, C13X86.Avx2_i8.bcast E, C13X86.Avx2_i8.add E, C13X86.Avx2_i8.sub E, C13X86Hard.Avx2_i8.mul E, C13X86.Avx2_i8.div E, C13X86.Avx2_i8.max E, C13X86.Avx2_i8.min E⟩
theorem reduce (E : Env) (hfuel : 5 ≤ E.fuel) : ReduceFaithful (Avx2_i8.inst E) 32 (xlanes 8) (sintSpec 8)
    (fun x y acc => (sintSpec 8).add ((sintSpec 8).mul x y) acc) (hfoldHalf4 (· + ·) (0 : BitVec 8) 16 4) (hfoldHalf4 IntPrim.smax (BitVec.intMin 8) 16 4) (hfoldHalf4 IntPrim.smin (BitVec.intMax 8) 16 4) :=
  ⟨zeroed_dense_of_x86 (E := E) (by decide) rfl rfl, C13X86Hard.Avx2_i8.fmadd E, C13X86Hard.Avx2_i8.sumFold E hfuel, C13X86Hard.Avx2_i8.maxFold E hfuel, C13X86Hard.Avx2_i8.minFold E hfuel⟩
theorem hsum_is_sum (f : Nat → BitVec 8) : (hfoldHalf4 (· + ·) (0 : BitVec 8) 16 4) f = sumR (sintSpec 8).add (sintSpec 8).zero f 32 := C13X86Hard.Avx2_i8.hsum_eq f
theorem hmax_is_max (f : Nat → BitVec 8) : (hfoldHalf4 IntPrim.smax (BitVec.intMin 8) 16 4) f = sumR (sintSpec 8).cmpMax (sintSpec 8).minVal f 32 := C13X86Hard.Avx2_i8.hmax_eq f
theorem hmin_is_min (f : Nat → BitVec 8) : (hfoldHalf4 IntPrim.smin (BitVec.intMax 8) 16 4) f = sumR (sintSpec 8).cmpMin (sintSpec 8).maxVal f 32 := C13X86Hard.Avx2_i8.hmin_eq f
end Avx2_i8

namespace Avx2_i16
theorem arith (E : Env) : ArithFaithful (Avx2_i16.inst E) 16 (xlanes 16) (sintSpec 16) :=
  ⟨C13X86.Avx2_i16.mem E, C13X86.Avx2_i16.bcast E, C13X86.Avx2_i16.add E, C13X86.Avx2_i16.sub E, C13X86.Avx2_i16.mul E, C13X86.Avx2_i16.div E, C13X86.Avx2_i16.max E, C13X86.Avx2_i16.min E⟩
theorem reduce (E : Env) (hfuel : 3 ≤ E.fuel) : ReduceFaithful (Avx2_i16.inst E) 16 (xlanes 16) (sintSpec 16)
    (fun x y acc => (sintSpec 16).add ((sintSpec 16).mul x y) acc) (hfoldHalf4 (· + ·) (0 : BitVec 16) 8 2) (hfoldHalf4 IntPrim.smax (BitVec.intMin 16) 8 2) (hfoldHalf4 IntPrim.smin (BitVec.intMax 16) 8 2) :=
  ⟨zeroed_dense_of_x86 (E := E) (by decide) rfl rfl, C13X86Hard.Avx2_i16.fmadd E, C13X86Hard.Avx2_i16.sumFold E hfuel, C13X86Hard.Avx2_i16.maxFold E hfuel, C13X86Hard.Avx2_i16.minFold E hfuel⟩
theorem hsum_is_sum (f : Nat → BitVec 16) : (hfoldHalf4 (· + ·) (0 : BitVec 16) 8 2) f = sumR (sintSpec 16).add (sintSpec 16).zero f 16 := C13X86Hard.Avx2_i16.hsum_eq f
theorem hmax_is_max (f : Nat → BitVec 16) : (hfoldHalf4 IntPrim.smax (BitVec.intMin 16) 8 2) f = sumR (sintSpec 16).cmpMax (sintSpec 16).minVal f 16 := C13X86Hard.Avx2_i16.hmax_eq f
theorem hmin_is_min (f : Nat → BitVec 16) : (hfoldHalf4 IntPrim.smin (BitVec.intMax 16) 8 2) f = sumR (sintSpec 16).cmpMin (sintSpec 16).maxVal f 16 := C13X86Hard.Avx2_i16.hmin_eq f
end Avx2_i16

namespace Avx2_i32
theorem arith (E : Env) : ArithFaithful (Avx2_i32.inst E) 8 (xlanes 32) (sintSpec 32) :=
  ⟨C13X86.Avx2_i32.mem E, C13X86.Avx2_i32.bcast E, C13X86.Avx2_i32.add E, C13X86.Avx2_i32.sub E, C13X86.Avx2_i32.mul E, C13X86.Avx2_i32.div E, C13X86.Avx2_i32.max E, C13X86.Avx2_i32.min E⟩
theorem reduce (E : Env) : ReduceFaithful (Avx2_i32.inst E) 8 (xlanes 32) (sintSpec 32)
    (fun x y acc => (sintSpec 32).add ((sintSpec 32).mul x y) acc) (hfoldHalfQ (· + ·)) (hfoldHalfQ IntPrim.smax) (hfoldHalfQ IntPrim.smin) :=
  ⟨zeroed_dense_of_x86 (E := E) (by decide) rfl rfl, C13X86Hard.Avx2_i32.fmadd E, C13X86Hard.Avx2_i32.sumFold E, C13X86Hard.Avx2_i32.maxFold E, C13X86Hard.Avx2_i32.minFold E⟩
theorem hsum_is_sum (f : Nat → BitVec 32) : (hfoldHalfQ (· + ·)) f = sumR (sintSpec 32).add (sintSpec 32).zero f 8 := C13X86Hard.Avx2_i32.hsum_eq f
theorem hmax_is_max (f : Nat → BitVec 32) : (hfoldHalfQ IntPrim.smax) f = sumR (sintSpec 32).cmpMax (sintSpec 32).minVal f 8 := C13X86Hard.Avx2_i32.hmax_eq f
theorem hmin_is_min (f : Nat → BitVec 32) : (hfoldHalfQ IntPrim.smin) f = sumR (sintSpec 32).cmpMin (sintSpec 32).maxVal f 8 := C13X86Hard.Avx2_i32.hmin_eq f
end Avx2_i32

namespace Avx2_i64
theorem arith (E : Env) : ArithFaithful (Avx2_i64.inst E) 4 (xlanes 64) (sintSpec 64) :=
  ⟨C13X86.Avx2_i64.mem E, C13X86.Avx2_i64.bcast E, C13X86.Avx2_i64.add E, C13X86.Avx2_i64.sub E, C13X86Hard.Avx2_i64.mul E, C13X86.Avx2_i64.div E, C13X86Hard.Avx2_i64.max E, C13X86Hard.Avx2_i64.min E⟩
theorem reduce (E : Env) : ReduceFaithful (Avx2_i64.inst E) 4 (xlanes 64) (sintSpec 64)
    (fun x y acc => (sintSpec 64).add ((sintSpec 64).mul x y) acc) (hfoldHalfD (· + ·)) (hfoldHalfD IntPrim.smax) (hfoldHalfD IntPrim.smin) :=
  ⟨zeroed_dense_of_x86 (E := E) (by decide) rfl rfl, C13X86Hard.Avx2_i64.fmadd E, C13X86Hard.Avx2_i64.sumFold E, C13X86Hard.Avx2_i64.maxFold E, C13X86Hard.Avx2_i64.minFold E⟩
theorem hsum_is_sum (f : Nat → BitVec 64) : (hfoldHalfD (· + ·)) f = sumR (sintSpec 64).add (sintSpec 64).zero f 4 := C13X86Hard.Avx2_i64.hsum_eq f
theorem hmax_is_max (f : Nat → BitVec 64) : (hfoldHalfD IntPrim.smax) f = sumR (sintSpec 64).cmpMax (sintSpec 64).minVal f 4 := C13X86Hard.Avx2_i64.hmax_eq f
theorem hmin_is_min (f : Nat → BitVec 64) : (hfoldHalfD IntPrim.smin) f = sumR (sintSpec 64).cmpMin (sintSpec 64).maxVal f 4 := C13X86Hard.Avx2_i64.hmin_eq f
end Avx2_i64

namespace Avx2_u8
theorem arith (E : Env) : ArithFaithful (Avx2_u8.inst E) 32 (xlanes 8) (uintSpec 8) :=
  ⟨C13X86.Avx2_u8.mem E, C13X86.Avx2_u8.bcast E, C13X86.Avx2_u8.add E, C13X86.Avx2_u8.sub E, C13X86Hard.Avx2_u8.mul E, C13X86.Avx2_u8.div E, C13X86.Avx2_u8.max E, C13X86.Avx2_u8.min E⟩
theorem reduce (E : Env) (hfuel : 5 ≤ E.fuel) : ReduceFaithful (Avx2_u8.inst E) 32 (xlanes 8) (uintSpec 8)
    (fun x y acc => (uintSpec 8).add ((uintSpec 8).mul x y) acc) (hfoldHalf4 (· + ·) (0 : BitVec 8) 16 4) (hfoldHalf4 IntPrim.umax (0 : BitVec 8) 16 4) (hfoldHalf4 IntPrim.umin (BitVec.allOnes 8) 16 4) :=
  ⟨zeroed_dense_of_x86 (E := E) (by decide) rfl rfl, C13X86Hard.Avx2_u8.fmadd E, C13X86Hard.Avx2_u8.sumFold E hfuel, C13X86Hard.Avx2_u8.maxFold E hfuel, C13X86Hard.Avx2_u8.minFold E hfuel⟩
theorem hsum_is_sum (f : Nat → BitVec 8) : (hfoldHalf4 (· + ·) (0 : BitVec 8) 16 4) f = sumR (uintSpec 8).add (uintSpec 8).zero f 32 := C13X86Hard.Avx2_u8.hsum_eq f
theorem hmax_is_max (f : Nat → BitVec 8) : (hfoldHalf4 IntPrim.umax (0 : BitVec 8) 16 4) f = sumR (uintSpec 8).cmpMax (uintSpec 8).minVal f 32 := C13X86Hard.Avx2_u8.hmax_eq f
theorem hmin_is_min (f : Nat → BitVec 8) : (hfoldHalf4 IntPrim.umin (BitVec.allOnes 8) 16 4) f = sumR (uintSpec 8).cmpMin (uintSpec 8).maxVal f 32 := C13X86Hard.Avx2_u8.hmin_eq f
end Avx2_u8

namespace Avx2_u16
theorem arith (E : Env) : ArithFaithful (Avx2_u16.inst E) 16 (xlanes 16) (uintSpec 16) :=
  ⟨C13X86.Avx2_u16.mem E, C13X86.Avx2_u16.bcast E, C13X86.Avx2_u16.add E, C13X86.Avx2_u16.sub E, C13X86.Avx2_u16.mul E, C13X86.Avx2_u16.div E, C13X86.Avx2_u16.max E, C13X86.Avx2_u16.min E⟩
theorem reduce (E : Env) (hfuel : 3 ≤ E.fuel) : ReduceFaithful (Avx2_u16.inst E) 16 (xlanes 16) (uintSpec 16)
    (fun x y acc => (uintSpec 16).add ((uintSpec 16).mul x y) acc) (hfoldHalf4 (· + ·) (0 : BitVec 16) 8 2) (hfoldHalf4 IntPrim.umax (0 : BitVec 16) 8 2) (hfoldHalf4 IntPrim.umin (BitVec.allOnes 16) 8 2) :=
  ⟨zeroed_dense_of_x86 (E := E) (by decide) rfl rfl, C13X86Hard.Avx2_u16.fmadd E, C13X86Hard.Avx2_u16.sumFold E hfuel, C13X86Hard.Avx2_u16.maxFold E hfuel, C13X86Hard.Avx2_u16.minFold E hfuel⟩
theorem hsum_is_sum (f : Nat → BitVec 16) : (hfoldHalf4 (· + ·) (0 : BitVec 16) 8 2) f = sumR (uintSpec 16).add (uintSpec 16).zero f 16 := C13X86Hard.Avx2_u16.hsum_eq f
theorem hmax_is_max (f : Nat → BitVec 16) : (hfoldHalf4 IntPrim.umax (0 : BitVec 16) 8 2) f = sumR (uintSpec 16).cmpMax (uintSpec 16).minVal f 16 := C13X86Hard.Avx2_u16.hmax_eq f
theorem hmin_is_min (f : Nat → BitVec 16) : (hfoldHalf4 IntPrim.umin (BitVec.allOnes 16) 8 2) f = sumR (uintSpec 16).cmpMin (uintSpec 16).maxVal f 16 := C13X86Hard.Avx2_u16.hmin_eq f
end Avx2_u16

namespace Avx2_u32
theorem arith (E : Env) : ArithFaithful (Avx2_u32.inst E) 8 (xlanes 32) (uintSpec 32) :=
  ⟨C13X86.Avx2_u32.mem E, C13X86.Avx2_u32.bcast E, C13X86.Avx2_u32.add E, C13X86.Avx2_u32.sub E, C13X86.Avx2_u32.mul E, C13X86.Avx2_u32.div E, C13X86.Avx2_u32.max E, C13X86.Avx2_u32.min E⟩
theorem reduce (E : Env) : ReduceFaithful (Avx2_u32.inst E) 8 (xlanes 32) (uintSpec 32)
    (fun x y acc => (uintSpec 32).add ((uintSpec 32).mul x y) acc) (hfoldHalfQ (· + ·)) (hfoldHalfQ IntPrim.umax) (hfoldHalfQ IntPrim.umin) :=
  ⟨zeroed_dense_of_x86 (E := E) (by decide) rfl rfl, C13X86Hard.Avx2_u32.fmadd E, C13X86Hard.Avx2_u32.sumFold E, C13X86Hard.Avx2_u32.maxFold E, C13X86Hard.Avx2_u32.minFold E⟩
theorem hsum_is_sum (f : Nat → BitVec 32) : (hfoldHalfQ (· + ·)) f = sumR (uintSpec 32).add (uintSpec 32).zero f 8 := C13X86Hard.Avx2_u32.hsum_eq f
theorem hmax_is_max (f : Nat → BitVec 32) : (hfoldHalfQ IntPrim.umax) f = sumR (uintSpec 32).cmpMax (uintSpec 32).minVal f 8 := C13X86Hard.Avx2_u32.hmax_eq f
theorem hmin_is_min (f : Nat → BitVec 32) : (hfoldHalfQ IntPrim.umin) f = sumR (uintSpec 32).cmpMin (uintSpec 32).maxVal f 8 := C13X86Hard.Avx2_u32.hmin_eq f
end Avx2_u32

namespace Avx2_u64
theorem arith (E : Env) : ArithFaithful (Avx2_u64.inst E) 4 (xlanes 64) (uintSpec 64) :=
  ⟨C13X86.Avx2_u64.mem E, C13X86.Avx2_u64.bcast E, C13X86.Avx2_u64.add E, C13X86.Avx2_u64.sub E, C13X86Hard.Avx2_u64.mul E, C13X86.Avx2_u64.div E, C13X86Hard.Avx2_u64.max E, C13X86Hard.Avx2_u64.min E⟩
theorem reduce (E : Env) : ReduceFaithful (Avx2_u64.inst E) 4 (xlanes 64) (uintSpec 64)
    (fun x y acc => (uintSpec 64).add ((uintSpec 64).mul x y) acc) (hfoldHalfD (· + ·)) (hfoldHalfD IntPrim.umax) (hfoldHalfD IntPrim.umin) :=
  ⟨zeroed_dense_of_x86 (E := E) (by decide) rfl rfl, C13X86Hard.Avx2_u64.fmadd E, C13X86Hard.Avx2_u64.sumFold E, C13X86Hard.Avx2_u64.maxFold E, C13X86Hard.Avx2_u64.minFold E⟩
theorem hsum_is_sum (f : Nat → BitVec 64) : (hfoldHalfD (· + ·)) f = sumR (uintSpec 64).add (uintSpec 64).zero f 4 := C13X86Hard.Avx2_u64.hsum_eq f
theorem hmax_is_max (f : Nat → BitVec 64) : (hfoldHalfD IntPrim.umax) f = sumR (uintSpec 64).cmpMax (uintSpec 64).minVal f 4 := C13X86Hard.Avx2_u64.hmax_eq f
theorem hmin_is_min (f : Nat → BitVec 64) : (hfoldHalfD IntPrim.umin) f = sumR (uintSpec 64).cmpMin (uintSpec 64).maxVal f 4 := C13X86Hard.Avx2_u64.hmin_eq f
end Avx2_u64

namespace Avx512_i8
theorem arith (E : Env) : ArithFaithful (Avx512_i8.inst E) 64 (xlanes 8) (sintSpec 8) :=
  ⟨C13X86.Avx512_i8.mem E, C13X86.Avx512_i8.bcast E, C13X86.Avx512_i8.add E, C13X86.Avx512_i8.sub E, C13X86Hard.Avx512_i8.mul E, C13X86.Avx512_i8.div E, C13X86.Avx512_i8.max E, C13X86.Avx512_i8.min E⟩
theorem reduce (E : Env) (hfuel : 5 ≤ E.fuel) : ReduceFaithful (Avx512_i8.inst E) 64 (xlanes 8) (sintSpec 8)
    (fun x y acc => (sintSpec 8).add ((sintSpec 8).mul x y) acc) (hfoldHalf512 (· + ·) (0 : BitVec 8) 16 4) (hfoldHalf512 IntPrim.smax (BitVec.intMin 8) 16 4) (hfoldHalf512 IntPrim.smin (BitVec.intMax 8) 16 4) :=
  ⟨zeroed_dense_of_x86 (E := E) (by decide) rfl rfl, C13X86Hard.Avx512_i8.fmadd E, C13X86Hard.Avx512_i8.sumFold E hfuel, C13X86Hard.Avx512_i8.maxFold E hfuel, C13X86Hard.Avx512_i8.minFold E hfuel⟩
theorem hsum_is_sum (f : Nat → BitVec 8) : (hfoldHalf512 (· + ·) (0 : BitVec 8) 16 4) f = sumR (sintSpec 8).add (sintSpec 8).zero f 64 := C13X86Hard.Avx512_i8.hsum_eq f
theorem hmax_is_max (f : Nat → BitVec 8) : (hfoldHalf512 IntPrim.smax (BitVec.intMin 8) 16 4) f = sumR (sintSpec 8).cmpMax (sintSpec 8).minVal f 64 := C13X86Hard.Avx512_i8.hmax_eq f
theorem hmin_is_min (f : Nat → BitVec 8) : (hfoldHalf512 IntPrim.smin (BitVec.intMax 8) 16 4) f = sumR (sintSpec 8).cmpMin (sintSpec 8).maxVal f 64 := C13X86Hard.Avx512_i8.hmin_eq f
end Avx512_i8

namespace Avx512_i16
theorem arith (E : Env) : ArithFaithful (Avx512_i16.inst E) 32 (xlanes 16) (sintSpec 16) :=
  ⟨C13X86.Avx512_i16.mem E, C13X86.Avx512_i16.bcast E, C13X86.Avx512_i16.add E, C13X86.Avx512_i16.sub E, C13X86.Avx512_i16.mul E, C13X86.Avx512_i16.div E, C13X86.Avx512_i16.max E, C13X86.Avx512_i16.min E⟩
theorem reduce (E : Env) (hfuel : 3 ≤ E.fuel) : ReduceFaithful (Avx512_i16.inst E) 32 (xlanes 16) (sintSpec 16)
    (fun x y acc => (sintSpec 16).add ((sintSpec 16).mul x y) acc) (hfoldHalf512 (· + ·) (0 : BitVec 16) 8 2) (hfoldHalf512 IntPrim.smax (BitVec.intMin 16) 8 2) (hfoldHalf512 IntPrim.smin (BitVec.intMax 16) 8 2) :=
  ⟨zeroed_dense_of_x86 (E := E) (by decide) rfl rfl, C13X86Hard.Avx512_i16.fmadd E, C13X86Hard.Avx512_i16.sumFold E hfuel, C13X86Hard.Avx512_i16.maxFold E hfuel, C13X86Hard.Avx512_i16.minFold E hfuel⟩
theorem hsum_is_sum (f : Nat → BitVec 16) : (hfoldHalf512 (· + ·) (0 : BitVec 16) 8 2) f = sumR (sintSpec 16).add (sintSpec 16).zero f 32 := C13X86Hard.Avx512_i16.hsum_eq f
theorem hmax_is_max (f : Nat → BitVec 16) : (hfoldHalf512 IntPrim.smax (BitVec.intMin 16) 8 2) f = sumR (sintSpec 16).cmpMax (sintSpec 16).minVal f 32 := C13X86Hard.Avx512_i16.hmax_eq f
theorem hmin_is_min (f : Nat → BitVec 16) : (hfoldHalf512 IntPrim.smin (BitVec.intMax 16) 8 2) f = sumR (sintSpec 16).cmpMin (sintSpec 16).maxVal f 32 := C13X86Hard.Avx512_i16.hmin_eq f
end Avx512_i16

namespace Avx512_i32
theorem arith (E : Env) : ArithFaithful (Avx512_i32.inst E) 16 (xlanes 32) (sintSpec 32) :=
  ⟨C13X86.Avx512_i32.mem E, C13X86.Avx512_i32.bcast E, C13X86.Avx512_i32.add E, C13X86.Avx512_i32.sub E, C13X86.Avx512_i32.mul E, C13X86.Avx512_i32.div E, C13X86.Avx512_i32.max E, C13X86.Avx512_i32.min E⟩
theorem reduce (E : Env) : ReduceFaithful (Avx512_i32.inst E) 16 (xlanes 32) (sintSpec 32)
    (fun x y acc => (sintSpec 32).add ((sintSpec 32).mul x y) acc) (X86.reduceOrdered (· + ·) (0 : BitVec 32) 16) (X86.reduceOrdered IntPrim.smax (BitVec.intMin 32) 16) (X86.reduceOrdered IntPrim.smin (BitVec.intMax 32) 16) :=
  ⟨zeroed_dense_of_x86 (E := E) (by decide) rfl rfl, C13X86Hard.Avx512_i32.fmadd E, C13X86Hard.Avx512_i32.sumFold E, C13X86Hard.Avx512_i32.maxFold E, C13X86Hard.Avx512_i32.minFold E⟩
theorem hsum_is_sum (f : Nat → BitVec 32) : (X86.reduceOrdered (· + ·) (0 : BitVec 32) 16) f = sumR (sintSpec 32).add (sintSpec 32).zero f 16 := C13X86Hard.Avx512_i32.hsum_eq f
theorem hmax_is_max (f : Nat → BitVec 32) : (X86.reduceOrdered IntPrim.smax (BitVec.intMin 32) 16) f = sumR (sintSpec 32).cmpMax (sintSpec 32).minVal f 16 := C13X86Hard.Avx512_i32.hmax_eq f
theorem hmin_is_min (f : Nat → BitVec 32) : (X86.reduceOrdered IntPrim.smin (BitVec.intMax 32) 16) f = sumR (sintSpec 32).cmpMin (sintSpec 32).maxVal f 16 := C13X86Hard.Avx512_i32.hmin_eq f
end Avx512_i32

namespace Avx512_i64
theorem arith (E : Env) : ArithFaithful (Avx512_i64.inst E) 8 (xlanes 64) (sintSpec 64) :=
  ⟨C13X86.Avx512_i64.mem E, C13X86.Avx512_i64.bcast E, C13X86.Avx512_i64.add E, C13X86.Avx512_i64.sub E, C13X86.Avx512_i64.mul E, C13X86.Avx512_i64.div E, C13X86.Avx512_i64.max E, C13X86.Avx512_i64.min E⟩
theorem reduce (E : Env) : ReduceFaithful (Avx512_i64.inst E) 8 (xlanes 64) (sintSpec 64)
    (fun x y acc => (sintSpec 64).add ((sintSpec 64).mul x y) acc) (X86.reduceOrdered (· + ·) (0 : BitVec 64) 8) (X86.reduceOrdered IntPrim.smax (BitVec.intMin 64) 8) (X86.reduceOrdered IntPrim.smin (BitVec.intMax 64) 8) :=
  ⟨zeroed_dense_of_x86 (E := E) (by decide) rfl rfl, C13X86Hard.Avx512_i64.fmadd E, C13X86Hard.Avx512_i64.sumFold E, C13X86Hard.Avx512_i64.maxFold E, C13X86Hard.Avx512_i64.minFold E⟩
theorem hsum_is_sum (f : Nat → BitVec 64) : (X86.reduceOrdered (· + ·) (0 : BitVec 64) 8) f = sumR (sintSpec 64).add (sintSpec 64).zero f 8 := C13X86Hard.Avx512_i64.hsum_eq f
theorem hmax_is_max (f : Nat → BitVec 64) : (X86.reduceOrdered IntPrim.smax (BitVec.intMin 64) 8) f = sumR (sintSpec 64).cmpMax (sintSpec 64).minVal f 8 := C13X86Hard.Avx512_i64.hmax_eq f
theorem hmin_is_min (f : Nat → BitVec 64) : (X86.reduceOrdered IntPrim.smin (BitVec.intMax 64) 8) f = sumR (sintSpec 64).cmpMin (sintSpec 64).maxVal f 8 := C13X86Hard.Avx512_i64.hmin_eq f
end Avx512_i64

namespace Avx512_u8
theorem arith (E : Env) : ArithFaithful (Avx512_u8.inst E) 64 (xlanes 8) (uintSpec 8) :=
  ⟨C13X86.Avx512_u8.mem E, C13X86.Avx512_u8.bcast E, C13X86.Avx512_u8.add E, C13X86.Avx512_u8.sub E, C13X86Hard.Avx512_u8.mul E, C13X86.Avx512_u8.div E, C13X86.Avx512_u8.max E, C13X86.Avx512_u8.min E⟩
theorem reduce (E : Env) (hfuel : 5 ≤ E.fuel) : ReduceFaithful (Avx512_u8.inst E) 64 (xlanes 8) (uintSpec 8)
    (fun x y acc => (uintSpec 8).add ((uintSpec 8).mul x y) acc) (hfoldHalf512 (· + ·) (0 : BitVec 8) 16 4) (hfoldHalf512 IntPrim.umax (0 : BitVec 8) 16 4) (hfoldHalf512 IntPrim.umin (BitVec.allOnes 8) 16 4) :=
  ⟨zeroed_dense_of_x86 (E := E) (by decide) rfl rfl, C13X86Hard.Avx512_u8.fmadd E, C13X86Hard.Avx512_u8.sumFold E hfuel, C13X86Hard.Avx512_u8.maxFold E hfuel, C13X86Hard.Avx512_u8.minFold E hfuel⟩
theorem hsum_is_sum (f : Nat → BitVec 8) : (hfoldHalf512 (· + ·) (0 : BitVec 8) 16 4) f = sumR (uintSpec 8).add (uintSpec 8).zero f 64 := C13X86Hard.Avx512_u8.hsum_eq f
theorem hmax_is_max (f : Nat → BitVec 8) : (hfoldHalf512 IntPrim.umax (0 : BitVec 8) 16 4) f = sumR (uintSpec 8).cmpMax (uintSpec 8).minVal f 64 := C13X86Hard.Avx512_u8.hmax_eq f
theorem hmin_is_min (f : Nat → BitVec 8) : (hfoldHalf512 IntPrim.umin (BitVec.allOnes 8) 16 4) f = sumR (uintSpec 8).cmpMin (uintSpec 8).maxVal f 64 := C13X86Hard.Avx512_u8.hmin_eq f
end Avx512_u8

namespace Avx512_u16
theorem arith (E : Env) : ArithFaithful (Avx512_u16.inst E) 32 (xlanes 16) (uintSpec 16) :=
  ⟨C13X86.Avx512_u16.mem E, C13X86.Avx512_u16.bcast E, C13X86.Avx512_u16.add E, C13X86.Avx512_u16.sub E, C13X86.Avx512_u16.mul E, C13X86.Avx512_u16.div E, C13X86.Avx512_u16.max E, C13X86.Avx512_u16.min E⟩
theorem reduce (E : Env) (hfuel : 3 ≤ E.fuel) : ReduceFaithful (Avx512_u16.inst E) 32 (xlanes 16) (uintSpec 16)
    (fun x y acc => (uintSpec 16).add ((uintSpec 16).mul x y) acc) (hfoldHalf512 (· + ·) (0 : BitVec 16) 8 2) (hfoldHalf512 IntPrim.umax (0 : BitVec 16) 8 2) (hfoldHalf512 IntPrim.umin (BitVec.allOnes 16) 8 2) :=
  ⟨zeroed_dense_of_x86 (E := E) (by decide) rfl rfl, C13X86Hard.Avx512_u16.fmadd E, C13X86Hard.Avx512_u16.sumFold E hfuel, C13X86Hard.Avx512_u16.maxFold E hfuel, C13X86Hard.Avx512_u16.minFold E hfuel⟩
theorem hsum_is_sum (f : Nat → BitVec 16) : (hfoldHalf512 (· + ·) (0 : BitVec 16) 8 2) f = sumR (uintSpec 16).add (uintSpec 16).zero f 32 := C13X86Hard.Avx512_u16.hsum_eq f
theorem hmax_is_max (f : Nat → BitVec 16) : (hfoldHalf512 IntPrim.umax (0 : BitVec 16) 8 2) f = sumR (uintSpec 16).cmpMax (uintSpec 16).minVal f 32 := C13X86Hard.Avx512_u16.hmax_eq f
theorem hmin_is_min (f : Nat → BitVec 16) : (hfoldHalf512 IntPrim.umin (BitVec.allOnes 16) 8 2) f = sumR (uintSpec 16).cmpMin (uintSpec 16).maxVal f 32 := C13X86Hard.Avx512_u16.hmin_eq f
end Avx512_u16

namespace Avx512_u32
theorem arith (E : Env) : ArithFaithful (Avx512_u32.inst E) 16 (xlanes 32) (uintSpec 32) :=
  ⟨C13X86.Avx512_u32.mem E, C13X86.Avx512_u32.bcast E, C13X86.Avx512_u32.add E, C13X86.Avx512_u32.sub E, C13X86.Avx512_u32.mul E, C13X86.Avx512_u32.div E, C13X86.Avx512_u32.max E, C13X86.Avx512_u32.min E⟩
theorem reduce (E : Env) : ReduceFaithful (Avx512_u32.inst E) 16 (xlanes 32) (uintSpec 32)
    (fun x y acc => (uintSpec 32).add ((uintSpec 32).mul x y) acc) (X86.reduceOrdered (· + ·) (0 : BitVec 32) 16) (X86.reduceOrdered IntPrim.umax (0 : BitVec 32) 16) (X86.reduceOrdered IntPrim.umin (BitVec.allOnes 32) 16) :=
  ⟨zeroed_dense_of_x86 (E := E) (by decide) rfl rfl, C13X86Hard.Avx512_u32.fmadd E, C13X86Hard.Avx512_u32.sumFold E, C13X86Hard.Avx512_u32.maxFold E, C13X86Hard.Avx512_u32.minFold E⟩
theorem hsum_is_sum (f : Nat → BitVec 32) : (X86.reduceOrdered (· + ·) (0 : BitVec 32) 16) f = sumR (uintSpec 32).add (uintSpec 32).zero f 16 := C13X86Hard.Avx512_u32.hsum_eq f
theorem hmax_is_max (f : Nat → BitVec 32) : (X86.reduceOrdered IntPrim.umax (0 : BitVec 32) 16) f = sumR (uintSpec 32).cmpMax (uintSpec 32).minVal f 16 := C13X86Hard.Avx512_u32.hmax_eq f
theorem hmin_is_min (f : Nat → BitVec 32) : (X86.reduceOrdered IntPrim.umin (BitVec.allOnes 32) 16) f = sumR (uintSpec 32).cmpMin (uintSpec 32).maxVal f 16 := C13X86Hard.Avx512_u32.hmin_eq f
end Avx512_u32

namespace Avx512_u64
theorem arith (E : Env) : ArithFaithful (Avx512_u64.inst E) 8 (xlanes 64) (uintSpec 64) :=
  ⟨C13X86.Avx512_u64.mem E, C13X86.Avx512_u64.bcast E, C13X86.Avx512_u64.add E, C13X86.Avx512_u64.sub E, C13X86Hard.Avx512_u64.mul E, C13X86.Avx512_u64.div E, C13X86.Avx512_u64.max E, C13X86.Avx512_u64.min E⟩
theorem reduce (E : Env) : ReduceFaithful (Avx512_u64.inst E) 8 (xlanes 64) (uintSpec 64)
    (fun x y acc => (uintSpec 64).add ((uintSpec 64).mul x y) acc) (X86.reduceOrdered (· + ·) (0 : BitVec 64) 8) (X86.reduceOrdered IntPrim.umax (0 : BitVec 64) 8) (X86.reduceOrdered IntPrim.umin (BitVec.allOnes 64) 8) :=
  ⟨zeroed_dense_of_x86 (E := E) (by decide) rfl rfl, C13X86Hard.Avx512_u64.fmadd E, C13X86Hard.Avx512_u64.sumFold E, C13X86Hard.Avx512_u64.maxFold E, C13X86Hard.Avx512_u64.minFold E⟩
theorem hsum_is_sum (f : Nat → BitVec 64) : (X86.reduceOrdered (· + ·) (0 : BitVec 64) 8) f = sumR (uintSpec 64).add (uintSpec 64).zero f 8 := C13X86Hard.Avx512_u64.hsum_eq f
theorem hmax_is_max (f : Nat → BitVec 64) : (X86.reduceOrdered IntPrim.umax (0 : BitVec 64) 8) f = sumR (uintSpec 64).cmpMax (uintSpec 64).minVal f 8 := C13X86Hard.Avx512_u64.hmax_eq f
theorem hmin_is_min (f : Nat → BitVec 64) : (X86.reduceOrdered IntPrim.umin (BitVec.allOnes 64) 8) f = sumR (uintSpec 64).cmpMin (uintSpec 64).maxVal f 8 := C13X86Hard.Avx512_u64.hmin_eq f
end Avx512_u64

end Cfavml.Thm.C13Full
