/-
C07/C08 for the reduction kernels and the cosine kernel, for **every** element type (floats included — no algebraic
law is needed): over any lane-wise faithful backend they run to completion, and their result is a function of the
contents of the input slices on `[0, dims)` alone — two calls whose inputs agree there return the same bits, whatever
lies beyond, wherever the data lives, whatever ran before. (They take no result slice, so there is nothing to
overwrite; the inputs are not returned, hence unchanged.)
-/
import CfavmlModel.Lemmas.CosineModel
import CfavmlModel.Lemmas.ReduceRel
import CfavmlModel.Thm.C07

namespace Cfavml.Thm.C08
open KernelModel

section
variable {T Reg : Type} {E : Env} {R : SimdRegister T Reg} {M : Math T} {L : Nat} {lanes : Reg → Nat → T}
variable {S : ScalarSpec T} {fm : T → T → T → T} {hsum hmax hmin : (Nat → T) → T}
variable (AF : ArithFaithful R L lanes S) (RF : ReduceFaithful R L lanes S fm hsum hmax hmin) (MFa : MathFaithful M S)
variable (hlocS : FoldLocal L hsum) (hlocX : FoldLocal L hmax) (hlocN : FoldLocal L hmin)
variable (dims : Nat) (hfuel : dims < E.fuel)
include AF RF MFa hfuel

/-- **C07 (reductions, all element types).** no out-of-bounds access, no divergence, no panic -/
theorem reductions_complete (a b : Slice T) (ha : a.size = dims) (hb : b.size = dims)
    (hlocS : FoldLocal L hsum) (hlocX : FoldLocal L hmax) (hlocN : FoldLocal L hmin) :
    C07.NoFault (generic_sum E R M dims a) ∧ C07.NoFault (generic_squared_norm E R M dims a)
    ∧ C07.NoFault (generic_dot_product E R M dims a b) ∧ C07.NoFault (generic_euclidean E R M dims a b)
    ∧ C07.NoFault (generic_max_horizontal E R M dims a) ∧ C07.NoFault (generic_min_horizontal E R M dims a) :=
  ⟨⟨_, KernelModel.sum AF RF MFa dims hfuel hlocS a ha⟩, ⟨_, KernelModel.squared_norm AF RF MFa dims hfuel hlocS a ha⟩,
   ⟨_, KernelModel.dot_product AF RF MFa dims hfuel hlocS a b ha hb⟩, ⟨_, KernelModel.euclidean AF RF MFa dims hfuel hlocS a b ha hb⟩,
   ⟨_, KernelModel.max_horizontal AF RF MFa dims hfuel hlocX a ha⟩, ⟨_, KernelModel.min_horizontal AF RF MFa dims hfuel hlocN a ha⟩⟩

/-- **C08 (reductions).** inputs that agree on `[0, dims)` give bit-identical results -/
theorem reductions_depend_only_on_contents (a b a' b' : Slice T)
    (ha : a.size = dims) (hb : b.size = dims) (ha' : a'.size = dims) (hb' : b'.size = dims)
    (hab : ∀ j, j < dims → a.get j = a'.get j ∧ b.get j = b'.get j)
    (hlocS : FoldLocal L hsum) (hlocX : FoldLocal L hmax) (hlocN : FoldLocal L hmin) :
    generic_sum E R M dims a = generic_sum E R M dims a'
    ∧ generic_squared_norm E R M dims a = generic_squared_norm E R M dims a'
    ∧ generic_dot_product E R M dims a b = generic_dot_product E R M dims a' b'
    ∧ generic_euclidean E R M dims a b = generic_euclidean E R M dims a' b'
    ∧ generic_max_horizontal E R M dims a = generic_max_horizontal E R M dims a'
    ∧ generic_min_horizontal E R M dims a = generic_min_horizontal E R M dims a' := by
  have hL := AF.mem.L_pos
  refine ⟨?_, ?_, ?_, ?_, ?_, ?_⟩
  · rw [KernelModel.sum AF RF MFa dims hfuel hlocS a ha, KernelModel.sum AF RF MFa dims hfuel hlocS a' ha']
    congr 1
    exact reduceModel_congr _ _ L dims hL rfl rfl rfl hlocS
      (fun x i hi => by show S.add x _ = S.add x _; rw [(hab i hi).1]) (fun x i hi => by show S.add x _ = S.add x _; rw [(hab i hi).1])
  · rw [KernelModel.squared_norm AF RF MFa dims hfuel hlocS a ha, KernelModel.squared_norm AF RF MFa dims hfuel hlocS a' ha']
    congr 1
    exact reduceModel_congr _ _ L dims hL rfl rfl rfl hlocS
      (fun x i hi => by show fm _ _ x = fm _ _ x; rw [(hab i hi).1])
      (fun x i hi => by show S.add x (S.mul _ _) = S.add x (S.mul _ _); rw [(hab i hi).1])
  · rw [KernelModel.dot_product AF RF MFa dims hfuel hlocS a b ha hb, KernelModel.dot_product AF RF MFa dims hfuel hlocS a' b' ha' hb']
    congr 1
    exact reduceModel_congr _ _ L dims hL rfl rfl rfl hlocS
      (fun x i hi => by show fm _ _ x = fm _ _ x; rw [(hab i hi).1, (hab i hi).2])
      (fun x i hi => by show S.add x (S.mul _ _) = S.add x (S.mul _ _); rw [(hab i hi).1, (hab i hi).2])
  · rw [KernelModel.euclidean AF RF MFa dims hfuel hlocS a b ha hb, KernelModel.euclidean AF RF MFa dims hfuel hlocS a' b' ha' hb']
    congr 1
    exact reduceModel_congr _ _ L dims hL rfl rfl rfl hlocS
      (fun x i hi => by show fm (S.sub _ _) (S.sub _ _) x = fm (S.sub _ _) (S.sub _ _) x; rw [(hab i hi).1, (hab i hi).2])
      (fun x i hi => by
        show S.add x (S.mul (S.sub _ _) (S.sub _ _)) = S.add x (S.mul (S.sub _ _) (S.sub _ _))
        rw [(hab i hi).1, (hab i hi).2])
  · rw [KernelModel.max_horizontal AF RF MFa dims hfuel hlocX a ha, KernelModel.max_horizontal AF RF MFa dims hfuel hlocX a' ha']
    congr 1
    exact reduceModel_congr _ _ L dims hL rfl rfl rfl hlocX
      (fun x i hi => by show S.cmpMax x _ = S.cmpMax x _; rw [(hab i hi).1])
      (fun x i hi => by show S.cmpMax x _ = S.cmpMax x _; rw [(hab i hi).1])
  · rw [KernelModel.min_horizontal AF RF MFa dims hfuel hlocN a ha, KernelModel.min_horizontal AF RF MFa dims hfuel hlocN a' ha']
    congr 1
    exact reduceModel_congr _ _ L dims hL rfl rfl rfl hlocN
      (fun x i hi => by show S.cmpMin x _ = S.cmpMin x _; rw [(hab i hi).1])
      (fun x i hi => by show S.cmpMin x _ = S.cmpMin x _; rw [(hab i hi).1])

/-- **C08 (cosine).** likewise for the cosine kernel (a panic included: both calls panic or neither does) -/
theorem cosine_depends_only_on_contents (sq : T → T) (hsqrt : ∀ x, M.sqrt x = pure (sq x)) (hlocS : FoldLocal L hsum)
    (a b a' b' : Slice T) (ha : a.size = dims) (hb : b.size = dims) (ha' : a'.size = dims) (hb' : b'.size = dims)
    (hab : ∀ j, j < dims → a.get j = a'.get j ∧ b.get j = b'.get j) :
    generic_cosine E R M dims a b = generic_cosine E R M dims a' b' := by
  have hL := AF.mem.L_pos
  rw [generic_cosine_model AF RF MFa sq hsqrt hlocS dims hfuel a b ha hb,
    generic_cosine_model AF RF MFa sq hsqrt hlocS dims hfuel a' b' ha' hb']
  have e1 : reduceModel (dotOps S fm hsum a.get b.get) L dims = reduceModel (dotOps S fm hsum a'.get b'.get) L dims :=
    reduceModel_congr _ _ L dims hL rfl rfl rfl hlocS
      (fun x i hi => by show fm _ _ x = fm _ _ x; rw [(hab i hi).1, (hab i hi).2])
      (fun x i hi => by show S.add x (S.mul _ _) = S.add x (S.mul _ _); rw [(hab i hi).1, (hab i hi).2])
  have e2 : reduceModel (normOps S fm hsum a.get) L dims = reduceModel (normOps S fm hsum a'.get) L dims :=
    reduceModel_congr _ _ L dims hL rfl rfl rfl hlocS
      (fun x i hi => by show fm _ _ x = fm _ _ x; rw [(hab i hi).1])
      (fun x i hi => by show S.add x (S.mul _ _) = S.add x (S.mul _ _); rw [(hab i hi).1])
  have e3 : reduceModel (normOps S fm hsum b.get) L dims = reduceModel (normOps S fm hsum b'.get) L dims :=
    reduceModel_congr _ _ L dims hL rfl rfl rfl hlocS
      (fun x i hi => by show fm _ _ x = fm _ _ x; rw [(hab i hi).2])
      (fun x i hi => by show S.add x (S.mul _ _) = S.add x (S.mul _ _); rw [(hab i hi).2])
  rw [e1, e2, e3]

end
end Cfavml.Thm.C08
