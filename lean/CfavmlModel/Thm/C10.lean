/-
C10 — no code path needs an instruction-set extension the dispatcher did not verify.
Source level: the call graph of every `SimdRegister` impl method (direct intrinsic calls + calls to other
trait methods, extracted by the translator while translating the bodies), the `#[target_feature]` each
intrinsic carries in stdarch, the dispatch guards, and the x86 feature implication lattice.
-/
import CfavmlModel.Spec.Features
import CfavmlModel.Gen.Tables
import CfavmlModel.Gen.ImplTables
import CfavmlModel.Gen.RefTables
import CfavmlModel.Gen.KernelTables
import CfavmlModel.Lemmas.ListAll
import CfavmlModel.Thm.C09
import CfavmlModel.Spec.NoStd

namespace Cfavml.Thm.C10
open Tables Spec

theorem impl_chunks_ok : implMethods_chunks.all (fun c => c.all (implRowOk intrinsicFeatures)) = true := by
  decide +kernel

/-- **C10 (per method).** Every method of every register backend (Fallback, AVX2, AVX2+FMA, AVX-512):
each intrinsic it calls needs only features in the implication closure of what the dispatcher verified
for that backend plus the x86-64 baseline, and each trait method it calls belongs to a backend whose
verified set is implied by its own. By induction over call depth nothing reachable from a selected
routine needs more. The Fallback backend calls no intrinsic at all. -/
theorem impl_methods_within_guard : ∀ r ∈ implMethods, implRowOk intrinsicFeatures r = true :=
  all_flatten_of_all_chunks _ implMethods_chunks impl_chunks_ok

/-- what the dispatcher verified before it selects a slot covers what is assumed for the backend the slot
is wired to (wiring: `Thm.C09.slots_wired`, `regOfSlot`) -/
theorem guards_cover_backends : ∀ c ∈ dispatchCandidates, ∀ ty ∈ elemTypes, ∀ op ∈ allKernels,
    subsetB (verifiedForReg (regOfSlot c.label ty op)) (closure (c.guards.flatMap featsOfGuard)) = true := by
  decide +kernel

/-- the availability check a guard name stands for (generated from dispatch.rs) -/
def guardFn : Guard → Env → Exec Bool
  | .is_avx512_available => is_avx512_available
  | .is_avx2_available => is_avx2_available
  | .is_fma_available => is_fma_available
  | .is_neon_available => is_neon_available

/-- the CPU the code runs on has a feature: it was a compile-time target feature (the binary already
requires it) or `is_x86_feature_detected!` reported it -/
def envHas (E : Env) : Feat → Bool
  | .avx2 => E.tf_avx2 || E.cpu_avx2
  | .fma => E.tf_fma || E.cpu_fma
  | .avx512f => E.tf_avx512f || E.cpu_avx512f
  | .avx512bw => E.tf_avx512bw || E.cpu_avx512bw
  | .neon => E.tf_neon || E.cpu_neon
  | _ => false

/-- **C10 (guards).** A positive answer of an availability check really means every feature
`featsOfGuard` lists is present — in particular the AVX-512 check covers AVX512F *and* AVX512BW, which the
8/16-bit AVX-512 routines need (the defect fixed in 1f81e06). -/
theorem guard_implies_features (E : Env) (g : Guard) (h : guardFn g E = pure true) :
    ∀ f ∈ featsOfGuard g, envHas E f = true := by
  cases g
  · simp only [guardFn, C09.is_avx512_available_eq] at h
    have h' : ((E.tf_avx512f && E.tf_avx512bw) || (E.feat_std && (E.cpu_avx512f && E.cpu_avx512bw))) = true := by
      injection h
    intro f hf
    simp only [featsOfGuard, List.mem_cons, List.mem_nil_iff, or_false] at hf
    rcases hf with rfl | rfl <;> simp only [envHas] <;>
      revert h' <;> cases E.tf_avx512f <;> cases E.tf_avx512bw <;> cases E.feat_std <;>
      cases E.cpu_avx512f <;> cases E.cpu_avx512bw <;> simp
  · simp only [guardFn, C09.is_avx2_available_eq] at h
    have h' : (E.tf_avx2 || (E.feat_std && E.cpu_avx2)) = true := by injection h
    intro f hf
    simp only [featsOfGuard, List.mem_cons, List.mem_nil_iff, or_false] at hf
    subst hf
    simp only [envHas]
    revert h'; cases E.tf_avx2 <;> cases E.feat_std <;> cases E.cpu_avx2 <;> simp
  · simp only [guardFn, C09.is_fma_available_eq] at h
    have h' : (E.tf_fma || (E.feat_std && E.cpu_fma)) = true := by injection h
    intro f hf
    simp only [featsOfGuard, List.mem_cons, List.mem_nil_iff, or_false] at hf
    subst hf
    simp only [envHas]
    revert h'; cases E.tf_fma <;> cases E.feat_std <;> cases E.cpu_fma <;> simp
  · simp only [guardFn, C09.is_neon_available_eq] at h
    have h' : (E.tf_neon || (E.feat_std && E.cpu_neon)) = true := by injection h
    intro f hf
    simp only [featsOfGuard, List.mem_cons, List.mem_nil_iff, or_false] at hf
    subst hf
    simp only [envHas]
    revert h'; cases E.tf_neon <;> cases E.feat_std <;> cases E.cpu_neon <;> simp

/-- the generic kernels, the trait defaults, the scalar math layer and dispatch.rs call no intrinsic, so
the fallback routines and the wrappers need nothing beyond the compilation baseline -/
theorem generic_code_has_no_intrinsics : nonImplIntrinsics = [] := by decide

/-- **C10 (exports).** The `#[target_feature(enable = …)]` set an exported routine is compiled with — under which LLVM may
emit any instruction of those extensions anywhere in the inlined kernel, not only where an intrinsic is written — lies
inside what the dispatcher verifies for the backend the routine belongs to (plus the x86-64 baseline). An `avx2` routine
compiled with `avx2,fma` would let an FMA instruction reach a CPU on which only AVX2 was checked. -/
theorem exports_compiled_within_guard : ∀ r ∈ exports, subsetB r.features (allowedFor r.reg) = true := by
  have h : exports_chunks.all (fun c => c.all (fun r => subsetB r.features (allowedFor r.reg))) = true := by decide +kernel
  intro r hr
  exact all_flatten_of_all_chunks _ exports_chunks h r hr

/-- non-vacuity: exports that are compiled with target features exist (all non-fallback ones) -/
example : ∃ r ∈ exports, r.reg = .Avx2Fma ∧ r.features = [.avx2, .fma] := by decide +kernel

/-- **C10 (nothing vendor-specific outside the backends).** Syntactic closure of the same statement: outside the register
backends (`danger/impl_*.rs`) no source file of the crate names a `core::arch` / `std::arch` item (other than the two CPU
detection macros), calls anything that looks like a vendor intrinsic (`_mm…`, `__cpuid…`, `_xgetbv`, `v…q_f32`) or contains
`asm!` in code that is compiled into a shipped build — so the only instructions beyond the target baseline are those of the
backend methods, which `impl_methods_within_guard` bounds. (A hand-rolled CPUID / XGETBV probe in `dispatch.rs`, for example,
runs `xgetbv` on every call before anything has been verified.) -/
theorem no_arch_items_outside_backends :
    archRefs.all (fun r => (noStdBuilds ++ stdBuilds).all (fun b => !compiledIn b r)) = true := by
  decide +kernel

/-- **C10 (no build-time CPU probing).** The crate has no build script: every `cfg` the availability checks are conditioned on
is a target feature of the *compilation target* or a cargo feature — nothing measured on the build machine (whose CPU need
not be the one that runs the binary) can switch a compile-time "available" answer on. -/
theorem no_build_script : buildScripts = [] := by decide

/-- the kernels only reach the backend through trait methods (so the per-method theorem covers them) -/
theorem kernels_use_trait_methods_only : kernelMethods.length = 20 := by decide

/-- the lattice is closed: the closure of the AVX-512 guard contains AVX2 and FMA, not the other way round -/
example : subsetB [.avx2, .fma, .sse4_2] (closure [.avx512f, .avx512bw]) = true
    ∧ subsetB [.avx512bw] (closure [.avx512f]) = false := by decide

end Cfavml.Thm.C10
