/-
C13 (NEON backend) — GENERATED TEXT (lean/tools/gen_c13neon.py), hand-designed proofs.
`impl SimdRegister<T> for Neon` (cfavml/src/danger/impl_neon.rs, regenerated into Gen/ImplNeon.lean on every run) meets
the same contracts as the x86 backends: memory, broadcast, lane-wise add/sub/mul/div/max/min (the 64-bit integer
mul/max/min and every integer div are unpack / scalar loop / pack), fmadd (fused for floats, mul-then-add for integers),
zeroed accumulators, the default roll-ups and the horizontal folds (`vaddvq`/`vmaxvq`/`vminvq`; two-lane scalar folds for
64-bit integers). The NEON intrinsic semantics (Prim/Neon.lean) are trusted and — unlike the x86 ones — not validated
against hardware in this sandbox.
-/
import CfavmlModel.Lemmas.X86Backend
import CfavmlModel.Lemmas.X86Hard
import CfavmlModel.Lemmas.ReduceKernelsModel
import CfavmlModel.Lemmas.FoldTree
import CfavmlModel.Gen.ImplNeon
import CfavmlModel.Spec.Backend
import CfavmlModel.Thm.C18

namespace Cfavml.Thm.C13Neon
open Cfavml.Thm KernelModel

/-- zeroed accumulators of a backend whose `zeroed` is `filled zero` -/
theorem zeroed_dense_of_filled {T Reg : Type} {E : Env} {R : SimdRegister T Reg} {L : Nat} {lanes : Reg → Nat → T}
    (hL : 0 < L) (z : T) (BF : BroadcastFaithful R L lanes) (hz : R.zeroed = (do let t ← R.filled z; pure t))
    (hd : R.zeroed_dense = SimdRegisterDefault.zeroed_dense (T := T) E R.zeroed) :
    ∃ d, R.zeroed_dense = pure d ∧ ∀ k, k < L * 8 → dlanes L lanes d k = z := by
  obtain ⟨r, e, h⟩ := BF.filled_ok z
  refine ⟨DenseLane.copy r, by rw [hd]; unfold SimdRegisterDefault.zeroed_dense; rw [hz, e]; rfl, ?_⟩
  intro k hk
  rw [dlanes_copy hL _ k hk]
  exact h _ (Nat.mod_lt _ hL)

/-- the pairwise float folds as fold trees -/
def tN4 : FTree := .node (.node (.leaf 0) (.leaf 1)) (.node (.leaf 2) (.leaf 3))
def tN2 : FTree := .node (.leaf 0) (.leaf 1)
theorem pair4_eq {α : Type} (op : α → α → α) (f : Nat → α) : Neon.pair4 op f = tN4.eval op f := rfl
theorem pair2_eq {α : Type} (op : α → α → α) (f : Nat → α) : Neon.pair2 op f = tN2.eval op f := rfl
theorem tN4_perm : tN4.leaves.Perm (List.range 4) := by decide
theorem tN2_perm : tN2.leaves.Perm (List.range 2) := by decide

namespace Neon_f32
theorem core (E : Env) : CoreFaithful (Neon_f32.inst E) 4 (xlanes 32) :=
  core_of_x86 (by decide) (by decide) (by decide) (by decide) _ rfl (fun _ _ => rfl) (fun _ _ _ => rfl)
theorem usesDefaults (E : Env) : UsesDefaultMem E (Neon_f32.inst E) := ⟨rfl, rfl, rfl⟩
theorem mem (E : Env) : MemFaithful (Neon_f32.inst E) 4 (xlanes 32) := memFaithful_of_defaults (core E) (usesDefaults E)
theorem bcast (E : Env) : BroadcastFaithful (Neon_f32.inst E) 4 (xlanes 32) :=
  bcast_of_x86 (E := E) (by decide) (by decide) (by decide) _ (fun _ => rfl) rfl
theorem add (E : Env) : Lanewise2 4 (xlanes 32) (f32Spec E false).add (fun _ => True) (Neon_f32.inst E).add (Neon_f32.inst E).add_dense :=
  lanewise2_of_map2 (by decide) (by decide) (by decide) _ _ (fun _ _ => rfl) _ rfl
theorem sub (E : Env) : Lanewise2 4 (xlanes 32) (f32Spec E false).sub (fun _ => True) (Neon_f32.inst E).sub (Neon_f32.inst E).sub_dense :=
  lanewise2_of_map2 (by decide) (by decide) (by decide) _ _ (fun _ _ => rfl) _ rfl
theorem mul (E : Env) : Lanewise2 4 (xlanes 32) (f32Spec E false).mul (fun _ => True) (Neon_f32.inst E).mul (Neon_f32.inst E).mul_dense :=
  lanewise2_of_map2 (by decide) (by decide) (by decide) _ _ (fun _ _ => rfl) _ rfl
theorem div (E : Env) : Lanewise2 4 (xlanes 32) (f32Spec E false).div (fun _ => True) (Neon_f32.inst E).div (Neon_f32.inst E).div_dense :=
  lanewise2_of_map2 (by decide) (by decide) (by decide) _ _ (fun _ _ => rfl) _ rfl
theorem max (E : Env) : Lanewise2 4 (xlanes 32) (Neon.fmax32 E) (fun _ => True) (Neon_f32.inst E).max (Neon_f32.inst E).max_dense :=
  lanewise2_of_map2 (by decide) (by decide) (by decide) _ _ (fun _ _ => rfl) _ rfl
theorem min (E : Env) : Lanewise2 4 (xlanes 32) (Neon.fmin32 E) (fun _ => True) (Neon_f32.inst E).min (Neon_f32.inst E).min_dense :=
  lanewise2_of_map2 (by decide) (by decide) (by decide) _ _ (fun _ _ => rfl) _ rfl
/-- `vfmaq(acc, l1, l2)`: the fused `fma l1 l2 acc` in every lane -/
theorem fmadd (E : Env) : Lanewise3 4 (xlanes 32) E.F.fma32 (Neon_f32.inst E).fmadd (Neon_f32.inst E).fmadd_dense := by
  have hD : (Neon_f32.inst E).fmadd_dense = applyDense3 (Neon_f32.inst E).fmadd := rfl
  rw [hD]
  exact lanewise3_of_applyDense (by decide) (fun x y z => ⟨_, rfl, fun k hk => xlanes_map3 (by decide) (by decide) _ z x y k hk⟩)
theorem zeroed_dense_ok (E : Env) : ∃ d, (Neon_f32.inst E).zeroed_dense = pure d ∧ ∀ k, k < 4 * 8 → dlanes 4 (xlanes 32) d k = (f32Spec E false).zero :=
  zeroed_dense_of_filled (E := E) (by decide) _ (bcast E) rfl rfl
theorem sum_to_value (E : Env) (r : BitVec 128) : (Neon_f32.inst E).sum_to_value r = pure (tN4.eval E.F.add32 (xlanes 32 r)) := rfl
theorem sumFold (E : Env) : FoldFaithful 4 (xlanes 32) (f32Spec E false).add (fun f => tN4.eval E.F.add32 f) (Neon_f32.inst E).sum_to_register (Neon_f32.inst E).sum_to_value :=
  foldFaithful_of (add E) _ _ _ rfl (sum_to_value E)
theorem max_to_value (E : Env) (r : BitVec 128) : (Neon_f32.inst E).max_to_value r = pure (tN4.eval (Neon.fmax32 E) (xlanes 32 r)) := rfl
theorem maxFold (E : Env) : FoldFaithful 4 (xlanes 32) (Neon.fmax32 E) (fun f => tN4.eval (Neon.fmax32 E) f) (Neon_f32.inst E).max_to_register (Neon_f32.inst E).max_to_value :=
  foldFaithful_of (max E) _ _ _ rfl (max_to_value E)
theorem min_to_value (E : Env) (r : BitVec 128) : (Neon_f32.inst E).min_to_value r = pure (tN4.eval (Neon.fmin32 E) (xlanes 32 r)) := rfl
theorem minFold (E : Env) : FoldFaithful 4 (xlanes 32) (Neon.fmin32 E) (fun f => tN4.eval (Neon.fmin32 E) f) (Neon_f32.inst E).min_to_register (Neon_f32.inst E).min_to_value :=
  foldFaithful_of (min E) _ _ _ rfl (min_to_value E)
/-- the sum-like kernels' contract (C04 / C06 on NEON floats) -/
theorem sumBackend (E : Env) : SumBackend (Neon_f32.inst E) 4 (xlanes 32) (f32Spec E false) E.F.fma32 (fun f => tN4.eval E.F.add32 f) :=
  ⟨mem E, zeroed_dense_ok E, add E, sub E, fmadd E, sumFold E⟩
theorem ext_max (E : Env) : ExtBackend (Neon_f32.inst E) 4 (xlanes 32) (Neon.fmax32 E) (fun f => tN4.eval (Neon.fmax32 E) f)
    (Neon_f32.inst E).max (Neon_f32.inst E).max_dense (Neon_f32.inst E).max_to_register (Neon_f32.inst E).max_to_value :=
  ⟨mem E, bcast E, max E, maxFold E⟩
theorem ext_min (E : Env) : ExtBackend (Neon_f32.inst E) 4 (xlanes 32) (Neon.fmin32 E) (fun f => tN4.eval (Neon.fmin32 E) f)
    (Neon_f32.inst E).min (Neon_f32.inst E).min_dense (Neon_f32.inst E).min_to_register (Neon_f32.inst E).min_to_value :=
  ⟨mem E, bcast E, min E, minFold E⟩
end Neon_f32

namespace Neon_f64
theorem core (E : Env) : CoreFaithful (Neon_f64.inst E) 2 (xlanes 64) :=
  core_of_x86 (by decide) (by decide) (by decide) (by decide) _ rfl (fun _ _ => rfl) (fun _ _ _ => rfl)
theorem usesDefaults (E : Env) : UsesDefaultMem E (Neon_f64.inst E) := ⟨rfl, rfl, rfl⟩
theorem mem (E : Env) : MemFaithful (Neon_f64.inst E) 2 (xlanes 64) := memFaithful_of_defaults (core E) (usesDefaults E)
theorem bcast (E : Env) : BroadcastFaithful (Neon_f64.inst E) 2 (xlanes 64) :=
  bcast_of_x86 (E := E) (by decide) (by decide) (by decide) _ (fun _ => rfl) rfl
theorem add (E : Env) : Lanewise2 2 (xlanes 64) (f64Spec E false).add (fun _ => True) (Neon_f64.inst E).add (Neon_f64.inst E).add_dense :=
  lanewise2_of_map2 (by decide) (by decide) (by decide) _ _ (fun _ _ => rfl) _ rfl
theorem sub (E : Env) : Lanewise2 2 (xlanes 64) (f64Spec E false).sub (fun _ => True) (Neon_f64.inst E).sub (Neon_f64.inst E).sub_dense :=
  lanewise2_of_map2 (by decide) (by decide) (by decide) _ _ (fun _ _ => rfl) _ rfl
theorem mul (E : Env) : Lanewise2 2 (xlanes 64) (f64Spec E false).mul (fun _ => True) (Neon_f64.inst E).mul (Neon_f64.inst E).mul_dense :=
  lanewise2_of_map2 (by decide) (by decide) (by decide) _ _ (fun _ _ => rfl) _ rfl
theorem div (E : Env) : Lanewise2 2 (xlanes 64) (f64Spec E false).div (fun _ => True) (Neon_f64.inst E).div (Neon_f64.inst E).div_dense :=
  lanewise2_of_map2 (by decide) (by decide) (by decide) _ _ (fun _ _ => rfl) _ rfl
theorem max (E : Env) : Lanewise2 2 (xlanes 64) (Neon.fmax64 E) (fun _ => True) (Neon_f64.inst E).max (Neon_f64.inst E).max_dense :=
  lanewise2_of_map2 (by decide) (by decide) (by decide) _ _ (fun _ _ => rfl) _ rfl
theorem min (E : Env) : Lanewise2 2 (xlanes 64) (Neon.fmin64 E) (fun _ => True) (Neon_f64.inst E).min (Neon_f64.inst E).min_dense :=
  lanewise2_of_map2 (by decide) (by decide) (by decide) _ _ (fun _ _ => rfl) _ rfl
/-- `vfmaq(acc, l1, l2)`: the fused `fma l1 l2 acc` in every lane -/
theorem fmadd (E : Env) : Lanewise3 2 (xlanes 64) E.F.fma64 (Neon_f64.inst E).fmadd (Neon_f64.inst E).fmadd_dense := by
  have hD : (Neon_f64.inst E).fmadd_dense = applyDense3 (Neon_f64.inst E).fmadd := rfl
  rw [hD]
  exact lanewise3_of_applyDense (by decide) (fun x y z => ⟨_, rfl, fun k hk => xlanes_map3 (by decide) (by decide) _ z x y k hk⟩)
theorem zeroed_dense_ok (E : Env) : ∃ d, (Neon_f64.inst E).zeroed_dense = pure d ∧ ∀ k, k < 2 * 8 → dlanes 2 (xlanes 64) d k = (f64Spec E false).zero :=
  zeroed_dense_of_filled (E := E) (by decide) _ (bcast E) rfl rfl
theorem sum_to_value (E : Env) (r : BitVec 128) : (Neon_f64.inst E).sum_to_value r = pure (tN2.eval E.F.add64 (xlanes 64 r)) := rfl
theorem sumFold (E : Env) : FoldFaithful 2 (xlanes 64) (f64Spec E false).add (fun f => tN2.eval E.F.add64 f) (Neon_f64.inst E).sum_to_register (Neon_f64.inst E).sum_to_value :=
  foldFaithful_of (add E) _ _ _ rfl (sum_to_value E)
theorem max_to_value (E : Env) (r : BitVec 128) : (Neon_f64.inst E).max_to_value r = pure (tN2.eval (Neon.fmax64 E) (xlanes 64 r)) := rfl
theorem maxFold (E : Env) : FoldFaithful 2 (xlanes 64) (Neon.fmax64 E) (fun f => tN2.eval (Neon.fmax64 E) f) (Neon_f64.inst E).max_to_register (Neon_f64.inst E).max_to_value :=
  foldFaithful_of (max E) _ _ _ rfl (max_to_value E)
theorem min_to_value (E : Env) (r : BitVec 128) : (Neon_f64.inst E).min_to_value r = pure (tN2.eval (Neon.fmin64 E) (xlanes 64 r)) := rfl
theorem minFold (E : Env) : FoldFaithful 2 (xlanes 64) (Neon.fmin64 E) (fun f => tN2.eval (Neon.fmin64 E) f) (Neon_f64.inst E).min_to_register (Neon_f64.inst E).min_to_value :=
  foldFaithful_of (min E) _ _ _ rfl (min_to_value E)
/-- the sum-like kernels' contract (C04 / C06 on NEON floats) -/
theorem sumBackend (E : Env) : SumBackend (Neon_f64.inst E) 2 (xlanes 64) (f64Spec E false) E.F.fma64 (fun f => tN2.eval E.F.add64 f) :=
  ⟨mem E, zeroed_dense_ok E, add E, sub E, fmadd E, sumFold E⟩
theorem ext_max (E : Env) : ExtBackend (Neon_f64.inst E) 2 (xlanes 64) (Neon.fmax64 E) (fun f => tN2.eval (Neon.fmax64 E) f)
    (Neon_f64.inst E).max (Neon_f64.inst E).max_dense (Neon_f64.inst E).max_to_register (Neon_f64.inst E).max_to_value :=
  ⟨mem E, bcast E, max E, maxFold E⟩
theorem ext_min (E : Env) : ExtBackend (Neon_f64.inst E) 2 (xlanes 64) (Neon.fmin64 E) (fun f => tN2.eval (Neon.fmin64 E) f)
    (Neon_f64.inst E).min (Neon_f64.inst E).min_dense (Neon_f64.inst E).min_to_register (Neon_f64.inst E).min_to_value :=
  ⟨mem E, bcast E, min E, minFold E⟩
end Neon_f64

namespace Neon_i8
theorem core (E : Env) : CoreFaithful (Neon_i8.inst E) 16 (xlanes 8) :=
  core_of_x86 (by decide) (by decide) (by decide) (by decide) _ rfl (fun _ _ => rfl) (fun _ _ _ => rfl)
theorem usesDefaults (E : Env) : UsesDefaultMem E (Neon_i8.inst E) := ⟨rfl, rfl, rfl⟩
theorem mem (E : Env) : MemFaithful (Neon_i8.inst E) 16 (xlanes 8) := memFaithful_of_defaults (core E) (usesDefaults E)
theorem bcast (E : Env) : BroadcastFaithful (Neon_i8.inst E) 16 (xlanes 8) :=
  bcast_of_x86 (E := E) (by decide) (by decide) (by decide) _ (fun _ => rfl) rfl
theorem add (E : Env) : Lanewise2 16 (xlanes 8) (sintSpec 8).add (fun _ => True) (Neon_i8.inst E).add (Neon_i8.inst E).add_dense :=
  lanewise2_of_map2 (by decide) (by decide) (by decide) _ _ (fun _ _ => rfl) _ rfl
theorem sub (E : Env) : Lanewise2 16 (xlanes 8) (sintSpec 8).sub (fun _ => True) (Neon_i8.inst E).sub (Neon_i8.inst E).sub_dense :=
  lanewise2_of_map2 (by decide) (by decide) (by decide) _ _ (fun _ _ => rfl) _ rfl
theorem mul (E : Env) : Lanewise2 16 (xlanes 8) (sintSpec 8).mul (fun _ => True) (Neon_i8.inst E).mul (Neon_i8.inst E).mul_dense :=
  lanewise2_of_map2 (by decide) (by decide) (by decide) _ _ (fun _ _ => rfl) _ rfl
theorem max (E : Env) : Lanewise2 16 (xlanes 8) (sintSpec 8).cmpMax (fun _ => True) (Neon_i8.inst E).max (Neon_i8.inst E).max_dense :=
  lanewise2_of_map2 (by decide) (by decide) (by decide) _ _ (fun _ _ => rfl) _ rfl
theorem min (E : Env) : Lanewise2 16 (xlanes 8) (sintSpec 8).cmpMin (fun _ => True) (Neon_i8.inst E).min (Neon_i8.inst E).min_dense :=
  lanewise2_of_map2 (by decide) (by decide) (by decide) _ _ (fun _ _ => rfl) _ rfl
/-- integer division: `AutoMath::div` (the wrapping division) in every lane, for divisors it does not panic on -/
theorem div (E : Env) : Lanewise2 16 (xlanes 8) (sintSpec 8).div (fun y => (sintSpec 8).divOk y = true) (Neon_i8.inst E).div (Neon_i8.inst E).div_dense :=
  lanewise2_of_opLoop (by decide) (by decide) (by decide) (I8.lit 0) (AutoMath_i8 E).div _ (fun y => (sintSpec 8).divOk y = true)
    (fun x y h => (C18.auto_i8 E).div_ok x y h) _ (fun _ _ => rfl) _ rfl
theorem fmadd (E : Env) : Lanewise3 16 (xlanes 8) (fun x y acc => (sintSpec 8).add ((sintSpec 8).mul x y) acc) (Neon_i8.inst E).fmadd (Neon_i8.inst E).fmadd_dense :=
  lanewise3_of_mul_add (mul E) (add E) (fun _ _ _ => rfl) (fun _ _ _ => rfl)
theorem zeroed_dense_ok (E : Env) : ∃ d, (Neon_i8.inst E).zeroed_dense = pure d ∧ ∀ k, k < 16 * 8 → dlanes 16 (xlanes 8) d k = (sintSpec 8).zero :=
  zeroed_dense_of_filled (E := E) (by decide) _ (bcast E) rfl rfl
theorem sum_to_value (E : Env) (r : BitVec 128) : (Neon_i8.inst E).sum_to_value r = pure ((X86.reduceOrdered (· + ·) (0 : BitVec 8) 16) (xlanes 8 r)) := rfl
theorem hsum_eq (f : Nat → BitVec 8) : (X86.reduceOrdered (· + ·) (0 : BitVec 8) 16) f = sumR (sintSpec 8).add (sintSpec 8).zero f 16 := reduceOrdered_eq_sumR (0 : BitVec 8) 16 f
theorem sumFold (E : Env) : FoldFaithful 16 (xlanes 8) (sintSpec 8).add (X86.reduceOrdered (· + ·) (0 : BitVec 8) 16) (Neon_i8.inst E).sum_to_register (Neon_i8.inst E).sum_to_value :=
  foldFaithful_of (add E) _ _ _ rfl (sum_to_value E)
theorem max_to_value (E : Env) (r : BitVec 128) : (Neon_i8.inst E).max_to_value r = pure ((X86.reduceOrdered IntPrim.smax (BitVec.intMin 8) 16) (xlanes 8 r)) := rfl
theorem hmax_eq (f : Nat → BitVec 8) : (X86.reduceOrdered IntPrim.smax (BitVec.intMin 8) 16) f = sumR (sintSpec 8).cmpMax (sintSpec 8).minVal f 16 := reduceOrdered_eq_sumR (BitVec.intMin 8) 16 f
theorem min_to_value (E : Env) (r : BitVec 128) : (Neon_i8.inst E).min_to_value r = pure ((X86.reduceOrdered IntPrim.smin (BitVec.intMax 8) 16) (xlanes 8 r)) := rfl
theorem hmin_eq (f : Nat → BitVec 8) : (X86.reduceOrdered IntPrim.smin (BitVec.intMax 8) 16) f = sumR (sintSpec 8).cmpMin (sintSpec 8).maxVal f 16 := reduceOrdered_eq_sumR (BitVec.intMax 8) 16 f
theorem maxFold (E : Env) : FoldFaithful 16 (xlanes 8) (sintSpec 8).cmpMax (X86.reduceOrdered IntPrim.smax (BitVec.intMin 8) 16) (Neon_i8.inst E).max_to_register (Neon_i8.inst E).max_to_value :=
  foldFaithful_of (max E) _ _ _ rfl (max_to_value E)
theorem minFold (E : Env) : FoldFaithful 16 (xlanes 8) (sintSpec 8).cmpMin (X86.reduceOrdered IntPrim.smin (BitVec.intMax 8) 16) (Neon_i8.inst E).min_to_register (Neon_i8.inst E).min_to_value :=
  foldFaithful_of (min E) _ _ _ rfl (min_to_value E)
/-- **C13 on `Neon` × `i8`**: the complete lane-wise contract -/
theorem arith (E : Env) : ArithFaithful (Neon_i8.inst E) 16 (xlanes 8) (sintSpec 8) :=
  ⟨mem E, bcast E, add E, sub E, mul E, div E, max E, min E⟩
theorem reduce (E : Env) : ReduceFaithful (Neon_i8.inst E) 16 (xlanes 8) (sintSpec 8)
    (fun x y acc => (sintSpec 8).add ((sintSpec 8).mul x y) acc) (X86.reduceOrdered (· + ·) (0 : BitVec 8) 16) (X86.reduceOrdered IntPrim.smax (BitVec.intMin 8) 16) (X86.reduceOrdered IntPrim.smin (BitVec.intMax 8) 16) :=
  ⟨zeroed_dense_ok E, fmadd E, sumFold E, maxFold E, minFold E⟩
theorem hsum_is_sum (f : Nat → BitVec 8) : (X86.reduceOrdered (· + ·) (0 : BitVec 8) 16) f = sumR (sintSpec 8).add (sintSpec 8).zero f 16 := hsum_eq f
theorem hmax_is_max (f : Nat → BitVec 8) : (X86.reduceOrdered IntPrim.smax (BitVec.intMin 8) 16) f = sumR (sintSpec 8).cmpMax (sintSpec 8).minVal f 16 := hmax_eq f
theorem hmin_is_min (f : Nat → BitVec 8) : (X86.reduceOrdered IntPrim.smin (BitVec.intMax 8) 16) f = sumR (sintSpec 8).cmpMin (sintSpec 8).maxVal f 16 := hmin_eq f
end Neon_i8

namespace Neon_i16
theorem core (E : Env) : CoreFaithful (Neon_i16.inst E) 8 (xlanes 16) :=
  core_of_x86 (by decide) (by decide) (by decide) (by decide) _ rfl (fun _ _ => rfl) (fun _ _ _ => rfl)
theorem usesDefaults (E : Env) : UsesDefaultMem E (Neon_i16.inst E) := ⟨rfl, rfl, rfl⟩
theorem mem (E : Env) : MemFaithful (Neon_i16.inst E) 8 (xlanes 16) := memFaithful_of_defaults (core E) (usesDefaults E)
theorem bcast (E : Env) : BroadcastFaithful (Neon_i16.inst E) 8 (xlanes 16) :=
  bcast_of_x86 (E := E) (by decide) (by decide) (by decide) _ (fun _ => rfl) rfl
theorem add (E : Env) : Lanewise2 8 (xlanes 16) (sintSpec 16).add (fun _ => True) (Neon_i16.inst E).add (Neon_i16.inst E).add_dense :=
  lanewise2_of_map2 (by decide) (by decide) (by decide) _ _ (fun _ _ => rfl) _ rfl
theorem sub (E : Env) : Lanewise2 8 (xlanes 16) (sintSpec 16).sub (fun _ => True) (Neon_i16.inst E).sub (Neon_i16.inst E).sub_dense :=
  lanewise2_of_map2 (by decide) (by decide) (by decide) _ _ (fun _ _ => rfl) _ rfl
theorem mul (E : Env) : Lanewise2 8 (xlanes 16) (sintSpec 16).mul (fun _ => True) (Neon_i16.inst E).mul (Neon_i16.inst E).mul_dense :=
  lanewise2_of_map2 (by decide) (by decide) (by decide) _ _ (fun _ _ => rfl) _ rfl
theorem max (E : Env) : Lanewise2 8 (xlanes 16) (sintSpec 16).cmpMax (fun _ => True) (Neon_i16.inst E).max (Neon_i16.inst E).max_dense :=
  lanewise2_of_map2 (by decide) (by decide) (by decide) _ _ (fun _ _ => rfl) _ rfl
theorem min (E : Env) : Lanewise2 8 (xlanes 16) (sintSpec 16).cmpMin (fun _ => True) (Neon_i16.inst E).min (Neon_i16.inst E).min_dense :=
  lanewise2_of_map2 (by decide) (by decide) (by decide) _ _ (fun _ _ => rfl) _ rfl
/-- integer division: `AutoMath::div` (the wrapping division) in every lane, for divisors it does not panic on -/
theorem div (E : Env) : Lanewise2 8 (xlanes 16) (sintSpec 16).div (fun y => (sintSpec 16).divOk y = true) (Neon_i16.inst E).div (Neon_i16.inst E).div_dense :=
  lanewise2_of_opLoop (by decide) (by decide) (by decide) (I16.lit 0) (AutoMath_i16 E).div _ (fun y => (sintSpec 16).divOk y = true)
    (fun x y h => (C18.auto_i16 E).div_ok x y h) _ (fun _ _ => rfl) _ rfl
theorem fmadd (E : Env) : Lanewise3 8 (xlanes 16) (fun x y acc => (sintSpec 16).add ((sintSpec 16).mul x y) acc) (Neon_i16.inst E).fmadd (Neon_i16.inst E).fmadd_dense :=
  lanewise3_of_mul_add (mul E) (add E) (fun _ _ _ => rfl) (fun _ _ _ => rfl)
theorem zeroed_dense_ok (E : Env) : ∃ d, (Neon_i16.inst E).zeroed_dense = pure d ∧ ∀ k, k < 8 * 8 → dlanes 8 (xlanes 16) d k = (sintSpec 16).zero :=
  zeroed_dense_of_filled (E := E) (by decide) _ (bcast E) rfl rfl
theorem sum_to_value (E : Env) (r : BitVec 128) : (Neon_i16.inst E).sum_to_value r = pure ((X86.reduceOrdered (· + ·) (0 : BitVec 16) 8) (xlanes 16 r)) := rfl
theorem hsum_eq (f : Nat → BitVec 16) : (X86.reduceOrdered (· + ·) (0 : BitVec 16) 8) f = sumR (sintSpec 16).add (sintSpec 16).zero f 8 := reduceOrdered_eq_sumR (0 : BitVec 16) 8 f
theorem sumFold (E : Env) : FoldFaithful 8 (xlanes 16) (sintSpec 16).add (X86.reduceOrdered (· + ·) (0 : BitVec 16) 8) (Neon_i16.inst E).sum_to_register (Neon_i16.inst E).sum_to_value :=
  foldFaithful_of (add E) _ _ _ rfl (sum_to_value E)
theorem max_to_value (E : Env) (r : BitVec 128) : (Neon_i16.inst E).max_to_value r = pure ((X86.reduceOrdered IntPrim.smax (BitVec.intMin 16) 8) (xlanes 16 r)) := rfl
theorem hmax_eq (f : Nat → BitVec 16) : (X86.reduceOrdered IntPrim.smax (BitVec.intMin 16) 8) f = sumR (sintSpec 16).cmpMax (sintSpec 16).minVal f 8 := reduceOrdered_eq_sumR (BitVec.intMin 16) 8 f
theorem min_to_value (E : Env) (r : BitVec 128) : (Neon_i16.inst E).min_to_value r = pure ((X86.reduceOrdered IntPrim.smin (BitVec.intMax 16) 8) (xlanes 16 r)) := rfl
theorem hmin_eq (f : Nat → BitVec 16) : (X86.reduceOrdered IntPrim.smin (BitVec.intMax 16) 8) f = sumR (sintSpec 16).cmpMin (sintSpec 16).maxVal f 8 := reduceOrdered_eq_sumR (BitVec.intMax 16) 8 f
theorem maxFold (E : Env) : FoldFaithful 8 (xlanes 16) (sintSpec 16).cmpMax (X86.reduceOrdered IntPrim.smax (BitVec.intMin 16) 8) (Neon_i16.inst E).max_to_register (Neon_i16.inst E).max_to_value :=
  foldFaithful_of (max E) _ _ _ rfl (max_to_value E)
theorem minFold (E : Env) : FoldFaithful 8 (xlanes 16) (sintSpec 16).cmpMin (X86.reduceOrdered IntPrim.smin (BitVec.intMax 16) 8) (Neon_i16.inst E).min_to_register (Neon_i16.inst E).min_to_value :=
  foldFaithful_of (min E) _ _ _ rfl (min_to_value E)
/-- **C13 on `Neon` × `i16`**: the complete lane-wise contract -/
theorem arith (E : Env) : ArithFaithful (Neon_i16.inst E) 8 (xlanes 16) (sintSpec 16) :=
  ⟨mem E, bcast E, add E, sub E, mul E, div E, max E, min E⟩
theorem reduce (E : Env) : ReduceFaithful (Neon_i16.inst E) 8 (xlanes 16) (sintSpec 16)
    (fun x y acc => (sintSpec 16).add ((sintSpec 16).mul x y) acc) (X86.reduceOrdered (· + ·) (0 : BitVec 16) 8) (X86.reduceOrdered IntPrim.smax (BitVec.intMin 16) 8) (X86.reduceOrdered IntPrim.smin (BitVec.intMax 16) 8) :=
  ⟨zeroed_dense_ok E, fmadd E, sumFold E, maxFold E, minFold E⟩
theorem hsum_is_sum (f : Nat → BitVec 16) : (X86.reduceOrdered (· + ·) (0 : BitVec 16) 8) f = sumR (sintSpec 16).add (sintSpec 16).zero f 8 := hsum_eq f
theorem hmax_is_max (f : Nat → BitVec 16) : (X86.reduceOrdered IntPrim.smax (BitVec.intMin 16) 8) f = sumR (sintSpec 16).cmpMax (sintSpec 16).minVal f 8 := hmax_eq f
theorem hmin_is_min (f : Nat → BitVec 16) : (X86.reduceOrdered IntPrim.smin (BitVec.intMax 16) 8) f = sumR (sintSpec 16).cmpMin (sintSpec 16).maxVal f 8 := hmin_eq f
end Neon_i16

namespace Neon_i32
theorem core (E : Env) : CoreFaithful (Neon_i32.inst E) 4 (xlanes 32) :=
  core_of_x86 (by decide) (by decide) (by decide) (by decide) _ rfl (fun _ _ => rfl) (fun _ _ _ => rfl)
theorem usesDefaults (E : Env) : UsesDefaultMem E (Neon_i32.inst E) := ⟨rfl, rfl, rfl⟩
theorem mem (E : Env) : MemFaithful (Neon_i32.inst E) 4 (xlanes 32) := memFaithful_of_defaults (core E) (usesDefaults E)
theorem bcast (E : Env) : BroadcastFaithful (Neon_i32.inst E) 4 (xlanes 32) :=
  bcast_of_x86 (E := E) (by decide) (by decide) (by decide) _ (fun _ => rfl) rfl
theorem add (E : Env) : Lanewise2 4 (xlanes 32) (sintSpec 32).add (fun _ => True) (Neon_i32.inst E).add (Neon_i32.inst E).add_dense :=
  lanewise2_of_map2 (by decide) (by decide) (by decide) _ _ (fun _ _ => rfl) _ rfl
theorem sub (E : Env) : Lanewise2 4 (xlanes 32) (sintSpec 32).sub (fun _ => True) (Neon_i32.inst E).sub (Neon_i32.inst E).sub_dense :=
  lanewise2_of_map2 (by decide) (by decide) (by decide) _ _ (fun _ _ => rfl) _ rfl
theorem mul (E : Env) : Lanewise2 4 (xlanes 32) (sintSpec 32).mul (fun _ => True) (Neon_i32.inst E).mul (Neon_i32.inst E).mul_dense :=
  lanewise2_of_map2 (by decide) (by decide) (by decide) _ _ (fun _ _ => rfl) _ rfl
theorem max (E : Env) : Lanewise2 4 (xlanes 32) (sintSpec 32).cmpMax (fun _ => True) (Neon_i32.inst E).max (Neon_i32.inst E).max_dense :=
  lanewise2_of_map2 (by decide) (by decide) (by decide) _ _ (fun _ _ => rfl) _ rfl
theorem min (E : Env) : Lanewise2 4 (xlanes 32) (sintSpec 32).cmpMin (fun _ => True) (Neon_i32.inst E).min (Neon_i32.inst E).min_dense :=
  lanewise2_of_map2 (by decide) (by decide) (by decide) _ _ (fun _ _ => rfl) _ rfl
/-- integer division: `AutoMath::div` (the wrapping division) in every lane, for divisors it does not panic on -/
theorem div (E : Env) : Lanewise2 4 (xlanes 32) (sintSpec 32).div (fun y => (sintSpec 32).divOk y = true) (Neon_i32.inst E).div (Neon_i32.inst E).div_dense :=
  lanewise2_of_opLoop (by decide) (by decide) (by decide) (I32.lit 0) (AutoMath_i32 E).div _ (fun y => (sintSpec 32).divOk y = true)
    (fun x y h => (C18.auto_i32 E).div_ok x y h) _ (fun _ _ => rfl) _ rfl
theorem fmadd (E : Env) : Lanewise3 4 (xlanes 32) (fun x y acc => (sintSpec 32).add ((sintSpec 32).mul x y) acc) (Neon_i32.inst E).fmadd (Neon_i32.inst E).fmadd_dense :=
  lanewise3_of_mul_add (mul E) (add E) (fun _ _ _ => rfl) (fun _ _ _ => rfl)
theorem zeroed_dense_ok (E : Env) : ∃ d, (Neon_i32.inst E).zeroed_dense = pure d ∧ ∀ k, k < 4 * 8 → dlanes 4 (xlanes 32) d k = (sintSpec 32).zero :=
  zeroed_dense_of_filled (E := E) (by decide) _ (bcast E) rfl rfl
theorem sum_to_value (E : Env) (r : BitVec 128) : (Neon_i32.inst E).sum_to_value r = pure ((X86.reduceOrdered (· + ·) (0 : BitVec 32) 4) (xlanes 32 r)) := rfl
theorem hsum_eq (f : Nat → BitVec 32) : (X86.reduceOrdered (· + ·) (0 : BitVec 32) 4) f = sumR (sintSpec 32).add (sintSpec 32).zero f 4 := reduceOrdered_eq_sumR (0 : BitVec 32) 4 f
theorem sumFold (E : Env) : FoldFaithful 4 (xlanes 32) (sintSpec 32).add (X86.reduceOrdered (· + ·) (0 : BitVec 32) 4) (Neon_i32.inst E).sum_to_register (Neon_i32.inst E).sum_to_value :=
  foldFaithful_of (add E) _ _ _ rfl (sum_to_value E)
theorem max_to_value (E : Env) (r : BitVec 128) : (Neon_i32.inst E).max_to_value r = pure ((X86.reduceOrdered IntPrim.smax (BitVec.intMin 32) 4) (xlanes 32 r)) := rfl
theorem hmax_eq (f : Nat → BitVec 32) : (X86.reduceOrdered IntPrim.smax (BitVec.intMin 32) 4) f = sumR (sintSpec 32).cmpMax (sintSpec 32).minVal f 4 := reduceOrdered_eq_sumR (BitVec.intMin 32) 4 f
theorem min_to_value (E : Env) (r : BitVec 128) : (Neon_i32.inst E).min_to_value r = pure ((X86.reduceOrdered IntPrim.smin (BitVec.intMax 32) 4) (xlanes 32 r)) := rfl
theorem hmin_eq (f : Nat → BitVec 32) : (X86.reduceOrdered IntPrim.smin (BitVec.intMax 32) 4) f = sumR (sintSpec 32).cmpMin (sintSpec 32).maxVal f 4 := reduceOrdered_eq_sumR (BitVec.intMax 32) 4 f
theorem maxFold (E : Env) : FoldFaithful 4 (xlanes 32) (sintSpec 32).cmpMax (X86.reduceOrdered IntPrim.smax (BitVec.intMin 32) 4) (Neon_i32.inst E).max_to_register (Neon_i32.inst E).max_to_value :=
  foldFaithful_of (max E) _ _ _ rfl (max_to_value E)
theorem minFold (E : Env) : FoldFaithful 4 (xlanes 32) (sintSpec 32).cmpMin (X86.reduceOrdered IntPrim.smin (BitVec.intMax 32) 4) (Neon_i32.inst E).min_to_register (Neon_i32.inst E).min_to_value :=
  foldFaithful_of (min E) _ _ _ rfl (min_to_value E)
/-- **C13 on `Neon` × `i32`**: the complete lane-wise contract -/
theorem arith (E : Env) : ArithFaithful (Neon_i32.inst E) 4 (xlanes 32) (sintSpec 32) :=
  ⟨mem E, bcast E, add E, sub E, mul E, div E, max E, min E⟩
theorem reduce (E : Env) : ReduceFaithful (Neon_i32.inst E) 4 (xlanes 32) (sintSpec 32)
    (fun x y acc => (sintSpec 32).add ((sintSpec 32).mul x y) acc) (X86.reduceOrdered (· + ·) (0 : BitVec 32) 4) (X86.reduceOrdered IntPrim.smax (BitVec.intMin 32) 4) (X86.reduceOrdered IntPrim.smin (BitVec.intMax 32) 4) :=
  ⟨zeroed_dense_ok E, fmadd E, sumFold E, maxFold E, minFold E⟩
theorem hsum_is_sum (f : Nat → BitVec 32) : (X86.reduceOrdered (· + ·) (0 : BitVec 32) 4) f = sumR (sintSpec 32).add (sintSpec 32).zero f 4 := hsum_eq f
theorem hmax_is_max (f : Nat → BitVec 32) : (X86.reduceOrdered IntPrim.smax (BitVec.intMin 32) 4) f = sumR (sintSpec 32).cmpMax (sintSpec 32).minVal f 4 := hmax_eq f
theorem hmin_is_min (f : Nat → BitVec 32) : (X86.reduceOrdered IntPrim.smin (BitVec.intMax 32) 4) f = sumR (sintSpec 32).cmpMin (sintSpec 32).maxVal f 4 := hmin_eq f
end Neon_i32

namespace Neon_i64
theorem core (E : Env) : CoreFaithful (Neon_i64.inst E) 2 (xlanes 64) :=
  core_of_x86 (by decide) (by decide) (by decide) (by decide) _ rfl (fun _ _ => rfl) (fun _ _ _ => rfl)
theorem usesDefaults (E : Env) : UsesDefaultMem E (Neon_i64.inst E) := ⟨rfl, rfl, rfl⟩
theorem mem (E : Env) : MemFaithful (Neon_i64.inst E) 2 (xlanes 64) := memFaithful_of_defaults (core E) (usesDefaults E)
theorem bcast (E : Env) : BroadcastFaithful (Neon_i64.inst E) 2 (xlanes 64) :=
  bcast_of_x86 (E := E) (by decide) (by decide) (by decide) _ (fun _ => rfl) rfl
theorem add (E : Env) : Lanewise2 2 (xlanes 64) (sintSpec 64).add (fun _ => True) (Neon_i64.inst E).add (Neon_i64.inst E).add_dense :=
  lanewise2_of_map2 (by decide) (by decide) (by decide) _ _ (fun _ _ => rfl) _ rfl
theorem sub (E : Env) : Lanewise2 2 (xlanes 64) (sintSpec 64).sub (fun _ => True) (Neon_i64.inst E).sub (Neon_i64.inst E).sub_dense :=
  lanewise2_of_map2 (by decide) (by decide) (by decide) _ _ (fun _ _ => rfl) _ rfl
/-- 64-bit multiply: the scalar `AutoMath::mul` (wrapping) in both lanes -/
theorem mul (E : Env) : Lanewise2 2 (xlanes 64) (sintSpec 64).mul (fun _ => True) (Neon_i64.inst E).mul (Neon_i64.inst E).mul_dense :=
  lanewise2_of_opLoop (by decide) (by decide) (by decide) (I64.lit 0) (AutoMath_i64 E).mul _ (fun _ => True)
    (fun x y _ => (C18.auto_i64 E).mul x y) _ (fun _ _ => rfl) _ rfl
/-- 64-bit max: `core::cmp::max` in both lanes -/
theorem max (E : Env) : Lanewise2 2 (xlanes 64) (sintSpec 64).cmpMax (fun _ => True) (Neon_i64.inst E).max (Neon_i64.inst E).max_dense :=
  lanewise2_of_opLoop (by decide) (by decide) (by decide) (I64.lit 0) (fun x y => pure (I64.max E x y)) _ (fun _ => True)
    (fun _ _ _ => rfl) _ (fun _ _ => rfl) _ rfl
/-- 64-bit min: `core::cmp::min` in both lanes -/
theorem min (E : Env) : Lanewise2 2 (xlanes 64) (sintSpec 64).cmpMin (fun _ => True) (Neon_i64.inst E).min (Neon_i64.inst E).min_dense :=
  lanewise2_of_opLoop (by decide) (by decide) (by decide) (I64.lit 0) (fun x y => pure (I64.min E x y)) _ (fun _ => True)
    (fun _ _ _ => rfl) _ (fun _ _ => rfl) _ rfl
/-- integer division: `AutoMath::div` (the wrapping division) in every lane, for divisors it does not panic on -/
theorem div (E : Env) : Lanewise2 2 (xlanes 64) (sintSpec 64).div (fun y => (sintSpec 64).divOk y = true) (Neon_i64.inst E).div (Neon_i64.inst E).div_dense :=
  lanewise2_of_opLoop (by decide) (by decide) (by decide) (I64.lit 0) (AutoMath_i64 E).div _ (fun y => (sintSpec 64).divOk y = true)
    (fun x y h => (C18.auto_i64 E).div_ok x y h) _ (fun _ _ => rfl) _ rfl
theorem fmadd (E : Env) : Lanewise3 2 (xlanes 64) (fun x y acc => (sintSpec 64).add ((sintSpec 64).mul x y) acc) (Neon_i64.inst E).fmadd (Neon_i64.inst E).fmadd_dense :=
  lanewise3_of_mul_add (mul E) (add E) (fun _ _ _ => rfl) (fun _ _ _ => rfl)
theorem zeroed_dense_ok (E : Env) : ∃ d, (Neon_i64.inst E).zeroed_dense = pure d ∧ ∀ k, k < 2 * 8 → dlanes 2 (xlanes 64) d k = (sintSpec 64).zero :=
  zeroed_dense_of_filled (E := E) (by decide) _ (bcast E) rfl rfl
theorem sum_to_value (E : Env) (r : BitVec 128) : (Neon_i64.inst E).sum_to_value r = pure ((X86.reduceOrdered (· + ·) (0 : BitVec 64) 2) (xlanes 64 r)) := rfl
theorem hsum_eq (f : Nat → BitVec 64) : (X86.reduceOrdered (· + ·) (0 : BitVec 64) 2) f = sumR (sintSpec 64).add (sintSpec 64).zero f 2 := reduceOrdered_eq_sumR (0 : BitVec 64) 2 f
theorem sumFold (E : Env) : FoldFaithful 2 (xlanes 64) (sintSpec 64).add (X86.reduceOrdered (· + ·) (0 : BitVec 64) 2) (Neon_i64.inst E).sum_to_register (Neon_i64.inst E).sum_to_value :=
  foldFaithful_of (add E) _ _ _ rfl (sum_to_value E)
theorem max_to_value (E : Env) (r : BitVec 128) : (Neon_i64.inst E).max_to_value r = pure ((fun f : Nat → BitVec 64 => IntPrim.smax (f 0) (f 1)) (xlanes 64 r)) := by
  show Cfavml.Neon_i64.max_to_value E r = _
  unfold Cfavml.Neon_i64.max_to_value
  simp (config := {decide := true}) [unpackLanes, xlanes]
theorem hmax_eq (f : Nat → BitVec 64) : (fun f : Nat → BitVec 64 => IntPrim.smax (f 0) (f 1)) f = sumR (sintSpec 64).cmpMax (sintSpec 64).minVal f 2 := by
  show _ = IntPrim.smax (IntPrim.smax (BitVec.intMin 64) (f 0)) (f 1)
  rw [(smax_monoid (by decide : 0 < 64)).id_left]
theorem min_to_value (E : Env) (r : BitVec 128) : (Neon_i64.inst E).min_to_value r = pure ((fun f : Nat → BitVec 64 => IntPrim.smin (f 0) (f 1)) (xlanes 64 r)) := by
  show Cfavml.Neon_i64.min_to_value E r = _
  unfold Cfavml.Neon_i64.min_to_value
  simp (config := {decide := true}) [unpackLanes, xlanes]
theorem hmin_eq (f : Nat → BitVec 64) : (fun f : Nat → BitVec 64 => IntPrim.smin (f 0) (f 1)) f = sumR (sintSpec 64).cmpMin (sintSpec 64).maxVal f 2 := by
  show _ = IntPrim.smin (IntPrim.smin (BitVec.intMax 64) (f 0)) (f 1)
  rw [(smin_monoid (by decide : 0 < 64)).id_left]
theorem maxFold (E : Env) : FoldFaithful 2 (xlanes 64) (sintSpec 64).cmpMax (fun f : Nat → BitVec 64 => IntPrim.smax (f 0) (f 1)) (Neon_i64.inst E).max_to_register (Neon_i64.inst E).max_to_value :=
  foldFaithful_of (max E) _ _ _ rfl (max_to_value E)
theorem minFold (E : Env) : FoldFaithful 2 (xlanes 64) (sintSpec 64).cmpMin (fun f : Nat → BitVec 64 => IntPrim.smin (f 0) (f 1)) (Neon_i64.inst E).min_to_register (Neon_i64.inst E).min_to_value :=
  foldFaithful_of (min E) _ _ _ rfl (min_to_value E)
/-- **C13 on `Neon` × `i64`**: the complete lane-wise contract -/
theorem arith (E : Env) : ArithFaithful (Neon_i64.inst E) 2 (xlanes 64) (sintSpec 64) :=
  ⟨mem E, bcast E, add E, sub E, mul E, div E, max E, min E⟩
theorem reduce (E : Env) : ReduceFaithful (Neon_i64.inst E) 2 (xlanes 64) (sintSpec 64)
    (fun x y acc => (sintSpec 64).add ((sintSpec 64).mul x y) acc) (X86.reduceOrdered (· + ·) (0 : BitVec 64) 2) (fun f : Nat → BitVec 64 => IntPrim.smax (f 0) (f 1)) (fun f : Nat → BitVec 64 => IntPrim.smin (f 0) (f 1)) :=
  ⟨zeroed_dense_ok E, fmadd E, sumFold E, maxFold E, minFold E⟩
theorem hsum_is_sum (f : Nat → BitVec 64) : (X86.reduceOrdered (· + ·) (0 : BitVec 64) 2) f = sumR (sintSpec 64).add (sintSpec 64).zero f 2 := hsum_eq f
theorem hmax_is_max (f : Nat → BitVec 64) : (fun f : Nat → BitVec 64 => IntPrim.smax (f 0) (f 1)) f = sumR (sintSpec 64).cmpMax (sintSpec 64).minVal f 2 := hmax_eq f
theorem hmin_is_min (f : Nat → BitVec 64) : (fun f : Nat → BitVec 64 => IntPrim.smin (f 0) (f 1)) f = sumR (sintSpec 64).cmpMin (sintSpec 64).maxVal f 2 := hmin_eq f
end Neon_i64

namespace Neon_u8
theorem core (E : Env) : CoreFaithful (Neon_u8.inst E) 16 (xlanes 8) :=
  core_of_x86 (by decide) (by decide) (by decide) (by decide) _ rfl (fun _ _ => rfl) (fun _ _ _ => rfl)
theorem usesDefaults (E : Env) : UsesDefaultMem E (Neon_u8.inst E) := ⟨rfl, rfl, rfl⟩
theorem mem (E : Env) : MemFaithful (Neon_u8.inst E) 16 (xlanes 8) := memFaithful_of_defaults (core E) (usesDefaults E)
theorem bcast (E : Env) : BroadcastFaithful (Neon_u8.inst E) 16 (xlanes 8) :=
  bcast_of_x86 (E := E) (by decide) (by decide) (by decide) _ (fun _ => rfl) rfl
theorem add (E : Env) : Lanewise2 16 (xlanes 8) (uintSpec 8).add (fun _ => True) (Neon_u8.inst E).add (Neon_u8.inst E).add_dense :=
  lanewise2_of_map2 (by decide) (by decide) (by decide) _ _ (fun _ _ => rfl) _ rfl
theorem sub (E : Env) : Lanewise2 16 (xlanes 8) (uintSpec 8).sub (fun _ => True) (Neon_u8.inst E).sub (Neon_u8.inst E).sub_dense :=
  lanewise2_of_map2 (by decide) (by decide) (by decide) _ _ (fun _ _ => rfl) _ rfl
theorem mul (E : Env) : Lanewise2 16 (xlanes 8) (uintSpec 8).mul (fun _ => True) (Neon_u8.inst E).mul (Neon_u8.inst E).mul_dense :=
  lanewise2_of_map2 (by decide) (by decide) (by decide) _ _ (fun _ _ => rfl) _ rfl
theorem max (E : Env) : Lanewise2 16 (xlanes 8) (uintSpec 8).cmpMax (fun _ => True) (Neon_u8.inst E).max (Neon_u8.inst E).max_dense :=
  lanewise2_of_map2 (by decide) (by decide) (by decide) _ _ (fun _ _ => rfl) _ rfl
theorem min (E : Env) : Lanewise2 16 (xlanes 8) (uintSpec 8).cmpMin (fun _ => True) (Neon_u8.inst E).min (Neon_u8.inst E).min_dense :=
  lanewise2_of_map2 (by decide) (by decide) (by decide) _ _ (fun _ _ => rfl) _ rfl
/-- integer division: `AutoMath::div` (the wrapping division) in every lane, for divisors it does not panic on -/
theorem div (E : Env) : Lanewise2 16 (xlanes 8) (uintSpec 8).div (fun y => (uintSpec 8).divOk y = true) (Neon_u8.inst E).div (Neon_u8.inst E).div_dense :=
  lanewise2_of_opLoop (by decide) (by decide) (by decide) (U8.lit 0) (AutoMath_u8 E).div _ (fun y => (uintSpec 8).divOk y = true)
    (fun x y h => (C18.auto_u8 E).div_ok x y h) _ (fun _ _ => rfl) _ rfl
theorem fmadd (E : Env) : Lanewise3 16 (xlanes 8) (fun x y acc => (uintSpec 8).add ((uintSpec 8).mul x y) acc) (Neon_u8.inst E).fmadd (Neon_u8.inst E).fmadd_dense :=
  lanewise3_of_mul_add (mul E) (add E) (fun _ _ _ => rfl) (fun _ _ _ => rfl)
theorem zeroed_dense_ok (E : Env) : ∃ d, (Neon_u8.inst E).zeroed_dense = pure d ∧ ∀ k, k < 16 * 8 → dlanes 16 (xlanes 8) d k = (uintSpec 8).zero :=
  zeroed_dense_of_filled (E := E) (by decide) _ (bcast E) rfl rfl
theorem sum_to_value (E : Env) (r : BitVec 128) : (Neon_u8.inst E).sum_to_value r = pure ((X86.reduceOrdered (· + ·) (0 : BitVec 8) 16) (xlanes 8 r)) := rfl
theorem hsum_eq (f : Nat → BitVec 8) : (X86.reduceOrdered (· + ·) (0 : BitVec 8) 16) f = sumR (uintSpec 8).add (uintSpec 8).zero f 16 := reduceOrdered_eq_sumR (0 : BitVec 8) 16 f
theorem sumFold (E : Env) : FoldFaithful 16 (xlanes 8) (uintSpec 8).add (X86.reduceOrdered (· + ·) (0 : BitVec 8) 16) (Neon_u8.inst E).sum_to_register (Neon_u8.inst E).sum_to_value :=
  foldFaithful_of (add E) _ _ _ rfl (sum_to_value E)
theorem max_to_value (E : Env) (r : BitVec 128) : (Neon_u8.inst E).max_to_value r = pure ((X86.reduceOrdered IntPrim.umax (0 : BitVec 8) 16) (xlanes 8 r)) := rfl
theorem hmax_eq (f : Nat → BitVec 8) : (X86.reduceOrdered IntPrim.umax (0 : BitVec 8) 16) f = sumR (uintSpec 8).cmpMax (uintSpec 8).minVal f 16 := reduceOrdered_eq_sumR (0 : BitVec 8) 16 f
theorem min_to_value (E : Env) (r : BitVec 128) : (Neon_u8.inst E).min_to_value r = pure ((X86.reduceOrdered IntPrim.umin (BitVec.allOnes 8) 16) (xlanes 8 r)) := rfl
theorem hmin_eq (f : Nat → BitVec 8) : (X86.reduceOrdered IntPrim.umin (BitVec.allOnes 8) 16) f = sumR (uintSpec 8).cmpMin (uintSpec 8).maxVal f 16 := reduceOrdered_eq_sumR (BitVec.allOnes 8) 16 f
theorem maxFold (E : Env) : FoldFaithful 16 (xlanes 8) (uintSpec 8).cmpMax (X86.reduceOrdered IntPrim.umax (0 : BitVec 8) 16) (Neon_u8.inst E).max_to_register (Neon_u8.inst E).max_to_value :=
  foldFaithful_of (max E) _ _ _ rfl (max_to_value E)
theorem minFold (E : Env) : FoldFaithful 16 (xlanes 8) (uintSpec 8).cmpMin (X86.reduceOrdered IntPrim.umin (BitVec.allOnes 8) 16) (Neon_u8.inst E).min_to_register (Neon_u8.inst E).min_to_value :=
  foldFaithful_of (min E) _ _ _ rfl (min_to_value E)
/-- **C13 on `Neon` × `u8`**: the complete lane-wise contract -/
theorem arith (E : Env) : ArithFaithful (Neon_u8.inst E) 16 (xlanes 8) (uintSpec 8) :=
  ⟨mem E, bcast E, add E, sub E, mul E, div E, max E, min E⟩
theorem reduce (E : Env) : ReduceFaithful (Neon_u8.inst E) 16 (xlanes 8) (uintSpec 8)
    (fun x y acc => (uintSpec 8).add ((uintSpec 8).mul x y) acc) (X86.reduceOrdered (· + ·) (0 : BitVec 8) 16) (X86.reduceOrdered IntPrim.umax (0 : BitVec 8) 16) (X86.reduceOrdered IntPrim.umin (BitVec.allOnes 8) 16) :=
  ⟨zeroed_dense_ok E, fmadd E, sumFold E, maxFold E, minFold E⟩
theorem hsum_is_sum (f : Nat → BitVec 8) : (X86.reduceOrdered (· + ·) (0 : BitVec 8) 16) f = sumR (uintSpec 8).add (uintSpec 8).zero f 16 := hsum_eq f
theorem hmax_is_max (f : Nat → BitVec 8) : (X86.reduceOrdered IntPrim.umax (0 : BitVec 8) 16) f = sumR (uintSpec 8).cmpMax (uintSpec 8).minVal f 16 := hmax_eq f
theorem hmin_is_min (f : Nat → BitVec 8) : (X86.reduceOrdered IntPrim.umin (BitVec.allOnes 8) 16) f = sumR (uintSpec 8).cmpMin (uintSpec 8).maxVal f 16 := hmin_eq f
end Neon_u8

namespace Neon_u16
theorem core (E : Env) : CoreFaithful (Neon_u16.inst E) 8 (xlanes 16) :=
  core_of_x86 (by decide) (by decide) (by decide) (by decide) _ rfl (fun _ _ => rfl) (fun _ _ _ => rfl)
theorem usesDefaults (E : Env) : UsesDefaultMem E (Neon_u16.inst E) := ⟨rfl, rfl, rfl⟩
theorem mem (E : Env) : MemFaithful (Neon_u16.inst E) 8 (xlanes 16) := memFaithful_of_defaults (core E) (usesDefaults E)
theorem bcast (E : Env) : BroadcastFaithful (Neon_u16.inst E) 8 (xlanes 16) :=
  bcast_of_x86 (E := E) (by decide) (by decide) (by decide) _ (fun _ => rfl) rfl
theorem add (E : Env) : Lanewise2 8 (xlanes 16) (uintSpec 16).add (fun _ => True) (Neon_u16.inst E).add (Neon_u16.inst E).add_dense :=
  lanewise2_of_map2 (by decide) (by decide) (by decide) _ _ (fun _ _ => rfl) _ rfl
theorem sub (E : Env) : Lanewise2 8 (xlanes 16) (uintSpec 16).sub (fun _ => True) (Neon_u16.inst E).sub (Neon_u16.inst E).sub_dense :=
  lanewise2_of_map2 (by decide) (by decide) (by decide) _ _ (fun _ _ => rfl) _ rfl
theorem mul (E : Env) : Lanewise2 8 (xlanes 16) (uintSpec 16).mul (fun _ => True) (Neon_u16.inst E).mul (Neon_u16.inst E).mul_dense :=
  lanewise2_of_map2 (by decide) (by decide) (by decide) _ _ (fun _ _ => rfl) _ rfl
theorem max (E : Env) : Lanewise2 8 (xlanes 16) (uintSpec 16).cmpMax (fun _ => True) (Neon_u16.inst E).max (Neon_u16.inst E).max_dense :=
  lanewise2_of_map2 (by decide) (by decide) (by decide) _ _ (fun _ _ => rfl) _ rfl
theorem min (E : Env) : Lanewise2 8 (xlanes 16) (uintSpec 16).cmpMin (fun _ => True) (Neon_u16.inst E).min (Neon_u16.inst E).min_dense :=
  lanewise2_of_map2 (by decide) (by decide) (by decide) _ _ (fun _ _ => rfl) _ rfl
/-- integer division: `AutoMath::div` (the wrapping division) in every lane, for divisors it does not panic on -/
theorem div (E : Env) : Lanewise2 8 (xlanes 16) (uintSpec 16).div (fun y => (uintSpec 16).divOk y = true) (Neon_u16.inst E).div (Neon_u16.inst E).div_dense :=
  lanewise2_of_opLoop (by decide) (by decide) (by decide) (U16.lit 0) (AutoMath_u16 E).div _ (fun y => (uintSpec 16).divOk y = true)
    (fun x y h => (C18.auto_u16 E).div_ok x y h) _ (fun _ _ => rfl) _ rfl
theorem fmadd (E : Env) : Lanewise3 8 (xlanes 16) (fun x y acc => (uintSpec 16).add ((uintSpec 16).mul x y) acc) (Neon_u16.inst E).fmadd (Neon_u16.inst E).fmadd_dense :=
  lanewise3_of_mul_add (mul E) (add E) (fun _ _ _ => rfl) (fun _ _ _ => rfl)
theorem zeroed_dense_ok (E : Env) : ∃ d, (Neon_u16.inst E).zeroed_dense = pure d ∧ ∀ k, k < 8 * 8 → dlanes 8 (xlanes 16) d k = (uintSpec 16).zero :=
  zeroed_dense_of_filled (E := E) (by decide) _ (bcast E) rfl rfl
theorem sum_to_value (E : Env) (r : BitVec 128) : (Neon_u16.inst E).sum_to_value r = pure ((X86.reduceOrdered (· + ·) (0 : BitVec 16) 8) (xlanes 16 r)) := rfl
theorem hsum_eq (f : Nat → BitVec 16) : (X86.reduceOrdered (· + ·) (0 : BitVec 16) 8) f = sumR (uintSpec 16).add (uintSpec 16).zero f 8 := reduceOrdered_eq_sumR (0 : BitVec 16) 8 f
theorem sumFold (E : Env) : FoldFaithful 8 (xlanes 16) (uintSpec 16).add (X86.reduceOrdered (· + ·) (0 : BitVec 16) 8) (Neon_u16.inst E).sum_to_register (Neon_u16.inst E).sum_to_value :=
  foldFaithful_of (add E) _ _ _ rfl (sum_to_value E)
theorem max_to_value (E : Env) (r : BitVec 128) : (Neon_u16.inst E).max_to_value r = pure ((X86.reduceOrdered IntPrim.umax (0 : BitVec 16) 8) (xlanes 16 r)) := rfl
theorem hmax_eq (f : Nat → BitVec 16) : (X86.reduceOrdered IntPrim.umax (0 : BitVec 16) 8) f = sumR (uintSpec 16).cmpMax (uintSpec 16).minVal f 8 := reduceOrdered_eq_sumR (0 : BitVec 16) 8 f
theorem min_to_value (E : Env) (r : BitVec 128) : (Neon_u16.inst E).min_to_value r = pure ((X86.reduceOrdered IntPrim.umin (BitVec.allOnes 16) 8) (xlanes 16 r)) := rfl
theorem hmin_eq (f : Nat → BitVec 16) : (X86.reduceOrdered IntPrim.umin (BitVec.allOnes 16) 8) f = sumR (uintSpec 16).cmpMin (uintSpec 16).maxVal f 8 := reduceOrdered_eq_sumR (BitVec.allOnes 16) 8 f
theorem maxFold (E : Env) : FoldFaithful 8 (xlanes 16) (uintSpec 16).cmpMax (X86.reduceOrdered IntPrim.umax (0 : BitVec 16) 8) (Neon_u16.inst E).max_to_register (Neon_u16.inst E).max_to_value :=
  foldFaithful_of (max E) _ _ _ rfl (max_to_value E)
theorem minFold (E : Env) : FoldFaithful 8 (xlanes 16) (uintSpec 16).cmpMin (X86.reduceOrdered IntPrim.umin (BitVec.allOnes 16) 8) (Neon_u16.inst E).min_to_register (Neon_u16.inst E).min_to_value :=
  foldFaithful_of (min E) _ _ _ rfl (min_to_value E)
/-- **C13 on `Neon` × `u16`**: the complete lane-wise contract -/
theorem arith (E : Env) : ArithFaithful (Neon_u16.inst E) 8 (xlanes 16) (uintSpec 16) :=
  ⟨mem E, bcast E, add E, sub E, mul E, div E, max E, min E⟩
theorem reduce (E : Env) : ReduceFaithful (Neon_u16.inst E) 8 (xlanes 16) (uintSpec 16)
    (fun x y acc => (uintSpec 16).add ((uintSpec 16).mul x y) acc) (X86.reduceOrdered (· + ·) (0 : BitVec 16) 8) (X86.reduceOrdered IntPrim.umax (0 : BitVec 16) 8) (X86.reduceOrdered IntPrim.umin (BitVec.allOnes 16) 8) :=
  ⟨zeroed_dense_ok E, fmadd E, sumFold E, maxFold E, minFold E⟩
theorem hsum_is_sum (f : Nat → BitVec 16) : (X86.reduceOrdered (· + ·) (0 : BitVec 16) 8) f = sumR (uintSpec 16).add (uintSpec 16).zero f 8 := hsum_eq f
theorem hmax_is_max (f : Nat → BitVec 16) : (X86.reduceOrdered IntPrim.umax (0 : BitVec 16) 8) f = sumR (uintSpec 16).cmpMax (uintSpec 16).minVal f 8 := hmax_eq f
theorem hmin_is_min (f : Nat → BitVec 16) : (X86.reduceOrdered IntPrim.umin (BitVec.allOnes 16) 8) f = sumR (uintSpec 16).cmpMin (uintSpec 16).maxVal f 8 := hmin_eq f
end Neon_u16

namespace Neon_u32
theorem core (E : Env) : CoreFaithful (Neon_u32.inst E) 4 (xlanes 32) :=
  core_of_x86 (by decide) (by decide) (by decide) (by decide) _ rfl (fun _ _ => rfl) (fun _ _ _ => rfl)
theorem usesDefaults (E : Env) : UsesDefaultMem E (Neon_u32.inst E) := ⟨rfl, rfl, rfl⟩
theorem mem (E : Env) : MemFaithful (Neon_u32.inst E) 4 (xlanes 32) := memFaithful_of_defaults (core E) (usesDefaults E)
theorem bcast (E : Env) : BroadcastFaithful (Neon_u32.inst E) 4 (xlanes 32) :=
  bcast_of_x86 (E := E) (by decide) (by decide) (by decide) _ (fun _ => rfl) rfl
theorem add (E : Env) : Lanewise2 4 (xlanes 32) (uintSpec 32).add (fun _ => True) (Neon_u32.inst E).add (Neon_u32.inst E).add_dense :=
  lanewise2_of_map2 (by decide) (by decide) (by decide) _ _ (fun _ _ => rfl) _ rfl
theorem sub (E : Env) : Lanewise2 4 (xlanes 32) (uintSpec 32).sub (fun _ => True) (Neon_u32.inst E).sub (Neon_u32.inst E).sub_dense :=
  lanewise2_of_map2 (by decide) (by decide) (by decide) _ _ (fun _ _ => rfl) _ rfl
theorem mul (E : Env) : Lanewise2 4 (xlanes 32) (uintSpec 32).mul (fun _ => True) (Neon_u32.inst E).mul (Neon_u32.inst E).mul_dense :=
  lanewise2_of_map2 (by decide) (by decide) (by decide) _ _ (fun _ _ => rfl) _ rfl
theorem max (E : Env) : Lanewise2 4 (xlanes 32) (uintSpec 32).cmpMax (fun _ => True) (Neon_u32.inst E).max (Neon_u32.inst E).max_dense :=
  lanewise2_of_map2 (by decide) (by decide) (by decide) _ _ (fun _ _ => rfl) _ rfl
theorem min (E : Env) : Lanewise2 4 (xlanes 32) (uintSpec 32).cmpMin (fun _ => True) (Neon_u32.inst E).min (Neon_u32.inst E).min_dense :=
  lanewise2_of_map2 (by decide) (by decide) (by decide) _ _ (fun _ _ => rfl) _ rfl
/-- integer division: `AutoMath::div` (the wrapping division) in every lane, for divisors it does not panic on -/
theorem div (E : Env) : Lanewise2 4 (xlanes 32) (uintSpec 32).div (fun y => (uintSpec 32).divOk y = true) (Neon_u32.inst E).div (Neon_u32.inst E).div_dense :=
  lanewise2_of_opLoop (by decide) (by decide) (by decide) (U32.lit 0) (AutoMath_u32 E).div _ (fun y => (uintSpec 32).divOk y = true)
    (fun x y h => (C18.auto_u32 E).div_ok x y h) _ (fun _ _ => rfl) _ rfl
theorem fmadd (E : Env) : Lanewise3 4 (xlanes 32) (fun x y acc => (uintSpec 32).add ((uintSpec 32).mul x y) acc) (Neon_u32.inst E).fmadd (Neon_u32.inst E).fmadd_dense :=
  lanewise3_of_mul_add (mul E) (add E) (fun _ _ _ => rfl) (fun _ _ _ => rfl)
theorem zeroed_dense_ok (E : Env) : ∃ d, (Neon_u32.inst E).zeroed_dense = pure d ∧ ∀ k, k < 4 * 8 → dlanes 4 (xlanes 32) d k = (uintSpec 32).zero :=
  zeroed_dense_of_filled (E := E) (by decide) _ (bcast E) rfl rfl
theorem sum_to_value (E : Env) (r : BitVec 128) : (Neon_u32.inst E).sum_to_value r = pure ((X86.reduceOrdered (· + ·) (0 : BitVec 32) 4) (xlanes 32 r)) := rfl
theorem hsum_eq (f : Nat → BitVec 32) : (X86.reduceOrdered (· + ·) (0 : BitVec 32) 4) f = sumR (uintSpec 32).add (uintSpec 32).zero f 4 := reduceOrdered_eq_sumR (0 : BitVec 32) 4 f
theorem sumFold (E : Env) : FoldFaithful 4 (xlanes 32) (uintSpec 32).add (X86.reduceOrdered (· + ·) (0 : BitVec 32) 4) (Neon_u32.inst E).sum_to_register (Neon_u32.inst E).sum_to_value :=
  foldFaithful_of (add E) _ _ _ rfl (sum_to_value E)
theorem max_to_value (E : Env) (r : BitVec 128) : (Neon_u32.inst E).max_to_value r = pure ((X86.reduceOrdered IntPrim.umax (0 : BitVec 32) 4) (xlanes 32 r)) := rfl
theorem hmax_eq (f : Nat → BitVec 32) : (X86.reduceOrdered IntPrim.umax (0 : BitVec 32) 4) f = sumR (uintSpec 32).cmpMax (uintSpec 32).minVal f 4 := reduceOrdered_eq_sumR (0 : BitVec 32) 4 f
theorem min_to_value (E : Env) (r : BitVec 128) : (Neon_u32.inst E).min_to_value r = pure ((X86.reduceOrdered IntPrim.umin (BitVec.allOnes 32) 4) (xlanes 32 r)) := rfl
theorem hmin_eq (f : Nat → BitVec 32) : (X86.reduceOrdered IntPrim.umin (BitVec.allOnes 32) 4) f = sumR (uintSpec 32).cmpMin (uintSpec 32).maxVal f 4 := reduceOrdered_eq_sumR (BitVec.allOnes 32) 4 f
theorem maxFold (E : Env) : FoldFaithful 4 (xlanes 32) (uintSpec 32).cmpMax (X86.reduceOrdered IntPrim.umax (0 : BitVec 32) 4) (Neon_u32.inst E).max_to_register (Neon_u32.inst E).max_to_value :=
  foldFaithful_of (max E) _ _ _ rfl (max_to_value E)
theorem minFold (E : Env) : FoldFaithful 4 (xlanes 32) (uintSpec 32).cmpMin (X86.reduceOrdered IntPrim.umin (BitVec.allOnes 32) 4) (Neon_u32.inst E).min_to_register (Neon_u32.inst E).min_to_value :=
  foldFaithful_of (min E) _ _ _ rfl (min_to_value E)
/-- **C13 on `Neon` × `u32`**: the complete lane-wise contract -/
theorem arith (E : Env) : ArithFaithful (Neon_u32.inst E) 4 (xlanes 32) (uintSpec 32) :=
  ⟨mem E, bcast E, add E, sub E, mul E, div E, max E, min E⟩
theorem reduce (E : Env) : ReduceFaithful (Neon_u32.inst E) 4 (xlanes 32) (uintSpec 32)
    (fun x y acc => (uintSpec 32).add ((uintSpec 32).mul x y) acc) (X86.reduceOrdered (· + ·) (0 : BitVec 32) 4) (X86.reduceOrdered IntPrim.umax (0 : BitVec 32) 4) (X86.reduceOrdered IntPrim.umin (BitVec.allOnes 32) 4) :=
  ⟨zeroed_dense_ok E, fmadd E, sumFold E, maxFold E, minFold E⟩
theorem hsum_is_sum (f : Nat → BitVec 32) : (X86.reduceOrdered (· + ·) (0 : BitVec 32) 4) f = sumR (uintSpec 32).add (uintSpec 32).zero f 4 := hsum_eq f
theorem hmax_is_max (f : Nat → BitVec 32) : (X86.reduceOrdered IntPrim.umax (0 : BitVec 32) 4) f = sumR (uintSpec 32).cmpMax (uintSpec 32).minVal f 4 := hmax_eq f
theorem hmin_is_min (f : Nat → BitVec 32) : (X86.reduceOrdered IntPrim.umin (BitVec.allOnes 32) 4) f = sumR (uintSpec 32).cmpMin (uintSpec 32).maxVal f 4 := hmin_eq f
end Neon_u32

namespace Neon_u64
theorem core (E : Env) : CoreFaithful (Neon_u64.inst E) 2 (xlanes 64) :=
  core_of_x86 (by decide) (by decide) (by decide) (by decide) _ rfl (fun _ _ => rfl) (fun _ _ _ => rfl)
theorem usesDefaults (E : Env) : UsesDefaultMem E (Neon_u64.inst E) := ⟨rfl, rfl, rfl⟩
theorem mem (E : Env) : MemFaithful (Neon_u64.inst E) 2 (xlanes 64) := memFaithful_of_defaults (core E) (usesDefaults E)
theorem bcast (E : Env) : BroadcastFaithful (Neon_u64.inst E) 2 (xlanes 64) :=
  bcast_of_x86 (E := E) (by decide) (by decide) (by decide) _ (fun _ => rfl) rfl
theorem add (E : Env) : Lanewise2 2 (xlanes 64) (uintSpec 64).add (fun _ => True) (Neon_u64.inst E).add (Neon_u64.inst E).add_dense :=
  lanewise2_of_map2 (by decide) (by decide) (by decide) _ _ (fun _ _ => rfl) _ rfl
theorem sub (E : Env) : Lanewise2 2 (xlanes 64) (uintSpec 64).sub (fun _ => True) (Neon_u64.inst E).sub (Neon_u64.inst E).sub_dense :=
  lanewise2_of_map2 (by decide) (by decide) (by decide) _ _ (fun _ _ => rfl) _ rfl
/-- 64-bit multiply: the scalar `AutoMath::mul` (wrapping) in both lanes -/
theorem mul (E : Env) : Lanewise2 2 (xlanes 64) (uintSpec 64).mul (fun _ => True) (Neon_u64.inst E).mul (Neon_u64.inst E).mul_dense :=
  lanewise2_of_opLoop (by decide) (by decide) (by decide) (U64.lit 0) (AutoMath_u64 E).mul _ (fun _ => True)
    (fun x y _ => (C18.auto_u64 E).mul x y) _ (fun _ _ => rfl) _ rfl
/-- 64-bit max: `core::cmp::max` in both lanes -/
theorem max (E : Env) : Lanewise2 2 (xlanes 64) (uintSpec 64).cmpMax (fun _ => True) (Neon_u64.inst E).max (Neon_u64.inst E).max_dense :=
  lanewise2_of_opLoop (by decide) (by decide) (by decide) (U64.lit 0) (fun x y => pure (U64.max E x y)) _ (fun _ => True)
    (fun _ _ _ => rfl) _ (fun _ _ => rfl) _ rfl
/-- 64-bit min: `core::cmp::min` in both lanes -/
theorem min (E : Env) : Lanewise2 2 (xlanes 64) (uintSpec 64).cmpMin (fun _ => True) (Neon_u64.inst E).min (Neon_u64.inst E).min_dense :=
  lanewise2_of_opLoop (by decide) (by decide) (by decide) (U64.lit 0) (fun x y => pure (U64.min E x y)) _ (fun _ => True)
    (fun _ _ _ => rfl) _ (fun _ _ => rfl) _ rfl
/-- integer division: `AutoMath::div` (the wrapping division) in every lane, for divisors it does not panic on -/
theorem div (E : Env) : Lanewise2 2 (xlanes 64) (uintSpec 64).div (fun y => (uintSpec 64).divOk y = true) (Neon_u64.inst E).div (Neon_u64.inst E).div_dense :=
  lanewise2_of_opLoop (by decide) (by decide) (by decide) (U64.lit 0) (AutoMath_u64 E).div _ (fun y => (uintSpec 64).divOk y = true)
    (fun x y h => (C18.auto_u64 E).div_ok x y h) _ (fun _ _ => rfl) _ rfl
theorem fmadd (E : Env) : Lanewise3 2 (xlanes 64) (fun x y acc => (uintSpec 64).add ((uintSpec 64).mul x y) acc) (Neon_u64.inst E).fmadd (Neon_u64.inst E).fmadd_dense :=
  lanewise3_of_mul_add (mul E) (add E) (fun _ _ _ => rfl) (fun _ _ _ => rfl)
theorem zeroed_dense_ok (E : Env) : ∃ d, (Neon_u64.inst E).zeroed_dense = pure d ∧ ∀ k, k < 2 * 8 → dlanes 2 (xlanes 64) d k = (uintSpec 64).zero :=
  zeroed_dense_of_filled (E := E) (by decide) _ (bcast E) rfl rfl
theorem sum_to_value (E : Env) (r : BitVec 128) : (Neon_u64.inst E).sum_to_value r = pure ((X86.reduceOrdered (· + ·) (0 : BitVec 64) 2) (xlanes 64 r)) := rfl
theorem hsum_eq (f : Nat → BitVec 64) : (X86.reduceOrdered (· + ·) (0 : BitVec 64) 2) f = sumR (uintSpec 64).add (uintSpec 64).zero f 2 := reduceOrdered_eq_sumR (0 : BitVec 64) 2 f
theorem sumFold (E : Env) : FoldFaithful 2 (xlanes 64) (uintSpec 64).add (X86.reduceOrdered (· + ·) (0 : BitVec 64) 2) (Neon_u64.inst E).sum_to_register (Neon_u64.inst E).sum_to_value :=
  foldFaithful_of (add E) _ _ _ rfl (sum_to_value E)
theorem max_to_value (E : Env) (r : BitVec 128) : (Neon_u64.inst E).max_to_value r = pure ((fun f : Nat → BitVec 64 => IntPrim.umax (f 0) (f 1)) (xlanes 64 r)) := by
  show Cfavml.Neon_u64.max_to_value E r = _
  unfold Cfavml.Neon_u64.max_to_value
  simp (config := {decide := true}) [unpackLanes, xlanes]
theorem hmax_eq (f : Nat → BitVec 64) : (fun f : Nat → BitVec 64 => IntPrim.umax (f 0) (f 1)) f = sumR (uintSpec 64).cmpMax (uintSpec 64).minVal f 2 := by
  show _ = IntPrim.umax (IntPrim.umax (0 : BitVec 64) (f 0)) (f 1)
  rw [(umax_monoid 64).id_left]
theorem min_to_value (E : Env) (r : BitVec 128) : (Neon_u64.inst E).min_to_value r = pure ((fun f : Nat → BitVec 64 => IntPrim.umin (f 0) (f 1)) (xlanes 64 r)) := by
  show Cfavml.Neon_u64.min_to_value E r = _
  unfold Cfavml.Neon_u64.min_to_value
  simp (config := {decide := true}) [unpackLanes, xlanes]
theorem hmin_eq (f : Nat → BitVec 64) : (fun f : Nat → BitVec 64 => IntPrim.umin (f 0) (f 1)) f = sumR (uintSpec 64).cmpMin (uintSpec 64).maxVal f 2 := by
  show _ = IntPrim.umin (IntPrim.umin (BitVec.allOnes 64) (f 0)) (f 1)
  rw [(umin_monoid 64).id_left]
theorem maxFold (E : Env) : FoldFaithful 2 (xlanes 64) (uintSpec 64).cmpMax (fun f : Nat → BitVec 64 => IntPrim.umax (f 0) (f 1)) (Neon_u64.inst E).max_to_register (Neon_u64.inst E).max_to_value :=
  foldFaithful_of (max E) _ _ _ rfl (max_to_value E)
theorem minFold (E : Env) : FoldFaithful 2 (xlanes 64) (uintSpec 64).cmpMin (fun f : Nat → BitVec 64 => IntPrim.umin (f 0) (f 1)) (Neon_u64.inst E).min_to_register (Neon_u64.inst E).min_to_value :=
  foldFaithful_of (min E) _ _ _ rfl (min_to_value E)
/-- **C13 on `Neon` × `u64`**: the complete lane-wise contract -/
theorem arith (E : Env) : ArithFaithful (Neon_u64.inst E) 2 (xlanes 64) (uintSpec 64) :=
  ⟨mem E, bcast E, add E, sub E, mul E, div E, max E, min E⟩
theorem reduce (E : Env) : ReduceFaithful (Neon_u64.inst E) 2 (xlanes 64) (uintSpec 64)
    (fun x y acc => (uintSpec 64).add ((uintSpec 64).mul x y) acc) (X86.reduceOrdered (· + ·) (0 : BitVec 64) 2) (fun f : Nat → BitVec 64 => IntPrim.umax (f 0) (f 1)) (fun f : Nat → BitVec 64 => IntPrim.umin (f 0) (f 1)) :=
  ⟨zeroed_dense_ok E, fmadd E, sumFold E, maxFold E, minFold E⟩
theorem hsum_is_sum (f : Nat → BitVec 64) : (X86.reduceOrdered (· + ·) (0 : BitVec 64) 2) f = sumR (uintSpec 64).add (uintSpec 64).zero f 2 := hsum_eq f
theorem hmax_is_max (f : Nat → BitVec 64) : (fun f : Nat → BitVec 64 => IntPrim.umax (f 0) (f 1)) f = sumR (uintSpec 64).cmpMax (uintSpec 64).minVal f 2 := hmax_eq f
theorem hmin_is_min (f : Nat → BitVec 64) : (fun f : Nat → BitVec 64 => IntPrim.umin (f 0) (f 1)) f = sumR (uintSpec 64).cmpMin (uintSpec 64).maxVal f 2 := hmin_eq f
end Neon_u64

end Cfavml.Thm.C13Neon
