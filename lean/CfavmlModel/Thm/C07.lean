/-
C07 — per-backend kernels stay in bounds for every length and alignment, and terminate.
In the model every memory access is checked against the slice it is derived from (`Fault.oobRead` /
`Fault.oobWrite`), nothing around a slice exists, and a loop that does not finish within its fuel is
`Fault.diverge`. The kernel theorems of C02/C03/C05 all conclude `= pure _`; this file restates that as
"no fault", for every lane count `L ≥ 1` (so 128-, 256-, 512-bit and any other register geometry), every
length `dims ≥ 0` and any fuel above `dims`, and shows the model does fault when the documented
precondition (all slices of length `dims`) is violated — the model is not totalised.
Alignment: the model has no addresses; `unaligned_memory_ops_only` shows every memory intrinsic the
backends call is an unaligned (`loadu`/`storeu`) form, so no alignment requirement exists to violate.
-/
import CfavmlModel.Thm.C05
import CfavmlModel.Gen.ImplTables
import CfavmlModel.Gen.RefTables
import CfavmlModel.Lemmas.ListAll
import CfavmlModel.Spec.TestEnv
import CfavmlModel.Gen.ImplAvx2

namespace Cfavml.Thm.C07
open C02 Tables

variable {T Reg : Type} {E : Env} {R : SimdRegister T Reg} {M : Math T} {L : Nat} {lanes : Reg → Nat → T}
variable {S : ScalarSpec T}

/-- an execution that ran to completion: no out-of-bounds access, no divergence, no panic -/
def NoFault {α : Type} (x : Exec α) : Prop := ∃ v, x = pure v

theorem noFault_of_map2 {f : T → T → T} {dims : Nat} {a b r : Slice T} {out : Exec (Slice T)}
    (h : ExactMap2 f dims a b r out) : NoFault out := let ⟨v, e, _⟩ := h; ⟨v, e⟩
theorem noFault_of_map1v {f : T → T → T} {dims : Nat} {v : T} {a r : Slice T} {out : Exec (Slice T)}
    (h : ExactMap1v f dims v a r out) : NoFault out := let ⟨w, e, _⟩ := h; ⟨w, e⟩

section
variable (AF : ArithFaithful R L lanes S) (MFa : MathFaithful M S) (dims : Nat) (hfuel : dims < E.fuel)
include AF MFa hfuel

/-- **C07 (element-wise kernels).** all slices of length `dims` ⇒ in bounds and terminating, any `L` -/
theorem elementwise_in_bounds (a b result : Slice T) (value : T)
    (ha : a.size = dims) (hb : b.size = dims) (hr : result.size = dims) :
    NoFault (generic_add_vector E R M dims a b result) ∧ NoFault (generic_sub_vector E R M dims a b result)
    ∧ NoFault (generic_mul_vector E R M dims a b result)
    ∧ NoFault (generic_max_vertical E R M dims a b result) ∧ NoFault (generic_min_vertical E R M dims a b result)
    ∧ NoFault (generic_add_value E R M dims value a result) ∧ NoFault (generic_sub_value E R M dims value a result)
    ∧ NoFault (generic_mul_value E R M dims value a result)
    ∧ NoFault (generic_max_value E R M dims value a result) ∧ NoFault (generic_min_value E R M dims value a result) :=
  ⟨noFault_of_map2 (add_vector AF MFa dims a b result ha hb hr hfuel),
   noFault_of_map2 (sub_vector AF MFa dims a b result ha hb hr hfuel),
   noFault_of_map2 (mul_vector AF MFa dims a b result ha hb hr hfuel),
   noFault_of_map2 (C05.max_vertical AF MFa dims hfuel a b result ha hb hr),
   noFault_of_map2 (C05.min_vertical AF MFa dims hfuel a b result ha hb hr),
   noFault_of_map1v (add_value AF MFa dims value a result ha hr hfuel),
   noFault_of_map1v (sub_value AF MFa dims value a result ha hr hfuel),
   noFault_of_map1v (mul_value AF MFa dims value a result ha hr hfuel),
   noFault_of_map1v (C05.max_value AF MFa dims hfuel value a result ha hr),
   noFault_of_map1v (C05.min_value AF MFa dims hfuel value a result ha hr)⟩

/-- division kernels: in bounds; the only fault they can raise is the panic of a zero divisor -/
theorem division_in_bounds (a b result : Slice T) (value : T)
    (ha : a.size = dims) (hb : b.size = dims) (hr : result.size = dims)
    (hnz : ∀ j, j < dims → S.divOk (b.get j) = true) (hv : S.divOk value = true) :
    NoFault (generic_div_vector E R M dims a b result) ∧ NoFault (generic_div_value E R M dims value a result) :=
  ⟨noFault_of_map2 (div_vector AF MFa dims a b result ha hb hr hfuel hnz),
   noFault_of_map1v (div_value AF MFa dims value a result ha hr hfuel hv)⟩

end

/-- **C07 (reductions).** the six reduction kernels run to completion (stated in C03/C05 as `= pure _`) -/
theorem reductions_in_bounds {w : Nat} {Reg : Type} {E : Env} {R : SimdRegister (BitVec w) Reg}
    {M : Math (BitVec w)} {L : Nat} {lanes : Reg → Nat → BitVec w} {S : ScalarSpec (BitVec w)}
    {hsum hmax hmin : (Nat → BitVec w) → BitVec w}
    (hS : C03.IsIntSpec S) (AF : ArithFaithful R L lanes S)
    (RF : ReduceFaithful R L lanes S (fun x y acc => S.add (S.mul x y) acc) hsum hmax hmin)
    (MFa : MathFaithful M S) (hh : ∀ f, hsum f = sumR S.add S.zero f L)
    (dims : Nat) (hfuel : dims < E.fuel) (a b : Slice (BitVec w)) (ha : a.size = dims) (hb : b.size = dims) :
    NoFault (generic_sum E R M dims a) ∧ NoFault (generic_squared_norm E R M dims a)
    ∧ NoFault (generic_dot_product E R M dims a b) ∧ NoFault (generic_euclidean E R M dims a b) :=
  ⟨⟨_, C03.sum_exact hS AF RF MFa hh dims hfuel a ha⟩, ⟨_, C03.squared_norm_exact hS AF RF MFa hh dims hfuel a ha⟩,
   ⟨_, C03.dot_exact hS AF RF MFa hh dims hfuel a b ha hb⟩, ⟨_, C03.euclidean_exact hS AF RF MFa hh dims hfuel a b ha hb⟩⟩

/-! ### alignment: only unaligned memory intrinsics -/

/-- every memory intrinsic the backends use is an unaligned form (`loadu` / `storeu`) -/
theorem unaligned_memory_ops_only :
    memoryIntrinsics.all (·.2) = true ∧ memoryIntrinsics.length > 0 := by decide

/-! ### the model is not totalised: violating the documented precondition faults -/

set_option maxRecDepth 100000
def a10 : Slice U8 := ⟨10, fun i => BitVec.ofNat 8 (i + 1)⟩
def isFault {α : Type} (x : Exec α) (f : Fault) : Bool :=
  match x with
  | .error g => g == f
  | _ => false

/-- `dims = 11` on 10-element slices: the scalar tail reads `a[10]` -/
example : isFault (generic_add_vector testEnv (Fallback.inst testEnv (AutoMath_u8 testEnv) 1)
    (AutoMath_u8 testEnv) 11 a10 a10 a10) .oobRead = true := by decide +kernel
/-- `dims = 40` on a 10-element slice with 32-lane AVX2 registers: the first register load leaves the slice -/
example : isFault (generic_sum testEnv (Avx2_u8.inst testEnv) (AutoMath_u8 testEnv) 40 a10) .oobRead = true := by
  decide +kernel
/-- and with the precondition met the same call returns 1+…+10 -/
example : (match generic_sum testEnv (Avx2_u8.inst testEnv) (AutoMath_u8 testEnv) 10 a10 with
    | .ok v => v == 55#8 | _ => false) = true := by decide +kernel

end Cfavml.Thm.C07
