/-
C13 — the register abstraction is lane-wise faithful to scalar arithmetic.
* Fallback (`Thm.C13Fallback`): every method, every element type, proved (one lane per register).
* AVX2 / AVX-512 (`Thm.C13X86`, 189 instance theorems): for all 10 element types the memory methods
  (load/store round trip, exact range, faults exactly outside the slice), the lane count, the broadcast, the
  dense memory forms, every operation that is a single lane-wise intrinsic (add, sub, float mul/div,
  16/32-bit (and AVX-512 64-bit) multiply, all 8/16/32-bit (and AVX-512 64-bit) max/min), the integer division
  loop, and every default dense form (= the single form on the eight fields) — for ALL operand values.
  Assembled below into the full element-wise contract `ArithFaithful` for the types where every operation
  is covered: AVX2 × {i16,i32,u16,u32}, AVX-512 × {i16,i32,i64,u16,u32}.
* Not yet proved (covered on the real CPU by the register-level correspondence run of this check, all
  operand classes, every method): the composite multiplies (8-bit via 16-bit products, AVX2 64-bit via 32-bit
  partial products), AVX2 64-bit max/min (cmpgt + blend), float max/min against the *Rust* `f32::max`
  semantics (the x86 lane semantics `X86.fmax32` is what is proved), `fmadd`, and the horizontal folds.
-/
import CfavmlModel.Thm.C13X86
import CfavmlModel.Thm.C02

namespace Cfavml.Thm.C13
open C13X86

/-- **C13 (Fallback).** the complete contract, for every element type and math dictionary -/
theorem fallback_faithful (E : Env) {T : Type} (AM : Math T) (S : ScalarSpec T) (sz : Nat) (hsz : 0 < sz)
    (MFa : MathFaithful AM S) :
    ArithFaithful (Fallback.inst E AM sz) 1 C13Fallback.lanes1 S
    ∧ ReduceFaithful (Fallback.inst E AM sz) 1 C13Fallback.lanes1 S (fun x y acc => S.add (S.mul x y) acc)
        C13Fallback.hfold1 C13Fallback.hfold1 C13Fallback.hfold1 :=
  ⟨C02.fallback_arith E AM S sz hsz MFa, C13Fallback.reduce E AM sz MFa⟩

/-! ### AVX2 -/
theorem avx2_i16 (E : Env) : ArithFaithful (Avx2_i16.inst E) 16 (xlanes 16) (sintSpec 16) :=
  ⟨C13X86.Avx2_i16.mem E, C13X86.Avx2_i16.bcast E, C13X86.Avx2_i16.add E, C13X86.Avx2_i16.sub E, C13X86.Avx2_i16.mul E, C13X86.Avx2_i16.div E, C13X86.Avx2_i16.max E, C13X86.Avx2_i16.min E⟩
theorem avx2_i32 (E : Env) : ArithFaithful (Avx2_i32.inst E) 8 (xlanes 32) (sintSpec 32) :=
  ⟨C13X86.Avx2_i32.mem E, C13X86.Avx2_i32.bcast E, C13X86.Avx2_i32.add E, C13X86.Avx2_i32.sub E, C13X86.Avx2_i32.mul E, C13X86.Avx2_i32.div E, C13X86.Avx2_i32.max E, C13X86.Avx2_i32.min E⟩
theorem avx2_u16 (E : Env) : ArithFaithful (Avx2_u16.inst E) 16 (xlanes 16) (uintSpec 16) :=
  ⟨C13X86.Avx2_u16.mem E, C13X86.Avx2_u16.bcast E, C13X86.Avx2_u16.add E, C13X86.Avx2_u16.sub E, C13X86.Avx2_u16.mul E, C13X86.Avx2_u16.div E, C13X86.Avx2_u16.max E, C13X86.Avx2_u16.min E⟩
theorem avx2_u32 (E : Env) : ArithFaithful (Avx2_u32.inst E) 8 (xlanes 32) (uintSpec 32) :=
  ⟨C13X86.Avx2_u32.mem E, C13X86.Avx2_u32.bcast E, C13X86.Avx2_u32.add E, C13X86.Avx2_u32.sub E, C13X86.Avx2_u32.mul E, C13X86.Avx2_u32.div E, C13X86.Avx2_u32.max E, C13X86.Avx2_u32.min E⟩

/-! ### AVX-512 -/
theorem avx512_i16 (E : Env) : ArithFaithful (Avx512_i16.inst E) 32 (xlanes 16) (sintSpec 16) :=
  ⟨C13X86.Avx512_i16.mem E, C13X86.Avx512_i16.bcast E, C13X86.Avx512_i16.add E, C13X86.Avx512_i16.sub E, C13X86.Avx512_i16.mul E, C13X86.Avx512_i16.div E, C13X86.Avx512_i16.max E, C13X86.Avx512_i16.min E⟩
theorem avx512_i32 (E : Env) : ArithFaithful (Avx512_i32.inst E) 16 (xlanes 32) (sintSpec 32) :=
  ⟨C13X86.Avx512_i32.mem E, C13X86.Avx512_i32.bcast E, C13X86.Avx512_i32.add E, C13X86.Avx512_i32.sub E, C13X86.Avx512_i32.mul E, C13X86.Avx512_i32.div E, C13X86.Avx512_i32.max E, C13X86.Avx512_i32.min E⟩
theorem avx512_i64 (E : Env) : ArithFaithful (Avx512_i64.inst E) 8 (xlanes 64) (sintSpec 64) :=
  ⟨C13X86.Avx512_i64.mem E, C13X86.Avx512_i64.bcast E, C13X86.Avx512_i64.add E, C13X86.Avx512_i64.sub E, C13X86.Avx512_i64.mul E, C13X86.Avx512_i64.div E, C13X86.Avx512_i64.max E, C13X86.Avx512_i64.min E⟩
theorem avx512_u16 (E : Env) : ArithFaithful (Avx512_u16.inst E) 32 (xlanes 16) (uintSpec 16) :=
  ⟨C13X86.Avx512_u16.mem E, C13X86.Avx512_u16.bcast E, C13X86.Avx512_u16.add E, C13X86.Avx512_u16.sub E, C13X86.Avx512_u16.mul E, C13X86.Avx512_u16.div E, C13X86.Avx512_u16.max E, C13X86.Avx512_u16.min E⟩
theorem avx512_u32 (E : Env) : ArithFaithful (Avx512_u32.inst E) 16 (xlanes 32) (uintSpec 32) :=
  ⟨C13X86.Avx512_u32.mem E, C13X86.Avx512_u32.bcast E, C13X86.Avx512_u32.add E, C13X86.Avx512_u32.sub E, C13X86.Avx512_u32.mul E, C13X86.Avx512_u32.div E, C13X86.Avx512_u32.max E, C13X86.Avx512_u32.min E⟩

/-! ### consequences: the element-wise kernels on the real x86 backends (no remaining hypothesis) -/

/-- `i32_xany_avx2_nofma_mul_vector`: exact wrapping product in every position, every length -/
theorem i32_avx2_mul_vector (E : Env) (a b result : Slice I32) (hb : b.size = a.size) (hr : result.size = a.size)
    (hfuel : a.size < E.fuel) :
    C02.ExactMap2 (· * ·) a.size a b result
      (generic_mul_vector E (Avx2_i32.inst E) (AutoMath_i32 E) a.size a b result) :=
  C02.mul_vector (avx2_i32 E) (C18.auto_i32 E) a.size a b result rfl hb hr hfuel

/-- `u16_xany_avx512_nofma_div_value`: exact truncating quotient for a non-zero divisor -/
theorem u16_avx512_div_value (E : Env) (value : U16) (hv : value ≠ 0) (a result : Slice U16)
    (hr : result.size = a.size) (hfuel : a.size < E.fuel) :
    C02.ExactMap1v (· / ·) a.size value a result
      (generic_div_value E (Avx512_u16.inst E) (AutoMath_u16 E) a.size value a result) :=
  C02.div_value (avx512_u16 E) (C18.auto_u16 E) a.size value a result rfl hr hfuel (by simpa [uintSpec] using hv)

/-- `f32_xany_avx2_nofma_add_vector` (default math): the IEEE addition primitive, bit for bit, in every
position, for every length — from the memory and `add` contracts alone -/
theorem f32_avx2_add_vector (E : Env) (hn : E.feat_nightly = false) (a b result : Slice F32)
    (hb : b.size = a.size) (hr : result.size = a.size) (hfuel : a.size < E.fuel) :
    C02.ExactMap2 E.F.add32 a.size a b result
      (generic_add_vector E (Avx2_f32.inst E) (AutoMath_f32 E) a.size a b result) := by
  rw [Shapes.add_vector]
  have hm := C18.auto_f32 E
  exact map2T_spec (C13X86.Avx2_f32.mem E) (C13X86.Avx2_f32.add E)
    (fun x y _ => by rw [hm.add]; simp [f32Spec, hn]) true a.size a b result rfl hb hr (fun _ _ => trivial) hfuel

/-- `f64_xany_avx512_nofma_div_vector` (default math): IEEE division, bit for bit -/
theorem f64_avx512_div_vector (E : Env) (hn : E.feat_nightly = false) (a b result : Slice F64)
    (hb : b.size = a.size) (hr : result.size = a.size) (hfuel : a.size < E.fuel) :
    C02.ExactMap2 E.F.div64 a.size a b result
      (generic_div_vector E (Avx512_f64.inst E) (AutoMath_f64 E) a.size a b result) := by
  rw [Shapes.div_vector]
  have hm := C18.auto_f64 E
  exact map2T_spec (C13X86.Avx512_f64.mem E) (C13X86.Avx512_f64.div E)
    (fun x y _ => by rw [hm.div_ok x y rfl]; simp [f64Spec, hn]) true a.size a b result rfl hb hr (fun _ _ => trivial) hfuel

/-- non-vacuity: the lane view is not degenerate — lane 3 of a register built from lanes is lane 3 -/
example : xlanes 32 (fromLanes (n := 256) 32 8 (fun k => BitVec.ofNat 32 (k + 10))) 3 = 13#32 := by decide

end Cfavml.Thm.C13
