/-
`LaneFaithful`: the full contract of property C13 for the element-wise operations — a backend whose
memory methods and six binary operations are lane-wise faithful to the scalar specification `S`.
-/
import CfavmlModel.Spec.Lanes
import CfavmlModel.Spec.Scalar

namespace Cfavml

structure ArithFaithful {T Reg : Type} (R : SimdRegister T Reg) (L : Nat) (lanes : Reg → Nat → T)
    (S : ScalarSpec T) : Prop where
  mem : MemFaithful R L lanes
  bcast : BroadcastFaithful R L lanes
  add : Lanewise2 L lanes S.add (fun _ => True) R.add R.add_dense
  sub : Lanewise2 L lanes S.sub (fun _ => True) R.sub R.sub_dense
  mul : Lanewise2 L lanes S.mul (fun _ => True) R.mul R.mul_dense
  div : Lanewise2 L lanes S.div (fun y => S.divOk y = true) R.div R.div_dense
  max : Lanewise2 L lanes S.cmpMax (fun _ => True) R.max R.max_dense
  min : Lanewise2 L lanes S.cmpMin (fun _ => True) R.min R.min_dense

/-- the contract for the horizontal reductions: zeroed accumulators, multiply-add with the lane function
`fm` (`acc + x*y` unfused, or the fused `fma x y acc`), and the three roll-up / fold pairs -/
structure ReduceFaithful {T Reg : Type} (R : SimdRegister T Reg) (L : Nat) (lanes : Reg → Nat → T)
    (S : ScalarSpec T) (fm : T → T → T → T) (hsum hmax hmin : (Nat → T) → T) : Prop where
  zeroed_dense_ok : ∃ d, R.zeroed_dense = pure d ∧ ∀ k, k < L * 8 → dlanes L lanes d k = S.zero
  fmadd : Lanewise3 L lanes fm R.fmadd R.fmadd_dense
  sum : FoldFaithful L lanes S.add hsum R.sum_to_register R.sum_to_value
  max : FoldFaithful L lanes S.cmpMax hmax R.max_to_register R.max_to_value
  min : FoldFaithful L lanes S.cmpMin hmin R.min_to_register R.min_to_value

end Cfavml
