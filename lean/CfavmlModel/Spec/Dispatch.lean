/-
Hand-written specification of runtime dispatch (C09) and the semantics given to the extracted
`dispatch!` body.
-/
import CfavmlModel.Spec.Names

namespace Cfavml
namespace Spec
open Tables

/-- what the four availability checks of dispatch.rs answer -/
structure Avail where
  avx512 : Bool
  avx2 : Bool
  fma : Bool
  neon : Bool
  deriving Repr

def Avail.guard (av : Avail) : Guard → Bool
  | .is_avx512_available => av.avx512
  | .is_avx2_available => av.avx2
  | .is_fma_available => av.fma
  | .is_neon_available => av.neon

/-- Semantics of the extracted macro body: the candidates are tested in order, each is
`#[cfg] if guards { return slot(..) }`, and control reaches the fallback call only if none returned.
(Justified by the extraction flags `condIsGuardConjunction`, `returnsCall`, `dispatchTrailingTokens = 0`.) -/
def selectedBy (cands : List DispatchCand) (fb : Slot) (b : Build) (supplied : Slot → Bool)
    (av : Avail) : Slot :=
  match cands.find? (fun c => supplied c.label && c.cfg.eval b && c.guards.all av.guard) with
  | some c => c.label
  | none => fb

/-- The documented contract: a slot can be used when its backend is compiled in and every CPU feature it
needs is available. -/
def slotUsable (b : Build) (av : Avail) : Slot → Bool
  | .avx512 => isX86 b.arch && b.features.contains .nightly && av.avx512
  | .avx2fma => isX86 b.arch && av.avx2 && av.fma
  | .avx2 => isX86 b.arch && av.avx2
  | .neon => b.arch == .aarch64 && av.neon
  | .fallback => true

/-- documented priority order -/
def priority : List Slot := [.avx512, .avx2fma, .avx2, .neon]

def specSelected (b : Build) (supplied : Slot → Bool) (av : Avail) : Slot :=
  (priority.find? (fun s => supplied s && slotUsable b av s)).getD .fallback

def suppliedOf (s1 s2 s3 s4 : Bool) : Slot → Bool
  | .avx512 => s1 | .avx2fma => s2 | .avx2 => s3 | .neon => s4 | .fallback => true

/-- register backend a dispatch slot must be wired to, for an element type and operation: the AVX2+FMA
slot takes the fused routine when one exists for (type, operation) and the plain AVX2 routine otherwise -/
def regOfSlot (s : Slot) (ty : ElemTy) (op : Kernel) : RegName :=
  match s with
  | .avx512 => .Avx512
  | .avx2fma => if reallyFuses .Avx2Fma ty op then .Avx2Fma else .Avx2
  | .avx2 => .Avx2
  | .neon => .Neon
  | .fallback => .Fallback

def lookupBinding (bs : List (Slot × Form × List Tok)) (s : Slot) (f : Form) : Option (List Tok) :=
  (bs.find? (fun x => x.1 == s && x.2.1 == f)).map (·.2.2)

/-- the kernel a safe row is about, recovered from its public name -/
def kernelOfSafeRow (r : SafeRow) : Option Kernel :=
  allKernels.find? (fun k => safeName r.ty .xconst k == some r.constName && safeName r.ty .xany k == some r.anyName)

def safeArmOk (r : SafeRow) (op : Kernel) (arm : SafeArmFn) : Bool :=
  arm.constDims == (arm.form == .xconst)
  && arm.otherStmts == 0
  && arm.returnsValue == (kindOfKernel op == .reduce1 || kindOfKernel op == .reduce2)
  && arm.slots.all (fun s =>
      -- the metavariable used in a slot is the one named after that slot and this form
      s.fnVarSlot == s.label && s.fnVarForm == arm.form
      -- and the invocation binds it to the routine of that backend for the same type, form and operation
      && lookupBinding r.bindings s.label arm.form == routineName r.ty arm.form (regOfSlot s.label r.ty op) op
      -- arguments are handed on in parameter order, DIMS exactly in the xconst form
      && s.args == arm.params.map (·.1)
      && s.passesDims == arm.constDims)
  -- the mandatory fallback slot is present
  && arm.slots.any (fun s => s.label == .fallback)
  -- every routine the invocation supplies for this form is offered to the dispatcher (a template that forgets an
  -- optional arm in one form silently runs a lower-priority backend there)
  && (r.bindings.filter (fun b => b.2.1 == arm.form)).all (fun b => arm.slots.any (fun s => s.label == b.1))

def safeRowOk (arms : List SafeArmFn) (r : SafeRow) : Bool :=
  match kernelOfSafeRow r with
  | none => false
  | some op =>
    kindOfSafeMacro r.macro_ == kindOfKernel op
    && (arms.filter (fun a => a.macro_ == r.macro_)).map (·.form) == [.xconst, .xany]
    && (arms.filter (fun a => a.macro_ == r.macro_)).all (safeArmOk r op)

end Spec
end Cfavml
