/-
The contract between the generic kernels and a register backend: what it means for a `SimdRegister`
dictionary to be lane-wise faithful (this is property C13; `Thm/C13*.lean` prove it per backend).
-/
import CfavmlModel.Prim.Traits

namespace Cfavml

/-- element `k` (of `8·L`) of a dense lane -/
def dlanes {T Reg : Type} (L : Nat) (lanes : Reg → Nat → T) (d : DenseLane Reg) (k : Nat) : T :=
  lanes (d.nth (k / L)) (k % L)

/-- Geometry and memory behaviour of a backend: `L` lanes per register, loads/stores move exactly the
`L` (resp. `8·L`) elements at the given offset and fault exactly when that range leaves the slice. -/
structure MemFaithful {T Reg : Type} (R : SimdRegister T Reg) (L : Nat) (lanes : Reg → Nat → T) : Prop where
  L_pos : 0 < L
  epl : R.elements_per_lane = pure L
  epd : R.elements_per_dense = pure (L * 8)
  load_ok : ∀ (s : Slice T) i, i + L ≤ s.size → ∃ r, R.load s i = pure r ∧ ∀ k, k < L → lanes r k = s.get (i + k)
  load_oob : ∀ (s : Slice T) i, ¬ (i + L ≤ s.size) → R.load s i = throw Fault.oobRead
  write_ok : ∀ (s : Slice T) i r, i + L ≤ s.size → R.write s i r = pure (s.setRange i L (lanes r))
  write_oob : ∀ (s : Slice T) i r, ¬ (i + L ≤ s.size) → R.write s i r = throw Fault.oobWrite
  load_dense_ok : ∀ (s : Slice T) i, i + L * 8 ≤ s.size →
    ∃ d, R.load_dense s i = pure d ∧ ∀ k, k < L * 8 → dlanes L lanes d k = s.get (i + k)
  write_dense_ok : ∀ (s : Slice T) i d, i + L * 8 ≤ s.size →
    R.write_dense s i d = pure (s.setRange i (L * 8) (dlanes L lanes d))

/-- a binary register operation acts lane by lane like the scalar function `f`, as long as every lane of
the second operand satisfies `ok` (`ok = fun _ => True` for total operations, `· ≠ 0` for integer division) -/
structure Lanewise2 {T Reg : Type} (L : Nat) (lanes : Reg → Nat → T) (f : T → T → T) (ok : T → Prop)
    (op : Reg → Reg → Exec Reg) (opDense : DenseLane Reg → DenseLane Reg → Exec (DenseLane Reg)) : Prop where
  single : ∀ x y, (∀ k, k < L → ok (lanes y k)) →
    ∃ r, op x y = pure r ∧ ∀ k, k < L → lanes r k = f (lanes x k) (lanes y k)
  dense : ∀ x y, (∀ k, k < L * 8 → ok (dlanes L lanes y k)) →
    ∃ d, opDense x y = pure d ∧ ∀ k, k < L * 8 → dlanes L lanes d k = f (dlanes L lanes x k) (dlanes L lanes y k)

/-- the scalar tail operation -/
def Scalar2 {T : Type} (f : T → T → T) (ok : T → Prop) (op : T → T → Exec T) : Prop :=
  ∀ x y, ok y → op x y = pure (f x y)

end Cfavml

namespace Cfavml

/-- broadcasts fill every lane -/
structure BroadcastFaithful {T Reg : Type} (R : SimdRegister T Reg) (L : Nat) (lanes : Reg → Nat → T) : Prop where
  filled_ok : ∀ v, ∃ r, R.filled v = pure r ∧ ∀ k, k < L → lanes r k = v
  filled_dense_ok : ∀ v, ∃ d, R.filled_dense v = pure d ∧ (∀ k, k < L * 8 → dlanes L lanes d k = v)
    ∧ (∀ k, k < L → lanes d.a k = v)

end Cfavml

namespace Cfavml

/-- a ternary register operation (`fmadd`) acts lane by lane like the scalar function `f` -/
structure Lanewise3 {T Reg : Type} (L : Nat) (lanes : Reg → Nat → T) (f : T → T → T → T)
    (op : Reg → Reg → Reg → Exec Reg)
    (opDense : DenseLane Reg → DenseLane Reg → DenseLane Reg → Exec (DenseLane Reg)) : Prop where
  single : ∀ x y z, ∃ r, op x y z = pure r ∧ ∀ k, k < L → lanes r k = f (lanes x k) (lanes y k) (lanes z k)
  dense : ∀ x y z, ∃ d, opDense x y z = pure d
    ∧ ∀ k, k < L * 8 → dlanes L lanes d k = f (dlanes L lanes x k) (dlanes L lanes y k) (dlanes L lanes z k)

/-- the roll-up of a dense accumulator and the horizontal fold of a register, for one combining
operation `op` (add / max / min): lane `k` of the roll-up is the `tree8` of lane `k` of the eight
registers; the horizontal fold is `hfold` of the lanes. -/
structure FoldFaithful {T Reg : Type} (L : Nat) (lanes : Reg → Nat → T) (op : T → T → T)
    (hfold : (Nat → T) → T) (toReg : DenseLane Reg → Exec Reg) (toValue : Reg → Exec T) : Prop where
  to_register : ∀ d, ∃ r, toReg d = pure r ∧
    ∀ k, k < L → lanes r k = op (op (op (lanes d.a k) (lanes d.b k)) (op (lanes d.c k) (lanes d.d k)))
      (op (op (lanes d.e k) (lanes d.f k)) (op (lanes d.g k) (lanes d.h k)))
  to_value : ∀ r, toValue r = pure (hfold (lanes r))

end Cfavml
