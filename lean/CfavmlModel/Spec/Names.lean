/-
Hand-written specification of the public naming scheme
  `<type>_x<const|any>_<arch>_<fma|nofma>_<op>`
(documented in danger/export_*.rs) and of what each part of a name promises.
-/
import CfavmlModel.Prim.Tables

namespace Cfavml
namespace Spec
open Tables

/-- the name tokens of the operation a kernel implements -/
def opToksOfKernel : Kernel → List Tok
  | .generic_dot_product => [.dot]
  | .generic_cosine => [.cosine]
  | .generic_euclidean => [.squared, .euclidean]
  | .generic_squared_norm => [.squared, .norm]
  | .generic_sum => [.sum]
  | .generic_max_horizontal => [.max, .horizontal]
  | .generic_min_horizontal => [.min, .horizontal]
  | .generic_max_vertical => [.max, .vertical]
  | .generic_min_vertical => [.min, .vertical]
  | .generic_max_value => [.max, .value]
  | .generic_min_value => [.min, .value]
  | .generic_add_value => [.add, .value]
  | .generic_sub_value => [.sub, .value]
  | .generic_mul_value => [.mul, .value]
  | .generic_div_value => [.div, .value]
  | .generic_add_vector => [.add, .vector]
  | .generic_sub_vector => [.sub, .vector]
  | .generic_mul_vector => [.mul, .vector]
  | .generic_div_vector => [.div, .vector]

def allKernels : List Kernel :=
  [.generic_dot_product, .generic_cosine, .generic_euclidean, .generic_squared_norm, .generic_sum,
   .generic_max_horizontal, .generic_min_horizontal, .generic_max_vertical, .generic_min_vertical,
   .generic_max_value, .generic_min_value, .generic_add_value, .generic_sub_value, .generic_mul_value,
   .generic_div_value, .generic_add_vector, .generic_sub_vector, .generic_mul_vector, .generic_div_vector]

/-- signature kinds: (a) → T, (a,b) → T, (a,b,result), (value,a,result) -/
inductive Kind where
  | reduce1 | reduce2 | map2 | map1v
  deriving DecidableEq, Repr

def kindOfKernel : Kernel → Kind
  | .generic_sum | .generic_squared_norm | .generic_max_horizontal | .generic_min_horizontal => .reduce1
  | .generic_dot_product | .generic_cosine | .generic_euclidean => .reduce2
  | .generic_max_vertical | .generic_min_vertical | .generic_add_vector | .generic_sub_vector
  | .generic_mul_vector | .generic_div_vector => .map2
  | .generic_max_value | .generic_min_value | .generic_add_value | .generic_sub_value
  | .generic_mul_value | .generic_div_value => .map1v

def kindOfExportMacro : ExportMacro → Kind
  | .export_op_horizontal => .reduce1
  | .export_distance_op => .reduce2
  | .export_op_vertical | .export_vector_x_vector_op => .map2
  | .export_op_value | .export_vector_x_value_op => .map1v

def kindOfSafeMacro : SafeMacro → Kind
  | .export_safe_horizontal_op | .export_safe_fma_norm_op | .export_safe_nofma_norm_op => .reduce1
  | .export_safe_distance_op => .reduce2
  | .export_safe_vertical_op | .export_safe_arithmetic_vector_x_vector_op => .map2
  | .export_safe_value_op | .export_safe_arithmetic_vector_x_value_op => .map1v

def elemTypes : List ElemTy := [.f32, .f64, .i8, .i16, .i32, .i64, .u8, .u16, .u32, .u64]
def isFloatTy : ElemTy → Bool
  | .f32 | .f64 => true
  | _ => false

def tokOfTy : ElemTy → Option Tok
  | .f32 => some .f32 | .f64 => some .f64 | .i8 => some .i8 | .i16 => some .i16 | .i32 => some .i32
  | .i64 => some .i64 | .u8 => some .u8 | .u16 => some .u16 | .u32 => some .u32 | .u64 => some .u64
  | .T => none

/-- architecture tag of a register backend -/
def archOfReg : RegName → Tok
  | .Fallback => .fallback
  | .Avx2 | .Avx2Fma => .avx2
  | .Avx512 => .avx512
  | .Neon => .neon

/-- backends whose `fmadd` is a fused multiply-add for floats -/
def regIsFused : RegName → Bool
  | .Avx2Fma | .Avx512 | .Neon => true
  | _ => false

/-- operations built on multiply-add -/
def usesFmadd : Kernel → Bool
  | .generic_dot_product | .generic_cosine | .generic_euclidean | .generic_squared_norm => true
  | _ => false

/-- a routine really uses fused multiply-add -/
def reallyFuses (reg : RegName) (ty : ElemTy) (op : Kernel) : Bool :=
  regIsFused reg && usesFmadd op && isFloatTy ty

def fmaTok (reg : RegName) (ty : ElemTy) (op : Kernel) : Tok :=
  if reallyFuses reg ty op then .fma else .nofma

def tokOfForm : Form → Tok
  | .xconst => .xconst
  | .xany => .xany

/-- `<ty>_x<form>_<arch>_<fma|nofma>_<op>` -/
def routineName (ty : ElemTy) (form : Form) (reg : RegName) (op : Kernel) : Option (List Tok) :=
  (tokOfTy ty).map fun t => [t, tokOfForm form, archOfReg reg, fmaTok reg ty op] ++ opToksOfKernel op

/-- `<ty>_x<form>_<op>`: the safe API -/
def safeName (ty : ElemTy) (form : Form) (op : Kernel) : Option (List Tok) :=
  (tokOfTy ty).map fun t => [t, tokOfForm form] ++ opToksOfKernel op

/-- features every routine of a backend needs declared -/
def featuresOfReg : RegName → List Feat
  | .Avx2 => [.avx2]
  | .Avx2Fma => [.avx2, .fma]
  | .Avx512 => [.avx512f]
  | .Neon => [.neon]
  | .Fallback => []

def isX86 (a : Arch) : Bool := a == .x86 || a == .x86_64

/-- the builds in which a backend exists -/
def regCompiledIn (b : Build) : RegName → Bool
  | .Fallback => true
  | .Avx2 | .Avx2Fma => isX86 b.arch
  | .Avx512 => isX86 b.arch && b.features.contains .nightly
  | .Neon => b.arch == .aarch64

/-- Check of one export table row against the naming scheme. -/
def exportRowOk (r : ExportRow) : Bool :=
  elemTypes.contains r.ty
  && some r.xany == routineName r.ty .xany r.reg r.op
  && some r.xconst == routineName r.ty .xconst r.reg r.op
  && kindOfExportMacro r.macro_ == kindOfKernel r.op
  -- declared target features, when any are declared, are exactly those of the backend
  && (!r.hasFeatures || r.features == featuresOfReg r.reg)
  && (r.reg != .Fallback || !r.hasFeatures)

def builds : List Build :=
  [ { features := [.std], arch := .x86_64, targetFeatures := [], flags := [] },
    { features := [.std, .nightly], arch := .x86_64, targetFeatures := [], flags := [] },
    { features := [], arch := .x86_64, targetFeatures := [], flags := [] },
    { features := [.nightly], arch := .x86_64, targetFeatures := [], flags := [] },
    { features := [.std], arch := .x86, targetFeatures := [], flags := [] },
    { features := [.std], arch := .aarch64, targetFeatures := [], flags := [] },
    { features := [.std, .nightly], arch := .aarch64, targetFeatures := [], flags := [] } ]

/-- the module of a row is compiled exactly when its backend exists in that build -/
def exportRowCfgOk (r : ExportRow) : Bool :=
  builds.all (fun b => r.moduleCfg.eval b == regCompiledIn b r.reg)

end Spec
end Cfavml
