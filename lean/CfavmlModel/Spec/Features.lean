/-
Hand-written: the x86 feature implication lattice (from LLVM's X86 feature definitions) and what each
dispatch guard / backend promises.
-/
import CfavmlModel.Spec.Dispatch

namespace Cfavml
namespace Spec
open Tables

/-- features directly implied by a feature (LLVM X86.td `Implies`) -/
def impliedBy : Feat → List Feat
  | .sse => []
  | .sse2 => [.sse]
  | .sse3 => [.sse2]
  | .ssse3 => [.sse3]
  | .sse4_1 => [.ssse3]
  | .sse4_2 => [.sse4_1]
  | .avx => [.sse4_2]
  | .avx2 => [.avx]
  | .fma => [.avx]
  | .avx512f => [.avx2, .fma]
  | .avx512bw => [.avx512f]
  | .avx512dq => [.avx512f]
  | .avx512vl => [.avx512f]
  | .neon => []

def closeStep (fs : List Feat) : List Feat := (fs ++ fs.flatMap impliedBy).eraseDups

/-- implication closure (the chain is at most 11 long) -/
def closure (fs : List Feat) : List Feat := Nat.repeat closeStep 12 fs

/-- every x86-64 CPU has these -/
def baselineX86_64 : List Feat := [.sse, .sse2]

/-- what a positive answer of an availability check guarantees about the CPU
(`Thm.C09.is_*_available_eq`: each returns true only if every listed feature is a compile-time target
feature or was detected at run time) -/
def featsOfGuard : Guard → List Feat
  | .is_avx512_available => [.avx512f, .avx512bw]
  | .is_avx2_available => [.avx2]
  | .is_fma_available => [.fma]
  | .is_neon_available => [.neon]

/-- what the dispatcher has verified when it selects a backend's routines -/
def verifiedForReg : RegName → List Feat
  | .Fallback => []
  | .Avx2 => [.avx2]
  | .Avx2Fma => [.avx2, .fma]
  | .Avx512 => [.avx512f, .avx512bw]
  | .Neon => [.neon]

def subsetB (xs ys : List Feat) : Bool := xs.all ys.contains

def isX86Reg : RegName → Bool
  | .Avx2 | .Avx2Fma | .Avx512 | .Fallback => true
  | .Neon => false

def allowedFor (reg : RegName) : List Feat :=
  closure (verifiedForReg reg ++ (if reg == .Neon then [] else baselineX86_64))

/-- one impl method: every intrinsic it calls directly needs only features the dispatcher verified for
its backend (or the baseline), and every trait method it calls belongs to a backend whose verified set
is implied by this one's -/
def implRowOk (feats : List (String × List Feat)) (r : ImplMethodRow) : Bool :=
  r.intrinsics.all (fun i =>
    match feats[i]? with
    | some (_, fs) => subsetB fs (allowedFor r.reg)
    | none => false)
  && r.calls.all (fun c => subsetB (verifiedForReg c.1) (allowedFor r.reg))
  && (r.reg != .Fallback || (r.intrinsics.isEmpty && r.calls.all (fun c => c.1 == .Fallback)))

end Spec
end Cfavml
