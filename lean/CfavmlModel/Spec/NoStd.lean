/-
The builds C14 quantifies over and the meaning of "an item is compiled into a build" (used by Thm/C14 and by the
witness search Driver/Witness.lean).
-/
import CfavmlModel.Gen.RefTables
import CfavmlModel.Spec.Names

namespace Cfavml.Spec
open Tables

/-- builds of the shipped library (not `cfg(test)`), with and without the `std` feature -/
def noStdBuilds : List Build :=
  [ { features := [], arch := .x86_64, targetFeatures := [], flags := [] },
    { features := [.nightly], arch := .x86_64, targetFeatures := [], flags := [] },
    { features := [], arch := .aarch64, targetFeatures := [], flags := [] },
    { features := [], arch := .x86, targetFeatures := [], flags := [] } ]

def stdBuilds : List Build :=
  [ { features := [.std], arch := .x86_64, targetFeatures := [], flags := [] },
    { features := [.std, .nightly], arch := .x86_64, targetFeatures := [], flags := [] },
    { features := [.std], arch := .aarch64, targetFeatures := [], flags := [] } ]

def compiledIn (b : Build) (r : ExternalRef) : Bool := r.cfg.all (·.eval b)

/-- the only `std` items the shipped library may name, and only with the `std` feature: CPU detection -/
def allowedStd : List String :=
  ["std::arch::is_x86_feature_detected", "std::arch::is_aarch64_feature_detected"]

/-- cargo's feature resolution: everything a set of requested features switches on (one round per feature of the
manifest reaches the fixed point) -/
def featureStep (g : List (String × List String)) (fs : List String) : List String :=
  fs ++ (g.filter (fun r => fs.contains r.1)).flatMap (·.2)

def featureClosure (g : List (String × List String)) (fs : List String) : List String :=
  (List.range g.length).foldl (fun acc _ => featureStep g acc) fs

/-- with default features disabled `std` is on only when asked for: no other feature of the manifest switches it on
(otherwise `default-features = false, features = [f]` silently builds the std flavour, which does not exist for a
no_std target) -/
def noFeatureImpliesStd (g : List (String × List String)) : Bool :=
  g.all (fun r => r.1 == "std" || r.1 == "default" || !(featureClosure g [r.1]).contains "std")

end Cfavml.Spec
