/-
The builds C14 quantifies over and the meaning of "an item is compiled into a build" (used by Thm/C14 and by the
witness search Driver/Witness.lean).
-/
import CfavmlModel.Gen.RefTables
import CfavmlModel.Spec.Names

namespace Cfavml.Spec
open Tables

/-- builds of the shipped library (not `cfg(test)`), with and without the `std` feature -/
def noStdBuilds : List Build :=
  [ { features := [], arch := .x86_64, targetFeatures := [], flags := [] },
    { features := [.nightly], arch := .x86_64, targetFeatures := [], flags := [] },
    { features := [], arch := .aarch64, targetFeatures := [], flags := [] },
    { features := [], arch := .x86, targetFeatures := [], flags := [] } ]

def stdBuilds : List Build :=
  [ { features := [.std], arch := .x86_64, targetFeatures := [], flags := [] },
    { features := [.std, .nightly], arch := .x86_64, targetFeatures := [], flags := [] },
    { features := [.std], arch := .aarch64, targetFeatures := [], flags := [] } ]

def compiledIn (b : Build) (r : ExternalRef) : Bool := r.cfg.all (·.eval b)

/-- the only `std` items the shipped library may name, and only with the `std` feature: CPU detection -/
def allowedStd : List String :=
  ["std::arch::is_x86_feature_detected", "std::arch::is_aarch64_feature_detected"]

end Cfavml.Spec
