/-
Semantics of the extracted wrapper data: what dimension and arguments an export arm hands to its kernel,
and when the `assert_eq!`s of a safe wrapper pass.
-/
import CfavmlModel.Spec.Names
import CfavmlModel.Gen.Tables

namespace Cfavml
namespace Spec
open Tables

/-- the `dims` value an export function passes to its kernel, given the const parameter and the slice
lengths (by parameter name) -/
def _root_.Cfavml.Tables.ExportArmFn.dimsArg (f : ExportArmFn) (DIMS : Nat) (lens : String → Nat) : Option Nat :=
  match f.callArgs with
  | "DIMS" :: _ => some DIMS
  | "a.len()" :: _ => some (lens "a")
  | _ => none

/-- the arguments after `dims`, by parameter name -/
def _root_.Cfavml.Tables.ExportArmFn.passArgs (f : ExportArmFn) : List String := f.callArgs.tail

def exportArmOf (m : ExportMacro) (wf : Bool) (nameVar : String) : Option ExportArmFn :=
  exportArms.find? (fun a => a.macro_ == m && a.withFeatures == wf && a.nameVar == nameVar)

def allExportMacros : List ExportMacro :=
  [.export_op_horizontal, .export_op_vertical, .export_op_value, .export_distance_op,
   .export_vector_x_value_op, .export_vector_x_vector_op]

/-- both functions of an arm are plain forwarders to `$op::<_, $im, AutoMath>(dims, <parameters in order>)`;
the xconst one passes `DIMS`, the xany one `a.len()`; `#[target_feature]` exactly on the `features =` arm -/
def exportArmPairOk (m : ExportMacro) (wf : Bool) : Bool :=
  match exportArmOf m wf "xconst_name", exportArmOf m wf "xany_name" with
  | some xc, some xa =>
    xc.constDims && !xa.constDims
    && xc.params == xa.params
    && xc.callee == "$op" && xa.callee == "$op"
    && xc.typeArgs == ["_", "$im", "AutoMath"] && xa.typeArgs == ["_", "$im", "AutoMath"]
    && xc.callArgs == "DIMS" :: xc.params.map (·.1)
    && xa.callArgs == "a.len()" :: xa.params.map (·.1)
    && xc.hasTargetFeature == wf && xa.hasTargetFeature == wf
    && xc.params.any (fun p => p.1 == "a" && p.2 == "&[$t]")
  | _, _ => false

def evalLen (lens : Param → Nat) (D : Nat) : LenTerm → Nat
  | .len p => lens p
  | .dims => D

/-- all `assert_eq!`s of a wrapper pass -/
def assertsPass (lens : Param → Nat) (D : Nat) (as : List (LenTerm × LenTerm)) : Bool :=
  as.all (fun p => evalLen lens D p.1 == evalLen lens D p.2)

def safeArmOf (m : SafeMacro) (f : Form) : SafeArmFn :=
  (safeArms.find? (fun a => a.macro_ == m && a.form == f)).getD default

def allSafeMacros : List SafeMacro :=
  [.export_safe_horizontal_op, .export_safe_vertical_op, .export_safe_value_op, .export_safe_distance_op,
   .export_safe_fma_norm_op, .export_safe_nofma_norm_op, .export_safe_arithmetic_vector_x_value_op,
   .export_safe_arithmetic_vector_x_vector_op]

/-! ### a decidable sufficient condition for two assert lists to pass on the same inputs when `DIMS = a.len()` -/

def paramIdx : Param → Nat
  | .a => 0 | .b => 1 | .result => 2 | .value => 3 | .other => 4

/-- replace `DIMS` by `a.len()` -/
def substDims : LenTerm → Param
  | .len p => p
  | .dims => .a

/-- an assert as an unordered pair of parameters (smaller index first) -/
def normPair (p : LenTerm × LenTerm) : Param × Param :=
  let x := substDims p.1
  let y := substDims p.2
  if paramIdx x ≤ paramIdx y then (x, y) else (y, x)

/-- the non-trivial normalised asserts -/
def normAsserts (as : List (LenTerm × LenTerm)) : List (Param × Param) :=
  (as.map normPair).filter (fun q => q.1 != q.2)

def sameAsserts (as₁ as₂ : List (LenTerm × LenTerm)) : Bool :=
  (normAsserts as₁).all (fun q => (normAsserts as₂).contains q)
  && (normAsserts as₂).all (fun q => (normAsserts as₁).contains q)

/-- slice parameters of a wrapper -/
def sliceParams (a : SafeArmFn) : List Param :=
  (a.params.filter (fun p => p.2 == "&[T__]" || p.2 == "&mut[T__]")).map (·.1)

/-- the `dims` the selected export passes to the kernel: `DIMS` in the xconst form, `a.len()` in the xany
form (by `exportArmPairOk`) -/
def kernelDims (f : Form) (lens : Param → Nat) (D : Nat) : Nat :=
  match f with
  | .xconst => D
  | .xany => lens .a

end Spec
end Cfavml
