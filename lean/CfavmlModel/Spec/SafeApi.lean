/-
What a call of a safe function amounts to, computed from the regenerated tables: the wrapper arm's assertion list, the
`dispatch!` candidates under the availability answers, the routine the invocation binds to the selected slot and the
(register, kernel) that routine's name stands for. The Lean driver executes exactly this function (`Driver/Main.lean`,
request `safe`), and the safe-API level of the correspondence compares it with the real safe functions under forced
feature masks; `Thm/SafeApi.lean` proves it equal to the specification (documented priority order, the backend of the
selected slot, the operation the function is named after, a panic exactly on a length / `DIMS` mismatch).
-/
import CfavmlModel.Spec.Wrappers
import CfavmlModel.Spec.Dispatch
import CfavmlModel.Gen.Tables

namespace Cfavml.Spec
open Tables

/-- the static part of a safe call -/
structure SafePlan where
  reg : RegName
  op : Kernel
  /-- parameters handed on to the routine, in order -/
  args : List Param
  /-- whether `DIMS` (rather than `a.len()`) is what the routine receives as its dimension -/
  passesDims : Bool
  deriving DecidableEq, Repr

/-- the std builds of this host architecture the harness makes -/
def hostBuild (nightly : Bool) : Build :=
  { features := [.std] ++ (if nightly then [.nightly] else []), arch := .x86_64, targetFeatures := [], flags := [] }

/-- the (register, kernel) a routine name stands for -/
def decodeRoutine (ty : ElemTy) (form : Form) (toks : List Tok) : Option (RegName × Kernel) :=
  ([RegName.Fallback, .Avx2, .Avx2Fma, .Avx512, .Neon].flatMap fun reg =>
    allKernels.filterMap fun op => if routineName ty form reg op == some toks then some (reg, op) else none).head?

def suppliedBy (arm : SafeArmFn) : Slot → Bool := fun s => arm.slots.any (fun x => x.label == s)

def planStatic (r : SafeRow) (arm : SafeArmFn) (av : Avail) (nightly : Bool) : Option SafePlan := do
  let slot := selectedBy dispatchCandidates dispatchFallbackLabel (hostBuild nightly) (suppliedBy arm) av
  let sl ← arm.slots.find? (fun x => x.label == slot)
  let toks ← lookupBinding r.bindings sl.fnVarSlot sl.fnVarForm
  let (reg, op) ← decodeRoutine r.ty sl.fnVarForm toks
  pure ⟨reg, op, sl.args, sl.passesDims⟩

/-- outer `none`: the tables are malformed; inner `none`: the wrapper panics; otherwise the plan and the dimension handed on -/
def safePlan (r : SafeRow) (form : Form) (lens : Param → Nat) (D : Nat) (av : Avail) (nightly : Bool) :
    Option (Option (SafePlan × Nat)) :=
  match safeArms.find? (fun a => a.macro_ == r.macro_ && a.form == form) with
  | none => none
  | some arm =>
    if !assertsPass lens D arm.asserts then some none
    else (planStatic r arm av nightly).map fun p => some (p, if p.passesDims then D else lens .a)

end Cfavml.Spec
