/-
A *model register*: a backend with an arbitrary number `L ≥ 1` of lanes, built from the obvious lane-wise
implementation of the 14 required `SimdRegister` methods and the **generated trait defaults** for the other 16 —
exactly how a Rust `impl SimdRegister<T>` is assembled. It meets every lane-wise contract by construction, so

* the generic kernels can be stated (and run) "over model registers of 1, 2, 3, 4, 5, 16 lanes" (C07), and
* any theorem proved for all faithful backends can be specialised to it to obtain a *pure* statement about
  `reduceModel` (C03/C04/C06 use this).
-/
import CfavmlModel.Lemmas.X86Hard
import CfavmlModel.Spec.Backend
import CfavmlModel.Lemmas.Defaults

namespace Cfavml
namespace ModelReg

variable {T : Type}

/-- a register is the function from lane index to lane value -/
abbrev Reg (T : Type) := Nat → T

def lanesId (r : Reg T) (k : Nat) : T := r k

def inst (E : Env) (S : ScalarSpec T) (L : Nat) (fm : T → T → T → T) (hsum hmax hmin : (Nat → T) → T) :
    SimdRegister T (Reg T) :=
  let epl : Exec Nat := pure L
  let load : Slice T → Nat → Exec (Reg T) := fun s i => s.readRange i L
  let write : Slice T → Nat → Reg T → Exec (Slice T) := fun s i r => s.writeRange i L r
  let filled : T → Exec (Reg T) := fun v => pure (fun _ => v)
  let zeroed : Exec (Reg T) := pure (fun _ => S.zero)
  let add : Reg T → Reg T → Exec (Reg T) := fun x y => pure (fun k => S.add (x k) (y k))
  let sub : Reg T → Reg T → Exec (Reg T) := fun x y => pure (fun k => S.sub (x k) (y k))
  let mul : Reg T → Reg T → Exec (Reg T) := fun x y => pure (fun k => S.mul (x k) (y k))
  let div : Reg T → Reg T → Exec (Reg T) := fun x y => pure (fun k => S.div (x k) (y k))
  let max : Reg T → Reg T → Exec (Reg T) := fun x y => pure (fun k => S.cmpMax (x k) (y k))
  let min : Reg T → Reg T → Exec (Reg T) := fun x y => pure (fun k => S.cmpMin (x k) (y k))
  let fmadd : Reg T → Reg T → Reg T → Exec (Reg T) := fun x y z => pure (fun k => fm (x k) (y k) (z k))
  { elements_per_dense := SimdRegisterDefault.elements_per_dense (T := T) (Reg := Reg T) E epl
    elements_per_lane := epl
    load := load
    filled := filled
    zeroed := zeroed
    load_dense := SimdRegisterDefault.load_dense E epl load
    filled_dense := SimdRegisterDefault.filled_dense (T := T) E filled
    zeroed_dense := SimdRegisterDefault.zeroed_dense (T := T) E zeroed
    add := add, sub := sub, mul := mul, div := div, fmadd := fmadd, max := max, min := min
    add_dense := SimdRegisterDefault.add_dense (T := T) E add
    sub_dense := SimdRegisterDefault.sub_dense (T := T) E sub
    mul_dense := SimdRegisterDefault.mul_dense (T := T) E mul
    div_dense := SimdRegisterDefault.div_dense (T := T) E div
    fmadd_dense := SimdRegisterDefault.fmadd_dense (T := T) E fmadd
    max_dense := SimdRegisterDefault.max_dense (T := T) E max
    min_dense := SimdRegisterDefault.min_dense (T := T) E min
    sum_to_value := fun r => pure (hsum r)
    sum_to_register := SimdRegisterDefault.sum_to_register (T := T) E add
    max_to_value := fun r => pure (hmax r)
    max_to_register := SimdRegisterDefault.max_to_register (T := T) E max
    min_to_value := fun r => pure (hmin r)
    min_to_register := SimdRegisterDefault.min_to_register (T := T) E min
    write := write
    write_dense := SimdRegisterDefault.write_dense E epl write }

variable (E : Env) (S : ScalarSpec T) (L : Nat) (fm : T → T → T → T) (hsum hmax hmin : (Nat → T) → T)

theorem core (hL : 0 < L) (hsmall : L * 8 < usizeMod) : CoreFaithful (inst E S L fm hsum hmax hmin) L lanesId := by
  refine ⟨hL, hsmall, rfl, ?_, ?_, ?_, ?_⟩
  · intro s i hi
    exact ⟨fun k => s.get (i + k), by simp [inst, Slice.readRange, hi], fun k _ => rfl⟩
  · intro s i hi
    simp [inst, Slice.readRange, hi]
  · intro s i r hi
    simp [inst, Slice.writeRange, hi]
    rfl
  · intro s i r hi
    simp [inst, Slice.writeRange, hi]

theorem mem (hL : 0 < L) (hsmall : L * 8 < usizeMod) : MemFaithful (inst E S L fm hsum hmax hmin) L lanesId :=
  memFaithful_of_defaults (core E S L fm hsum hmax hmin hL hsmall) ⟨rfl, rfl, rfl⟩

theorem bcast (hL : 0 < L) : BroadcastFaithful (inst E S L fm hsum hmax hmin) L lanesId :=
  broadcastFaithful_of_default (E := E) hL (fun v => ⟨fun _ => v, rfl, fun _ _ => rfl⟩) rfl

theorem arith (hL : 0 < L) (hsmall : L * 8 < usizeMod) : ArithFaithful (inst E S L fm hsum hmax hmin) L lanesId S where
  mem := mem E S L fm hsum hmax hmin hL hsmall
  bcast := bcast E S L fm hsum hmax hmin hL
  add := lanewise2_of_applyDense hL (fun x y _ => ⟨_, rfl, fun _ _ => rfl⟩)
  sub := lanewise2_of_applyDense hL (fun x y _ => ⟨_, rfl, fun _ _ => rfl⟩)
  mul := lanewise2_of_applyDense hL (fun x y _ => ⟨_, rfl, fun _ _ => rfl⟩)
  div := lanewise2_of_applyDense hL (fun x y _ => ⟨_, rfl, fun _ _ => rfl⟩)
  max := lanewise2_of_applyDense hL (fun x y _ => ⟨_, rfl, fun _ _ => rfl⟩)
  min := lanewise2_of_applyDense hL (fun x y _ => ⟨_, rfl, fun _ _ => rfl⟩)

theorem reduce (hL : 0 < L) : ReduceFaithful (inst E S L fm hsum hmax hmin) L lanesId S fm hsum hmax hmin where
  zeroed_dense_ok := ⟨DenseLane.copy (fun _ => S.zero), rfl, fun k hk => by rw [dlanes_copy hL _ k hk]; rfl⟩
  fmadd := lanewise3_of_applyDense hL (fun x y z => ⟨_, rfl, fun _ _ => rfl⟩)
  sum := ⟨fun d => rollup8_lanewise (L := L) (lanes := lanesId) (f := S.add)
      (op := fun x y => pure (fun k => S.add (x k) (y k))) (fun x y => ⟨_, rfl, fun _ _ => rfl⟩) d, fun _ => rfl⟩
  max := ⟨fun d => rollup8_lanewise (L := L) (lanes := lanesId) (f := S.cmpMax)
      (op := fun x y => pure (fun k => S.cmpMax (x k) (y k))) (fun x y => ⟨_, rfl, fun _ _ => rfl⟩) d, fun _ => rfl⟩
  min := ⟨fun d => rollup8_lanewise (L := L) (lanes := lanesId) (f := S.cmpMin)
      (op := fun x y => pure (fun k => S.cmpMin (x k) (y k))) (fun x y => ⟨_, rfl, fun _ _ => rfl⟩) d, fun _ => rfl⟩

/-- the scalar dictionary that computes exactly `S` (with `sq` as its square root) -/
def math (S : ScalarSpec T) (sq : T → T) : Math T where
  zero := pure S.zero
  one := pure S.one
  max := pure S.maxVal
  min := pure S.minVal
  sqrt := fun x => pure (sq x)
  abs := fun x => pure x
  cmp_eq := fun x y => pure (S.eq x y)
  cmp_min := fun x y => pure (S.cmpMin x y)
  cmp_max := fun x y => pure (S.cmpMax x y)
  add := fun x y => pure (S.add x y)
  sub := fun x y => pure (S.sub x y)
  mul := fun x y => pure (S.mul x y)
  div := fun x y => if S.divOk y then pure (S.div x y) else throw Fault.panic

theorem math_faithful (sq : T → T) : MathFaithful (math S sq) S where
  zero := rfl
  one := rfl
  max := rfl
  min := rfl
  add := fun _ _ => rfl
  sub := fun _ _ => rfl
  mul := fun _ _ => rfl
  div_ok := fun x y h => by simp [math, h]
  div_panic := fun x y h => by simp [math, h]
  cmp_max := fun _ _ => rfl
  cmp_min := fun _ _ => rfl
  cmp_eq := fun _ _ => rfl

/-- an environment with enough fuel for `dims` iterations -/
def withFuel (E : Env) (n : Nat) : Env := { E with fuel := n + 1 }

end ModelReg
end Cfavml
