/-
What the scalar math layer must compute, per element type: the primitive operations of the type.
Integers: two's complement wrapping arithmetic on `BitVec w`; floats: the IEEE operations of `E.F`
(the `*_algebraic` variants when the nightly fast-math layer is selected).
-/
import CfavmlModel.Prim.Scalar
import CfavmlModel.Prim.Traits

namespace Cfavml

structure ScalarSpec (T : Type) where
  zero : T
  one : T
  minVal : T
  maxVal : T
  add : T → T → T
  sub : T → T → T
  mul : T → T → T
  div : T → T → T
  /-- divisors for which division does not panic -/
  divOk : T → Bool
  cmpMax : T → T → T
  cmpMin : T → T → T
  eq : T → T → Bool

/-- a `Math<T>` dictionary computes exactly the primitive operations of `S` -/
structure MathFaithful {T : Type} (M : Math T) (S : ScalarSpec T) : Prop where
  zero : M.zero = pure S.zero
  one : M.one = pure S.one
  max : M.max = pure S.maxVal
  min : M.min = pure S.minVal
  add : ∀ x y, M.add x y = pure (S.add x y)
  sub : ∀ x y, M.sub x y = pure (S.sub x y)
  mul : ∀ x y, M.mul x y = pure (S.mul x y)
  div_ok : ∀ x y, S.divOk y = true → M.div x y = pure (S.div x y)
  div_panic : ∀ x y, S.divOk y = false → M.div x y = throw Fault.panic
  cmp_max : ∀ x y, M.cmp_max x y = pure (S.cmpMax x y)
  cmp_min : ∀ x y, M.cmp_min x y = pure (S.cmpMin x y)
  cmp_eq : ∀ x y, M.cmp_eq x y = pure (S.eq x y)

/-- signed integer type of `w` bits: `wrapping_*`, `Ord::max/min`, `MIN` divided by `-1` is `MIN` -/
def sintSpec (w : Nat) : ScalarSpec (BitVec w) where
  zero := 0
  one := 1
  minVal := BitVec.intMin w
  maxVal := BitVec.intMax w
  add := (· + ·)
  sub := (· - ·)
  mul := (· * ·)
  div := BitVec.sdiv
  divOk := fun y => y != 0
  cmpMax := IntPrim.smax
  cmpMin := IntPrim.smin
  eq := (· == ·)

/-- unsigned integer type of `w` bits -/
def uintSpec (w : Nat) : ScalarSpec (BitVec w) where
  zero := 0
  one := 1
  minVal := 0
  maxVal := BitVec.allOnes w
  add := (· + ·)
  sub := (· - ·)
  mul := (· * ·)
  div := (· / ·)
  divOk := fun y => y != 0
  cmpMax := IntPrim.umax
  cmpMin := IntPrim.umin
  eq := (· == ·)

/-- `f32`; `alg` selects the `f*_algebraic` intrinsics of the nightly fast-math layer -/
def f32Spec (E : Env) (alg : Bool) : ScalarSpec F32 where
  zero := F32.zero
  one := F32.one
  minVal := F32.NEG_INFINITY
  maxVal := F32.INFINITY
  add := if alg then E.F.addAlg32 else E.F.add32
  sub := if alg then E.F.subAlg32 else E.F.sub32
  mul := if alg then E.F.mulAlg32 else E.F.mul32
  div := if alg then E.F.divAlg32 else E.F.div32
  divOk := fun _ => true
  cmpMax := E.F.rmax32
  cmpMin := E.F.rmin32
  eq := E.F.eq32

def f64Spec (E : Env) (alg : Bool) : ScalarSpec F64 where
  zero := F64.zero
  one := F64.one
  minVal := F64.NEG_INFINITY
  maxVal := F64.INFINITY
  add := if alg then E.F.addAlg64 else E.F.add64
  sub := if alg then E.F.subAlg64 else E.F.sub64
  mul := if alg then E.F.mulAlg64 else E.F.mul64
  div := if alg then E.F.divAlg64 else E.F.div64
  divOk := fun _ => true
  cmpMax := E.F.rmax64
  cmpMin := E.F.rmin64
  eq := E.F.eq64

end Cfavml
