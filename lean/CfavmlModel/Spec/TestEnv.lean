/- A concrete environment for closed-term examples (`decide`/`rfl` on small instances). The float
operations are dummies: examples using it only involve integer kernels. -/
import CfavmlModel.Prim.Exec

namespace Cfavml

def dummyFloatOps : FloatOps where
  add32 := fun a _ => a
  sub32 := fun a _ => a
  mul32 := fun a _ => a
  div32 := fun a _ => a
  fma32 := fun a _ _ => a
  sqrt32 := fun a => a
  lt32 := fun _ _ => false
  le32 := fun _ _ => false
  eq32 := fun _ _ => false
  rmax32 := fun a _ => a
  rmin32 := fun a _ => a
  addAlg32 := fun a _ => a
  subAlg32 := fun a _ => a
  mulAlg32 := fun a _ => a
  divAlg32 := fun a _ => a
  add64 := fun a _ => a
  sub64 := fun a _ => a
  mul64 := fun a _ => a
  div64 := fun a _ => a
  fma64 := fun a _ _ => a
  sqrt64 := fun a => a
  lt64 := fun _ _ => false
  le64 := fun _ _ => false
  eq64 := fun _ _ => false
  rmax64 := fun a _ => a
  rmin64 := fun a _ => a
  addAlg64 := fun a _ => a
  subAlg64 := fun a _ => a
  mulAlg64 := fun a _ => a
  divAlg64 := fun a _ => a
  f32ToF64 := fun _ => 0
  f64ToF32 := fun _ => 0
  intToF64 := fun _ => 0
  f64ToInt := fun _ _ _ => 0

/-- a release-like build on a CPU with every feature, fuel 64 -/
def testEnv : Env where
  fuel := 64
  F := dummyFloatOps
  debugAssertions := false
  overflowChecks := false
  feat_nightly := false
  feat_std := true
  feat_env_var_compat := false
  tf_avx2 := false
  tf_fma := false
  tf_avx512f := false
  tf_avx512bw := false
  tf_neon := false
  cpu_avx2 := true
  cpu_fma := true
  cpu_avx512f := true
  cpu_avx512bw := true
  cpu_neon := false
  undef128 := 0

end Cfavml
