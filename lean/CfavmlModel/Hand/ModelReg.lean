/-
A reference register backend for *every* lane count `L` (1, 2, 3, 5, 12, … — also the geometries no shipped backend has):
a register is the function from lane index to element, a memory access moves exactly the `L` (`8·L`) elements at the
offset and faults when that range leaves the slice, every operation acts lane by lane through the scalar specification
`S`, horizontal folds are left folds over the `L` lanes.

Two uses. (1) `Thm/ModelReg.lean` proves that it satisfies the whole backend contract (`ArithFaithful`, `ReduceFaithful`)
for every `L ≥ 1`: the contract the kernel theorems of C02/C03/C05/C07 assume is satisfiable for every lane count, so those
theorems are not vacuous for the geometries no hardware here has. (2) The driver runs the *generated* kernels on it
(`kernL` requests), which gives the model search concrete failing inputs for kernel code that only misbehaves for some lane
counts (a split point computed with a mask instead of `%`, say).
-/
import CfavmlModel.Spec.Scalar
import CfavmlModel.Lemmas.Monoid

namespace Cfavml.Hand

variable {T : Type}

def mkDense (f : Nat → Nat → T) : DenseLane (Nat → T) :=
  ⟨f 0, f 1, f 2, f 3, f 4, f 5, f 6, f 7⟩

/-- lane-wise binary operation; `ok` = the second operand's lanes on which the operation does not panic -/
def lane2 (L : Nat) (f : T → T → T) (ok : T → Bool) (x y : Nat → T) : Exec (Nat → T) :=
  if (List.range L).all (fun k => ok (y k)) then pure (fun k => f (x k) (y k)) else throw Fault.panic

def dense2 (L : Nat) (f : T → T → T) (ok : T → Bool) (x y : DenseLane (Nat → T)) : Exec (DenseLane (Nat → T)) :=
  if (List.range 8).all (fun j => (List.range L).all (fun k => ok (y.nth j k))) then
    pure (mkDense (fun j k => f (x.nth j k) (y.nth j k)))
  else throw Fault.panic

def laneTree8 (op : T → T → T) (d : DenseLane (Nat → T)) : Nat → T := fun k =>
  op (op (op (d.a k) (d.b k)) (op (d.c k) (d.d k))) (op (op (d.e k) (d.f k)) (op (d.g k) (d.h k)))

/-- the horizontal fold of the max / min reductions: a left fold over the lanes starting from lane 0 -/
def foldFrom0 (op : T → T → T) (L : Nat) (r : Nat → T) : T :=
  (List.range (L - 1)).foldl (fun acc k => op acc (r (k + 1))) (r 0)

/-- the reference backend with `L` lanes per register over the scalar operations of `S` -/
def modelReg (L : Nat) (S : ScalarSpec T) : SimdRegister T (Nat → T) where
  elements_per_dense := pure (L * 8)
  elements_per_lane := pure L
  load := fun s i => s.readRange i L
  filled := fun v => pure (fun _ => v)
  zeroed := pure (fun _ => S.zero)
  load_dense := fun s i =>
    if i + L * 8 ≤ s.size then pure (mkDense (fun j k => s.get (i + j * L + k))) else throw Fault.oobRead
  filled_dense := fun v => pure (DenseLane.copy (fun _ => v))
  zeroed_dense := pure (DenseLane.copy (fun _ => S.zero))
  add := lane2 L S.add (fun _ => true)
  sub := lane2 L S.sub (fun _ => true)
  mul := lane2 L S.mul (fun _ => true)
  div := lane2 L S.div S.divOk
  fmadd := fun x y acc => pure (fun k => S.add (S.mul (x k) (y k)) (acc k))
  max := lane2 L S.cmpMax (fun _ => true)
  min := lane2 L S.cmpMin (fun _ => true)
  add_dense := dense2 L S.add (fun _ => true)
  sub_dense := dense2 L S.sub (fun _ => true)
  mul_dense := dense2 L S.mul (fun _ => true)
  div_dense := dense2 L S.div S.divOk
  fmadd_dense := fun x y acc => pure (mkDense (fun j k => S.add (S.mul (x.nth j k) (y.nth j k)) (acc.nth j k)))
  max_dense := dense2 L S.cmpMax (fun _ => true)
  min_dense := dense2 L S.cmpMin (fun _ => true)
  sum_to_value := fun r => pure (sumR S.add S.zero r L)
  sum_to_register := fun d => pure (laneTree8 S.add d)
  max_to_value := fun r => pure (foldFrom0 S.cmpMax L r)
  max_to_register := fun d => pure (laneTree8 S.cmpMax d)
  min_to_value := fun r => pure (foldFrom0 S.cmpMin L r)
  min_to_register := fun d => pure (laneTree8 S.cmpMin d)
  write := fun s i r => s.writeRange i L r
  write_dense := fun s i d =>
    if i + L * 8 ≤ s.size then pure (s.setRange i (L * 8) (fun k => d.nth (k / L) (k % L))) else throw Fault.oobWrite

end Cfavml.Hand
