/-
Hand-written glue for `transpose_matrix` (cfavml-gemm): which element-type-specific AVX2 routine stands behind
the two `mem::transmute::<&[T], &[f32|f64]>` views of the generated `transpose_matrix`.

`transpose_matrix::<T>` re-views `&[T]` as `&[f32]` when `TypeId::of::<T>()` is `f32`/`u32` and as `&[f64]` when it
is `f64`/`u64`.  A transmute between slices of equally sized plain-data elements is the identity on bit patterns,
and the model's `F32 = U32 = BitVec 32`, `F64 = U64 = BitVec 64`, so the views are the identity here.  The branch
for the other width is unreachable for a well-typed instantiation (`TyOk`); it is filled with a routine that reports
`Fault.arith`, and the C15 theorems show that no instantiation ever produces it.
-/
import CfavmlModel.Gen.Transpose

namespace Cfavml

/-- stands in a branch that the type system of Rust makes unreachable -/
def unreachableExt {T : Type} : Nat → Nat → Slice T → Slice T → Exec (Slice T) := fun _ _ _ _ => throw Fault.arith

/-- `transpose_matrix::<T>` for a 4-byte `T` (`f32`, `u32` take the AVX2 path; `i32`, … are `RTy.other`) -/
def transpose_matrix_b32 (E : Env) (ty : RTy) (width height : Nat) (data result : Slice (BitVec 32)) : Exec (Slice (BitVec 32)) :=
  transpose_matrix E ty (f32_xany_avx2_nofma_transpose E) unreachableExt width height data result

/-- `transpose_matrix::<T>` for an 8-byte `T` (`f64`, `u64` take the AVX2 path; `i64`, … are `RTy.other`) -/
def transpose_matrix_b64 (E : Env) (ty : RTy) (width height : Nat) (data result : Slice (BitVec 64)) : Exec (Slice (BitVec 64)) :=
  transpose_matrix E ty unreachableExt (f64_xany_avx2_nofma_transpose E) width height data result

/-- `transpose_matrix::<T>` for every other `T` (any size): `TypeId::of::<T>()` is none of the four -/
def transpose_matrix_other {T : Type} (E : Env) (width height : Nat) (data result : Slice T) : Exec (Slice T) :=
  transpose_matrix E RTy.other unreachableExt unreachableExt width height data result

/-- the `TypeId`s a 4-byte element type can have -/
def TyOk32 (ty : RTy) : Prop := ty = .f32 ∨ ty = .u32 ∨ ty = .other
/-- the `TypeId`s an 8-byte element type can have -/
def TyOk64 (ty : RTy) : Prop := ty = .f64 ∨ ty = .u64 ∨ ty = .other

end Cfavml
