/-
Hand-written *state-machine* model of cfavml-utils/src/aligned_buffer.rs: a heap of buffers of one element type and the
public operations on them (`zeroed`, indexing through `as_mut_slice` / `as_slice` / `Deref`, `copy_from_slice`, `clone`,
`clone_from`, `len`, `allocated_size`), with the storage modelled at the byte level — the `Box<[AlignedBytes]>` is a
`Slice` of bytes, and an element is the `size_of::<T>()` bytes at offset `i * size_of::<T>()`, which is what the casts
`self.buffer.as_ptr().cast()` in `as_slice` / `as_mut_slice` make of it.  A view is only defined when its `len` elements lie
inside the allocation (`viewOk`); the model faults with `oobRead` / `oobWrite` otherwise, so "no reachable state faults" is
the memory-safety part of C16.

Tied to the code by the `abufs` correspondence run: the harness drives the real `AlignedBuffer<T>` (T of size 1, 2, 4, 8,
16, 32, 64) through random operation sequences and the driver replays the same sequences on `step`.
-/
import CfavmlModel.Hand.AlignedBuffer

namespace Cfavml.Hand

structure ABufV where
  /-- `size_of::<T>()` -/
  sizeT : Nat
  /-- the `len`, `allocated_size` fields and `buffer.len()` -/
  hdr : ABuf
  /-- the bytes of `buffer : Box<[AlignedBytes]>` -/
  store : Slice Nat

/-- `AlignedBuffer::<T>::zeroed(len)`: `num_chunks` copies of `AlignedBytes::default()` = `[0; 64]` -/
def zeroedV (sizeT len : Nat) : Exec ABufV := do
  let h ← zeroed sizeT len
  pure { sizeT := sizeT, hdr := h, store := ⟨h.numChunks * chunkBytes, fun _ => 0⟩ }

/-- `from_raw_parts(self.buffer.as_ptr().cast(), self.len)` lies inside the allocation -/
def ABufV.viewOk (b : ABufV) : Bool := b.hdr.len * b.sizeT ≤ b.store.size

/-- element `i` of the view: the `sizeT` bytes at offset `i * sizeT` -/
def ABufV.elem (b : ABufV) (i : Nat) : List Nat :=
  (List.range b.sizeT).map (fun t => b.store.get (i * b.sizeT + t))

/-- `self.as_slice()[i]` (also through `Deref`) -/
def ABufV.readAt (b : ABufV) (i : Nat) : Exec (List Nat) :=
  if !b.viewOk then .error Fault.oobRead
  else if i < b.hdr.len then .ok (b.elem i) else .error Fault.panic

def ABufV.setElem (b : ABufV) (i : Nat) (v : List Nat) : ABufV :=
  { b with store := ⟨b.store.size, fun p =>
      if i * b.sizeT ≤ p ∧ p < (i + 1) * b.sizeT then v.getD (p - i * b.sizeT) 0 else b.store.get p⟩ }

/-- `self.as_mut_slice()[i] = v` -/
def ABufV.writeAt (b : ABufV) (i : Nat) (v : List Nat) : Exec ABufV :=
  if !b.viewOk then .error Fault.oobWrite
  else if i < b.hdr.len then .ok (b.setElem i v) else .error Fault.panic

/-- `self.copy_from_slice(data)`: `<[T]>::copy_from_slice` panics unless the lengths are equal -/
def ABufV.copyFrom (b : ABufV) (vs : List (List Nat)) : Exec ABufV :=
  if !b.viewOk then .error Fault.oobWrite
  else if vs.length = b.hdr.len then
    .ok { b with store := ⟨b.store.size, fun p =>
      if p < b.hdr.len * b.sizeT then (vs.getD (p / b.sizeT) []).getD (p % b.sizeT) 0 else b.store.get p⟩ }
  else .error Fault.panic

/-- every element of the view -/
def ABufV.dump (b : ABufV) : Exec (List (List Nat)) :=
  if !b.viewOk then .error Fault.oobRead else .ok ((List.range b.hdr.len).map b.elem)

/-- `#[derive(Clone)]`: the fields are cloned one by one; `Box<[AlignedBytes]>::clone` copies the storage (values are
immutable here, so a copy is the same value; that the two are *independent* is a theorem about `step`) -/
def ABufV.clone (b : ABufV) : ABufV := { sizeT := b.sizeT, hdr := b.hdr, store := ⟨b.store.size, b.store.get⟩ }

inductive AOp where
  | zeroed (len : Nat)
  | write (k i : Nat) (v : List Nat)
  | read (k i : Nat)
  | clone (k : Nat)
  /-- `heap[d].clone_from(&heap[s])`: the derived `Clone` has the default `clone_from`, `*self = source.clone()` -/
  | cloneFrom (d s : Nat)
  | copyFrom (k : Nat) (vs : List (List Nat))
  | info (k : Nat)
  | dump (k : Nat)

inductive AOut where
  | info (len alloc : Nat)
  | unit
  | elem (v : List Nat)
  | elems (vs : List (List Nat))
  | fault (f : Fault)
  /-- not an operation of the interface (no such buffer, a value that is not `size_of::<T>()` bytes) -/
  | bad
  deriving DecidableEq, Repr

/-- one operation on a heap of buffers of one element type -/
def step (sizeT : Nat) (h : List ABufV) : AOp → List ABufV × AOut
  | .zeroed len =>
    match zeroedV sizeT len with
    | .ok b => (h ++ [b], .info b.hdr.len b.hdr.allocatedSize)
    | .error f => (h, .fault f)
  | .write k i v =>
    match h[k]? with
    | none => (h, .bad)
    | some b =>
      if v.length ≠ sizeT then (h, .bad)
      else match b.writeAt i v with
        | .ok b' => (h.set k b', .unit)
        | .error f => (h, .fault f)
  | .read k i =>
    match h[k]? with
    | none => (h, .bad)
    | some b =>
      match b.readAt i with
      | .ok v => (h, .elem v)
      | .error f => (h, .fault f)
  | .clone k =>
    match h[k]? with
    | none => (h, .bad)
    | some b => (h ++ [b.clone], .info b.hdr.len b.hdr.allocatedSize)
  | .cloneFrom d s =>
    match h[d]?, h[s]? with
    | some _, some b => (h.set d b.clone, .info b.hdr.len b.hdr.allocatedSize)
    | _, _ => (h, .bad)
  | .copyFrom k vs =>
    match h[k]? with
    | none => (h, .bad)
    | some b =>
      if !vs.all (fun v => v.length == sizeT) then (h, .bad)
      else match b.copyFrom vs with
        | .ok b' => (h.set k b', .unit)
        | .error f => (h, .fault f)
  | .info k =>
    match h[k]? with
    | none => (h, .bad)
    | some b => (h, .info b.hdr.len b.hdr.allocatedSize)
  | .dump k =>
    match h[k]? with
    | none => (h, .bad)
    | some b =>
      match b.dump with
      | .ok vs => (h, .elems vs)
      | .error f => (h, .fault f)

/-- a history of operations from the empty heap, with the outputs in order -/
def run (sizeT : Nat) : List ABufV → List AOp → List ABufV × List AOut
  | h, [] => (h, [])
  | h, op :: ops =>
    let (h1, o) := step sizeT h op
    let (h2, os) := run sizeT h1 ops
    (h2, o :: os)

/-! ### the abstract specification: a heap of independent vectors -/

/-- `allocated_size()` of a buffer of `len` elements of `sizeT` bytes -/
def allocOf (sizeT len : Nat) : Nat := 64 / sizeT * (len / (64 / sizeT) + 1)

/-- one operation on the specification's heap: each buffer is just the list of its `len` elements -/
def specStep (sizeT : Nat) (h : List (List (List Nat))) : AOp → List (List (List Nat)) × AOut
  | .zeroed len =>
    if sizeT ≠ 0 ∧ 64 % sizeT = 0 ∧ fits sizeT len then
      (h ++ [List.replicate len (List.replicate sizeT 0)], .info len (allocOf sizeT len))
    else (h, .fault Fault.panic)
  | .write k i v =>
    match h[k]? with
    | none => (h, .bad)
    | some b =>
      if v.length ≠ sizeT then (h, .bad)
      else if i < b.length then (h.set k (b.set i v), .unit) else (h, .fault Fault.panic)
  | .read k i =>
    match h[k]? with
    | none => (h, .bad)
    | some b => if hi : i < b.length then (h, .elem b[i]) else (h, .fault Fault.panic)
  | .clone k =>
    match h[k]? with
    | none => (h, .bad)
    | some b => (h ++ [b], .info b.length (allocOf sizeT b.length))
  | .cloneFrom d s =>
    match h[d]?, h[s]? with
    | some _, some b => (h.set d b, .info b.length (allocOf sizeT b.length))
    | _, _ => (h, .bad)
  | .copyFrom k vs =>
    match h[k]? with
    | none => (h, .bad)
    | some b =>
      if !vs.all (fun v => v.length == sizeT) then (h, .bad)
      else if vs.length = b.length then (h.set k vs, .unit) else (h, .fault Fault.panic)
  | .info k =>
    match h[k]? with
    | none => (h, .bad)
    | some b => (h, .info b.length (allocOf sizeT b.length))
  | .dump k =>
    match h[k]? with
    | none => (h, .bad)
    | some b => (h, .elems b)

def specRun (sizeT : Nat) : List (List (List Nat)) → List AOp → List (List (List Nat)) × List AOut
  | h, [] => (h, [])
  | h, op :: ops =>
    let (h1, o) := specStep sizeT h op
    let (h2, os) := specRun sizeT h1 ops
    (h2, o :: os)

end Cfavml.Hand
