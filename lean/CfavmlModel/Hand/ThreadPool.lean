/-
Hand-written model of cfavml-utils/src/threadpool.rs and pinning.rs (tied to the code by the `pool` probe
grid of the check: the real `get_or_init_pool()` is run in a fresh process per environment and compared with
this model). The operating system, the environment, rayon and `num_cpus` are parameters:
* `physical` = `num_cpus::get_physical()` (≥ 1);
* rayon builds a pool of exactly `n` threads for `num_threads(n)`, `n > 0` (and picks its own default for 0);
* `OnceLock::get_or_init` runs exactly one initialiser to completion and every caller then observes its value.
-/
import CfavmlModel.Prim.Exec

namespace Cfavml.Hand

/-- `str::parse::<usize>()`: an optional leading `+`, then one or more ASCII digits, value ≤ `usize::MAX` -/
def parseUsize (s : String) : Option Nat :=
  let cs := s.toList
  let ds := match cs with
    | '+' :: rest => rest
    | _ => cs
  if ds.isEmpty then none
  else if ds.all (fun c => '0' ≤ c ∧ c ≤ '9') then
    let v := ds.foldl (fun acc c => acc * 10 + (c.toNat - '0'.toNat)) 0
    if v < usizeMod then some v else none
  else none

/-- `cast_bool`: membership in `["1", "true", "TRUE"]` -/
def castBool (v : String) : Bool := v == "1" || v == "true" || v == "TRUE"

/-- `config_bool(name)`: unset ⇒ false -/
def configBool (v : Option String) : Bool := (v.map castBool).getD false

structure PoolEnv where
  /-- `CFAVML_NUM_THREADS` -/
  numThreads : Option String
  /-- `CFAVML_NO_CACHE_THREADPOOL` -/
  noCache : Option String
  /-- `CFAVML_NO_PINNING` -/
  noPinning : Option String
  /-- `num_cpus::get_physical()` -/
  physical : Nat
  /-- the crate is built with its `env-var-compat` feature -/
  compat : Bool := false
  /-- `OMP_NUM_THREADS` (read only with `env-var-compat`) -/
  ompThreads : Option String := none
  /-- `OPENBLAS_NUM_THREADS` (read only with `env-var-compat`) -/
  openblasThreads : Option String := none
  /-- `CFAVML_DEBUG`: switches the diagnostic printed for an unparsable thread count; read once, by `load_debug`,
  never while another variable is being read -/
  debug : Option String := none

/-- the variable `config_num_threads()` takes the thread count from: the first one that is set among
`CFAVML_NUM_THREADS`, and — with the `env-var-compat` feature — `OMP_NUM_THREADS`, `OPENBLAS_NUM_THREADS` -/
def requestedVar (e : PoolEnv) : Option String :=
  match e.numThreads with
  | some v => some v
  | none =>
    if e.compat then
      match e.ompThreads with
      | some v => some v
      | none => e.openblasThreads
    else none

/-- `config_num_threads()`: the selected variable if it parses, else the physical core count (a variable that is set
but does not parse does *not* fall through to the next one) -/
def configNumThreads (e : PoolEnv) : Nat :=
  match requestedVar e with
  | some v => (parseUsize v).getD e.physical
  | none => e.physical

/-- `load_debug`'s `SHOULD_LOG`: whether the diagnostic is printed -/
def shouldLog (e : PoolEnv) : Bool := configBool e.debug

/-- the `num_threads` handed to rayon by `create_pool()` (after the fix 3dda54f: zero means "physical") -/
def poolThreads (e : PoolEnv) : Nat :=
  match configNumThreads e with
  | 0 => e.physical
  | requested => min requested e.physical

/-- `pin_current(idx)` given the number of CPUs in the affinity mask: `none` = panic (which, inside rayon's start
handler, aborts the process), `some b` = its return value. Since the fix 8898592 no build configuration panics:
an index beyond the mask leaves the thread unpinned. -/
def pinCurrent (_debugAssertions : Bool) (numAvailable idx : Nat) (setAffinityOk : Bool) : Option Bool :=
  if numAvailable = 0 then some false
  else if numAvailable ≤ idx then some false
  else some setAffinityOk

/-! ### the shared pool: `OnceLock<Option<ThreadPool>>` -/

/-- pools are identified by the order of their creation -/
abbrev PoolId := Nat

inductive PoolRef where
  | borrowed (id : PoolId)
  | owned (id : PoolId)
  deriving DecidableEq, Repr

structure PoolState where
  /-- the `OnceLock`: `none` = not yet initialised, `some none` = caching disabled, `some (some id)` = shared pool -/
  cell : Option (Option PoolId)
  /-- pools created so far -/
  created : Nat

def PoolState.init : PoolState := ⟨none, 0⟩

/-- one (linearised) call of `get_or_init_pool()` -/
def getOrInitPool (e : PoolEnv) (s : PoolState) : PoolState × PoolRef :=
  let s1 : PoolState :=
    match s.cell with
    | some _ => s
    | none => if configBool e.noCache then ⟨some none, s.created⟩ else ⟨some (some s.created), s.created + 1⟩
  match s1.cell with
  | some (some id) => (s1, .borrowed id)
  | _ => (⟨s1.cell, s1.created + 1⟩, .owned s1.created)

/-- a history of calls (any interleaving of any number of threads, linearised by the `OnceLock`) -/
def runCalls (e : PoolEnv) : Nat → PoolState → PoolState × List PoolRef
  | 0, s => (s, [])
  | n + 1, s =>
    let (s1, r) := getOrInitPool e s
    let (s2, rs) := runCalls e n s1
    (s2, r :: rs)

end Cfavml.Hand
