/-
Hand-written model of cfavml-utils/src/aligned_buffer.rs (tied to the code by the `abuf` correspondence run:
the real `AlignedBuffer::<T>::zeroed(len)` and this model are run on the same (size_of T, len) and compared).

Storage is `num_chunks` chunks of `AlignedBytes = #[repr(C, align(64))] [u8; 64]` in a `Box<[AlignedBytes]>`;
the allocator contract (trusted) places a `Box<[U]>` at an address that is a multiple of `align_of U`.
-/
import CfavmlModel.Prim.Exec

namespace Cfavml.Hand

/-- bytes per chunk and alignment of `AlignedBytes` -/
def chunkBytes : Nat := 64
def chunkAlign : Nat := 64

structure ABuf where
  /-- `self.len`: the length of every view -/
  len : Nat
  /-- `self.allocated_size` -/
  allocatedSize : Nat
  /-- `self.buffer.len()` -/
  numChunks : Nat
  deriving Repr, DecidableEq

/-- `isize::MAX`: `Vec::with_capacity(n)` of 64-byte elements panics ("capacity overflow") when `n * 64` exceeds it -/
def isizeMax : Nat := 2 ^ 63 - 1

/-- the request can be allocated at all: its chunks occupy at most `isize::MAX` bytes -/
def fits (sizeT len : Nat) : Prop := (len / (64 / sizeT) + 1) * 64 ≤ isizeMax

instance (sizeT len : Nat) : Decidable (fits sizeT len) := by unfold fits; exact inferInstance

/-- `AlignedBuffer::<T>::zeroed(len)` as a function of `size_of::<T>()`:
`assert_eq!(64 % size_of::<T>(), 0)` (a remainder by zero panics for a zero-sized type),
`num_per_chunk = 64 / size`, `num_chunks = (len / num_per_chunk).checked_add(1).expect(…)` (since the fix 2309454; before it
`+ 1` wrapped to 0 for `len = usize::MAX`, `size = 64` when overflow checks are off), `Vec::with_capacity(num_chunks)`
(panics with "capacity overflow" beyond `isize::MAX` bytes), `allocated_size = num_per_chunk * buffer.len()`.
That the allocator then delivers the memory is trusted (an allocation failure aborts the process; it is not a panic). -/
def zeroed (sizeT len : Nat) : Exec ABuf := do
  let r ← umod chunkBytes sizeT
  assertEq r 0
  let numPerChunk ← udiv chunkBytes sizeT
  let q ← udiv len numPerChunk
  if usizeMod ≤ q + 1 then throw Fault.panic
  let numChunks := q + 1
  if isizeMax < numChunks * chunkBytes then throw Fault.panic
  pure { len := len, allocatedSize := numPerChunk * numChunks, numChunks := numChunks }

/-- bytes of backing storage -/
def ABuf.storageBytes (b : ABuf) : Nat := b.numChunks * chunkBytes

end Cfavml.Hand
