/-
Hand-written model of cfavml-utils/src/aligned_buffer.rs (tied to the code by the `abuf` correspondence run:
the real `AlignedBuffer::<T>::zeroed(len)` and this model are run on the same (size_of T, len) and compared).

Storage is `num_chunks` chunks of `AlignedBytes = #[repr(C, align(64))] [u8; 64]` in a `Box<[AlignedBytes]>`;
the allocator contract (trusted) places a `Box<[U]>` at an address that is a multiple of `align_of U`.
-/
import CfavmlModel.Prim.Exec

namespace Cfavml.Hand

/-- bytes per chunk and alignment of `AlignedBytes` -/
def chunkBytes : Nat := 64
def chunkAlign : Nat := 64

structure ABuf where
  /-- `self.len`: the length of every view -/
  len : Nat
  /-- `self.allocated_size` -/
  allocatedSize : Nat
  /-- `self.buffer.len()` -/
  numChunks : Nat
  deriving Repr, DecidableEq

/-- `AlignedBuffer::<T>::zeroed(len)` as a function of `size_of::<T>()`:
`assert_eq!(64 % size_of::<T>(), 0)` (a remainder by zero panics for a zero-sized type),
`num_per_chunk = 64 / size`, `num_chunks = len / num_per_chunk + 1`, `allocated_size = num_per_chunk * buffer.len()`. -/
def zeroed (sizeT len : Nat) : Exec ABuf := do
  let r ← umod chunkBytes sizeT
  assertEq r 0
  let numPerChunk ← udiv chunkBytes sizeT
  let q ← udiv len numPerChunk
  let numChunks := q + 1
  pure { len := len, allocatedSize := numPerChunk * numChunks, numChunks := numChunks }

/-- bytes of backing storage -/
def ABuf.storageBytes (b : ABuf) : Nat := b.numChunks * chunkBytes

end Cfavml.Hand
