/-
Layer 0 (hand-written, trusted): Rust scalar primitives on bit patterns.
Integers are `BitVec w` with the signedness carried by the operation name (`I8.max` vs `U8.max`);
floats are bit patterns whose arithmetic is delegated to `E.F : FloatOps`.
-/
import CfavmlModel.Prim.Exec

namespace Cfavml

abbrev I8 := BitVec 8
abbrev I16 := BitVec 16
abbrev I32 := BitVec 32
abbrev I64 := BitVec 64
abbrev U8 := BitVec 8
abbrev U16 := BitVec 16
abbrev U32 := BitVec 32
abbrev U64 := BitVec 64
abbrev F32 := BitVec 32
abbrev F64 := BitVec 64

/-! ## generic integer primitives -/
namespace IntPrim

/-- `wrapping_div`, signed: division by zero panics, `MIN / -1 = MIN` (what `BitVec.sdiv` gives) -/
def sdivW {w} (a b : BitVec w) : Exec (BitVec w) :=
  if b = 0 then throw Fault.panic else pure (BitVec.sdiv a b)

/-- `wrapping_div`, unsigned -/
def udivW {w} (a b : BitVec w) : Exec (BitVec w) :=
  if b = 0 then throw Fault.panic else pure (a / b)

def smax {w} (a b : BitVec w) : BitVec w := if BitVec.slt a b then b else a
def smin {w} (a b : BitVec w) : BitVec w := if BitVec.slt b a then b else a
def umax {w} (a b : BitVec w) : BitVec w := if BitVec.ult a b then b else a
def umin {w} (a b : BitVec w) : BitVec w := if BitVec.ult b a then b else a

/-- `iN::abs`: `MIN.abs()` panics with overflow checks and wraps to `MIN` without -/
def sabs {w} (E : Env) (a : BitVec w) : Exec (BitVec w) :=
  if a = BitVec.intMin w then (if E.overflowChecks then throw Fault.panic else pure a)
  else pure (if a.msb then -a else a)

end IntPrim

open Lean in
/-- `declare_int I8 8 signed` / `declare_int U8 8 unsigned` -/
macro "declare_int " ns:ident w:num sg:ident : command => do
  let signed := sg.getId == `signed
  let mk (s : String) : Ident := mkIdent (ns.getId ++ Name.mkSimple s)
  let maxT ← if signed then `(BitVec.intMax $w) else `(BitVec.allOnes $w)
  let minT ← if signed then `(BitVec.intMin $w) else `((0 : BitVec $w))
  let divT ← if signed then `(IntPrim.sdivW a b) else `(IntPrim.udivW a b)
  let maxF ← if signed then `(IntPrim.smax a b) else `(IntPrim.umax a b)
  let minF ← if signed then `(IntPrim.smin a b) else `(IntPrim.umin a b)
  let toI ← if signed then `(a.toInt) else `((a.toNat : Int))
  let ltF ← if signed then `(BitVec.slt a b) else `(BitVec.ult a b)
  let absT ← if signed then `(IntPrim.sabs E a) else `((pure a : Exec (BitVec $w)))
  `(
    @[reducible] def $(mk "lit") (n : Nat) : BitVec $w := BitVec.ofNat $w n
    @[reducible] def $(mk "MAX") : BitVec $w := $maxT
    @[reducible] def $(mk "MIN") : BitVec $w := $minT
    @[reducible] def $(mk "toNat") (a : BitVec $w) : Nat := a.toNat
    @[reducible] def $(mk "toIntVal") (a : BitVec $w) : Int := $toI
    @[reducible] def $(mk "wrapping_add") (E : Env) (a b : BitVec $w) : BitVec $w := a + b
    @[reducible] def $(mk "wrapping_sub") (E : Env) (a b : BitVec $w) : BitVec $w := a - b
    @[reducible] def $(mk "wrapping_mul") (E : Env) (a b : BitVec $w) : BitVec $w := a * b
    @[reducible] def $(mk "wrapping_div") (E : Env) (a b : BitVec $w) : Exec (BitVec $w) := $divT
    @[reducible] def $(mk "max") (E : Env) (a b : BitVec $w) : BitVec $w := $maxF
    @[reducible] def $(mk "min") (E : Env) (a b : BitVec $w) : BitVec $w := $minF
    @[reducible] def $(mk "abs") (E : Env) (a : BitVec $w) : Exec (BitVec $w) := $absT
    @[reducible] def $(mk "eq") (E : Env) (a b : BitVec $w) : Bool := a == b
    @[reducible] def $(mk "ne") (E : Env) (a b : BitVec $w) : Bool := a != b
    @[reducible] def $(mk "lt") (E : Env) (a b : BitVec $w) : Bool := $ltF
    @[reducible] def $(mk "as_f64") (E : Env) (a : BitVec $w) : BitVec 64 := E.F.intToF64 $toI
    -- operators used on plain integers (wrapping; only the no-std sqrt approximation uses them)
    @[reducible] def $(mk "add") (E : Env) (a b : BitVec $w) : BitVec $w := a + b
    @[reducible] def $(mk "sub") (E : Env) (a b : BitVec $w) : BitVec $w := a - b
    @[reducible] def $(mk "and") (E : Env) (a b : BitVec $w) : BitVec $w := a &&& b
    @[reducible] def $(mk "or") (E : Env) (a b : BitVec $w) : BitVec $w := a ||| b
    @[reducible] def $(mk "xor") (E : Env) (a b : BitVec $w) : BitVec $w := a ^^^ b
    @[reducible] def $(mk "not") (E : Env) (a : BitVec $w) : BitVec $w := ~~~a
    @[reducible] def $(mk "shl") (E : Env) (a : BitVec $w) (n : BitVec 32) : BitVec $w := a <<< n.toNat
    @[reducible] def $(mk "shr") (E : Env) (a : BitVec $w) (n : BitVec 32) : BitVec $w := a >>> n.toNat
  )

declare_int I8 8 signed
declare_int I16 16 signed
declare_int I32 32 signed
declare_int I64 64 signed
declare_int U8 8 unsigned
declare_int U16 16 unsigned
declare_int U32 32 unsigned
declare_int U64 64 unsigned

/-! same-width reinterpreting casts -/
@[reducible] def U8.as_i8 (_ : Env) (a : U8) : I8 := a
@[reducible] def U16.as_i16 (_ : Env) (a : U16) : I16 := a
@[reducible] def U32.as_i32 (_ : Env) (a : U32) : I32 := a
@[reducible] def U64.as_i64 (_ : Env) (a : U64) : I64 := a
@[reducible] def I8.as_u8 (_ : Env) (a : I8) : U8 := a
@[reducible] def I16.as_u16 (_ : Env) (a : I16) : U16 := a
@[reducible] def I32.as_u32 (_ : Env) (a : I32) : U32 := a
@[reducible] def I64.as_u64 (_ : Env) (a : I64) : U64 := a

/-! ## floats -/

def F32.zero : F32 := 0x00000000#32
def F32.one : F32 := 0x3f800000#32
def F32.INFINITY : F32 := 0x7f800000#32
def F32.NEG_INFINITY : F32 := 0xff800000#32
def F32.NAN : F32 := 0x7fc00000#32
def F64.zero : F64 := 0x0000000000000000#64
def F64.one : F64 := 0x3ff0000000000000#64
def F64.INFINITY : F64 := 0x7ff0000000000000#64
def F64.NEG_INFINITY : F64 := 0xfff0000000000000#64
def F64.NAN : F64 := 0x7ff8000000000000#64

@[reducible] def F32.add (E : Env) (a b : F32) : F32 := E.F.add32 a b
@[reducible] def F32.sub (E : Env) (a b : F32) : F32 := E.F.sub32 a b
@[reducible] def F32.mul (E : Env) (a b : F32) : F32 := E.F.mul32 a b
@[reducible] def F32.div (E : Env) (a b : F32) : F32 := E.F.div32 a b
@[reducible] def F32.sqrt (E : Env) (a : F32) : F32 := E.F.sqrt32 a
@[reducible] def F32.max (E : Env) (a b : F32) : F32 := E.F.rmax32 a b
@[reducible] def F32.min (E : Env) (a b : F32) : F32 := E.F.rmin32 a b
@[reducible] def F32.eq (E : Env) (a b : F32) : Bool := E.F.eq32 a b
@[reducible] def F32.ne (E : Env) (a b : F32) : Bool := !E.F.eq32 a b
@[reducible] def F32.lt (E : Env) (a b : F32) : Bool := E.F.lt32 a b
@[reducible] def F32.le (E : Env) (a b : F32) : Bool := E.F.le32 a b
@[reducible] def F32.gt (E : Env) (a b : F32) : Bool := E.F.lt32 b a
@[reducible] def F32.ge (E : Env) (a b : F32) : Bool := E.F.le32 b a
/-- `f32::abs`: clear the sign bit -/
@[reducible] def F32.abs (_ : Env) (a : F32) : F32 := a &&& 0x7fffffff#32
@[reducible] def F32.to_bits (_ : Env) (a : F32) : U32 := a
@[reducible] def F32.from_bits (_ : Env) (a : U32) : F32 := a
@[reducible] def F32.as_f64 (E : Env) (a : F32) : F64 := E.F.f32ToF64 a
@[reducible] def F32.fadd_algebraic (E : Env) (a b : F32) : F32 := E.F.addAlg32 a b
@[reducible] def F32.fsub_algebraic (E : Env) (a b : F32) : F32 := E.F.subAlg32 a b
@[reducible] def F32.fmul_algebraic (E : Env) (a b : F32) : F32 := E.F.mulAlg32 a b
@[reducible] def F32.fdiv_algebraic (E : Env) (a b : F32) : F32 := E.F.divAlg32 a b

@[reducible] def F64.add (E : Env) (a b : F64) : F64 := E.F.add64 a b
@[reducible] def F64.sub (E : Env) (a b : F64) : F64 := E.F.sub64 a b
@[reducible] def F64.mul (E : Env) (a b : F64) : F64 := E.F.mul64 a b
@[reducible] def F64.div (E : Env) (a b : F64) : F64 := E.F.div64 a b
@[reducible] def F64.sqrt (E : Env) (a : F64) : F64 := E.F.sqrt64 a
@[reducible] def F64.max (E : Env) (a b : F64) : F64 := E.F.rmax64 a b
@[reducible] def F64.min (E : Env) (a b : F64) : F64 := E.F.rmin64 a b
@[reducible] def F64.eq (E : Env) (a b : F64) : Bool := E.F.eq64 a b
@[reducible] def F64.ne (E : Env) (a b : F64) : Bool := !E.F.eq64 a b
@[reducible] def F64.lt (E : Env) (a b : F64) : Bool := E.F.lt64 a b
@[reducible] def F64.le (E : Env) (a b : F64) : Bool := E.F.le64 a b
@[reducible] def F64.gt (E : Env) (a b : F64) : Bool := E.F.lt64 b a
@[reducible] def F64.ge (E : Env) (a b : F64) : Bool := E.F.le64 b a
@[reducible] def F64.abs (_ : Env) (a : F64) : F64 := a &&& 0x7fffffffffffffff#64
@[reducible] def F64.to_bits (_ : Env) (a : F64) : U64 := a
@[reducible] def F64.from_bits (_ : Env) (a : U64) : F64 := a
@[reducible] def F64.as_f32 (E : Env) (a : F64) : F32 := E.F.f64ToF32 a
@[reducible] def F64.fadd_algebraic (E : Env) (a b : F64) : F64 := E.F.addAlg64 a b
@[reducible] def F64.fsub_algebraic (E : Env) (a b : F64) : F64 := E.F.subAlg64 a b
@[reducible] def F64.fmul_algebraic (E : Env) (a b : F64) : F64 := E.F.mulAlg64 a b
@[reducible] def F64.fdiv_algebraic (E : Env) (a b : F64) : F64 := E.F.divAlg64 a b

/-- `x as iN` / `x as uN` for `x : f64` (saturating, NaN ↦ 0) -/
@[reducible] def F64.as_i8 (E : Env) (a : F64) : I8 := BitVec.ofInt 8 (E.F.f64ToInt a (-128) 127)
@[reducible] def F64.as_i16 (E : Env) (a : F64) : I16 := BitVec.ofInt 16 (E.F.f64ToInt a (-32768) 32767)
@[reducible] def F64.as_i32 (E : Env) (a : F64) : I32 := BitVec.ofInt 32 (E.F.f64ToInt a (-2147483648) 2147483647)
@[reducible] def F64.as_i64 (E : Env) (a : F64) : I64 :=
  BitVec.ofInt 64 (E.F.f64ToInt a (-9223372036854775808) 9223372036854775807)
@[reducible] def F64.as_u8 (E : Env) (a : F64) : U8 := BitVec.ofInt 8 (E.F.f64ToInt a 0 255)
@[reducible] def F64.as_u16 (E : Env) (a : F64) : U16 := BitVec.ofInt 16 (E.F.f64ToInt a 0 65535)
@[reducible] def F64.as_u32 (E : Env) (a : F64) : U32 := BitVec.ofInt 32 (E.F.f64ToInt a 0 4294967295)
@[reducible] def F64.as_u64 (E : Env) (a : F64) : U64 := BitVec.ofInt 64 (E.F.f64ToInt a 0 18446744073709551615)

/-! ## register <-> array reinterpretation (`mem::transmute`) -/

/-- lane `k` of width `w` of a register of `n` bits -/
def lane {n : Nat} (w k : Nat) (r : BitVec n) : BitVec w := (r >>> (w * k)).setWidth w

/-- register made of the lanes `f 0, .., f (cnt-1)` (lane 0 in the low bits) -/
def fromLanes {n : Nat} (w : Nat) : (cnt : Nat) → (Nat → BitVec w) → BitVec n
  | 0, _ => 0
  | cnt + 1, f => fromLanes w cnt f ||| ((f cnt).setWidth n <<< (w * cnt))

/-- `mem::transmute::<Register, [T; cnt]>` -/
def unpackLanes {n : Nat} (w cnt : Nat) (r : BitVec n) : Slice (BitVec w) :=
  ⟨cnt, fun k => lane w k r⟩

/-- `mem::transmute::<[T; cnt], Register>` -/
def packLanes (w cnt n : Nat) (s : Slice (BitVec w)) : BitVec n := fromLanes w cnt s.get

end Cfavml
