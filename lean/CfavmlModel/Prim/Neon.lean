/-
Layer 0 (trusted): semantics of the aarch64 NEON intrinsics used by cfavml/src/danger/impl_neon.rs, over quad registers
as `BitVec 128`. Written from stdarch (nightly rust-src: `simd_add`/`simd_mul`/…, `simd_fma(b, c, a)` for `vfmaq`,
`simd_reduce_add_ordered(a, 0)` / `simd_reduce_max` / `simd_reduce_min` for the integer across-lane forms,
`read_unaligned` / `write_unaligned` for `vld1q` / `vst1q`) and Arm's pseudo-code for the floating-point FMAX / FMIN
(NaN-propagating; `max(+0, −0) = +0`) and the pairwise FADDP / FMAXV / FMINV reductions.
NOT validated against hardware: this sandbox is x86-64, so no correspondence run exists for this file (see DESIGN.md §3).
File produced by lean/tools/gen_neon.py.
-/
import CfavmlModel.Prim.X86

namespace Cfavml
namespace Neon
open X86

/-! ### floating-point max / min lanes (FMAX / FMIN) -/
def isNaN32 (x : BitVec 32) : Bool := (x &&& 0x7F800000#32 == 0x7F800000#32) && (x &&& 0x007FFFFF#32 != 0#32)
def isNaN64 (x : BitVec 64) : Bool :=
  (x &&& 0x7FF0000000000000#64 == 0x7FF0000000000000#64) && (x &&& 0x000FFFFFFFFFFFFF#64 != 0#64)
/-- FMAX: a NaN operand gives the (quieted) NaN; equal values (the two zeros) give the one with the sign bits and-ed -/
def fmax32 (E : Env) (x y : BitVec 32) : BitVec 32 :=
  if isNaN32 x then x ||| 0x00400000#32 else if isNaN32 y then y ||| 0x00400000#32
  else if E.F.lt32 y x then x else if E.F.lt32 x y then y else x &&& y
def fmin32 (E : Env) (x y : BitVec 32) : BitVec 32 :=
  if isNaN32 x then x ||| 0x00400000#32 else if isNaN32 y then y ||| 0x00400000#32
  else if E.F.lt32 x y then x else if E.F.lt32 y x then y else x ||| y
def fmax64 (E : Env) (x y : BitVec 64) : BitVec 64 :=
  if isNaN64 x then x ||| 0x0008000000000000#64 else if isNaN64 y then y ||| 0x0008000000000000#64
  else if E.F.lt64 y x then x else if E.F.lt64 x y then y else x &&& y
def fmin64 (E : Env) (x y : BitVec 64) : BitVec 64 :=
  if isNaN64 x then x ||| 0x0008000000000000#64 else if isNaN64 y then y ||| 0x0008000000000000#64
  else if E.F.lt64 x y then x else if E.F.lt64 y x then y else x ||| y

/-- pairwise reduction of four lanes (FADDP twice, FMAXV, FMINV): `(v0 ∘ v1) ∘ (v2 ∘ v3)` -/
def pair4 {α : Type} (op : α → α → α) (v : Nat → α) : α := op (op (v 0) (v 1)) (op (v 2) (v 3))
/-- pairwise reduction of two lanes -/
def pair2 {α : Type} (op : α → α → α) (v : Nat → α) : α := op (v 0) (v 1)

/-! ### memory, broadcast -/
def vld1q_f32 (_ : Env) (mem : Slice (BitVec 32)) (off : Nat) : Exec (BitVec 128) := loadu 4 mem off
def vst1q_f32 (_ : Env) (mem : Slice (BitVec 32)) (off : Nat) (r : BitVec 128) : Exec (Slice (BitVec 32)) := storeu 4 mem off r
def vdupq_n_f32 (_ : Env) (v : BitVec 32) : BitVec 128 := bcast 32 4 v
def vld1q_f64 (_ : Env) (mem : Slice (BitVec 64)) (off : Nat) : Exec (BitVec 128) := loadu 2 mem off
def vst1q_f64 (_ : Env) (mem : Slice (BitVec 64)) (off : Nat) (r : BitVec 128) : Exec (Slice (BitVec 64)) := storeu 2 mem off r
def vdupq_n_f64 (_ : Env) (v : BitVec 64) : BitVec 128 := bcast 64 2 v
def vld1q_s8 (_ : Env) (mem : Slice (BitVec 8)) (off : Nat) : Exec (BitVec 128) := loadu 16 mem off
def vst1q_s8 (_ : Env) (mem : Slice (BitVec 8)) (off : Nat) (r : BitVec 128) : Exec (Slice (BitVec 8)) := storeu 16 mem off r
def vdupq_n_s8 (_ : Env) (v : BitVec 8) : BitVec 128 := bcast 8 16 v
def vld1q_s16 (_ : Env) (mem : Slice (BitVec 16)) (off : Nat) : Exec (BitVec 128) := loadu 8 mem off
def vst1q_s16 (_ : Env) (mem : Slice (BitVec 16)) (off : Nat) (r : BitVec 128) : Exec (Slice (BitVec 16)) := storeu 8 mem off r
def vdupq_n_s16 (_ : Env) (v : BitVec 16) : BitVec 128 := bcast 16 8 v
def vld1q_s32 (_ : Env) (mem : Slice (BitVec 32)) (off : Nat) : Exec (BitVec 128) := loadu 4 mem off
def vst1q_s32 (_ : Env) (mem : Slice (BitVec 32)) (off : Nat) (r : BitVec 128) : Exec (Slice (BitVec 32)) := storeu 4 mem off r
def vdupq_n_s32 (_ : Env) (v : BitVec 32) : BitVec 128 := bcast 32 4 v
def vld1q_s64 (_ : Env) (mem : Slice (BitVec 64)) (off : Nat) : Exec (BitVec 128) := loadu 2 mem off
def vst1q_s64 (_ : Env) (mem : Slice (BitVec 64)) (off : Nat) (r : BitVec 128) : Exec (Slice (BitVec 64)) := storeu 2 mem off r
def vdupq_n_s64 (_ : Env) (v : BitVec 64) : BitVec 128 := bcast 64 2 v
def vld1q_u8 (_ : Env) (mem : Slice (BitVec 8)) (off : Nat) : Exec (BitVec 128) := loadu 16 mem off
def vst1q_u8 (_ : Env) (mem : Slice (BitVec 8)) (off : Nat) (r : BitVec 128) : Exec (Slice (BitVec 8)) := storeu 16 mem off r
def vdupq_n_u8 (_ : Env) (v : BitVec 8) : BitVec 128 := bcast 8 16 v
def vld1q_u16 (_ : Env) (mem : Slice (BitVec 16)) (off : Nat) : Exec (BitVec 128) := loadu 8 mem off
def vst1q_u16 (_ : Env) (mem : Slice (BitVec 16)) (off : Nat) (r : BitVec 128) : Exec (Slice (BitVec 16)) := storeu 8 mem off r
def vdupq_n_u16 (_ : Env) (v : BitVec 16) : BitVec 128 := bcast 16 8 v
def vld1q_u32 (_ : Env) (mem : Slice (BitVec 32)) (off : Nat) : Exec (BitVec 128) := loadu 4 mem off
def vst1q_u32 (_ : Env) (mem : Slice (BitVec 32)) (off : Nat) (r : BitVec 128) : Exec (Slice (BitVec 32)) := storeu 4 mem off r
def vdupq_n_u32 (_ : Env) (v : BitVec 32) : BitVec 128 := bcast 32 4 v
def vld1q_u64 (_ : Env) (mem : Slice (BitVec 64)) (off : Nat) : Exec (BitVec 128) := loadu 2 mem off
def vst1q_u64 (_ : Env) (mem : Slice (BitVec 64)) (off : Nat) (r : BitVec 128) : Exec (Slice (BitVec 64)) := storeu 2 mem off r
def vdupq_n_u64 (_ : Env) (v : BitVec 64) : BitVec 128 := bcast 64 2 v

/-! ### lane-wise arithmetic -/
def vaddq_f32 (E : Env) (a b : BitVec 128) : BitVec 128 := map2 32 4 E.F.add32 a b
def vsubq_f32 (E : Env) (a b : BitVec 128) : BitVec 128 := map2 32 4 E.F.sub32 a b
def vmulq_f32 (E : Env) (a b : BitVec 128) : BitVec 128 := map2 32 4 E.F.mul32 a b
def vdivq_f32 (E : Env) (a b : BitVec 128) : BitVec 128 := map2 32 4 E.F.div32 a b
/-- `vfmaq(a, b, c) = a + b·c`, fused (`simd_fma(b, c, a)`) -/
def vfmaq_f32 (E : Env) (a b c : BitVec 128) : BitVec 128 := map3 32 4 (fun acc x y => E.F.fma32 x y acc) a b c
def vmaxq_f32 (E : Env) (a b : BitVec 128) : BitVec 128 := map2 32 4 (fmax32 E) a b
def vminq_f32 (E : Env) (a b : BitVec 128) : BitVec 128 := map2 32 4 (fmin32 E) a b
def vaddq_f64 (E : Env) (a b : BitVec 128) : BitVec 128 := map2 64 2 E.F.add64 a b
def vsubq_f64 (E : Env) (a b : BitVec 128) : BitVec 128 := map2 64 2 E.F.sub64 a b
def vmulq_f64 (E : Env) (a b : BitVec 128) : BitVec 128 := map2 64 2 E.F.mul64 a b
def vdivq_f64 (E : Env) (a b : BitVec 128) : BitVec 128 := map2 64 2 E.F.div64 a b
/-- `vfmaq(a, b, c) = a + b·c`, fused (`simd_fma(b, c, a)`) -/
def vfmaq_f64 (E : Env) (a b c : BitVec 128) : BitVec 128 := map3 64 2 (fun acc x y => E.F.fma64 x y acc) a b c
def vmaxq_f64 (E : Env) (a b : BitVec 128) : BitVec 128 := map2 64 2 (fmax64 E) a b
def vminq_f64 (E : Env) (a b : BitVec 128) : BitVec 128 := map2 64 2 (fmin64 E) a b
def vaddq_s8 (_ : Env) (a b : BitVec 128) : BitVec 128 := map2 8 16 (· + ·) a b
def vsubq_s8 (_ : Env) (a b : BitVec 128) : BitVec 128 := map2 8 16 (· - ·) a b
def vmulq_s8 (_ : Env) (a b : BitVec 128) : BitVec 128 := map2 8 16 (· * ·) a b
def vmaxq_s8 (_ : Env) (a b : BitVec 128) : BitVec 128 := map2 8 16 IntPrim.smax a b
def vminq_s8 (_ : Env) (a b : BitVec 128) : BitVec 128 := map2 8 16 IntPrim.smin a b
def vaddq_s16 (_ : Env) (a b : BitVec 128) : BitVec 128 := map2 16 8 (· + ·) a b
def vsubq_s16 (_ : Env) (a b : BitVec 128) : BitVec 128 := map2 16 8 (· - ·) a b
def vmulq_s16 (_ : Env) (a b : BitVec 128) : BitVec 128 := map2 16 8 (· * ·) a b
def vmaxq_s16 (_ : Env) (a b : BitVec 128) : BitVec 128 := map2 16 8 IntPrim.smax a b
def vminq_s16 (_ : Env) (a b : BitVec 128) : BitVec 128 := map2 16 8 IntPrim.smin a b
def vaddq_s32 (_ : Env) (a b : BitVec 128) : BitVec 128 := map2 32 4 (· + ·) a b
def vsubq_s32 (_ : Env) (a b : BitVec 128) : BitVec 128 := map2 32 4 (· - ·) a b
def vmulq_s32 (_ : Env) (a b : BitVec 128) : BitVec 128 := map2 32 4 (· * ·) a b
def vmaxq_s32 (_ : Env) (a b : BitVec 128) : BitVec 128 := map2 32 4 IntPrim.smax a b
def vminq_s32 (_ : Env) (a b : BitVec 128) : BitVec 128 := map2 32 4 IntPrim.smin a b
def vaddq_s64 (_ : Env) (a b : BitVec 128) : BitVec 128 := map2 64 2 (· + ·) a b
def vsubq_s64 (_ : Env) (a b : BitVec 128) : BitVec 128 := map2 64 2 (· - ·) a b
def vaddq_u8 (_ : Env) (a b : BitVec 128) : BitVec 128 := map2 8 16 (· + ·) a b
def vsubq_u8 (_ : Env) (a b : BitVec 128) : BitVec 128 := map2 8 16 (· - ·) a b
def vmulq_u8 (_ : Env) (a b : BitVec 128) : BitVec 128 := map2 8 16 (· * ·) a b
def vmaxq_u8 (_ : Env) (a b : BitVec 128) : BitVec 128 := map2 8 16 IntPrim.umax a b
def vminq_u8 (_ : Env) (a b : BitVec 128) : BitVec 128 := map2 8 16 IntPrim.umin a b
def vaddq_u16 (_ : Env) (a b : BitVec 128) : BitVec 128 := map2 16 8 (· + ·) a b
def vsubq_u16 (_ : Env) (a b : BitVec 128) : BitVec 128 := map2 16 8 (· - ·) a b
def vmulq_u16 (_ : Env) (a b : BitVec 128) : BitVec 128 := map2 16 8 (· * ·) a b
def vmaxq_u16 (_ : Env) (a b : BitVec 128) : BitVec 128 := map2 16 8 IntPrim.umax a b
def vminq_u16 (_ : Env) (a b : BitVec 128) : BitVec 128 := map2 16 8 IntPrim.umin a b
def vaddq_u32 (_ : Env) (a b : BitVec 128) : BitVec 128 := map2 32 4 (· + ·) a b
def vsubq_u32 (_ : Env) (a b : BitVec 128) : BitVec 128 := map2 32 4 (· - ·) a b
def vmulq_u32 (_ : Env) (a b : BitVec 128) : BitVec 128 := map2 32 4 (· * ·) a b
def vmaxq_u32 (_ : Env) (a b : BitVec 128) : BitVec 128 := map2 32 4 IntPrim.umax a b
def vminq_u32 (_ : Env) (a b : BitVec 128) : BitVec 128 := map2 32 4 IntPrim.umin a b
def vaddq_u64 (_ : Env) (a b : BitVec 128) : BitVec 128 := map2 64 2 (· + ·) a b
def vsubq_u64 (_ : Env) (a b : BitVec 128) : BitVec 128 := map2 64 2 (· - ·) a b

/-! ### across-lane reductions -/
def vaddvq_f32 (E : Env) (a : BitVec 128) : BitVec 32 := pair4 E.F.add32 (fun k => lane 32 k a)
def vmaxvq_f32 (E : Env) (a : BitVec 128) : BitVec 32 := pair4 (fmax32 E) (fun k => lane 32 k a)
def vminvq_f32 (E : Env) (a : BitVec 128) : BitVec 32 := pair4 (fmin32 E) (fun k => lane 32 k a)
def vaddvq_f64 (E : Env) (a : BitVec 128) : BitVec 64 := pair2 E.F.add64 (fun k => lane 64 k a)
def vmaxvq_f64 (E : Env) (a : BitVec 128) : BitVec 64 := pair2 (fmax64 E) (fun k => lane 64 k a)
def vminvq_f64 (E : Env) (a : BitVec 128) : BitVec 64 := pair2 (fmin64 E) (fun k => lane 64 k a)
def vaddvq_s8 (_ : Env) (a : BitVec 128) : BitVec 8 := reduceOrdered (· + ·) 0 16 (fun k => lane 8 k a)
def vmaxvq_s8 (_ : Env) (a : BitVec 128) : BitVec 8 := reduceOrdered IntPrim.smax (BitVec.intMin 8) 16 (fun k => lane 8 k a)
def vminvq_s8 (_ : Env) (a : BitVec 128) : BitVec 8 := reduceOrdered IntPrim.smin (BitVec.intMax 8) 16 (fun k => lane 8 k a)
def vaddvq_s16 (_ : Env) (a : BitVec 128) : BitVec 16 := reduceOrdered (· + ·) 0 8 (fun k => lane 16 k a)
def vmaxvq_s16 (_ : Env) (a : BitVec 128) : BitVec 16 := reduceOrdered IntPrim.smax (BitVec.intMin 16) 8 (fun k => lane 16 k a)
def vminvq_s16 (_ : Env) (a : BitVec 128) : BitVec 16 := reduceOrdered IntPrim.smin (BitVec.intMax 16) 8 (fun k => lane 16 k a)
def vaddvq_s32 (_ : Env) (a : BitVec 128) : BitVec 32 := reduceOrdered (· + ·) 0 4 (fun k => lane 32 k a)
def vmaxvq_s32 (_ : Env) (a : BitVec 128) : BitVec 32 := reduceOrdered IntPrim.smax (BitVec.intMin 32) 4 (fun k => lane 32 k a)
def vminvq_s32 (_ : Env) (a : BitVec 128) : BitVec 32 := reduceOrdered IntPrim.smin (BitVec.intMax 32) 4 (fun k => lane 32 k a)
def vaddvq_s64 (_ : Env) (a : BitVec 128) : BitVec 64 := reduceOrdered (· + ·) 0 2 (fun k => lane 64 k a)
def vaddvq_u8 (_ : Env) (a : BitVec 128) : BitVec 8 := reduceOrdered (· + ·) 0 16 (fun k => lane 8 k a)
def vmaxvq_u8 (_ : Env) (a : BitVec 128) : BitVec 8 := reduceOrdered IntPrim.umax 0 16 (fun k => lane 8 k a)
def vminvq_u8 (_ : Env) (a : BitVec 128) : BitVec 8 := reduceOrdered IntPrim.umin (BitVec.allOnes 8) 16 (fun k => lane 8 k a)
def vaddvq_u16 (_ : Env) (a : BitVec 128) : BitVec 16 := reduceOrdered (· + ·) 0 8 (fun k => lane 16 k a)
def vmaxvq_u16 (_ : Env) (a : BitVec 128) : BitVec 16 := reduceOrdered IntPrim.umax 0 8 (fun k => lane 16 k a)
def vminvq_u16 (_ : Env) (a : BitVec 128) : BitVec 16 := reduceOrdered IntPrim.umin (BitVec.allOnes 16) 8 (fun k => lane 16 k a)
def vaddvq_u32 (_ : Env) (a : BitVec 128) : BitVec 32 := reduceOrdered (· + ·) 0 4 (fun k => lane 32 k a)
def vmaxvq_u32 (_ : Env) (a : BitVec 128) : BitVec 32 := reduceOrdered IntPrim.umax 0 4 (fun k => lane 32 k a)
def vminvq_u32 (_ : Env) (a : BitVec 128) : BitVec 32 := reduceOrdered IntPrim.umin (BitVec.allOnes 32) 4 (fun k => lane 32 k a)
def vaddvq_u64 (_ : Env) (a : BitVec 128) : BitVec 64 := reduceOrdered (· + ·) 0 2 (fun k => lane 64 k a)

end Neon
end Cfavml
