/-
Layer 0 (hand-written): the record types of the tables the translator extracts from the source, and the
`#[cfg(..)]` predicate language with its evaluation under a build configuration.
-/
namespace Cfavml
namespace Tables

/-- `#[cfg(..)]` predicates -/
inductive Cfg where
  | feature (name : String)
  | targetArch (name : String)
  | targetFeature (name : String)
  | flag (name : String)
  | not (c : Cfg)
  | any (cs : List Cfg)
  | all (cs : List Cfg)
  deriving Repr, Inhabited

/-- a build configuration: enabled cargo features, target architecture, compile-time target features,
other flags (`test`, `debug_assertions`, ..) -/
structure Build where
  features : List String
  arch : String
  targetFeatures : List String
  flags : List String
  deriving Repr

mutual
def Cfg.eval (b : Build) : Cfg → Bool
  | .feature n => b.features.contains n
  | .targetArch n => b.arch == n
  | .targetFeature n => b.targetFeatures.contains n
  | .flag n => b.flags.contains n
  | .not c => !(Cfg.eval b c)
  | .any cs => Cfg.evalAny b cs
  | .all cs => Cfg.evalAll b cs
def Cfg.evalAny (b : Build) : List Cfg → Bool
  | [] => false
  | c :: cs => Cfg.eval b c || Cfg.evalAny b cs
def Cfg.evalAll (b : Build) : List Cfg → Bool
  | [] => true
  | c :: cs => Cfg.eval b c && Cfg.evalAll b cs
end

/-- one `export_*!` invocation in `danger/export_*.rs` (it defines an xconst and an xany routine) -/
structure ExportRow where
  macro_ : String
  ty : String
  reg : String
  op : String
  xconst : String
  xany : String
  hasFeatures : Bool
  features : List String
  module : String
  moduleCfg : Cfg
  file : String
  line : Nat
  deriving Repr, Inhabited

/-- one function of one arm of an `export_*!` macro definition -/
structure ExportArmFn where
  macro_ : String
  withFeatures : Bool
  nameVar : String
  hasTargetFeature : Bool
  constDims : Bool
  params : List (String × String)
  callee : String
  typeArgs : List String
  callArgs : List String
  deriving Repr, Inhabited

structure SafeSlot where
  label : String
  fnVar : String
  passesDims : Bool
  args : List String
  deriving Repr, Inhabited

/-- one function (xconst or xany form) of an `export_safe_*!` macro definition -/
structure SafeArmFn where
  macro_ : String
  nameVar : String
  constDims : Bool
  params : List (String × String)
  returnsValue : Bool
  /-- `assert_eq!(lhs, rhs, ..)` in order; `len x` stands for `x.len()` -/
  asserts : List (String × String)
  slots : List SafeSlot
  /-- statements that are neither an assert nor the dispatch -/
  otherStmts : Nat
  deriving Repr, Inhabited

/-- one `export_safe_*!` invocation -/
structure SafeRow where
  macro_ : String
  ty : String
  constName : String
  anyName : String
  /-- macro metavariable ↦ export routine named at the invocation -/
  bindings : List (String × String)
  file : String
  line : Nat
  deriving Repr, Inhabited

/-- one optional candidate of the `dispatch!` macro body, in the order the body tests them -/
structure DispatchCand where
  label : String
  cfg : Cfg
  guards : List String
  condIsGuardConjunction : Bool
  returnsCall : Bool
  deriving Repr, Inhabited

structure ImplMethodRow where
  reg : String
  ty : String
  method : String
  isOverride : Bool
  intrinsics : List String
  calls : List (String × String × String)
  deriving Repr, Inhabited

structure ExternalRef where
  file : String
  line : Nat
  path : String
  kind : String
  cfg : List Cfg
  deriving Repr, Inhabited

structure StateItem where
  file : String
  line : Nat
  what : String
  cfg : List Cfg
  deriving Repr, Inhabited

end Tables
end Cfavml
