/-
Layer 0 (hand-written): the record types of the tables the translator extracts from the source, and the
`#[cfg(..)]` predicate language with its evaluation under a build configuration.
-/
namespace Cfavml
namespace Tables

/-! closed vocabularies: every identifier the tables mention is a constructor here, so comparisons
reduce in the kernel without touching strings. A source identifier outside the vocabulary makes the
generated table fail to compile, which is reported as a broken obligation. -/

inductive ElemTy where
  | f32 | f64 | i8 | i16 | i32 | i64 | u8 | u16 | u32 | u64
  /-- the generic element type of `impl<T> SimdRegister<T> for Fallback` -/
  | T
  deriving DecidableEq, Repr, Inhabited

inductive RegName where
  | Fallback | Avx2 | Avx2Fma | Avx512 | Neon
  deriving DecidableEq, Repr, Inhabited

inductive Kernel where
  | generic_dot_product | generic_cosine | generic_euclidean | generic_squared_norm | generic_sum
  | generic_max_horizontal | generic_min_horizontal | generic_max_vertical | generic_min_vertical
  | generic_max_value | generic_min_value
  | generic_add_value | generic_sub_value | generic_mul_value | generic_div_value
  | generic_add_vector | generic_sub_vector | generic_mul_vector | generic_div_vector
  deriving DecidableEq, Repr, Inhabited

inductive ExportMacro where
  | export_op_horizontal | export_op_vertical | export_op_value | export_distance_op
  | export_vector_x_value_op | export_vector_x_vector_op
  deriving DecidableEq, Repr, Inhabited

inductive SafeMacro where
  | export_safe_horizontal_op | export_safe_vertical_op | export_safe_value_op
  | export_safe_distance_op | export_safe_fma_norm_op | export_safe_nofma_norm_op
  | export_safe_arithmetic_vector_x_value_op | export_safe_arithmetic_vector_x_vector_op
  deriving DecidableEq, Repr, Inhabited

/-- the `_`-separated tokens of routine names -/
inductive Tok where
  | f32 | f64 | i8 | i16 | i32 | i64 | u8 | u16 | u32 | u64
  | xany | xconst
  | fallback | avx2 | avx512 | neon
  | fma | nofma
  | dot | cosine | squared | euclidean | norm | sum | max | min | horizontal | vertical | value
  | add | sub | mul | div | vector
  deriving DecidableEq, Repr, Inhabited

/-- target features / ISA extensions -/
inductive Feat where
  | sse | sse2 | sse3 | ssse3 | sse4_1 | sse4_2 | avx | avx2 | fma | avx512f | avx512bw | avx512dq | avx512vl | neon
  deriving DecidableEq, Repr, Inhabited

inductive CargoFeature where
  | std | nightly | benchmark_aligned | benchmark_avx512 | default
  deriving DecidableEq, Repr, Inhabited

inductive Arch where
  | x86 | x86_64 | aarch64
  deriving DecidableEq, Repr, Inhabited

inductive Flag where
  | test | miri | docsrs | debug_assertions | unix | cfavml_verif
  deriving DecidableEq, Repr, Inhabited

/-- dispatch slot labels of `dispatch!` -/
inductive Slot where
  | avx512 | avx2fma | avx2 | neon | fallback
  deriving DecidableEq, Repr, Inhabited

inductive Form where
  | xconst | xany
  deriving DecidableEq, Repr, Inhabited

/-- parameter names of the safe wrappers -/
inductive Param where
  | a | b | result | value
  /-- what the translator emits for an argument / assertion operand that is not one of the wrapper's parameters (`&a`, a
  local variable, …): no specification accepts it -/
  | other
  deriving DecidableEq, Repr, Inhabited

/-- the two sides of the wrappers' `assert_eq!`s -/
inductive LenTerm where
  | len (p : Param)
  | dims
  deriving DecidableEq, Repr, Inhabited

/-- the 30 methods of `SimdRegister` -/
inductive Method where
  | elements_per_dense | elements_per_lane | load | filled | zeroed | load_dense | filled_dense | zeroed_dense
  | add | sub | mul | div | fmadd | max | min
  | add_dense | sub_dense | mul_dense | div_dense | fmadd_dense | max_dense | min_dense
  | sum_to_value | sum_to_register | max_to_value | max_to_register | min_to_value | min_to_register
  | write | write_dense
  deriving DecidableEq, Repr, Inhabited

/-- availability checks of dispatch.rs -/
inductive Guard where
  | is_avx512_available | is_avx2_available | is_fma_available | is_neon_available
  deriving DecidableEq, Repr, Inhabited

/-- `#[cfg(..)]` predicates -/
inductive Cfg where
  | feature (f : CargoFeature)
  | targetArch (a : Arch)
  | targetFeature (f : Feat)
  | flag (f : Flag)
  | not (c : Cfg)
  | any (cs : List Cfg)
  | all (cs : List Cfg)
  deriving Repr, Inhabited

/-- a build configuration -/
structure Build where
  features : List CargoFeature
  arch : Arch
  targetFeatures : List Feat
  flags : List Flag
  deriving Repr

mutual
def Cfg.eval (b : Build) : Cfg → Bool
  | .feature n => b.features.contains n
  | .targetArch n => b.arch == n
  | .targetFeature n => b.targetFeatures.contains n
  | .flag n => b.flags.contains n
  | .not c => !(Cfg.eval b c)
  | .any cs => Cfg.evalAny b cs
  | .all cs => Cfg.evalAll b cs
def Cfg.evalAny (b : Build) : List Cfg → Bool
  | [] => false
  | c :: cs => Cfg.eval b c || Cfg.evalAny b cs
def Cfg.evalAll (b : Build) : List Cfg → Bool
  | [] => true
  | c :: cs => Cfg.eval b c && Cfg.evalAll b cs
end

/-- one `export_*!` invocation in `danger/export_*.rs` (it defines an xconst and an xany routine).
String fields are for reports only; proofs use the enum / token fields. -/
structure ExportRow where
  macro_ : ExportMacro
  ty : ElemTy
  reg : RegName
  op : Kernel
  xconst : List Tok
  xany : List Tok
  hasFeatures : Bool
  features : List Feat
  moduleCfg : Cfg
  xanyName : String
  module : String
  file : String
  line : Nat
  deriving Repr, Inhabited

/-- one function of one arm of an `export_*!` macro definition -/
structure ExportArmFn where
  macro_ : ExportMacro
  withFeatures : Bool
  nameVar : String
  hasTargetFeature : Bool
  constDims : Bool
  params : List (String × String)
  callee : String
  typeArgs : List String
  callArgs : List String
  deriving Repr, Inhabited

structure SafeSlot where
  label : Slot
  /-- the macro metavariable naming the routine: (slot it is named after, form it is named after) -/
  fnVarSlot : Slot
  fnVarForm : Form
  passesDims : Bool
  args : List Param
  deriving Repr, Inhabited

/-- one function (xconst or xany form) of an `export_safe_*!` macro definition -/
structure SafeArmFn where
  macro_ : SafeMacro
  form : Form
  constDims : Bool
  params : List (Param × String)
  returnsValue : Bool
  /-- `assert_eq!(lhs, rhs, ..)` in order -/
  asserts : List (LenTerm × LenTerm)
  slots : List SafeSlot
  /-- statements that are neither an assert nor the dispatch -/
  otherStmts : Nat
  /-- asserts that come after the dispatch (they would not guard it) -/
  assertsAfterDispatch : Nat
  deriving Repr, Inhabited

/-- one `export_safe_*!` invocation -/
structure SafeRow where
  macro_ : SafeMacro
  ty : ElemTy
  constName : List Tok
  anyName : List Tok
  /-- (slot, form) of the macro metavariable ↦ export routine named at the invocation -/
  bindings : List (Slot × Form × List Tok)
  anyNameStr : String
  file : String
  line : Nat
  deriving Repr, Inhabited

/-- one optional candidate of the `dispatch!` macro body, in the order the body tests them -/
structure DispatchCand where
  label : Slot
  cfg : Cfg
  guards : List Guard
  condIsGuardConjunction : Bool
  returnsCall : Bool
  deriving Repr, Inhabited

structure ImplMethodRow where
  reg : RegName
  ty : ElemTy
  method : Method
  isOverride : Bool
  /-- indices into `intrinsicFeatures` -/
  intrinsics : List Nat
  calls : List (RegName × ElemTy × Method)
  deriving Repr, Inhabited

structure ExternalRef where
  file : String
  line : Nat
  path : String
  kind : String
  cfg : List Cfg
  deriving Repr, Inhabited

structure StateItem where
  file : String
  line : Nat
  what : String
  cfg : List Cfg
  deriving Repr, Inhabited

end Tables
end Cfavml
