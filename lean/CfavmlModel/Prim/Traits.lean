/-
Layer 0 (hand-written): the two traits of cfavml as Lean structures (dictionaries).
Every trait method is a field; raw pointers `*const T` / `*mut T` are a slice plus an offset and a
method taking `*mut T` returns the updated slice.
The translator fills these records from the Rust `impl` blocks (override or trait default).
-/
import CfavmlModel.Prim.Exec

namespace Cfavml

/-- `trait Math<T>` (math/mod.rs) -/
structure Math (T : Type) where
  zero : Exec T
  one : Exec T
  max : Exec T
  min : Exec T
  sqrt : T → Exec T
  abs : T → Exec T
  cmp_eq : T → T → Exec Bool
  cmp_min : T → T → Exec T
  cmp_max : T → T → Exec T
  add : T → T → Exec T
  sub : T → T → Exec T
  mul : T → T → Exec T
  div : T → T → Exec T

/-- `trait SimdRegister<T>` (danger/core_simd_api.rs), `Reg` = `Self::Register`. -/
structure SimdRegister (T Reg : Type) where
  elements_per_dense : Exec Nat
  elements_per_lane : Exec Nat
  load : Slice T → Nat → Exec Reg
  filled : T → Exec Reg
  zeroed : Exec Reg
  load_dense : Slice T → Nat → Exec (DenseLane Reg)
  filled_dense : T → Exec (DenseLane Reg)
  zeroed_dense : Exec (DenseLane Reg)
  add : Reg → Reg → Exec Reg
  sub : Reg → Reg → Exec Reg
  mul : Reg → Reg → Exec Reg
  div : Reg → Reg → Exec Reg
  fmadd : Reg → Reg → Reg → Exec Reg
  max : Reg → Reg → Exec Reg
  min : Reg → Reg → Exec Reg
  add_dense : DenseLane Reg → DenseLane Reg → Exec (DenseLane Reg)
  sub_dense : DenseLane Reg → DenseLane Reg → Exec (DenseLane Reg)
  mul_dense : DenseLane Reg → DenseLane Reg → Exec (DenseLane Reg)
  div_dense : DenseLane Reg → DenseLane Reg → Exec (DenseLane Reg)
  fmadd_dense : DenseLane Reg → DenseLane Reg → DenseLane Reg → Exec (DenseLane Reg)
  max_dense : DenseLane Reg → DenseLane Reg → Exec (DenseLane Reg)
  min_dense : DenseLane Reg → DenseLane Reg → Exec (DenseLane Reg)
  sum_to_value : Reg → Exec T
  sum_to_register : DenseLane Reg → Exec Reg
  max_to_value : Reg → Exec T
  max_to_register : DenseLane Reg → Exec Reg
  min_to_value : Reg → Exec T
  min_to_register : DenseLane Reg → Exec Reg
  write : Slice T → Nat → Reg → Exec (Slice T)
  write_dense : Slice T → Nat → DenseLane Reg → Exec (Slice T)

/-- `trait TransposeMatrix<T>` (cfavml-gemm/src/transpose/mod.rs), `RM` = `Self::RegisterMatrix`.
`load_matrix offset width data_ptr`, `write_matrix offset height matrix result_ptr`. -/
structure TransposeMatrix (T RM : Type) where
  load_matrix : Nat → Nat → Slice T → Nat → Exec RM
  write_matrix : Nat → Nat → RM → Slice T → Nat → Exec (Slice T)
  transpose_register_matrix : RM → Exec RM

end Cfavml
