/-
Layer 0 (hand-written, trusted): execution monad, faults, loops, memory slices, usize arithmetic.
Imports nothing so that the driver can be linked as a plain executable.
-/
namespace Cfavml

/-- The ways a modelled Rust execution can fail. `oobRead`/`oobWrite` are memory accesses outside
the slice an access is derived from (undefined behaviour in the real code), `diverge` is a loop that
has not terminated within the fuel it was given, `panic` is a Rust panic (assert failure, division by
zero, `expect` on `None`, arithmetic overflow with overflow checks on), `arith` is an unchecked
`usize` underflow/overflow whose wrapped value the real code would go on to use. -/
inductive Fault where
  | oobRead
  | oobWrite
  | diverge
  | panic
  | arith
  deriving DecidableEq, Repr, Inhabited

abbrev Exec := Except Fault

/-- IEEE-754 arithmetic on bit patterns. Uninterpreted in every theorem (theorems quantify over all
`FloatOps`, adding named hypotheses only where a property needs them); the driver instantiates it with
the host's native floats. -/
structure FloatOps where
  add32 : BitVec 32 → BitVec 32 → BitVec 32
  sub32 : BitVec 32 → BitVec 32 → BitVec 32
  mul32 : BitVec 32 → BitVec 32 → BitVec 32
  div32 : BitVec 32 → BitVec 32 → BitVec 32
  fma32 : BitVec 32 → BitVec 32 → BitVec 32 → BitVec 32
  sqrt32 : BitVec 32 → BitVec 32
  lt32 : BitVec 32 → BitVec 32 → Bool
  le32 : BitVec 32 → BitVec 32 → Bool
  eq32 : BitVec 32 → BitVec 32 → Bool
  /-- Rust `f32::max` / `f32::min` (NaN-ignoring; which zero is returned for ±0 is unspecified) -/
  rmax32 : BitVec 32 → BitVec 32 → BitVec 32
  rmin32 : BitVec 32 → BitVec 32 → BitVec 32
  /-- `core::intrinsics::f*_algebraic` -/
  addAlg32 : BitVec 32 → BitVec 32 → BitVec 32
  subAlg32 : BitVec 32 → BitVec 32 → BitVec 32
  mulAlg32 : BitVec 32 → BitVec 32 → BitVec 32
  divAlg32 : BitVec 32 → BitVec 32 → BitVec 32
  add64 : BitVec 64 → BitVec 64 → BitVec 64
  sub64 : BitVec 64 → BitVec 64 → BitVec 64
  mul64 : BitVec 64 → BitVec 64 → BitVec 64
  div64 : BitVec 64 → BitVec 64 → BitVec 64
  fma64 : BitVec 64 → BitVec 64 → BitVec 64 → BitVec 64
  sqrt64 : BitVec 64 → BitVec 64
  lt64 : BitVec 64 → BitVec 64 → Bool
  le64 : BitVec 64 → BitVec 64 → Bool
  eq64 : BitVec 64 → BitVec 64 → Bool
  rmax64 : BitVec 64 → BitVec 64 → BitVec 64
  rmin64 : BitVec 64 → BitVec 64 → BitVec 64
  addAlg64 : BitVec 64 → BitVec 64 → BitVec 64
  subAlg64 : BitVec 64 → BitVec 64 → BitVec 64
  mulAlg64 : BitVec 64 → BitVec 64 → BitVec 64
  divAlg64 : BitVec 64 → BitVec 64 → BitVec 64
  /-- `x as f64` for `x : f32`, `x as f32` for `x : f64` -/
  f32ToF64 : BitVec 32 → BitVec 64
  f64ToF32 : BitVec 64 → BitVec 32
  /-- `n as f64` for an integer `n` (round to nearest) -/
  intToF64 : Int → BitVec 64
  /-- `x as iN/uN` for `x : f64`: truncate toward zero, saturate to `[lo, hi]`, NaN ↦ 0 -/
  f64ToInt : BitVec 64 → Int → Int → Int

/-- Build configuration, CPU and run parameters every generated definition receives. -/
structure Env where
  /-- loop fuel: a `while` that needs more iterations than this reports `Fault.diverge` -/
  fuel : Nat
  /-- floating point semantics -/
  F : FloatOps
  /-- `cfg!(debug_assertions)` -/
  debugAssertions : Bool
  /-- `-C overflow-checks` -/
  overflowChecks : Bool
  /-- cargo features -/
  feat_nightly : Bool
  feat_std : Bool
  feat_env_var_compat : Bool
  /-- compile-time `target_feature`s -/
  tf_avx2 : Bool
  tf_fma : Bool
  tf_avx512f : Bool
  tf_avx512bw : Bool
  tf_neon : Bool
  /-- what `is_x86_feature_detected!` reports at run time -/
  cpu_avx2 : Bool
  cpu_fma : Bool
  cpu_avx512f : Bool
  cpu_avx512bw : Bool
  cpu_neon : Bool
  /-- the contents of `_mm_undefined_ps()` (arbitrary) -/
  undef128 : BitVec 128
  /-- further target features / detected features the source does not consult today; present (default `false`) so that a
  changed `cfg!(target_feature = "…")` or `is_x86_feature_detected!("…")` still yields an elaborating model, whose theorems then
  say what is wrong with it -/
  tf_avx : Bool := false
  tf_sse2 : Bool := false
  tf_sse4_1 : Bool := false
  tf_sse4_2 : Bool := false
  tf_avx512vl : Bool := false
  tf_avx512dq : Bool := false
  cpu_avx : Bool := false
  cpu_sse2 : Bool := false
  cpu_sse4_1 : Bool := false
  cpu_sse4_2 : Bool := false
  cpu_avx512vl : Bool := false
  cpu_avx512dq : Bool := false

def Exec.isOk {α} : Exec α → Bool
  | .ok _ => true
  | .error _ => false

/-- `while cond { body }` with loop-carried state `σ`. -/
def loopM {σ : Type} : Nat → σ → (σ → Exec Bool) → (σ → Exec σ) → Exec σ
  | 0, _, _, _ => throw Fault.diverge
  | fuel + 1, s, cond, body => do
    if (← cond s) then
      loopM fuel (← body s) cond body
    else
      pure s

/-- `assert_eq!` on `usize` values. -/
def assertEq (x y : Nat) : Exec Unit :=
  if x = y then pure () else throw Fault.panic

/-- `debug_assert_eq!` on `usize` values. -/
def debugAssertEq (E : Env) (x y : Nat) : Exec Unit :=
  if E.debugAssertions then assertEq x y else pure ()

def usizeBits : Nat := 64
def usizeMod : Nat := 2 ^ 64

/-- `usize - usize`: a negative result panics with overflow checks and otherwise wraps; the wrapped
value is never meaningful for an index, so both are faults here. -/
def usub (E : Env) (x y : Nat) : Exec Nat :=
  if y ≤ x then pure (x - y) else if E.overflowChecks then throw Fault.panic else throw Fault.arith

/-- `usize * usize`: panics on overflow with overflow checks, wraps modulo 2^64 without. -/
def umul (E : Env) (x y : Nat) : Exec Nat :=
  if x * y < usizeMod then pure (x * y)
  else if E.overflowChecks then throw Fault.panic else pure ((x * y) % usizeMod)

/-- `usize::checked_mul(..).expect(..)` -/
def checkedMulExpect (x y : Nat) : Exec Nat :=
  if x * y < usizeMod then pure (x * y) else throw Fault.panic

/-- `usize / usize` -/
def udiv (x y : Nat) : Exec Nat :=
  if y = 0 then throw Fault.panic else pure (x / y)

/-- `usize % usize` -/
def umod (x y : Nat) : Exec Nat :=
  if y = 0 then throw Fault.panic else pure (x % y)

/-- A Rust slice `&[T]` / `&mut [T]`: its length and its contents. Reads and writes outside
`[0, size)` are faults; nothing is known about memory around it. -/
structure Slice (α : Type) where
  size : Nat
  get : Nat → α

namespace Slice

def ofArray {α} [Inhabited α] (a : Array α) : Slice α := ⟨a.size, fun i => a.getD i default⟩

def toList {α} (s : Slice α) : List α := (List.range s.size).map s.get

/-- `*s.get_unchecked(i)` / `ptr.add(i).read()` -/
def read {α} (s : Slice α) (i : Nat) : Exec α :=
  if i < s.size then pure (s.get i) else throw Fault.oobRead

def set {α} (s : Slice α) (i : Nat) (v : α) : Slice α :=
  ⟨s.size, fun j => if j = i then v else s.get j⟩

/-- `*s.get_unchecked_mut(i) = v` / `ptr.add(i).write(v)` -/
def write {α} (s : Slice α) (i : Nat) (v : α) : Exec (Slice α) :=
  if i < s.size then pure (s.set i v) else throw Fault.oobWrite

/-- store `n` consecutive elements `f 0 .. f (n-1)` at `i` -/
def setRange {α} (s : Slice α) (i n : Nat) (f : Nat → α) : Slice α :=
  ⟨s.size, fun j => if i ≤ j ∧ j < i + n then f (j - i) else s.get j⟩

/-- a vector load of `n` elements starting at `i`: the whole range must be inside the slice -/
def readRange {α} (s : Slice α) (i n : Nat) : Exec (Nat → α) :=
  if i + n ≤ s.size then pure (fun k => s.get (i + k)) else throw Fault.oobRead

/-- a vector store of `n` elements starting at `i` -/
def writeRange {α} (s : Slice α) (i n : Nat) (f : Nat → α) : Exec (Slice α) :=
  if i + n ≤ s.size then pure (s.setRange i n f) else throw Fault.oobWrite

/-- `result.copy_from_slice(data)` -/
def copyFromSlice {α} (dst src : Slice α) : Exec (Slice α) :=
  if dst.size = src.size then pure ⟨dst.size, src.get⟩ else throw Fault.panic

/-- `[v; n]` -/
def replicate {α} (n : Nat) (v : α) : Slice α := ⟨n, fun _ => v⟩

end Slice

/-- bounds-checked array indexing `arr[i]` (panics when out of range) -/
def arrGet {α} (s : Slice α) (i : Nat) : Exec α :=
  if i < s.size then pure (s.get i) else throw Fault.panic

/-- bounds-checked array store `arr[i] = v` -/
def arrSet {α} (s : Slice α) (i : Nat) (v : α) : Exec (Slice α) :=
  if i < s.size then pure (s.set i v) else throw Fault.panic

/-- `for (idx, (x, y)) in zip(a, b).enumerate() { .. }` with loop-carried state `σ` -/
def forZipEnumFrom {α σ : Type} (a b : Slice α) (f : Nat → α → α → σ → Exec σ) : Nat → Nat → σ → Exec σ
  | 0, _, s => pure s
  | n + 1, i, s => do
    let s ← f i (a.get i) (b.get i) s
    forZipEnumFrom a b f n (i + 1) s

def forZipEnum {α σ : Type} (a b : Slice α) (init : σ) (f : Nat → α → α → σ → Exec σ) : Exec σ :=
  forZipEnumFrom a b f (min a.size b.size) 0 init

/-- marks a nested block of a function that may `return` early: it yields `some result` when it
returned and `none` when control falls through to the statements after it -/
def mayReturn {α : Type} (x : Exec (Option α)) : Exec (Option α) := x

/-- `TypeId::of::<T>()` for the types `transpose_matrix` distinguishes -/
inductive RTy where
  | f32 | f64 | u32 | u64 | other
  deriving DecidableEq, Repr

/-- `DenseLane<T>`: eight registers. -/
structure DenseLane (α : Type) where
  a : α
  b : α
  c : α
  d : α
  e : α
  f : α
  g : α
  h : α

/-- `DenseLane::copy` -/
def DenseLane.copy {α} (v : α) : DenseLane α := ⟨v, v, v, v, v, v, v, v⟩

/-- `DenseLane::<_>::NUM_LANES` -/
def DenseLane.NUM_LANES : Nat := 8

/-- `Dense4x4Lane<T>` of cfavml-gemm: four registers. -/
structure Dense4x4Lane (α : Type) where
  a : α
  b : α
  c : α
  d : α

def DenseLane.nth {α} (l : DenseLane α) : Nat → α
  | 0 => l.a | 1 => l.b | 2 => l.c | 3 => l.d | 4 => l.e | 5 => l.f | 6 => l.g | _ => l.h

end Cfavml
