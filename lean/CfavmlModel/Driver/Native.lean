/-
Driver only (never imported by a theorem): `FloatOps` instantiated with the host's native binary32 /
binary64 arithmetic, so that the generated model can be *run* and compared with the implementation.
Fused multiply-add is the exact software implementation of `Driver/SoftFloat.lean`; the `*_algebraic` variants are
the plain operations.
-/
import CfavmlModel.Prim.Exec
import CfavmlModel.Driver.SoftFloat

namespace Cfavml.Driver

def f32 (b : BitVec 32) : Float32 := Float32.ofBits (UInt32.ofNat b.toNat)
def b32 (f : Float32) : BitVec 32 := BitVec.ofNat 32 f.toBits.toNat
def f64 (b : BitVec 64) : Float := Float.ofBits (UInt64.ofNat b.toNat)
def b64 (f : Float) : BitVec 64 := BitVec.ofNat 64 f.toBits.toNat

/-- Rust `f32::max`: NaN-ignoring; for equal values (incl. ±0) returns the second operand like `maxss` after
the NaN fix-up sequence rustc emits — the sign of a zero result is unspecified and canonicalised by the comparison -/
def rmax32 (a b : Float32) : Float32 := if a.isNaN then b else if b.isNaN then a else if a < b then b else if b < a then a else b
def rmin32 (a b : Float32) : Float32 := if a.isNaN then b else if b.isNaN then a else if a < b then a else if b < a then b else b
def rmax64 (a b : Float) : Float := if a.isNaN then b else if b.isNaN then a else if a < b then b else if b < a then a else b
def rmin64 (a b : Float) : Float := if a.isNaN then b else if b.isNaN then a else if a < b then a else if b < a then b else b

def f64ToInt (v : Float) (lo hi : Int) : Int :=
  if v.isNaN then 0
  else if hi > 9223372036854775807 then
    let x : Int := (v.toUInt64.toNat : Int)
    if x > hi then hi else if x < lo then lo else x
  else
    let x : Int := v.toInt64.toInt
    if x > hi then hi else if x < lo then lo else x

def nativeFloatOps : FloatOps where
  add32 := fun a b => b32 (f32 a + f32 b)
  sub32 := fun a b => b32 (f32 a - f32 b)
  mul32 := fun a b => b32 (f32 a * f32 b)
  div32 := fun a b => b32 (f32 a / f32 b)
  fma32 := Soft.fma32
  sqrt32 := fun a => b32 (f32 a).sqrt
  lt32 := fun a b => f32 a < f32 b
  le32 := fun a b => f32 a ≤ f32 b
  eq32 := fun a b => f32 a == f32 b
  rmax32 := fun a b => b32 (rmax32 (f32 a) (f32 b))
  rmin32 := fun a b => b32 (rmin32 (f32 a) (f32 b))
  addAlg32 := fun a b => b32 (f32 a + f32 b)
  subAlg32 := fun a b => b32 (f32 a - f32 b)
  mulAlg32 := fun a b => b32 (f32 a * f32 b)
  divAlg32 := fun a b => b32 (f32 a / f32 b)
  add64 := fun a b => b64 (f64 a + f64 b)
  sub64 := fun a b => b64 (f64 a - f64 b)
  mul64 := fun a b => b64 (f64 a * f64 b)
  div64 := fun a b => b64 (f64 a / f64 b)
  fma64 := Soft.fma64
  sqrt64 := fun a => b64 (f64 a).sqrt
  lt64 := fun a b => f64 a < f64 b
  le64 := fun a b => f64 a ≤ f64 b
  eq64 := fun a b => f64 a == f64 b
  rmax64 := fun a b => b64 (rmax64 (f64 a) (f64 b))
  rmin64 := fun a b => b64 (rmin64 (f64 a) (f64 b))
  addAlg64 := fun a b => b64 (f64 a + f64 b)
  subAlg64 := fun a b => b64 (f64 a - f64 b)
  mulAlg64 := fun a b => b64 (f64 a * f64 b)
  divAlg64 := fun a b => b64 (f64 a / f64 b)
  f32ToF64 := fun a => b64 (f32 a).toFloat
  f64ToF32 := fun a => b32 (f64 a).toFloat32
  intToF64 := fun n => b64 (Float.ofInt n)
  f64ToInt := fun v lo hi => f64ToInt (f64 v) lo hi

end Cfavml.Driver
