/-
Witness search over the generated tables (run with `lake env lean --run CfavmlModel/Driver/Witness.lean <ID>`).
(The witnesses that need the *translated functions* of dispatch.rs are in `WitnessDispatch.lean`, so that this script still
runs when those functions no longer translate.)

The table theorems of C09 / C10 / C11 / C14 are `decide`d conjunctions of one Boolean test per row (or per CPU
configuration). When such a theorem no longer checks, this script evaluates the *same* tests row by row on the tables
regenerated from the current source and prints the rows / configurations that fail — a concrete state (feature mask, safe
function, export, routine, reference) on which the property fails in the model. It is a search, not a proof: it only
supplies the replay.
-/
import CfavmlModel.Spec.Features
import CfavmlModel.Spec.Wrappers
import CfavmlModel.Spec.Dispatch
import CfavmlModel.Spec.Names
import CfavmlModel.Spec.NoStd
import CfavmlModel.Gen.Tables
import CfavmlModel.Gen.ImplTables
import CfavmlModel.Gen.RefTables
import CfavmlModel.Gen.KernelTables
import CfavmlModel.Spec.TestEnv

open Cfavml Cfavml.Tables Cfavml.Spec

def bools : List Bool := [false, true]

def c09 : List String := Id.run do
  let mut out : List String := []
  for r in safeRows do
    if !safeRowOk safeArms r then
      out := out ++ [s!"safe function row not wired as the property requires: {repr r}"]
  for b in builds do
    for s1 in bools do for s2 in bools do for s3 in bools do for s4 in bools do
      for a1 in bools do for a2 in bools do for a3 in bools do for a4 in bools do
        let sup := suppliedOf s1 s2 s3 s4
        let av : Avail := ⟨a1, a2, a3, a4⟩
        let got := selectedBy dispatchCandidates dispatchFallbackLabel b sup av
        let want := specSelected b sup av
        if got != want then
          out := out ++ [s!"dispatch! selects {repr got}, the documented priority order selects {repr want}: build={repr b} supplied(avx512,avx2fma,avx2,neon)=({s1},{s2},{s3},{s4}) available(avx512,avx2,fma,neon)=({a1},{a2},{a3},{a4})"]
        else if !slotUsable b av got then
          out := out ++ [s!"dispatch! selects the unusable slot {repr got}: build={repr b} supplied=({s1},{s2},{s3},{s4}) available=({a1},{a2},{a3},{a4})"]
  return out

def c10 : List String := Id.run do
  let mut out : List String := []
  for r in implMethods do
    if !implRowOk intrinsicFeatures r then
      let bad := r.intrinsics.filter (fun i =>
        match intrinsicFeatures[i]? with
        | some (_, fs) => !subsetB fs (allowedFor r.reg)
        | none => true)
      let badNames := bad.map (fun i => match intrinsicFeatures[i]? with | some (n, fs) => s!"{n} needs {repr fs}" | none => s!"#{i} (unknown)")
      out := out ++ [s!"{repr r.reg} {repr r.ty} {repr r.method}: the dispatcher verifies {repr (verifiedForReg r.reg)} for this backend, but the method uses {badNames} / calls {repr (r.calls.filter (fun c => !subsetB (verifiedForReg c.1) (allowedFor r.reg)))} — a CPU with exactly the verified features executes an instruction it lacks"]
  for b in buildScripts do
    out := out ++ [s!"the crate has a build script ({b.1}) that emits the cfgs {b.2}: compile-time answers of the availability checks can then depend on the build machine instead of the target"]
  for r in archRefs do
    if !((noStdBuilds ++ stdBuilds).all (fun b => !compiledIn b r)) then
      let needs := match intrinsicFeatures.find? (fun x => x.1 == r.path) with
        | some (_, fs) => s!" (stdarch: needs {repr fs})"
        | none => ""
      out := out ++ [s!"{r.file}:{r.line} ({r.kind}) `{r.path}`{needs} is compiled into a shipped build outside the register backends: the instruction runs on every CPU, whatever the dispatcher verified (builds: {repr ((noStdBuilds ++ stdBuilds).filter (fun b => compiledIn b r) |>.map (·.features))})"]
  for r in exports do
    if !subsetB r.features (allowedFor r.reg) then
      out := out ++ [s!"export {r.xanyName} ({r.file}:{r.line}) belongs to backend {repr r.reg}, for which the dispatcher verifies {repr (verifiedForReg r.reg)}, but is compiled with target features {repr r.features}: on a CPU with exactly the verified features the routine may execute {repr (r.features.filter (fun f => !(allowedFor r.reg).contains f))} instructions"]
  for c in dispatchCandidates do
    for ty in elemTypes do
      for op in allKernels do
        if !subsetB (verifiedForReg (regOfSlot c.label ty op)) (closure (c.guards.flatMap featsOfGuard)) then
          out := out ++ [s!"slot {repr c.label} for {repr ty} {repr op} is wired to backend {repr (regOfSlot c.label ty op)} (needs {repr (verifiedForReg (regOfSlot c.label ty op))}) but its guards only establish {repr (c.guards.flatMap featsOfGuard)}"]
  return out

/-- C10 composes `C09.slots_wired`: a slot bound to a routine of another backend runs instructions its guard did not verify -/
def c10Wiring : List String := Id.run do
  let mut out : List String := []
  for r in safeRows do
    if !safeRowOk safeArms r then
      out := out ++ [s!"a dispatch slot of this safe function is not bound to the routine of the backend its guard verifies (so the selected routine may need features the dispatcher did not check): {repr r}"]
  return out

def c11 : List String := Id.run do
  let mut out : List String := []
  -- a row does what its name says only if the function the macro generates for it forwards the call unchanged
  for m in allExportMacros do
    for wf in bools do
      for (nv, first) in [("xconst_name", "DIMS"), ("xany_name", "a.len()")] do
        match exportArmOf m wf nv with
        | none => out := out ++ [s!"export macro {repr m} (arm with target features: {wf}) has no {nv} function"]
        | some f =>
          if !(f.callee == "$op" && f.callArgs == first :: f.params.map (·.1)) then
            out := out ++ [s!"export macro {repr m} (arm with target features: {wf}), {nv} function: every routine generated by this arm calls {f.callee}({f.callArgs}) although its parameters are {f.params.map (·.1)} — operands reach the kernel in another order than the caller passed them (any non-commutative operation, or unequal lengths, shows it)"]
  -- aliases that shadow a table row first (they change what an existing name means), then the merely additional names
  for pass in [true, false] do
    for a in exportAliases do
      let shadowed := exports.filter (fun r => r.xanyName == a.2.2.2)
      if shadowed.isEmpty != pass then
        out := out ++ [s!"{a.1}:{a.2.1}: routine `{a.2.2.1}` is also exported as `{a.2.2.2}`" ++ (if shadowed.isEmpty then " — a name outside the export tables, bound to a routine whose own name says something else" else s!" — this explicit re-export shadows the glob-exported routine of that name (table row {(shadowed.map (fun r => (r.file, r.line)))}): callers of `{a.2.2.2}` now run `{a.2.2.1}`")]
  for r in exports do
    if !(exportRowOk r && exportRowCfgOk r) then
      out := out ++ [s!"export whose name and binding disagree: {repr r}"]
    else if !(r.xany.contains .fma == reallyFuses r.reg r.ty r.op) then
      out := out ++ [s!"export whose fma/nofma tag does not say what its routine does: {repr r}"]
  return out

def c14 : List String := Id.run do
  let mut out : List String := []
  for r in externalRefs do
    if r.path.startsWith "alloc" || r.kind == "extern-crate" then
      out := out ++ [s!"reference to alloc / an external crate: {repr r}"]
    else if r.kind == "foreign" && !((noStdBuilds ++ stdBuilds).all (fun b => !compiledIn b r)) then
      out := out ++ [s!"a foreign symbol is declared in a shipped build — the library then needs something outside `core` at link time (builds: {repr ((noStdBuilds ++ stdBuilds).filter (fun b => compiledIn b r) |>.map (·.features))}): {repr r}"]
    else if r.kind != "foreign" && !(noStdBuilds.all (fun b => !compiledIn b r)) then
      out := out ++ [s!"std item compiled into a no-std build: {repr r}"]
    else if r.kind == "prelude-alloc" && !((noStdBuilds ++ stdBuilds).all (fun b => !compiledIn b r)) then
      out := out ++ [s!"an allocating std-prelude item is compiled into a shipped build: {repr r}"]
    else if r.kind != "prelude-alloc" && !(stdBuilds.all (fun b => !compiledIn b r || allowedStd.contains r.path)) then
      out := out ++ [s!"the shipped std build names a std item other than CPU feature detection: {repr r}"]
  if !(crateAttrs.contains "cfg_attr(not(feature=\"std\"),no_std)") then
    out := out ++ ["the crate is not `no_std` when the `std` feature is off"]
  for r in cargoFeatureGraph do
    if !(r.1 == "std" || r.1 == "default" || !(featureClosure cargoFeatureGraph [r.1]).contains "std") then
      out := out ++ [s!"cargo build --no-default-features --features {r.1} resolves to the feature set {(featureClosure cargoFeatureGraph [r.1]).eraseDups}: `std` is switched on although it was not requested, so this configuration has no no_std build"]
  if cargoDependencies != [] then
    out := out ++ [s!"the crate has dependencies: {cargoDependencies}"]
  return out

def c08 : List String := Id.run do
  let mut out : List String := []
  for r in stateItems do
    if !(Cfavml.Spec.builds.all (fun b => !(r.cfg.all (·.eval b)))) then
      out := out ++ [s!"state that outlives a call is compiled into a real build (a result can then depend on earlier calls, not only on the logical inputs): {repr r}"]
  return out

/-- C12: the two functions of an export arm must make the same call when `DIMS = a.len()`; the two forms of a safe wrapper
must pass on the same inputs -/
def c12 : List String := Id.run do
  let mut out : List String := []
  for m in allExportMacros do
    for wf in bools do
      if !exportArmPairOk m wf then
        out := out ++ [s!"export macro {repr m} (arm with target features: {wf}): the xconst and the xany function do not forward the same call — xconst: {repr (exportArmOf m wf "xconst_name")} ; xany: {repr (exportArmOf m wf "xany_name")}"]
  for m in allSafeMacros do
    if !sameAsserts (safeArmOf m .xconst).asserts (safeArmOf m .xany).asserts then
      out := out ++ [s!"safe macro {repr m}: with DIMS = a.len() the xconst form asserts {repr (safeArmOf m .xconst).asserts} but the xany form asserts {repr (safeArmOf m .xany).asserts} (a slice length one form checks and the other does not)"]
    for f in [Form.xconst, Form.xany] do
      let arm := safeArmOf m f
      if arm.otherStmts != 0 || arm.assertsAfterDispatch != 0 then
        out := out ++ [s!"safe macro {repr m}, {repr f} form: besides its assertions and the dispatch the function body has {arm.otherStmts} other statement(s) and {arm.assertsAfterDispatch} assertion(s) after the dispatch — a path (an early return, a special case) that the other form need not have"]
    let sc := (safeArmOf m .xconst).slots.map (·.label)
    let sa := (safeArmOf m .xany).slots.map (·.label)
    if sc != sa then
      out := out ++ [s!"safe macro {repr m}: the xconst form offers the dispatcher slots {repr sc}, the xany form {repr sa} — under a feature mask selecting a slot only one form has, the two forms run different backends"]
  return out

def main (args : List String) : IO UInt32 := do
  let ws := match args with
    | ["C08"] => c08
    | ["C09"] => c09
    | ["C10"] => c10 ++ c10Wiring
    | ["C11"] => c11
    | ["C12"] => c12
    | ["C14"] => c14
    | _ => []
  for w in ws.take 12 do
    IO.println s!"WITNESS {w}"
  IO.println s!"witnesses={ws.length}"
  return 0
