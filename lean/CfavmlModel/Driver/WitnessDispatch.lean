/-
Witness search that executes the translated availability checks of dispatch.rs (run with
`lake env lean --run CfavmlModel/Driver/WitnessDispatch.lean <ID>`); see `Witness.lean` for the table-only part.
-/
import CfavmlModel.Spec.Features
import CfavmlModel.Gen.Dispatch
import CfavmlModel.Spec.TestEnv

open Cfavml Cfavml.Tables Cfavml.Spec

def bools : List Bool := [false, true]

/-- the availability checks as regenerated from dispatch.rs, run on every combination of compile-time target features,
`std` and detected CPU features: a positive answer must mean every feature the guard stands for is present -/
def availabilityWitnesses : List String := Id.run do
  let mut out : List String := []
  let guards : List (String × (Env → Exec Bool) × List (String × (Env → Bool))) := [
    ("is_avx512_available", is_avx512_available,
      [("avx512f", fun E => E.tf_avx512f || E.cpu_avx512f), ("avx512bw", fun E => E.tf_avx512bw || E.cpu_avx512bw)]),
    ("is_avx2_available", is_avx2_available, [("avx2", fun E => E.tf_avx2 || E.cpu_avx2)]),
    ("is_fma_available", is_fma_available, [("fma", fun E => E.tf_fma || E.cpu_fma)]),
    ("is_neon_available", is_neon_available, [("neon", fun E => E.tf_neon || E.cpu_neon)])]
  for std in bools do
    for t1 in bools do for t2 in bools do for t3 in bools do for t4 in bools do
      for c1 in bools do for c2 in bools do for c3 in bools do for c4 in bools do
        for neon in bools do
         for other in bools do
          let E : Env := { testEnv with feat_std := std, tf_avx512f := t1, tf_avx512bw := t2, tf_avx2 := t3, tf_fma := t4, cpu_avx512f := c1, cpu_avx512bw := c2, cpu_avx2 := c3, cpu_fma := c4, tf_neon := neon, cpu_neon := neon, tf_avx := other, tf_sse2 := other, tf_sse4_1 := other, tf_sse4_2 := other, tf_avx512vl := other, tf_avx512dq := other, cpu_avx := other, cpu_sse2 := other, cpu_sse4_1 := other, cpu_sse4_2 := other, cpu_avx512vl := other, cpu_avx512dq := other }
          for (name, g, feats) in guards do
            match g E with
            | .ok true =>
              for (fname, has) in feats do
                if !has E && out.length < 8 then
                  out := out ++ [s!"{name}() answers true although {fname} is absent: std={std} target_features(avx512f,avx512bw,avx2,fma)=({t1},{t2},{t3},{t4}) cpu(avx512f,avx512bw,avx2,fma)=({c1},{c2},{c3},{c4}) neon={neon} other x86 features (avx, sse*, avx512vl/dq: compile-time and detected)={other}"]
            | _ => pure ()
  return out


def main (args : List String) : IO UInt32 := do
  let ws := match args with
    | ["C09"] => availabilityWitnesses
    | ["C10"] => availabilityWitnesses
    | _ => []
  for w in ws.take 12 do
    IO.println s!"WITNESS {w}"
  IO.println s!"witnesses={ws.length}"
  return 0
