/-
Executable driver of the generated model: one request per line on stdin, one answer per line on stdout.
Used by the correspondence check (model vs implementation). Not imported by any theorem.

Requests (tokens separated by one space; numbers in hex without prefix; lists comma-separated, `-` = empty):
  env <debugAssertions 0|1> <overflowChecks 0|1> <nightly 0|1> <std 0|1>
  reg  <Reg> <ty> <method> <arg>...       a SimdRegister method; args: r:<lanes> d:<8L lanes> v:<scalar> m:<slice> o:<offset>
  math <StdMath|FastMath|AutoMath> <ty> <method> <scalar>...
  kern <Reg> <ty> <kernel> <dims> <arg>...   a generic kernel on that backend (args as above, in parameter order)
Answers: `ok <value>` (scalar / lane list / slice list / `true|false`) or `fault <kind>` or `bad-request <why>`.
-/
import CfavmlModel.Driver.Native
import CfavmlModel.Gen.DriverTable
import CfavmlModel.Gen.Kernels
import CfavmlModel.Hand.ThreadPool
import CfavmlModel.Hand.AlignedBuffer
import CfavmlModel.Hand.AlignedBufferState
import CfavmlModel.Hand.ModelReg
import CfavmlModel.Hand.TransposeGlue
import CfavmlModel.Spec.Wrappers
import CfavmlModel.Spec.Dispatch
import CfavmlModel.Spec.SafeApi
import CfavmlModel.Gen.Tables

namespace Cfavml.Driver

def mkEnv (dbg ovf nightly std : Bool) : Env where
  fuel := 100000000
  F := nativeFloatOps
  debugAssertions := dbg
  overflowChecks := ovf
  feat_nightly := nightly
  feat_std := std
  feat_env_var_compat := false
  tf_avx2 := false
  tf_fma := false
  tf_avx512f := false
  tf_avx512bw := false
  tf_neon := false
  cpu_avx2 := true
  cpu_fma := true
  cpu_avx512f := true
  cpu_avx512bw := true
  cpu_neon := false
  undef128 := 0xdeadbeefdeadbeefdeadbeefdeadbeef#128

def hexDigit (c : Char) : Option Nat :=
  if '0' ≤ c ∧ c ≤ '9' then some (c.toNat - '0'.toNat)
  else if 'a' ≤ c ∧ c ≤ 'f' then some (c.toNat - 'a'.toNat + 10)
  else if 'A' ≤ c ∧ c ≤ 'F' then some (c.toNat - 'A'.toNat + 10)
  else none

def parseHex (s : String) : Option Nat :=
  if s.isEmpty then none else
  s.toList.foldl (fun acc c => do let a ← acc; let d ← hexDigit c; pure (a * 16 + d)) (some 0)

def toHex (n : Nat) : String := String.ofList (Nat.toDigits 16 n)

def parseList (w : Nat) (s : String) : Option (Array (BitVec w)) :=
  if s == "-" then some #[] else
  (s.splitOn ",").foldl (fun acc t => do let a ← acc; let n ← parseHex t; pure (a.push (BitVec.ofNat w n))) (some #[])

def showList {w : Nat} (xs : List (BitVec w)) : String :=
  if xs.isEmpty then "-" else ",".intercalate (xs.map (fun x => toHex x.toNat))

inductive Arg (w n : Nat) where
  | reg (r : BitVec n)
  | dense (d : DenseLane (BitVec n))
  | val (v : BitVec w)
  | mem (s : Slice (BitVec w))
  | off (o : Nat)

def packReg (w n : Nat) (xs : Array (BitVec w)) (start : Nat) : BitVec n :=
  fromLanes w (n / w) (fun k => xs.getD (start + k) 0)

def unpackReg (w n : Nat) (r : BitVec n) : List (BitVec w) :=
  (List.range (n / w)).map (fun k => lane w k r)

def parseArg (w n : Nat) (t : String) : Option (Arg w n) :=
  let L := n / w
  match t.splitOn ":" with
  | ["r", body] => do
    let xs ← parseList w body
    if xs.size != L then none else pure (.reg (packReg w n xs 0))
  | ["d", body] => do
    let xs ← parseList w body
    if xs.size != L * 8 then none else
    pure (.dense ⟨packReg w n xs 0, packReg w n xs L, packReg w n xs (2 * L), packReg w n xs (3 * L),
      packReg w n xs (4 * L), packReg w n xs (5 * L), packReg w n xs (6 * L), packReg w n xs (7 * L)⟩)
  | ["v", body] => do let x ← parseHex body; pure (.val (BitVec.ofNat w x))
  | ["m", body] => do let xs ← parseList w body; pure (.mem (Slice.ofArray xs))
  | ["o", body] => do let x ← parseHex body; pure (.off x)
  | _ => none

def showFault : Fault → String
  | .oobRead => "fault oobRead"
  | .oobWrite => "fault oobWrite"
  | .diverge => "fault diverge"
  | .panic => "fault panic"
  | .arith => "fault arith"

def outReg {w n : Nat} (x : Exec (BitVec n)) : String :=
  match x with
  | .ok r => "ok " ++ showList (unpackReg w n r)
  | .error f => showFault f
def outDense {w n : Nat} (x : Exec (DenseLane (BitVec n))) : String :=
  match x with
  | .ok d => "ok " ++ showList ((List.range 8).flatMap (fun q => unpackReg w n (d.nth q)))
  | .error f => showFault f
def outVal {w : Nat} (x : Exec (BitVec w)) : String :=
  match x with
  | .ok v => "ok " ++ toHex v.toNat
  | .error f => showFault f
def outMem {w : Nat} (x : Exec (Slice (BitVec w))) : String :=
  match x with
  | .ok s => "ok " ++ showList s.toList
  | .error f => showFault f
def outNat (x : Exec Nat) : String :=
  match x with
  | .ok v => "ok " ++ toHex v
  | .error f => showFault f
def outBool (x : Exec Bool) : String :=
  match x with
  | .ok v => "ok " ++ toString v
  | .error f => showFault f

def runReg {w n : Nat} (R : SimdRegister (BitVec w) (BitVec n)) (method : String) (args : List (Arg w n)) : String :=
  match method, args with
  | "elements_per_lane", [] => outNat R.elements_per_lane
  | "elements_per_dense", [] => outNat R.elements_per_dense
  | "load", [.mem s, .off o] => outReg (w := w) (R.load s o)
  | "filled", [.val v] => outReg (w := w) (R.filled v)
  | "zeroed", [] => outReg (w := w) R.zeroed
  | "load_dense", [.mem s, .off o] => outDense (w := w) (R.load_dense s o)
  | "filled_dense", [.val v] => outDense (w := w) (R.filled_dense v)
  | "zeroed_dense", [] => outDense (w := w) R.zeroed_dense
  | "add", [.reg x, .reg y] => outReg (w := w) (R.add x y)
  | "sub", [.reg x, .reg y] => outReg (w := w) (R.sub x y)
  | "mul", [.reg x, .reg y] => outReg (w := w) (R.mul x y)
  | "div", [.reg x, .reg y] => outReg (w := w) (R.div x y)
  | "max", [.reg x, .reg y] => outReg (w := w) (R.max x y)
  | "min", [.reg x, .reg y] => outReg (w := w) (R.min x y)
  | "fmadd", [.reg x, .reg y, .reg z] => outReg (w := w) (R.fmadd x y z)
  | "add_dense", [.dense x, .dense y] => outDense (w := w) (R.add_dense x y)
  | "sub_dense", [.dense x, .dense y] => outDense (w := w) (R.sub_dense x y)
  | "mul_dense", [.dense x, .dense y] => outDense (w := w) (R.mul_dense x y)
  | "div_dense", [.dense x, .dense y] => outDense (w := w) (R.div_dense x y)
  | "max_dense", [.dense x, .dense y] => outDense (w := w) (R.max_dense x y)
  | "min_dense", [.dense x, .dense y] => outDense (w := w) (R.min_dense x y)
  | "fmadd_dense", [.dense x, .dense y, .dense z] => outDense (w := w) (R.fmadd_dense x y z)
  | "sum_to_value", [.reg x] => outVal (R.sum_to_value x)
  | "max_to_value", [.reg x] => outVal (R.max_to_value x)
  | "min_to_value", [.reg x] => outVal (R.min_to_value x)
  | "sum_to_register", [.dense x] => outReg (w := w) (R.sum_to_register x)
  | "max_to_register", [.dense x] => outReg (w := w) (R.max_to_register x)
  | "min_to_register", [.dense x] => outReg (w := w) (R.min_to_register x)
  | "write", [.mem s, .off o, .reg x] => outMem (R.write s o x)
  | "write_dense", [.mem s, .off o, .dense x] => outMem (R.write_dense s o x)
  | _, _ => "bad-request method/arguments"

def runKernel {w n : Nat} (E : Env) (R : SimdRegister (BitVec w) (BitVec n)) (M : Math (BitVec w))
    (kernel : String) (dims : Nat) (args : List (Arg w n)) : String :=
  match kernel, args with
  | "generic_sum", [.mem a] => outVal (generic_sum E R M dims a)
  | "generic_squared_norm", [.mem a] => outVal (generic_squared_norm E R M dims a)
  | "generic_max_horizontal", [.mem a] => outVal (generic_max_horizontal E R M dims a)
  | "generic_min_horizontal", [.mem a] => outVal (generic_min_horizontal E R M dims a)
  | "generic_dot_product", [.mem a, .mem b] => outVal (generic_dot_product E R M dims a b)
  | "generic_cosine", [.mem a, .mem b] => outVal (generic_cosine E R M dims a b)
  | "generic_euclidean", [.mem a, .mem b] => outVal (generic_euclidean E R M dims a b)
  | "generic_add_vector", [.mem a, .mem b, .mem r] => outMem (generic_add_vector E R M dims a b r)
  | "generic_sub_vector", [.mem a, .mem b, .mem r] => outMem (generic_sub_vector E R M dims a b r)
  | "generic_mul_vector", [.mem a, .mem b, .mem r] => outMem (generic_mul_vector E R M dims a b r)
  | "generic_div_vector", [.mem a, .mem b, .mem r] => outMem (generic_div_vector E R M dims a b r)
  | "generic_max_vertical", [.mem a, .mem b, .mem r] => outMem (generic_max_vertical E R M dims a b r)
  | "generic_min_vertical", [.mem a, .mem b, .mem r] => outMem (generic_min_vertical E R M dims a b r)
  | "generic_add_value", [.val v, .mem a, .mem r] => outMem (generic_add_value E R M dims v a r)
  | "generic_sub_value", [.val v, .mem a, .mem r] => outMem (generic_sub_value E R M dims v a r)
  | "generic_mul_value", [.val v, .mem a, .mem r] => outMem (generic_mul_value E R M dims v a r)
  | "generic_div_value", [.val v, .mem a, .mem r] => outMem (generic_div_value E R M dims v a r)
  | "generic_max_value", [.val v, .mem a, .mem r] => outMem (generic_max_value E R M dims v a r)
  | "generic_min_value", [.val v, .mem a, .mem r] => outMem (generic_min_value E R M dims v a r)
  | _, _ => "bad-request kernel/arguments"

def runMath {w : Nat} (M : Math (BitVec w)) (method : String) (args : List (BitVec w)) : String :=
  match method, args with
  | "zero", [] => outVal M.zero
  | "one", [] => outVal M.one
  | "max", [] => outVal M.max
  | "min", [] => outVal M.min
  | "sqrt", [a] => outVal (M.sqrt a)
  | "abs", [a] => outVal (M.abs a)
  | "cmp_eq", [a, b] => outBool (M.cmp_eq a b)
  | "cmp_min", [a, b] => outVal (M.cmp_min a b)
  | "cmp_max", [a, b] => outVal (M.cmp_max a b)
  | "add", [a, b] => outVal (M.add a b)
  | "sub", [a, b] => outVal (M.sub a b)
  | "mul", [a, b] => outVal (M.mul a b)
  | "div", [a, b] => outVal (M.div a b)
  | _, _ => "bad-request math method/arguments"

/-! ### `abufs`: operation sequences on aligned buffers -/

def parseBytes (t : String) : Option (List Nat) :=
  if t == "-" then some [] else
  let rec go : List Char → Option (List Nat)
    | [] => some []
    | [_] => none
    | a :: b :: rest => do
      let x ← hexDigit a
      let y ← hexDigit b
      let r ← go rest
      pure ((x * 16 + y) :: r)
  go t.toList

def showBytes (bs : List Nat) : String :=
  if bs.isEmpty then "-" else
  String.ofList (bs.flatMap (fun b => [(Nat.toDigits 16 (b / 16 % 16)).headD '0', (Nat.toDigits 16 (b % 16)).headD '0']))

def chunksOf (n : Nat) : Nat → List Nat → List (List Nat)
  | 0, _ => []
  | fuel + 1, l => if l.isEmpty || n == 0 then [] else l.take n :: chunksOf n fuel (l.drop n)

def parseAOp (sizeT : Nat) (t : String) : Option Hand.AOp :=
  match t.splitOn ":" with
  | ["z", len] => do pure (.zeroed (← parseHex len))
  | ["w", k, i, v] => do pure (.write (← parseHex k) (← parseHex i) (← parseBytes v))
  -- `as_mut_ptr().add(i).write(v)`: the same store as through the mutable view (the harness only issues in-range ones)
  | ["p", k, i, v] => do pure (.write (← parseHex k) (← parseHex i) (← parseBytes v))
  | ["r", k, i] => do pure (.read (← parseHex k) (← parseHex i))
  | ["c", k] => do pure (.clone (← parseHex k))
  | ["f", d, s] => do pure (.cloneFrom (← parseHex d) (← parseHex s))
  | ["s", k, v] => do
    let bs ← parseBytes v
    if sizeT == 0 || bs.length % sizeT != 0 then none
    else pure (.copyFrom (← parseHex k) (chunksOf sizeT bs.length bs))
  | ["i", k] => do pure (.info (← parseHex k))
  | ["d", k] => do pure (.dump (← parseHex k))
  | _ => none

def showAOut : Hand.AOut → String
  | .info len alloc => s!"n{toHex len},{toHex alloc}"
  | .unit => "u"
  | .elem v => s!"e{showBytes v}"
  | .elems vs => s!"v{showBytes vs.flatten}"
  | .fault .panic => "p"
  | .fault _ => "O"
  | .bad => "b"

def abufsRequest (sz ops : String) : String :=
  match parseHex sz with
  | none => "bad-request abufs size"
  | some s =>
    let parsed := (ops.splitOn ";").map (parseAOp s)
    if parsed.any (·.isNone) then "bad-request abufs operation"
    else
      let outs := (Hand.run s [] (parsed.filterMap id)).2
      "ok " ++ ";".intercalate (outs.map showAOut)

/-- environment values travel hex-encoded (`-` = unset, `=` = empty string) -/
def decodeEnv (t : String) : Option (Option String) :=
  if t == "-" then some none
  else if t == "=" then some (some "")
  else
    let cs := t.toList
    let rec go : List Char → Option (List Char)
      | [] => some []
      | [_] => none
      | a :: b :: rest => do
        let x ← hexDigit a
        let y ← hexDigit b
        let r ← go rest
        pure (Char.ofNat (x * 16 + y) :: r)
    (go cs).map (fun l => some (String.ofList l))

def parseArgs (w n : Nat) (ts : List String) : Option (List (Arg w n)) :=
  ts.foldr (fun t acc => do let a ← parseArg w n t; let r ← acc; pure (a :: r)) (some [])

/-- `kernL <L> <ty> <kernel> <dims> <args>`: a generated kernel on the reference backend with `L` lanes per register
(`Hand.modelReg`), integer element types only (`StdMath`) -/
def runKernelL {w : Nat} (E : Env) (L : Nat) (S : ScalarSpec (BitVec w)) (M : Math (BitVec w))
    (kernel : String) (dims : Nat) (args : List (Arg w 1)) : String :=
  let R := Hand.modelReg L S
  match kernel, args with
  | "generic_sum", [.mem a] => outVal (generic_sum E R M dims a)
  | "generic_squared_norm", [.mem a] => outVal (generic_squared_norm E R M dims a)
  | "generic_max_horizontal", [.mem a] => outVal (generic_max_horizontal E R M dims a)
  | "generic_min_horizontal", [.mem a] => outVal (generic_min_horizontal E R M dims a)
  | "generic_dot_product", [.mem a, .mem b] => outVal (generic_dot_product E R M dims a b)
  | "generic_cosine", [.mem a, .mem b] => outVal (generic_cosine E R M dims a b)
  | "generic_euclidean", [.mem a, .mem b] => outVal (generic_euclidean E R M dims a b)
  | "generic_add_vector", [.mem a, .mem b, .mem r] => outMem (generic_add_vector E R M dims a b r)
  | "generic_sub_vector", [.mem a, .mem b, .mem r] => outMem (generic_sub_vector E R M dims a b r)
  | "generic_mul_vector", [.mem a, .mem b, .mem r] => outMem (generic_mul_vector E R M dims a b r)
  | "generic_div_vector", [.mem a, .mem b, .mem r] => outMem (generic_div_vector E R M dims a b r)
  | "generic_max_vertical", [.mem a, .mem b, .mem r] => outMem (generic_max_vertical E R M dims a b r)
  | "generic_min_vertical", [.mem a, .mem b, .mem r] => outMem (generic_min_vertical E R M dims a b r)
  | "generic_add_value", [.val v, .mem a, .mem r] => outMem (generic_add_value E R M dims v a r)
  | "generic_sub_value", [.val v, .mem a, .mem r] => outMem (generic_sub_value E R M dims v a r)
  | "generic_mul_value", [.val v, .mem a, .mem r] => outMem (generic_mul_value E R M dims v a r)
  | "generic_div_value", [.val v, .mem a, .mem r] => outMem (generic_div_value E R M dims v a r)
  | "generic_max_value", [.val v, .mem a, .mem r] => outMem (generic_max_value E R M dims v a r)
  | "generic_min_value", [.val v, .mem a, .mem r] => outMem (generic_min_value E R M dims v a r)
  | _, _ => "bad-request kernel/arguments"

def kernLRequest (E : Env) (lt ty kernel dims : String) (rest : List String) : String :=
  match parseHex lt, parseHex dims with
  | some L, some d =>
    if L == 0 then "bad-request lane count" else
    let go (w : Nat) (S : ScalarSpec (BitVec w)) (M : Math (BitVec w)) : String :=
      match parseArgs w 1 rest with
      | some args => runKernelL E L S M kernel d args
      | none => "bad-request arguments"
    match ty with
    | "i8" => go 8 (sintSpec 8) (StdMath_i8 E)
    | "i16" => go 16 (sintSpec 16) (StdMath_i16 E)
    | "i32" => go 32 (sintSpec 32) (StdMath_i32 E)
    | "i64" => go 64 (sintSpec 64) (StdMath_i64 E)
    | "u8" => go 8 (uintSpec 8) (StdMath_u8 E)
    | "u16" => go 16 (uintSpec 16) (StdMath_u16 E)
    | "u32" => go 32 (uintSpec 32) (StdMath_u32 E)
    | "u64" => go 64 (uintSpec 64) (StdMath_u64 E)
    | _ => "bad-request element type"
  | _, _ => "bad-request kernL lane count / dims"



/-! ### the safe API, interpreted from the regenerated tables

`safe <xany name> <c|a> <DIMS> <mask> <args…>`: the wrapper arm extracted from the `export_safe_*!` macro (its `assert_eq!`
list, its slots), the `dispatch!` candidates extracted from dispatch.rs, the routine the invocation binds to the selected
slot, and the kernel / register that routine's name stands for (the export tables bind exactly those: C11) — then the
generated kernel on the generated register. The harness calls the real safe function under the same forced feature mask. -/

open Tables Spec in
def tyName : ElemTy → String
  | .f32 => "f32" | .f64 => "f64" | .i8 => "i8" | .i16 => "i16" | .i32 => "i32" | .i64 => "i64"
  | .u8 => "u8" | .u16 => "u16" | .u32 => "u32" | .u64 => "u64" | .T => "T"
open Tables Spec in
def regNameStr : RegName → String
  | .Fallback => "Fallback" | .Avx2 => "Avx2" | .Avx2Fma => "Avx2Fma" | .Avx512 => "Avx512" | .Neon => "Neon"
open Tables Spec in
def kernelStr : Kernel → String
  | .generic_dot_product => "generic_dot_product" | .generic_cosine => "generic_cosine" | .generic_euclidean => "generic_euclidean"
  | .generic_squared_norm => "generic_squared_norm" | .generic_sum => "generic_sum"
  | .generic_max_horizontal => "generic_max_horizontal" | .generic_min_horizontal => "generic_min_horizontal"
  | .generic_max_vertical => "generic_max_vertical" | .generic_min_vertical => "generic_min_vertical"
  | .generic_max_value => "generic_max_value" | .generic_min_value => "generic_min_value"
  | .generic_add_value => "generic_add_value" | .generic_sub_value => "generic_sub_value"
  | .generic_mul_value => "generic_mul_value" | .generic_div_value => "generic_div_value"
  | .generic_add_vector => "generic_add_vector" | .generic_sub_vector => "generic_sub_vector"
  | .generic_mul_vector => "generic_mul_vector" | .generic_div_vector => "generic_div_vector"

/-- number of elements of a `m:` argument -/
def memLen (tok : String) : Nat :=
  let body := (tok.drop 2).toString
  if body == "-" || body == "" then 0 else (body.splitOn ",").length

open Tables Spec in
/-- which kern-level request the safe call amounts to (`Spec.safePlan`), or `none` for a panic of the wrapper -/
def safeRequest (name : String) (isConst : Bool) (D : Nat) (mask : Nat) (nightly : Bool) (rest : List String) :
    Except String (Option String) := do
  let some r := safeRows.find? (fun r => r.anyNameStr == name) | throw "bad-request unknown safe function"
  let form : Form := if isConst then .xconst else .xany
  let some arm := safeArms.find? (fun a => a.macro_ == r.macro_ && a.form == form) | throw "bad-request no such arm"
  if arm.params.length != rest.length then throw "bad-request argument count"
  let lensL : List (Param × Nat) := (arm.params.zip rest).map (fun (p, t) => (p.1, memLen t))
  let lens : Param → Nat := fun p => ((lensL.find? (fun q => q.1 == p)).map (·.2)).getD 0
  let av : Avail := ⟨mask % 2 == 1, (mask / 2) % 2 == 1, (mask / 4) % 2 == 1, (mask / 8) % 2 == 1⟩
  match safePlan r form lens D av nightly with
  | none => throw "bad-request tables do not determine the call"
  | some none => return none
  | some (some (p, dims)) =>
    let argOf : Param → String := fun q => (((arm.params.zip rest).find? (fun x => x.1.1 == q)).map (·.2)).getD "m:-"
    return some s!"kern {regNameStr p.reg} {tyName r.ty} {kernelStr p.op} {toHex dims} {" ".intercalate (p.args.map argOf)}"

partial def handle (E : Env) (line : String) : Env × String :=
  match line.trimAscii.toString.splitOn " " with
  | ["env", d, o, nn, s] => (mkEnv (d == "1") (o == "1") (nn == "1") (s == "1"), "ok")
  -- compile-time target features of the modelled build (`-C target-feature=…`): avx2 fma avx512f avx512bw neon
  | ["tf", a, f, f5, bw, ne] =>
    ({ E with tf_avx2 := a == "1", tf_fma := f == "1", tf_avx512f := f5 == "1", tf_avx512bw := bw == "1", tf_neon := ne == "1" }, "ok")
  | "safe" :: name :: form :: dims :: mask :: rest =>
    match parseHex dims, parseHex mask with
    | some d, some m =>
      match safeRequest name (form == "c") d m E.feat_nightly rest with
      | .error e => (E, e)
      | .ok none => (E, "fault panic")
      | .ok (some req) => handle E req
    | _, _ => (E, "bad-request dims/mask")
  | "reg" :: reg :: ty :: method :: rest =>
    match withReg E reg ty (fun {w n} R _ =>
      match parseArgs w n rest with
      | some args => runReg R method args
      | none => "bad-request arguments") with
    | some out => (E, out)
    | none => (E, "bad-request unknown backend/type")
  | "kernL" :: lt :: ty :: kernel :: dims :: rest => (E, kernLRequest E lt ty kernel dims rest)
  | "kern" :: reg :: ty :: kernel :: dims :: rest =>
    match parseHex dims with
    | none => (E, "bad-request dims")
    | some d =>
      match withReg E reg ty (fun {w n} R M =>
        match parseArgs w n rest with
        | some args => runKernel E R M kernel d args
        | none => "bad-request arguments") with
      | some out => (E, out)
      | none => (E, "bad-request unknown backend/type")
  | "math" :: which :: ty :: method :: rest =>
    match withMath E which ty (fun {w} M =>
      match rest.foldr (fun t acc => do let a ← parseHex t; let r ← acc; pure (BitVec.ofNat w a :: r)) (some []) with
      | some args => runMath M method args
      | none => "bad-request arguments") with
    | some out => (E, out)
    | none => (E, "bad-request unknown math/type")
  | ["pool", phys, nt, nc] =>
    match parseHex phys, decodeEnv nt, decodeEnv nc with
    | some p, some ntv, some ncv =>
      let e : Hand.PoolEnv := { numThreads := ntv, noCache := ncv, noPinning := none, physical := p }
      let r := (Hand.getOrInitPool e Hand.PoolState.init).2
      let b := match r with | .borrowed _ => "1" | .owned _ => "0"
      (E, s!"ok {toHex (Hand.poolThreads e)} {b}")
    | _, _, _ => (E, "bad-request pool arguments")
  | ["pool", phys, nt, nc, compat, omp, ob, dbg] =>
    match parseHex phys, decodeEnv nt, decodeEnv nc, decodeEnv omp, decodeEnv ob, decodeEnv dbg with
    | some p, some ntv, some ncv, some ompv, some obv, some dbgv =>
      let e : Hand.PoolEnv := { numThreads := ntv, noCache := ncv, noPinning := none, physical := p, compat := compat == "1", ompThreads := ompv, openblasThreads := obv, debug := dbgv }
      let r := (Hand.getOrInitPool e Hand.PoolState.init).2
      let b := match r with | .borrowed _ => "1" | .owned _ => "0"
      (E, s!"ok {toHex (Hand.poolThreads e)} {b}")
    | _, _, _, _, _, _ => (E, "bad-request pool arguments")
  | ["pin", dbg, avail, threads] =>
    match parseHex avail, parseHex threads with
    | some a, some t =>
      -- number of worker indices `0..threads` whose `pin_current` panics
      let n := ((List.range t).filter (fun idx => (Hand.pinCurrent (dbg == "1") a idx true).isNone)).length
      (E, s!"ok {toHex n}")
    | _, _ => (E, "bad-request pin arguments")
  | ["abufs", sz, ops] => (E, abufsRequest sz ops)
  | ["abuf", sz, len] =>
    match parseHex sz, parseHex len with
    | some s, some l =>
      match Hand.zeroed s l with
      | .ok b => (E, s!"ok {toHex b.len} {toHex b.allocatedSize}")
      | .error f => (E, showFault f)
    | _, _ => (E, "bad-request abuf arguments")
  | ["xpose", bits, cls, w, h, d, r] =>
    match parseHex bits, parseHex w, parseHex h with
    | some b, some wv, some hv =>
      let ty : Option RTy := match cls with
        | "f32" => some .f32 | "u32" => some .u32 | "f64" => some .f64 | "u64" => some .u64 | "other" => some .other | _ => none
      match ty with
      | none => (E, "bad-request element class")
      | some ty =>
        let strip (t : String) : Option String := match t.splitOn ":" with | ["m", body] => some body | _ => none
        match strip d, strip r with
        | some ds, some rs =>
          if b == 32 then
            match parseList 32 ds, parseList 32 rs with
            | some dv, some rv => (E, outMem (transpose_matrix_b32 E ty wv hv (Slice.ofArray dv) (Slice.ofArray rv)))
            | _, _ => (E, "bad-request data")
          else if b == 64 then
            match parseList 64 ds, parseList 64 rs with
            | some dv, some rv => (E, outMem (transpose_matrix_b64 E ty wv hv (Slice.ofArray dv) (Slice.ofArray rv)))
            | _, _ => (E, "bad-request data")
          else if ty != .other then (E, "bad-request element class for this width")
          else
            match parseList b ds, parseList b rs with
            | some dv, some rv => (E, outMem (transpose_matrix_other E wv hv (Slice.ofArray dv) (Slice.ofArray rv)))
            | _, _ => (E, "bad-request data")
        | _, _ => (E, "bad-request slices")
    | _, _, _ => (E, "bad-request xpose arguments")
  | _ => (E, "bad-request")

partial def loop (h : IO.FS.Stream) (out : IO.FS.Stream) (E : Env) : IO Unit := do
  let line ← h.getLine
  if line.isEmpty then return ()
  let (E', ans) := handle E line
  out.putStrLn ans
  loop h out E'

end Cfavml.Driver

def main : IO Unit := do
  let stdin ← IO.getStdin
  let stdout ← IO.getStdout
  Cfavml.Driver.loop stdin stdout (Cfavml.Driver.mkEnv false false false true)
