/-
Driver only: an exact IEEE-754 fused multiply-add on bit patterns (round to nearest, ties to even), computed with
unbounded integers. Lean's `Float` has no fused operation, and `a * b + c` rounds twice; the register-level and
kernel-level correspondence compare fused kernels with the CPU bit for bit, so the driver needs the real thing.
Validated against the host's `vfmadd` by the register-level correspondence itself.
-/
namespace Cfavml.Driver.Soft

structure Fmt where
  ebits : Nat
  mbits : Nat

def Fmt.bias (f : Fmt) : Int := (2 ^ (f.ebits - 1) : Nat) - 1
def Fmt.emax (f : Fmt) : Nat := 2 ^ f.ebits - 1

inductive Val where
  | nan
  | inf (neg : Bool)
  /-- `(-1)^neg * m * 2^e` (m may be 0) -/
  | fin (neg : Bool) (m : Nat) (e : Int)

def decode (f : Fmt) (bits : Nat) : Val :=
  let neg := (bits >>> (f.ebits + f.mbits)) % 2 == 1
  let e := (bits >>> f.mbits) % 2 ^ f.ebits
  let frac := bits % 2 ^ f.mbits
  if e == f.emax then (if frac == 0 then .inf neg else .nan)
  else if e == 0 then .fin neg frac (1 - f.bias - f.mbits)
  else .fin neg (frac + 2 ^ f.mbits) ((e : Int) - f.bias - f.mbits)

def signBit (f : Fmt) (neg : Bool) : Nat := if neg then 2 ^ (f.ebits + f.mbits) else 0
def infBits (f : Fmt) (neg : Bool) : Nat := signBit f neg + f.emax * 2 ^ f.mbits
def nanBits (f : Fmt) : Nat := f.emax * 2 ^ f.mbits + 2 ^ (f.mbits - 1)

/-- round `m * 2^e` (m > 0) to the format, nearest-even -/
def encodePos (f : Fmt) (neg : Bool) (m : Nat) (e : Int) : Nat :=
  let len := Nat.log2 m + 1
  let E : Int := e + len - 1                       -- exponent of the leading bit
  let emin : Int := 1 - f.bias
  let q : Int := (if E < emin then emin else E) - f.mbits   -- exponent of the last kept bit
  let s : Int := q - e
  let mant : Nat :=
    if s ≤ 0 then m <<< (-s).toNat
    else
      let sh := s.toNat
      let hi := m >>> sh
      let rem := m % 2 ^ sh
      let half := 2 ^ (sh - 1)
      if rem > half || (rem == half && hi % 2 == 1) then hi + 1 else hi
  -- renormalise after a carry out of the rounding
  let (mant, q) := if mant == 2 ^ (f.mbits + 1) then (2 ^ f.mbits, q + 1) else (mant, q)
  if mant < 2 ^ f.mbits then signBit f neg + mant            -- subnormal or zero
  else
    let biased : Int := q + f.mbits + f.bias
    if biased ≥ f.emax then infBits f neg
    else signBit f neg + biased.toNat * 2 ^ f.mbits + (mant - 2 ^ f.mbits)

/-- `a * b + c`, rounded once -/
def fma (f : Fmt) (a b c : Nat) : Nat :=
  match decode f a, decode f b, decode f c with
  | .nan, _, _ | _, .nan, _ | _, _, .nan => nanBits f
  | .inf na, .fin nb mb _, vc | .fin nb mb _, .inf na, vc =>
    if mb == 0 then nanBits f else
    let np := na != nb
    (match vc with
     | .inf nc => if nc == np then infBits f np else nanBits f
     | _ => infBits f np)
  | .inf na, .inf nb, vc =>
    let np := na != nb
    (match vc with
     | .inf nc => if nc == np then infBits f np else nanBits f
     | _ => infBits f np)
  | .fin _ _ _, .fin _ _ _, .inf nc => infBits f nc
  | .fin na ma ea, .fin nb mb eb, .fin nc mc ec =>
    let np := na != nb
    let mp := ma * mb
    let ep := ea + eb
    if mp == 0 && mc == 0 then signBit f (np && nc)          -- (+0) + (−0) = +0 under round-to-nearest
    else if mp == 0 then encodePos f nc mc ec
    else if mc == 0 then encodePos f np mp ep
    else
      let e := if ep < ec then ep else ec
      let xp : Int := (mp <<< (ep - e).toNat : Nat)
      let xc : Int := (mc <<< (ec - e).toNat : Nat)
      let sum : Int := (if np then -xp else xp) + (if nc then -xc else xc)
      if sum == 0 then 0                                    -- exact cancellation: +0
      else encodePos f (sum < 0) sum.natAbs e

def fma32 (a b c : BitVec 32) : BitVec 32 := BitVec.ofNat 32 (fma ⟨8, 23⟩ a.toNat b.toNat c.toNat)
def fma64 (a b c : BitVec 64) : BitVec 64 := BitVec.ofNat 64 (fma ⟨11, 52⟩ a.toNat b.toNat c.toNat)

end Cfavml.Driver.Soft
