#!/usr/bin/env python3
"""Writes CfavmlModel/Thm/C13Neon.lean: the lane-wise contracts for `impl SimdRegister<T> for Neon` (10 element types).
Every theorem is an application of a generic lemma (Lemmas/X86Backend.lean, X86Hard.lean — they speak about `BitVec`
registers and `xlanes`, not about x86) whose side conditions are `rfl` against the *generated* Gen/ImplNeon.lean or
`decide` on the geometry. Run by hand when impl_neon.rs changes shape; output committed."""
import sys
types = [("f32",32,"f"),("f64",64,"f"),("i8",8,"s"),("i16",16,"s"),("i32",32,"s"),("i64",64,"s"),
         ("u8",8,"u"),("u16",16,"u"),("u32",32,"u"),("u64",64,"u")]
out=[]; P=out.append
P('''/-
C13 (NEON backend) — GENERATED TEXT (lean/tools/gen_c13neon.py), hand-designed proofs.
`impl SimdRegister<T> for Neon` (cfavml/src/danger/impl_neon.rs, regenerated into Gen/ImplNeon.lean on every run) meets
the same contracts as the x86 backends: memory, broadcast, lane-wise add/sub/mul/div/max/min (the 64-bit integer
mul/max/min and every integer div are unpack / scalar loop / pack), fmadd (fused for floats, mul-then-add for integers),
zeroed accumulators, the default roll-ups and the horizontal folds (`vaddvq`/`vmaxvq`/`vminvq`; two-lane scalar folds for
64-bit integers). The NEON intrinsic semantics (Prim/Neon.lean) are trusted and — unlike the x86 ones — not validated
against hardware in this sandbox.
-/
import CfavmlModel.Lemmas.X86Backend
import CfavmlModel.Lemmas.X86Hard
import CfavmlModel.Lemmas.ReduceKernelsModel
import CfavmlModel.Lemmas.FoldTree
import CfavmlModel.Gen.ImplNeon
import CfavmlModel.Spec.Backend
import CfavmlModel.Thm.C18

namespace Cfavml.Thm.C13Neon
open Cfavml.Thm KernelModel

/-- zeroed accumulators of a backend whose `zeroed` is `filled zero` -/
theorem zeroed_dense_of_filled {T Reg : Type} {E : Env} {R : SimdRegister T Reg} {L : Nat} {lanes : Reg → Nat → T}
    (hL : 0 < L) (z : T) (BF : BroadcastFaithful R L lanes) (hz : R.zeroed = (do let t ← R.filled z; pure t))
    (hd : R.zeroed_dense = SimdRegisterDefault.zeroed_dense (T := T) E R.zeroed) :
    ∃ d, R.zeroed_dense = pure d ∧ ∀ k, k < L * 8 → dlanes L lanes d k = z := by
  obtain ⟨r, e, h⟩ := BF.filled_ok z
  refine ⟨DenseLane.copy r, by rw [hd]; unfold SimdRegisterDefault.zeroed_dense; rw [hz, e]; rfl, ?_⟩
  intro k hk
  rw [dlanes_copy hL _ k hk]
  exact h _ (Nat.mod_lt _ hL)

/-- the pairwise float folds as fold trees -/
def tN4 : FTree := .node (.node (.leaf 0) (.leaf 1)) (.node (.leaf 2) (.leaf 3))
def tN2 : FTree := .node (.leaf 0) (.leaf 1)
theorem pair4_eq {α : Type} (op : α → α → α) (f : Nat → α) : Neon.pair4 op f = tN4.eval op f := rfl
theorem pair2_eq {α : Type} (op : α → α → α) (f : Nat → α) : Neon.pair2 op f = tN2.eval op f := rfl
theorem tN4_perm : tN4.leaves.Perm (List.range 4) := by decide
theorem tN2_perm : tN2.leaves.Perm (List.range 2) := by decide
''')
for ty,w,k in types:
    L=128//w
    T=ty.upper()
    inst=f"(Neon_{ty}.inst E)"
    isf = k=="f"
    spec = f"(f{w}Spec E false)" if isf else (f"(sintSpec {w})" if k=="s" else f"(uintSpec {w})")
    P(f"namespace Neon_{ty}")
    P(f"theorem core (E : Env) : CoreFaithful {inst} {L} (xlanes {w}) :=")
    P(f"  core_of_x86 (by decide) (by decide) (by decide) (by decide) _ rfl (fun _ _ => rfl) (fun _ _ _ => rfl)")
    P(f"theorem usesDefaults (E : Env) : UsesDefaultMem E {inst} := ⟨rfl, rfl, rfl⟩")
    P(f"theorem mem (E : Env) : MemFaithful {inst} {L} (xlanes {w}) := memFaithful_of_defaults (core E) (usesDefaults E)")
    P(f"theorem bcast (E : Env) : BroadcastFaithful {inst} {L} (xlanes {w}) :=")
    P(f"  bcast_of_x86 (E := E) (by decide) (by decide) (by decide) _ (fun _ => rfl) rfl")
    if isf:
        direct = ["add","sub","mul","div","max","min"]
    elif w == 64:
        direct = ["add","sub"]
    else:
        direct = ["add","sub","mul","max","min"]
    def fn(op):
        if isf and op in ("max","min"): return f"(Neon.f{op}{w} E)"
        if op in ("max","min"): return f"{spec}.cmp{op.capitalize()}"
        return f"{spec}.{op}"
    for op in direct:
        P(f"theorem {op} (E : Env) : Lanewise2 {L} (xlanes {w}) {fn(op)} (fun _ => True) {inst}.{op} {inst}.{op}_dense :=")
        P(f"  lanewise2_of_map2 (by decide) (by decide) (by decide) _ _ (fun _ _ => rfl) _ rfl")
    if not isf:
        if w == 64:
            P(f"/-- 64-bit multiply: the scalar `AutoMath::mul` (wrapping) in both lanes -/")
            P(f"theorem mul (E : Env) : Lanewise2 {L} (xlanes {w}) {spec}.mul (fun _ => True) {inst}.mul {inst}.mul_dense :=")
            P(f"  lanewise2_of_opLoop (by decide) (by decide) (by decide) ({T}.lit 0) (AutoMath_{ty} E).mul _ (fun _ => True)")
            P(f"    (fun x y _ => (C18.auto_{ty} E).mul x y) _ (fun _ _ => rfl) _ rfl")
            for op in ("max","min"):
                P(f"/-- 64-bit {op}: `core::cmp::{op}` in both lanes -/")
                P(f"theorem {op} (E : Env) : Lanewise2 {L} (xlanes {w}) {fn(op)} (fun _ => True) {inst}.{op} {inst}.{op}_dense :=")
                P(f"  lanewise2_of_opLoop (by decide) (by decide) (by decide) ({T}.lit 0) (fun x y => pure ({T}.{op} E x y)) _ (fun _ => True)")
                P(f"    (fun _ _ _ => rfl) _ (fun _ _ => rfl) _ rfl")
        P(f"/-- integer division: `AutoMath::div` (the wrapping division) in every lane, for divisors it does not panic on -/")
        P(f"theorem div (E : Env) : Lanewise2 {L} (xlanes {w}) {spec}.div (fun y => {spec}.divOk y = true) {inst}.div {inst}.div_dense :=")
        P(f"  lanewise2_of_opLoop (by decide) (by decide) (by decide) ({T}.lit 0) (AutoMath_{ty} E).div _ (fun y => {spec}.divOk y = true)")
        P(f"    (fun x y h => (C18.auto_{ty} E).div_ok x y h) _ (fun _ _ => rfl) _ rfl")
    # fmadd
    if isf:
        P(f"/-- `vfmaq(acc, l1, l2)`: the fused `fma l1 l2 acc` in every lane -/")
        P(f"theorem fmadd (E : Env) : Lanewise3 {L} (xlanes {w}) E.F.fma{w} {inst}.fmadd {inst}.fmadd_dense := by")
        P(f"  have hD : {inst}.fmadd_dense = applyDense3 {inst}.fmadd := rfl")
        P(f"  rw [hD]")
        P(f"  exact lanewise3_of_applyDense (by decide) (fun x y z => ⟨_, rfl, fun k hk => xlanes_map3 (by decide) (by decide) _ z x y k hk⟩)")
    else:
        P(f"theorem fmadd (E : Env) : Lanewise3 {L} (xlanes {w}) (fun x y acc => {spec}.add ({spec}.mul x y) acc) {inst}.fmadd {inst}.fmadd_dense :=")
        P(f"  lanewise3_of_mul_add (mul E) (add E) (fun _ _ _ => rfl) (fun _ _ _ => rfl)")
    # zeroed
    zero = f"{spec}.zero"
    P(f"theorem zeroed_dense_ok (E : Env) : ∃ d, {inst}.zeroed_dense = pure d ∧ ∀ k, k < {L} * 8 → dlanes {L} (xlanes {w}) d k = {zero} :=")
    P(f"  zeroed_dense_of_filled (E := E) (by decide) _ (bcast E) rfl rfl")
    # folds
    if isf:
        tree = "tN4" if L==4 else "tN2"
        pr = "pair4" if L==4 else "pair2"
        P(f"theorem sum_to_value (E : Env) (r : BitVec 128) : {inst}.sum_to_value r = pure ({tree}.eval E.F.add{w} (xlanes {w} r)) := rfl")
        P(f"theorem sumFold (E : Env) : FoldFaithful {L} (xlanes {w}) {spec}.add (fun f => {tree}.eval E.F.add{w} f) {inst}.sum_to_register {inst}.sum_to_value :=")
        P(f"  foldFaithful_of (add E) _ _ _ rfl (sum_to_value E)")
        for op in ("max","min"):
            P(f"theorem {op}_to_value (E : Env) (r : BitVec 128) : {inst}.{op}_to_value r = pure ({tree}.eval (Neon.f{op}{w} E) (xlanes {w} r)) := rfl")
            P(f"theorem {op}Fold (E : Env) : FoldFaithful {L} (xlanes {w}) (Neon.f{op}{w} E) (fun f => {tree}.eval (Neon.f{op}{w} E) f) {inst}.{op}_to_register {inst}.{op}_to_value :=")
            P(f"  foldFaithful_of ({op} E) _ _ _ rfl ({op}_to_value E)")
        fm = f"E.F.fma{w}"
        P(f"/-- the sum-like kernels' contract (C04 / C06 on NEON floats) -/")
        P(f"theorem sumBackend (E : Env) : SumBackend {inst} {L} (xlanes {w}) {spec} {fm} (fun f => {tree}.eval E.F.add{w} f) :=")
        P(f"  ⟨mem E, zeroed_dense_ok E, add E, sub E, fmadd E, sumFold E⟩")
        for op in ("max","min"):
            P(f"theorem ext_{op} (E : Env) : ExtBackend {inst} {L} (xlanes {w}) (Neon.f{op}{w} E) (fun f => {tree}.eval (Neon.f{op}{w} E) f)")
            P(f"    {inst}.{op} {inst}.{op}_dense {inst}.{op}_to_register {inst}.{op}_to_value :=")
            P(f"  ⟨mem E, bcast E, {op} E, {op}Fold E⟩")
    else:
        mx = "IntPrim.smax" if k=="s" else "IntPrim.umax"
        mn = "IntPrim.smin" if k=="s" else "IntPrim.umin"
        e_mx = f"(BitVec.intMin {w})" if k=="s" else f"(0 : BitVec {w})"
        e_mn = f"(BitVec.intMax {w})" if k=="s" else f"(BitVec.allOnes {w})"
        mon_mx = f"(smax_monoid (by decide : 0 < {w}))" if k=="s" else f"(umax_monoid {w})"
        mon_mn = f"(smin_monoid (by decide : 0 < {w}))" if k=="s" else f"(umin_monoid {w})"
        hs = f"(X86.reduceOrdered (· + ·) (0 : BitVec {w}) {L})"
        P(f"theorem sum_to_value (E : Env) (r : BitVec 128) : {inst}.sum_to_value r = pure ({hs} (xlanes {w} r)) := rfl")
        P(f"theorem hsum_eq (f : Nat → BitVec {w}) : {hs} f = sumR {spec}.add {spec}.zero f {L} := reduceOrdered_eq_sumR (0 : BitVec {w}) {L} f")
        P(f"theorem sumFold (E : Env) : FoldFaithful {L} (xlanes {w}) {spec}.add {hs} {inst}.sum_to_register {inst}.sum_to_value :=")
        P(f"  foldFaithful_of (add E) _ _ _ rfl (sum_to_value E)")
        if w != 64:
            hmx = f"(X86.reduceOrdered {mx} {e_mx} {L})"; hmn = f"(X86.reduceOrdered {mn} {e_mn} {L})"
            P(f"theorem max_to_value (E : Env) (r : BitVec 128) : {inst}.max_to_value r = pure ({hmx} (xlanes {w} r)) := rfl")
            P(f"theorem hmax_eq (f : Nat → BitVec {w}) : {hmx} f = sumR {spec}.cmpMax {spec}.minVal f {L} := reduceOrdered_eq_sumR {e_mx} {L} f")
            P(f"theorem min_to_value (E : Env) (r : BitVec 128) : {inst}.min_to_value r = pure ({hmn} (xlanes {w} r)) := rfl")
            P(f"theorem hmin_eq (f : Nat → BitVec {w}) : {hmn} f = sumR {spec}.cmpMin {spec}.maxVal f {L} := reduceOrdered_eq_sumR {e_mn} {L} f")
        else:
            hmx = f"(fun f : Nat → BitVec {w} => {mx} (f 0) (f 1))"; hmn = f"(fun f : Nat → BitVec {w} => {mn} (f 0) (f 1))"
            P(f"theorem max_to_value (E : Env) (r : BitVec 128) : {inst}.max_to_value r = pure ({hmx} (xlanes {w} r)) := by")
            P(f"  show Cfavml.Neon_{ty}.max_to_value E r = _")
            P(f"  unfold Cfavml.Neon_{ty}.max_to_value")
            P(f"  simp (config := {{decide := true}}) [unpackLanes, xlanes]")
            P(f"theorem hmax_eq (f : Nat → BitVec {w}) : {hmx} f = sumR {spec}.cmpMax {spec}.minVal f {L} := by")
            P(f"  show _ = {mx} ({mx} {e_mx} (f 0)) (f 1)")
            P(f"  rw [{mon_mx}.id_left]")
            P(f"theorem min_to_value (E : Env) (r : BitVec 128) : {inst}.min_to_value r = pure ({hmn} (xlanes {w} r)) := by")
            P(f"  show Cfavml.Neon_{ty}.min_to_value E r = _")
            P(f"  unfold Cfavml.Neon_{ty}.min_to_value")
            P(f"  simp (config := {{decide := true}}) [unpackLanes, xlanes]")
            P(f"theorem hmin_eq (f : Nat → BitVec {w}) : {hmn} f = sumR {spec}.cmpMin {spec}.maxVal f {L} := by")
            P(f"  show _ = {mn} ({mn} {e_mn} (f 0)) (f 1)")
            P(f"  rw [{mon_mn}.id_left]")
        P(f"theorem maxFold (E : Env) : FoldFaithful {L} (xlanes {w}) {spec}.cmpMax {hmx} {inst}.max_to_register {inst}.max_to_value :=")
        P(f"  foldFaithful_of (max E) _ _ _ rfl (max_to_value E)")
        P(f"theorem minFold (E : Env) : FoldFaithful {L} (xlanes {w}) {spec}.cmpMin {hmn} {inst}.min_to_register {inst}.min_to_value :=")
        P(f"  foldFaithful_of (min E) _ _ _ rfl (min_to_value E)")
        P(f"/-- **C13 on `Neon` × `{ty}`**: the complete lane-wise contract -/")
        P(f"theorem arith (E : Env) : ArithFaithful {inst} {L} (xlanes {w}) {spec} :=")
        P(f"  ⟨mem E, bcast E, add E, sub E, mul E, div E, max E, min E⟩")
        P(f"theorem reduce (E : Env) : ReduceFaithful {inst} {L} (xlanes {w}) {spec}")
        P(f"    (fun x y acc => {spec}.add ({spec}.mul x y) acc) {hs} {hmx} {hmn} :=")
        P(f"  ⟨zeroed_dense_ok E, fmadd E, sumFold E, maxFold E, minFold E⟩")
        P(f"theorem hsum_is_sum (f : Nat → BitVec {w}) : {hs} f = sumR {spec}.add {spec}.zero f {L} := hsum_eq f")
        P(f"theorem hmax_is_max (f : Nat → BitVec {w}) : {hmx} f = sumR {spec}.cmpMax {spec}.minVal f {L} := hmax_eq f")
        P(f"theorem hmin_is_min (f : Nat → BitVec {w}) : {hmn} f = sumR {spec}.cmpMin {spec}.maxVal f {L} := hmin_eq f")
    P(f"end Neon_{ty}\n")
P("end Cfavml.Thm.C13Neon")
open(sys.argv[1],"w").write("\n".join(out)+"\n")
