#!/usr/bin/env python3
"""Writes Thm/NeonInt.lean and Thm/NeonIntMap.lean from the Avx512_i32 / Avx512_u32 blocks of Thm/X86Int.lean and
Thm/X86IntMap.lean by renaming (same theorems, NEON contracts from Thm/C13Neon.lean). Output committed."""
import re, sys, os
here = os.path.join(os.path.dirname(__file__), "..", "CfavmlModel", "Thm")
def block(text, ns):
    i = text.index(f"namespace {ns}\n"); j = text.index(f"end {ns}\n") + len(f"end {ns}\n")
    return text[i:j]
def conv(b, src_ty, w, ty):
    sw = 32
    T, ST = ty.upper(), src_ty.upper()
    b = b.replace(f"C13Full.Avx512_{src_ty}", f"C13Neon.Neon_{ty}")
    b = b.replace(f"Avx512_{src_ty}", f"Neon_{ty}")
    b = b.replace(f"AutoMath_{src_ty}", f"AutoMath_{ty}").replace(f"auto_{src_ty}", f"auto_{ty}")
    b = re.sub(rf"\b{ST}\b", T, b)
    b = re.sub(rf"\b{sw}\b", str(w), b)
    b = b.replace(f"`{src_ty}_xany_avx512_nofma_dot`", f"`{ty}_xany_neon_nofma_dot`")
    return b
hdr_int = '''/-
GENERATED TEXT (lean/tools/gen_neonint.py): the reduction kernels on the NEON integer backends with no remaining hypothesis
about the backend (contracts: Thm/C13Neon.lean) — exact integer sums modulo 2^w (C03), true extremes (C05), the integer
cosine formula (C06), and bit-identical results with the Fallback backend. NEON intrinsic semantics: Prim/Neon.lean (trusted,
not validated on hardware here).
-/
import CfavmlModel.Thm.C13Neon
import CfavmlModel.Thm.C13Full

namespace Cfavml.Thm.NeonInt
open Cfavml.Thm

'''
hdr_map = '''/-
GENERATED TEXT (lean/tools/gen_neonint.py): element-wise add/sub/mul/div and vertical / by-value max/min on the NEON integer
backends, exact for every input and length (contracts: Thm/C13Neon.lean).
-/
import CfavmlModel.Thm.C13Neon
import CfavmlModel.Thm.C13Full

namespace Cfavml.Thm.NeonIntMap
open Cfavml.Thm

'''
x86int = open(os.path.join(here, "X86Int.lean")).read()
x86map = open(os.path.join(here, "X86IntMap.lean")).read()
tys = [("i8",8,"i32"),("i16",16,"i32"),("i32",32,"i32"),("i64",64,"i32"),("u8",8,"u32"),("u16",16,"u32"),("u32",32,"u32"),("u64",64,"u32")]
o1, o2 = hdr_int, hdr_map
for ty, w, src in tys:
    o1 += conv(block(x86int, f"Avx512_{src}"), src, w, ty) + "\n"
    o2 += conv(block(x86map, f"Avx512_{src}"), src, w, ty) + "\n"
for ty, w, src in tys:
    T = ty.upper(); signed = ty[0] == "i"
    isint = f"(C03.sint_isInt {w})" if signed else f"(C03.uint_isInt {w})"
    o1 += f'''/-- **backend independence ({ty} dot product)**: NEON and Fallback return the same bits for every input -/
theorem {ty}_dot_neon_agrees (E : Env) (a b : Slice {T}) (hb : b.size = a.size) (hfuel : a.size < E.fuel) :
    generic_dot_product E (Neon_{ty}.inst E) (AutoMath_{ty} E) a.size a b
      = generic_dot_product E (Fallback.inst E (AutoMath_{ty} E) {w//8}) (AutoMath_{ty} E) a.size a b := by
  rw [Neon_{ty}.dot_exact E a b hb hfuel]
  exact (C03.dot_exact {isint} (C02.fallback_arith E _ _ {w//8} (by omega) (C18.auto_{ty} E))
    (C13Fallback.reduce E _ {w//8} (C18.auto_{ty} E)) (C18.auto_{ty} E)
    (C03.fallback_hsum (add_monoid {w})) a.size hfuel a b rfl hb).symm

'''
o1 += "end Cfavml.Thm.NeonInt\n"; o2 += "end Cfavml.Thm.NeonIntMap\n"
open(os.path.join(here, "NeonInt.lean"), "w").write(o1)
open(os.path.join(here, "NeonIntMap.lean"), "w").write(o2)
