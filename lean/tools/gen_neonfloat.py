#!/usr/bin/env python3
"""Writes Thm/NeonFloat.lean: C02 / C04 / C05 / C06 for the NEON float backends (f32: 4 lanes, f64: 2 lanes; fused
multiply-add, pairwise horizontal folds). Proof text only; contracts from Thm/C13Neon.lean. Output committed."""
import os
OUT = os.path.join(os.path.dirname(__file__), "..", "CfavmlModel", "Thm", "NeonFloat.lean")
o = '''/-
GENERATED TEXT (lean/tools/gen_neonfloat.py). The float kernels on the NEON backend (contracts: Thm/C13Neon.lean; NEON intrinsic
semantics: Prim/Neon.lean, trusted and not validated on hardware in this sandbox):
* C04: dot / sum within `γ(n+3)·Σ|terms|` (fused multiply-add, pairwise `faddp` fold);
* C06: cosine within `4(n+8)u`;
* C05: horizontal / vertical / by-value max and min return the true extreme on NaN-free data (FMAX/FMIN lanes: the larger /
  smaller operand, sign bits and-ed / or-ed on ties);
* C02: element-wise add / sub / mul / div (IEEE operation in the registers, `AutoMath`'s in the tail).
-/
import CfavmlModel.Thm.C13Neon
import CfavmlModel.Thm.X86FloatExt
import CfavmlModel.Thm.X86FloatCosine
import CfavmlModel.Thm.X86FloatMap

namespace Cfavml.Thm.NeonFloat
open Cfavml.Thm KernelModel FloatReduce Rounding ExtremeSem C05Float C02Float C06

theorem tN4_local {A : Type} (op : A → A → A) : FoldLocal 4 (fun f => C13Neon.tN4.eval op f) := fun f g h =>
  FTree.eval_congr _ f g _ (fun k hk => h k (by have := (C13Neon.tN4_perm.mem_iff).mp hk; simpa using this))
theorem tN2_local {A : Type} (op : A → A → A) : FoldLocal 2 (fun f => C13Neon.tN2.eval op f) := fun f g h =>
  FTree.eval_congr _ f g _ (fun k hk => h k (by have := (C13Neon.tN2_perm.mem_iff).mp hk; simpa using this))

'''
for ty, T, w, L, hd, tree in (("f32","F32",32,4,2,"tN4"),("f64","F64",64,2,1,"tN2")):
    ns = f"Neon_{ty}"; spec = f"({ty}Spec E false)"; fm = f"E.F.fma{w}"; perm = f"C13Neon.{tree}_perm"; loc = f"{tree}_local"
    SB = f"(C13Neon.{ns}.sumBackend E)"
    o += f'''/-! ## `Neon` × `{ty}` -/

/-- **C04 on `{ns}`** -/
theorem {ns}_bounds (E : Env) (hn : E.feat_nightly = false) (F : FloatSem {spec} {fm})
    (a b : Slice {T}) (hb : b.size = a.size) (hfuel : a.size < E.fuel) (hk : ((a.size + 3 : ℕ) : ℝ) * F.u < 1)
    (hnu : ∀ i, F.NoUf (a.get i) (b.get i)) :
    (∃ v, generic_dot_product E ({ns}.inst E) (AutoMath_{ty} E) a.size a b = pure v ∧
      (F.Fin v → |F.val v - ((List.range a.size).map (fun i => F.val (a.get i) * F.val (b.get i))).sum|
        ≤ gamma F.u (a.size + 3) * ((List.range a.size).map (fun i => |F.val (a.get i) * F.val (b.get i)|)).sum))
    ∧ (∃ v, generic_sum E ({ns}.inst E) (AutoMath_{ty} E) a.size a = pure v ∧
      (F.Fin v → |F.val v - ((List.range a.size).map (fun i => F.val (a.get i))).sum|
        ≤ gamma F.u (a.size + 3) * ((List.range a.size).map (fun i => |F.val (a.get i)|)).sum)) := by
  have SM : SumMath (AutoMath_{ty} E) {spec} := by
    have := C18.auto_{ty} E
    rw [hn] at this
    exact SumMath.of this
  have HF := ftree_sem F C13Neon.{tree} {L} {hd} {perm} (by decide)
  exact ⟨C04.dot_product_bound {SB} SM F HF ({loc} _) (by decide) (by decide) a.size hfuel hk a b rfl hb hnu,
    C04.sum_bound' {SB} SM F HF ({loc} _) (by decide) (by decide) a.size hfuel hk a rfl⟩

/-- **C06 accuracy on `{ns}`** -/
theorem {ns}_cosine_accuracy (E : Env) (hn : E.feat_nightly = false) (hstd : E.feat_std = true)
    (F : FloatSem {spec} {fm})
    (a b : Slice {T}) (hb : b.size = a.size) (hfuel : a.size < E.fuel) (hx : ((a.size : ℝ) + 8) * F.u ≤ 1 / 16)
    (hnu : ∀ i, F.NoUf (a.get i) (b.get i)) (hnua : ∀ i, F.NoUf (a.get i) (a.get i)) (hnub : ∀ i, F.NoUf (b.get i) (b.get i))
    (heq0 : ∀ x, F.Fin x → ({spec}.eq x {spec}.zero = true ↔ F.val x = 0))
    (hNx0 : 0 < ((List.range a.size).map (fun i => F.val (a.get i) * F.val (a.get i))).sum)
    (hNy0 : 0 < ((List.range a.size).map (fun i => F.val (b.get i) * F.val (b.get i))).sum)
    (dotv nav nbv : {T})
    (kdot : generic_dot_product E ({ns}.inst E) (AutoMath_{ty} E) a.size a b = pure dotv)
    (kna : generic_squared_norm E ({ns}.inst E) (AutoMath_{ty} E) a.size a = pure nav)
    (knb : generic_squared_norm E ({ns}.inst E) (AutoMath_{ty} E) a.size b = pure nbv)
    (hfin : F.Fin dotv ∧ F.Fin nav ∧ F.Fin nbv) (FO : FinalOps F ({T}.sqrt E) dotv nav nbv) :
    ∃ v, generic_cosine E ({ns}.inst E) (AutoMath_{ty} E) a.size a b = pure v
      ∧ |F.val v - (1 - ((List.range a.size).map (fun i => F.val (a.get i) * F.val (b.get i))).sum
            / Real.sqrt (((List.range a.size).map (fun i => F.val (a.get i) * F.val (a.get i))).sum
                * ((List.range a.size).map (fun i => F.val (b.get i) * F.val (b.get i))).sum))|
          ≤ 4 * ((a.size : ℝ) + 8) * F.u := by
  have MFa : MathFaithful (AutoMath_{ty} E) {spec} := by
    have := C18.auto_{ty} E
    rw [hn] at this
    exact this
  have hsqrt : ∀ x, (AutoMath_{ty} E).sqrt x = pure ({T}.sqrt E x) := by
    intro x
    simp [AutoMath_{ty}, hn, StdMath_{ty}, StdMath_{ty}.sqrt, hstd]
  have HF := ftree_sem F C13Neon.{tree} {L} {hd} {perm} (by decide)
  exact cosine_accuracy_kernels {SB} MFa F HF ({loc} _) (by decide) (by decide) _ hsqrt a b hb hfuel hx
    hnu hnua hnub heq0 hNx0 hNy0 dotv nav nbv kdot kna knb hfin FO

'''
    for op, bot, seed, ordcls, IsOn, cmp3, mm, fis, tie in (
        ("max","⊥","NEG_INFINITY","OrderBot","IsMaxOn","cmp3_isMax","max","Max","&&&"),
        ("min","⊤","INFINITY","OrderTop","IsMinOn","cmp3_isMin","min","Min","|||")):
        dual = op == "min"
        Vd = "(V := Vᵒᵈ) " if dual else ""
        valx = "(fun x => OrderDual.toDual (val x))" if dual else "val"
        hvx = "hv.dual" if dual else "hv"
        thm = "ext_true_min" if dual else "ext_true_extreme"
        seedfield = "min" if op == "max" else "max"
        lt1 = "E.F.lt%d y x" % w if op == "max" else "E.F.lt%d x y" % w
        o += f'''/-- NEON F{op.upper()} on numbers is a {op} (given: numbers are not NaN, `lt` reflects the order, ties keep the value) -/
theorem {ns}_f{op}_is{fis} (E : Env) {{V : Type}} [LinearOrder V] (Num : {T} → Prop) (val : {T} → V)
    (hnan : ∀ x, Num x → Neon.isNaN{w} x = false)
    (hlt : ∀ x y, Num x → Num y → (E.F.lt{w} x y = true ↔ val x < val y))
    (htie : ∀ x y, Num x → Num y → val x = val y → Num (x {tie} y) ∧ val (x {tie} y) = val x) :
    {IsOn} Num val (Neon.f{op}{w} E) := by
  intro x y hx hy
  have := {cmp3} Num val E.F.lt{w} (fun x y => x {tie} y) hlt htie x y hx hy
  unfold Neon.f{op}{w}
  simpa [hnan x hx, hnan y hy] using this

/-- **C05 on `{ns}`, horizontal {op}** -/
theorem {ns}_{op}_horizontal_true (E : Env) {{V : Type}} [LinearOrder V] [{ordcls} V] (Num : {T} → Prop) (val : {T} → V)
    (hv : {IsOn} Num val (Neon.f{op}{w} E)) (hr : {IsOn} Num val E.F.r{op}{w})
    (he : Num {T}.{seed} ∧ val {T}.{seed} = {bot})
    (a : Slice {T}) (hfuel : a.size < E.fuel) (hnum : ∀ i, i < a.size → Num (a.get i)) :
    ∃ v, generic_{op}_horizontal E ({ns}.inst E) (AutoMath_{ty} E) a.size a = pure v ∧ Num v
      ∧ val v = sumR {mm} {bot} (fun i => val (a.get i)) a.size := by
  have MFa := C18.auto_{ty} E
  have hf : FoldIs{fis} Num val {L} (fun f => C13Neon.{tree}.eval (Neon.f{op}{w} E) f) :=
    ftree_foldIsMax {Vd}Num {valx} _ {hvx} C13Neon.{tree} {L} {perm}
  have key := {op}_horizontal' (E := E) (e := {T}.{seed}) (top := E.F.r{op}{w}) a.size hfuel (C13Neon.{ns}.ext_{op} E) MFa.{seedfield} MFa.cmp_{op} ({loc} _) a rfl
  obtain ⟨h1, h2⟩ := {thm} E Num val _ _ _ _ {L} a.size (by decide) (by decide) he hv hr hf a.get hnum
  exact ⟨_, key, h1, h2⟩

/-- **C05 on `{ns}`, vertical {op}** -/
theorem {ns}_{op}_vertical_true (E : Env) {{V : Type}} [LinearOrder V] (Num : {T} → Prop) (val : {T} → V)
    (hv : {IsOn} Num val (Neon.f{op}{w} E)) (hr : {IsOn} Num val E.F.r{op}{w})
    (a b result : Slice {T}) (hb : b.size = a.size) (hres : result.size = a.size) (hfuel : a.size < E.fuel) :
    MixedMap2 (fun j x => Num (a.get j) → Num (b.get j) → Num x ∧ val x = {mm} (val (a.get j)) (val (b.get j)))
      a.size result (generic_{op}_vertical E ({ns}.inst E) (AutoMath_{ty} E) a.size a b result) := by
  have MFa := C18.auto_{ty} E
  exact ({op}_vertical_mixed (top := E.F.r{op}{w}) (C13Neon.{ns}.mem E) a.size hfuel (C13Neon.{ns}.{op} E) MFa.cmp_{op} a b result rfl hb hres).mono
    (fun j x _ h ha hb' => by rw [h]; exact mixG_is{fis} Num val hv hr _ a b j ha hb')

/-- **C05 on `{ns}`, {op} against a scalar** -/
theorem {ns}_{op}_value_true (E : Env) {{V : Type}} [LinearOrder V] (Num : {T} → Prop) (val : {T} → V)
    (hv : {IsOn} Num val (Neon.f{op}{w} E)) (hr : {IsOn} Num val E.F.r{op}{w})
    (value : {T}) (a result : Slice {T}) (hres : result.size = a.size) (hfuel : a.size < E.fuel) :
    MixedMap2 (fun j x => Num (a.get j) → Num value → Num x ∧ val x = {mm} (val (a.get j)) (val value))
      a.size result (generic_{op}_value E ({ns}.inst E) (AutoMath_{ty} E) a.size value a result) := by
  have MFa := C18.auto_{ty} E
  exact ({op}_value_mixed (top := E.F.r{op}{w}) (C13Neon.{ns}.mem E) a.size hfuel (C13Neon.{ns}.bcast E) (C13Neon.{ns}.{op} E) MFa.cmp_{op} value a result rfl hres).mono
    (fun j x _ h ha hb' => by rw [h]; exact mixGv_is{fis} Num val hv hr _ a value j ha hb')

'''
    for op in ("add","sub","mul","div"):
        hcmp = f"MFa.{op}" if op != "div" else "(fun x y => MFa.div_ok x y rfl)"
        o += f'''theorem {ns}_{op}_vector (E : Env) (a b result : Slice {T}) (hb : b.size = a.size) (hres : result.size = a.size)
    (hfuel : a.size < E.fuel) :
    MixedMap2 (fun j x => x = mixG (a.size - a.size % {L}) ({ty}Spec E false).{op} ({ty}Spec E E.feat_nightly).{op} a b j) a.size result
      (generic_{op}_vector E ({ns}.inst E) (AutoMath_{ty} E) a.size a b result) := by
  have MFa := C18.auto_{ty} E
  rw [Shapes.{op}_vector]
  exact vector_mixed (C13Neon.{ns}.mem E) a.size hfuel (C13Neon.{ns}.{op} E) {hcmp} a b result rfl hb hres

theorem {ns}_{op}_vector_exact (E : Env) (hn : E.feat_nightly = false) (a b result : Slice {T}) (hb : b.size = a.size)
    (hres : result.size = a.size) (hfuel : a.size < E.fuel) :
    C02.ExactMap2 ({ty}Spec E false).{op} a.size a b result (generic_{op}_vector E ({ns}.inst E) (AutoMath_{ty} E) a.size a b result) := by
  obtain ⟨r, e, h1, h2, h3⟩ := {ns}_{op}_vector E a b result hb hres hfuel
  refine ⟨r, e, h1, fun j hj => ?_, h3⟩
  rw [h2 j hj, hn]; exact mixG_same _ _ _ _ _

theorem {ns}_{op}_value (E : Env) (value : {T}) (a result : Slice {T}) (hres : result.size = a.size) (hfuel : a.size < E.fuel) :
    MixedMap2 (fun j x => x = mixGv (a.size - a.size % {L}) ({ty}Spec E false).{op} ({ty}Spec E E.feat_nightly).{op} a value j) a.size result
      (generic_{op}_value E ({ns}.inst E) (AutoMath_{ty} E) a.size value a result) := by
  have MFa := C18.auto_{ty} E
  rw [Shapes.{op}_value]
  exact value_mixed (C13Neon.{ns}.mem E) (C13Neon.{ns}.bcast E) a.size hfuel (C13Neon.{ns}.{op} E) {hcmp} value a result rfl hres

theorem {ns}_{op}_value_exact (E : Env) (hn : E.feat_nightly = false) (value : {T}) (a result : Slice {T})
    (hres : result.size = a.size) (hfuel : a.size < E.fuel) :
    C02.ExactMap1v ({ty}Spec E false).{op} a.size value a result (generic_{op}_value E ({ns}.inst E) (AutoMath_{ty} E) a.size value a result) := by
  obtain ⟨r, e, h1, h2, h3⟩ := {ns}_{op}_value E value a result hres hfuel
  refine ⟨r, e, h1, fun j hj => ?_, h3⟩
  rw [h2 j hj, hn]; exact mixGv_same _ _ _ _ _

'''
o += "end Cfavml.Thm.NeonFloat\n"
open(OUT, "w").write(o)
print("wrote", os.path.normpath(OUT))
