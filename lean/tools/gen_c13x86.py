#!/usr/bin/env python3
"""Writes CfavmlModel/Thm/C13X86.lean: the per-backend, per-type instances of the lane-wise contracts.
Every theorem is an application of a generic lemma of Lemmas/X86Backend.lean whose side conditions are `rfl`
against the *generated* impl (Gen/ImplAvx2.lean, Gen/ImplAvx512.lean) or `decide` on the geometry; the script
only spells out the 20 x ~12 statements. Run by hand when the set of backends/types changes; output committed."""
import sys
types = [("f32",32,True,False),("f64",64,True,False),("i8",8,False,True),("i16",16,False,True),("i32",32,False,True),("i64",64,False,True),
         ("u8",8,False,False),("u16",16,False,False),("u32",32,False,False),("u64",64,False,False)]
# ops that are one lane-wise intrinsic, per (reg, ty)
direct = {
 "Avx2": {"f32":"add sub mul div max min","f64":"add sub mul div max min","i8":"add sub max min","i16":"add sub mul max min","i32":"add sub mul max min",
          "i64":"add sub","u8":"add sub max min","u16":"add sub mul max min","u32":"add sub mul max min","u64":"add sub"},
 "Avx512": {"f32":"add sub mul div max min","f64":"add sub mul div max min","i8":"add sub max min","i16":"add sub mul max min","i32":"add sub mul max min",
          "i64":"add sub mul max min","u8":"add sub max min","u16":"add sub mul max min","u32":"add sub mul max min","u64":"add sub max min"},
}
out=[]
P=out.append
P('''/-
C13 (x86 backends) — GENERATED TEXT (lean/tools/gen_c13x86.py), hand-designed proofs: each statement is an
instance of a generic lemma of Lemmas/X86Backend.lean; its side conditions are `rfl` against the generated
impl methods (so a changed intrinsic, operand order or shape in impl_avx2.rs / impl_avx512.rs breaks it) and
`decide` on the register geometry.
Per backend × element type: `core`/`mem` (loads, stores, lane count, dense memory forms), `bcast`, and
`Lanewise2` for every operation that is a single lane-wise intrinsic, plus the integer `div` loop.
The composite operations (8-bit and AVX2 64-bit multiply, AVX2 64-bit max/min, horizontal folds) are in
Thm/C13X86Hard.lean as far as they are proved; the register-level correspondence run covers all of them on
the real CPU.
-/
import CfavmlModel.Lemmas.X86Backend
import CfavmlModel.Gen.ImplAvx2
import CfavmlModel.Gen.ImplAvx512
import CfavmlModel.Spec.Backend

namespace Cfavml.Thm.C13X86
''')
for reg,n in (("Avx2",256),("Avx512",512)):
    for ty,w,isf,signed in types:
        L=n//w
        inst=f"({reg}_{ty}.inst E)"
        spec = (f"(f{w}Spec E false)" if isf else (f"(sintSpec {w})" if signed else f"(uintSpec {w})"))
        P(f"namespace {reg}_{ty}")
        P(f"theorem core (E : Env) : CoreFaithful {inst} {L} (xlanes {w}) :=")
        P(f"  core_of_x86 (by decide) (by decide) (by decide) (by decide) _ rfl (fun _ _ => rfl) (fun _ _ _ => rfl)")
        P(f"theorem usesDefaults (E : Env) : UsesDefaultMem E {inst} := ⟨rfl, rfl, rfl⟩")
        P(f"/-- loads/stores move exactly the {L} lanes at the offset, fault exactly outside the slice; dense forms are eight of them -/")
        P(f"theorem mem (E : Env) : MemFaithful {inst} {L} (xlanes {w}) := memFaithful_of_defaults (core E) (usesDefaults E)")
        P(f"theorem bcast (E : Env) : BroadcastFaithful {inst} {L} (xlanes {w}) :=")
        P(f"  bcast_of_x86 (E := E) (by decide) (by decide) (by decide) _ (fun _ => rfl) rfl")
        for op in direct[reg][ty].split():
            if isf and op in ("max","min"):
                f=f"(X86.f{op}{w} E)"
            elif op in ("max","min"):
                f=f"{spec}.cmp{op.capitalize()}"
            else:
                f=f"{spec}.{op}"
            P(f"theorem {op} (E : Env) : Lanewise2 {L} (xlanes {w}) {f} (fun _ => True) {inst}.{op} {inst}.{op}_dense :=")
            P(f"  lanewise2_of_map2 (by decide) (by decide) (by decide) _ _ (fun _ _ => rfl) _ rfl")
        if not isf:
            dvname = f"{ty.upper()}.wrapping_div E"
            q = f"{spec}.div"
            P(f"/-- integer division: the scalar `wrapping_div` in every lane, for non-zero divisors -/")
            P(f"theorem div (E : Env) : Lanewise2 {L} (xlanes {w}) {q} (fun y => {spec}.divOk y = true) {inst}.div {inst}.div_dense :=")
            P(f"  lanewise2_of_divLoop (by decide) (by decide) (by decide) ({ty.upper()}.lit 0) ({dvname}) _ _")
            P(f"    (fun y h => by simpa [sintSpec, uintSpec] using h)")
            if signed:
                P(f"    (fun x y h => by show IntPrim.sdivW x y = _; unfold IntPrim.sdivW; rw [if_neg h]; rfl)")
            else:
                P(f"    (fun x y h => by show IntPrim.udivW x y = _; unfold IntPrim.udivW; rw [if_neg h]; rfl)")
            P(f"    _ (fun _ _ => rfl) _ rfl")
        P(f"end {reg}_{ty}\n")
P("end Cfavml.Thm.C13X86")
open(sys.argv[1],"w").write("\n".join(out)+"\n")
