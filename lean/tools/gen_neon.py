#!/usr/bin/env python3
"""Writes CfavmlModel/Prim/Neon.lean: semantics of the aarch64 NEON intrinsics cfavml's impl_neon.rs uses (Layer 0,
trusted, hand-specified from stdarch's definitions in the nightly rust-src and Arm's pseudo-code). The regular families
are spelled out mechanically; the schemas are those of Prim/X86.lean. Run by hand; output committed."""
import sys
out = []
P = out.append
P('''/-
Layer 0 (trusted): semantics of the aarch64 NEON intrinsics used by cfavml/src/danger/impl_neon.rs, over quad registers
as `BitVec 128`. Written from stdarch (nightly rust-src: `simd_add`/`simd_mul`/…, `simd_fma(b, c, a)` for `vfmaq`,
`simd_reduce_add_ordered(a, 0)` / `simd_reduce_max` / `simd_reduce_min` for the integer across-lane forms,
`read_unaligned` / `write_unaligned` for `vld1q` / `vst1q`) and Arm's pseudo-code for the floating-point FMAX / FMIN
(NaN-propagating; `max(+0, −0) = +0`) and the pairwise FADDP / FMAXV / FMINV reductions.
NOT validated against hardware: this sandbox is x86-64, so no correspondence run exists for this file (see DESIGN.md §3).
File produced by lean/tools/gen_neon.py.
-/
import CfavmlModel.Prim.X86

namespace Cfavml
namespace Neon
open X86

/-! ### floating-point max / min lanes (FMAX / FMIN) -/
def isNaN32 (x : BitVec 32) : Bool := (x &&& 0x7F800000#32 == 0x7F800000#32) && (x &&& 0x007FFFFF#32 != 0#32)
def isNaN64 (x : BitVec 64) : Bool :=
  (x &&& 0x7FF0000000000000#64 == 0x7FF0000000000000#64) && (x &&& 0x000FFFFFFFFFFFFF#64 != 0#64)
/-- FMAX: a NaN operand gives the (quieted) NaN; equal values (the two zeros) give the one with the sign bits and-ed -/
def fmax32 (E : Env) (x y : BitVec 32) : BitVec 32 :=
  if isNaN32 x then x ||| 0x00400000#32 else if isNaN32 y then y ||| 0x00400000#32
  else if E.F.lt32 y x then x else if E.F.lt32 x y then y else x &&& y
def fmin32 (E : Env) (x y : BitVec 32) : BitVec 32 :=
  if isNaN32 x then x ||| 0x00400000#32 else if isNaN32 y then y ||| 0x00400000#32
  else if E.F.lt32 x y then x else if E.F.lt32 y x then y else x ||| y
def fmax64 (E : Env) (x y : BitVec 64) : BitVec 64 :=
  if isNaN64 x then x ||| 0x0008000000000000#64 else if isNaN64 y then y ||| 0x0008000000000000#64
  else if E.F.lt64 y x then x else if E.F.lt64 x y then y else x &&& y
def fmin64 (E : Env) (x y : BitVec 64) : BitVec 64 :=
  if isNaN64 x then x ||| 0x0008000000000000#64 else if isNaN64 y then y ||| 0x0008000000000000#64
  else if E.F.lt64 x y then x else if E.F.lt64 y x then y else x ||| y

/-- pairwise reduction of four lanes (FADDP twice, FMAXV, FMINV): `(v0 ∘ v1) ∘ (v2 ∘ v3)` -/
def pair4 {α : Type} (op : α → α → α) (v : Nat → α) : α := op (op (v 0) (v 1)) (op (v 2) (v 3))
/-- pairwise reduction of two lanes -/
def pair2 {α : Type} (op : α → α → α) (v : Nat → α) : α := op (v 0) (v 1)
''')
tys = [("f32",32,4,"f"),("f64",64,2,"f"),("s8",8,16,"s"),("s16",16,8,"s"),("s32",32,4,"s"),("s64",64,2,"s"),
       ("u8",8,16,"u"),("u16",16,8,"u"),("u32",32,4,"u"),("u64",64,2,"u")]
P("/-! ### memory, broadcast -/")
for sfx,w,L,k in tys:
    P(f"def vld1q_{sfx} (_ : Env) (mem : Slice (BitVec {w})) (off : Nat) : Exec (BitVec 128) := loadu {L} mem off")
    P(f"def vst1q_{sfx} (_ : Env) (mem : Slice (BitVec {w})) (off : Nat) (r : BitVec 128) : Exec (Slice (BitVec {w})) := storeu {L} mem off r")
    P(f"def vdupq_n_{sfx} (_ : Env) (v : BitVec {w}) : BitVec 128 := bcast {w} {L} v")
P("\n/-! ### lane-wise arithmetic -/")
for sfx,w,L,k in tys:
    if k == "f":
        for op in ("add","sub","mul","div"):
            P(f"def v{op}q_{sfx} (E : Env) (a b : BitVec 128) : BitVec 128 := map2 {w} {L} E.F.{op}{w} a b")
        P(f"/-- `vfmaq(a, b, c) = a + b·c`, fused (`simd_fma(b, c, a)`) -/")
        P(f"def vfmaq_{sfx} (E : Env) (a b c : BitVec 128) : BitVec 128 := map3 {w} {L} (fun acc x y => E.F.fma{w} x y acc) a b c")
        P(f"def vmaxq_{sfx} (E : Env) (a b : BitVec 128) : BitVec 128 := map2 {w} {L} (fmax{w} E) a b")
        P(f"def vminq_{sfx} (E : Env) (a b : BitVec 128) : BitVec 128 := map2 {w} {L} (fmin{w} E) a b")
    else:
        P(f"def vaddq_{sfx} (_ : Env) (a b : BitVec 128) : BitVec 128 := map2 {w} {L} (· + ·) a b")
        P(f"def vsubq_{sfx} (_ : Env) (a b : BitVec 128) : BitVec 128 := map2 {w} {L} (· - ·) a b")
        if w != 64:
            P(f"def vmulq_{sfx} (_ : Env) (a b : BitVec 128) : BitVec 128 := map2 {w} {L} (· * ·) a b")
            mx = "IntPrim.smax" if k == "s" else "IntPrim.umax"
            mn = "IntPrim.smin" if k == "s" else "IntPrim.umin"
            P(f"def vmaxq_{sfx} (_ : Env) (a b : BitVec 128) : BitVec 128 := map2 {w} {L} {mx} a b")
            P(f"def vminq_{sfx} (_ : Env) (a b : BitVec 128) : BitVec 128 := map2 {w} {L} {mn} a b")
P("\n/-! ### across-lane reductions -/")
for sfx,w,L,k in tys:
    if k == "f":
        pr = "pair4" if L == 4 else "pair2"
        P(f"def vaddvq_{sfx} (E : Env) (a : BitVec 128) : BitVec {w} := {pr} E.F.add{w} (fun k => lane {w} k a)")
        P(f"def vmaxvq_{sfx} (E : Env) (a : BitVec 128) : BitVec {w} := {pr} (fmax{w} E) (fun k => lane {w} k a)")
        P(f"def vminvq_{sfx} (E : Env) (a : BitVec 128) : BitVec {w} := {pr} (fmin{w} E) (fun k => lane {w} k a)")
    else:
        P(f"def vaddvq_{sfx} (_ : Env) (a : BitVec 128) : BitVec {w} := reduceOrdered (· + ·) 0 {L} (fun k => lane {w} k a)")
        if w != 64:
            if k == "s":
                P(f"def vmaxvq_{sfx} (_ : Env) (a : BitVec 128) : BitVec {w} := reduceOrdered IntPrim.smax (BitVec.intMin {w}) {L} (fun k => lane {w} k a)")
                P(f"def vminvq_{sfx} (_ : Env) (a : BitVec 128) : BitVec {w} := reduceOrdered IntPrim.smin (BitVec.intMax {w}) {L} (fun k => lane {w} k a)")
            else:
                P(f"def vmaxvq_{sfx} (_ : Env) (a : BitVec 128) : BitVec {w} := reduceOrdered IntPrim.umax 0 {L} (fun k => lane {w} k a)")
                P(f"def vminvq_{sfx} (_ : Env) (a : BitVec 128) : BitVec {w} := reduceOrdered IntPrim.umin (BitVec.allOnes {w}) {L} (fun k => lane {w} k a)")
P("\nend Neon\nend Cfavml")
open(sys.argv[1],"w").write("\n".join(out)+"\n")
