#!/usr/bin/env python3
"""Writes CfavmlModel/Prim/X86.lean: the x86 intrinsic semantics (Layer 0, trusted, hand-specified).
The regular families (lane-wise arithmetic for every width/vector size) are spelled out by this script so
that each intrinsic has its own named Lean definition; the schemas they instantiate are written by hand
in the prologue below. Run once by hand; the output is committed."""
import sys
out = []
P = out.append
P('''/-
Layer 0 (trusted): semantics of the x86 intrinsics cfavml uses, over registers as `BitVec 128/256/512`.
Written from the Intel intrinsics guide pseudo-code, cross-read against stdarch (nightly rust-src), and
validated against the host CPU by the register-level correspondence run.
File produced by lean/tools/gen_x86.py (the schemas are hand-written; the per-name instances are listed
mechanically).
-/
import CfavmlModel.Prim.Scalar

namespace Cfavml
namespace X86

/-! ### schemas -/
def map1 {n : Nat} (w cnt : Nat) (f : BitVec w → BitVec w) (a : BitVec n) : BitVec n :=
  fromLanes w cnt (fun k => f (lane w k a))
def map2 {n : Nat} (w cnt : Nat) (f : BitVec w → BitVec w → BitVec w) (a b : BitVec n) : BitVec n :=
  fromLanes w cnt (fun k => f (lane w k a) (lane w k b))
def map3 {n : Nat} (w cnt : Nat) (f : BitVec w → BitVec w → BitVec w → BitVec w) (a b c : BitVec n) : BitVec n :=
  fromLanes w cnt (fun k => f (lane w k a) (lane w k b) (lane w k c))
def bcast {n : Nat} (w cnt : Nat) (v : BitVec w) : BitVec n := fromLanes w cnt (fun _ => v)
/-- unaligned vector load of `cnt` elements -/
def loadu {n w : Nat} (cnt : Nat) (mem : Slice (BitVec w)) (off : Nat) : Exec (BitVec n) := do
  let f ← mem.readRange off cnt
  pure (fromLanes w cnt f)
/-- unaligned vector store of `cnt` elements -/
def storeu {n w : Nat} (cnt : Nat) (mem : Slice (BitVec w)) (off : Nat) (r : BitVec n) : Exec (Slice (BitVec w)) :=
  mem.writeRange off cnt (fun k => lane w k r)
/-- permutation of `w`-bit lanes: lane `k` of the result is lane `sel k` of the concatenation `[a, b]`
(indices `< cnt` select from `a`, indices `≥ cnt` from `b`) -/
def perm2 {n m : Nat} (w cnt outCnt : Nat) (sel : Nat → Nat) (a b : BitVec n) : BitVec m :=
  fromLanes w outCnt (fun k => if sel k < cnt then lane w (sel k) a else lane w (sel k - cnt) b)

/-- MAXPS/MAXPD lane: the second operand when either is NaN or both are zero -/
def fmax32 (E : Env) (x y : BitVec 32) : BitVec 32 := if E.F.lt32 y x then x else y
def fmin32 (E : Env) (x y : BitVec 32) : BitVec 32 := if E.F.lt32 x y then x else y
def fmax64 (E : Env) (x y : BitVec 64) : BitVec 64 := if E.F.lt64 y x then x else y
def fmin64 (E : Env) (x y : BitVec 64) : BitVec 64 := if E.F.lt64 x y then x else y

/-- halving reduction used by stdarch's `_mm512_reduce_*`: `v[k] op v[k + cnt/2]`, repeatedly -/
def reduceHalving {α : Type} (op : α → α → α) : (steps : Nat) → (Nat → α) → α
  | 0, v => v 0
  | s + 1, v => reduceHalving op s (fun k => op (v k) (v (k + 2 ^ s)))
/-- in-order reduction (`simd_reduce_add_ordered`, integer `simd_reduce_max/min`) -/
def reduceOrdered {α : Type} (op : α → α → α) (init : α) (cnt : Nat) (v : Nat → α) : α :=
  (List.range cnt).foldl (fun acc k => op acc (v k)) init

def bit (imm k : Nat) : Nat := (imm >>> k) % 2
def bits2 (imm k : Nat) : Nat := (imm >>> k) % 4
''')

vecs = [('_mm', 128), ('_mm256', 256), ('_mm512', 512)]
P('/-! ### lane-wise integer arithmetic -/')
for pre, n in vecs:
    for w in (8, 16, 32, 64):
        c = n // w
        for op, f in (('add', '(· + ·)'), ('sub', '(· - ·)')):
            P(f'def {pre}_{op}_epi{w} (_ : Env) (a b : BitVec {n}) : BitVec {n} := map2 {w} {c} {f} a b')
        P(f'def {pre}_max_epi{w} (_ : Env) (a b : BitVec {n}) : BitVec {n} := map2 {w} {c} IntPrim.smax a b')
        P(f'def {pre}_min_epi{w} (_ : Env) (a b : BitVec {n}) : BitVec {n} := map2 {w} {c} IntPrim.smin a b')
        P(f'def {pre}_max_epu{w} (_ : Env) (a b : BitVec {n}) : BitVec {n} := map2 {w} {c} IntPrim.umax a b')
        P(f'def {pre}_min_epu{w} (_ : Env) (a b : BitVec {n}) : BitVec {n} := map2 {w} {c} IntPrim.umin a b')
    for w in (16, 32):
        c = n // w
        P(f'def {pre}_mullo_epi{w} (_ : Env) (a b : BitVec {n}) : BitVec {n} := map2 {w} {c} (· * ·) a b')
    P(f'def {pre}_mullox_epi64 (_ : Env) (a b : BitVec {n}) : BitVec {n} := map2 64 {n//64} (· * ·) a b')
    # 32x32 -> 64 unsigned multiply of the low halves of each 64-bit lane
    P(f'def {pre}_mul_epu32 (_ : Env) (a b : BitVec {n}) : BitVec {n} := map2 64 {n//64} (fun x y => (x &&& 0xFFFFFFFF#64) * (y &&& 0xFFFFFFFF#64)) a b')
    P(f'def {pre}_srai_epi16 (_ : Env) (imm : Nat) (a : BitVec {n}) : BitVec {n} := map1 16 {n//16} (fun x => x.sshiftRight imm) a')
    P(f'def {pre}_slli_epi16 (_ : Env) (imm : Nat) (a : BitVec {n}) : BitVec {n} := map1 16 {n//16} (fun x => x <<< imm) a')
    P(f'def {pre}_slli_epi64 (_ : Env) (imm : Nat) (a : BitVec {n}) : BitVec {n} := map1 64 {n//64} (fun x => x <<< imm) a')
    P(f'def {pre}_cmpgt_epi64 (_ : Env) (a b : BitVec {n}) : BitVec {n} := map2 64 {n//64} (fun x y => if BitVec.slt y x then BitVec.allOnes 64 else 0) a b')
    P(f'def {pre}_blendv_epi8 (_ : Env) (a b mask : BitVec {n}) : BitVec {n} := map3 8 {n//8} (fun x y m => if m.msb then y else x) a b mask')
    P(f'def {pre}_shuffle_epi32 (_ : Env) (imm : Nat) (a : BitVec {n}) : BitVec {n} := fromLanes 32 {n//32} (fun k => lane 32 (4 * (k / 4) + bits2 imm (2 * (k % 4))) a)')
    sfx = 'si128' if n == 128 else f'si{n}'
    P(f'def {pre}_and_{sfx} (_ : Env) (a b : BitVec {n}) : BitVec {n} := a &&& b')
    P(f'def {pre}_xor_{sfx} (_ : Env) (a b : BitVec {n}) : BitVec {n} := a ^^^ b')
    P(f'def {pre}_setzero_{sfx} (_ : Env) : BitVec {n} := 0')
    P(f'def {pre}_setzero_ps (_ : Env) : BitVec {n} := 0')
    P(f'def {pre}_setzero_pd (_ : Env) : BitVec {n} := 0')
    for w in (8, 16, 32):
        P(f'def {pre}_set1_epi{w} (_ : Env) (v : BitVec {w}) : BitVec {n} := bcast {w} {n//w} v')
    P(f'def {pre}_set1_epi64x (_ : Env) (v : BitVec 64) : BitVec {n} := bcast 64 {n//64} v')
    P(f'def {pre}_set1_epi64 (_ : Env) (v : BitVec 64) : BitVec {n} := bcast 64 {n//64} v')
    P(f'def {pre}_set1_ps (_ : Env) (v : BitVec 32) : BitVec {n} := bcast 32 {n//32} v')
    P(f'def {pre}_set1_pd (_ : Env) (v : BitVec 64) : BitVec {n} := bcast 64 {n//64} v')
    P(f'def {pre}_loadu_ps (_ : Env) (mem : Slice (BitVec 32)) (off : Nat) : Exec (BitVec {n}) := loadu {n//32} mem off')
    P(f'def {pre}_loadu_pd (_ : Env) (mem : Slice (BitVec 64)) (off : Nat) : Exec (BitVec {n}) := loadu {n//64} mem off')
    P(f'def {pre}_loadu_{sfx} (_ : Env) {{w : Nat}} (mem : Slice (BitVec w)) (off : Nat) : Exec (BitVec {n}) := loadu ({n} / w) mem off')
    P(f'def {pre}_storeu_ps (_ : Env) (mem : Slice (BitVec 32)) (off : Nat) (r : BitVec {n}) : Exec (Slice (BitVec 32)) := storeu {n//32} mem off r')
    P(f'def {pre}_storeu_pd (_ : Env) (mem : Slice (BitVec 64)) (off : Nat) (r : BitVec {n}) : Exec (Slice (BitVec 64)) := storeu {n//64} mem off r')
    P(f'def {pre}_storeu_{sfx} (_ : Env) {{w : Nat}} (mem : Slice (BitVec w)) (off : Nat) (r : BitVec {n}) : Exec (Slice (BitVec w)) := storeu ({n} / w) mem off r')
    P('/-! floating point lanes -/')
    for ty, w in (('ps', 32), ('pd', 64)):
        c = n // w
        for op in ('add', 'sub', 'mul', 'div'):
            P(f'def {pre}_{op}_{ty} (E : Env) (a b : BitVec {n}) : BitVec {n} := map2 {w} {c} E.F.{op}{w} a b')
        P(f'def {pre}_max_{ty} (E : Env) (a b : BitVec {n}) : BitVec {n} := map2 {w} {c} (fmax{w} E) a b')
        P(f'def {pre}_min_{ty} (E : Env) (a b : BitVec {n}) : BitVec {n} := map2 {w} {c} (fmin{w} E) a b')
        P(f'def {pre}_fmadd_{ty} (E : Env) (a b c : BitVec {n}) : BitVec {n} := map3 {w} {c} E.F.fma{w} a b c')
    P('')

P('''/-! ### casts, extracts, scalar moves -/
def _mm256_castps256_ps128 (_ : Env) (a : BitVec 256) : BitVec 128 := a.setWidth 128
def _mm256_castpd256_pd128 (_ : Env) (a : BitVec 256) : BitVec 128 := a.setWidth 128
def _mm256_castsi256_si128 (_ : Env) (a : BitVec 256) : BitVec 128 := a.setWidth 128
def _mm512_castsi512_si256 (_ : Env) (a : BitVec 512) : BitVec 256 := a.setWidth 256
def _mm256_extractf128_ps (_ : Env) (imm : Nat) (a : BitVec 256) : BitVec 128 := (a >>> (128 * (imm % 2))).setWidth 128
def _mm256_extractf128_pd (_ : Env) (imm : Nat) (a : BitVec 256) : BitVec 128 := (a >>> (128 * (imm % 2))).setWidth 128
def _mm256_extracti128_si256 (_ : Env) (imm : Nat) (a : BitVec 256) : BitVec 128 := (a >>> (128 * (imm % 2))).setWidth 128
def _mm_castpd_ps (_ : Env) (a : BitVec 128) : BitVec 128 := a
def _mm_castps_pd (_ : Env) (a : BitVec 128) : BitVec 128 := a
def _mm_cvtss_f32 (_ : Env) (a : BitVec 128) : BitVec 32 := lane 32 0 a
def _mm_cvtsd_f64 (_ : Env) (a : BitVec 128) : BitVec 64 := lane 64 0 a
/-- the contents are unspecified: an arbitrary value supplied by the environment -/
def _mm_undefined_ps (E : Env) : BitVec 128 := E.undef128
/-- dst = [b2, b3, a2, a3] -/
def _mm_movehl_ps (_ : Env) (a b : BitVec 128) : BitVec 128 :=
  fromLanes 32 4 (fun k => if k < 2 then lane 32 (k + 2) b else lane 32 k a)
/-- dst = [a[imm1:0], a[imm3:2], b[imm5:4], b[imm7:6]] -/
def _mm_shuffle_ps (_ : Env) (imm : Nat) (a b : BitVec 128) : BitVec 128 :=
  fromLanes 32 4 (fun k => if k < 2 then lane 32 (bits2 imm (2 * k)) a else lane 32 (bits2 imm (2 * k)) b)
def _mm_add_ss (E : Env) (a b : BitVec 128) : BitVec 128 :=
  fromLanes 32 4 (fun k => if k = 0 then E.F.add32 (lane 32 0 a) (lane 32 0 b) else lane 32 k a)
def _mm_add_sd (E : Env) (a b : BitVec 128) : BitVec 128 :=
  fromLanes 64 2 (fun k => if k = 0 then E.F.add64 (lane 64 0 a) (lane 64 0 b) else lane 64 k a)

/-! ### AVX-512 specifics -/
/-- byte `j` comes from `b` when bit `j` of the mask is set, else from `a` -/
def _mm512_mask_blend_epi8 (_ : Env) (k : Nat) (a b : BitVec 512) : BitVec 512 :=
  fromLanes 8 64 (fun j => if bit k j = 1 then lane 8 j b else lane 8 j a)
/-- 128-bit lanes: dst = [a[imm1:0], a[imm3:2], b[imm5:4], b[imm7:6]] -/
def _mm512_shuffle_i64x2 (_ : Env) (imm : Nat) (a b : BitVec 512) : BitVec 512 :=
  fromLanes 128 4 (fun k => if k < 2 then lane 128 (bits2 imm (2 * k)) a else lane 128 (bits2 imm (2 * k)) b)
def _mm512_reduce_add_epi32 (_ : Env) (a : BitVec 512) : BitVec 32 := reduceOrdered (· + ·) 0 16 (fun k => lane 32 k a)
def _mm512_reduce_add_epi64 (_ : Env) (a : BitVec 512) : BitVec 64 := reduceOrdered (· + ·) 0 8 (fun k => lane 64 k a)
def _mm512_reduce_max_epi32 (_ : Env) (a : BitVec 512) : BitVec 32 := reduceOrdered IntPrim.smax (BitVec.intMin 32) 16 (fun k => lane 32 k a)
def _mm512_reduce_max_epi64 (_ : Env) (a : BitVec 512) : BitVec 64 := reduceOrdered IntPrim.smax (BitVec.intMin 64) 8 (fun k => lane 64 k a)
def _mm512_reduce_min_epi32 (_ : Env) (a : BitVec 512) : BitVec 32 := reduceOrdered IntPrim.smin (BitVec.intMax 32) 16 (fun k => lane 32 k a)
def _mm512_reduce_min_epi64 (_ : Env) (a : BitVec 512) : BitVec 64 := reduceOrdered IntPrim.smin (BitVec.intMax 64) 8 (fun k => lane 64 k a)
def _mm512_reduce_max_epu32 (_ : Env) (a : BitVec 512) : BitVec 32 := reduceOrdered IntPrim.umax 0 16 (fun k => lane 32 k a)
def _mm512_reduce_max_epu64 (_ : Env) (a : BitVec 512) : BitVec 64 := reduceOrdered IntPrim.umax 0 8 (fun k => lane 64 k a)
def _mm512_reduce_min_epu32 (_ : Env) (a : BitVec 512) : BitVec 32 := reduceOrdered IntPrim.umin (BitVec.allOnes 32) 16 (fun k => lane 32 k a)
def _mm512_reduce_min_epu64 (_ : Env) (a : BitVec 512) : BitVec 64 := reduceOrdered IntPrim.umin (BitVec.allOnes 64) 8 (fun k => lane 64 k a)
def _mm512_reduce_add_ps (E : Env) (a : BitVec 512) : BitVec 32 := reduceHalving E.F.add32 4 (fun k => lane 32 k a)
def _mm512_reduce_add_pd (E : Env) (a : BitVec 512) : BitVec 64 := reduceHalving E.F.add64 3 (fun k => lane 64 k a)
def _mm512_reduce_max_ps (E : Env) (a : BitVec 512) : BitVec 32 := reduceHalving (fmax32 E) 4 (fun k => lane 32 k a)
def _mm512_reduce_max_pd (E : Env) (a : BitVec 512) : BitVec 64 := reduceHalving (fmax64 E) 3 (fun k => lane 64 k a)
def _mm512_reduce_min_ps (E : Env) (a : BitVec 512) : BitVec 32 := reduceHalving (fmin32 E) 4 (fun k => lane 32 k a)
def _mm512_reduce_min_pd (E : Env) (a : BitVec 512) : BitVec 64 := reduceHalving (fmin64 E) 3 (fun k => lane 64 k a)

/-! ### transpose networks (cfavml-gemm) -/
/-- per 128-bit half: [a0, b0, a1, b1] -/
def _mm256_unpacklo_ps (_ : Env) (a b : BitVec 256) : BitVec 256 :=
  fromLanes 32 8 (fun k => let h := 4 * (k / 4); let j := k % 4; if j % 2 = 0 then lane 32 (h + j / 2) a else lane 32 (h + j / 2) b)
/-- per 128-bit half: [a2, b2, a3, b3] -/
def _mm256_unpackhi_ps (_ : Env) (a b : BitVec 256) : BitVec 256 :=
  fromLanes 32 8 (fun k => let h := 4 * (k / 4); let j := k % 4; if j % 2 = 0 then lane 32 (h + 2 + j / 2) a else lane 32 (h + 2 + j / 2) b)
/-- per 128-bit half: [a0, b0] -/
def _mm256_unpacklo_pd (_ : Env) (a b : BitVec 256) : BitVec 256 :=
  fromLanes 64 4 (fun k => let h := 2 * (k / 2); if k % 2 = 0 then lane 64 h a else lane 64 h b)
/-- per 128-bit half: [a1, b1] -/
def _mm256_unpackhi_pd (_ : Env) (a b : BitVec 256) : BitVec 256 :=
  fromLanes 64 4 (fun k => let h := 2 * (k / 2); if k % 2 = 0 then lane 64 (h + 1) a else lane 64 (h + 1) b)
/-- per 128-bit half: [a[imm1:0], a[imm3:2], b[imm5:4], b[imm7:6]] -/
def _mm256_shuffle_ps (_ : Env) (imm : Nat) (a b : BitVec 256) : BitVec 256 :=
  fromLanes 32 8 (fun k => let h := 4 * (k / 4); let j := k % 4;
    if j < 2 then lane 32 (h + bits2 imm (2 * j)) a else lane 32 (h + bits2 imm (2 * j)) b)
/-- 128-bit halves selected by imm[1:0] / imm[5:4] from [a.lo, a.hi, b.lo, b.hi]; bit 3 / bit 7 zeroes -/
def permute2f128 (imm : Nat) (a b : BitVec 256) : BitVec 256 :=
  let pick (c : Nat) : BitVec 128 :=
    if bit c 3 = 1 then 0 else
    match c % 4 with
    | 0 => lane 128 0 a | 1 => lane 128 1 a | 2 => lane 128 0 b | _ => lane 128 1 b
  fromLanes 128 2 (fun k => if k = 0 then pick (imm % 16) else pick (imm / 16 % 16))
def _mm256_permute2f128_ps (_ : Env) (imm : Nat) (a b : BitVec 256) : BitVec 256 := permute2f128 imm a b
def _mm256_permute2f128_pd (_ : Env) (imm : Nat) (a b : BitVec 256) : BitVec 256 := permute2f128 imm a b

end X86
end Cfavml
''')
open(sys.argv[1], 'w').write('\n'.join(out))
