"""Search of the *model* for a concrete failing input, for the backend no hardware here can run (NEON).

The generated NEON register dictionary (Gen/ImplNeon.lean, regenerated from impl_neon.rs) is executed by the Lean driver on
boundary and random registers and compared with an independent oracle: Python integer arithmetic for the integer types,
and for floats the driver's one-lane Fallback dictionary (scalar IEEE operations, itself validated against the CPU by the
correspondence run) applied lane by lane; max/min are compared by value (the sign of zero is unspecified by the property).
A difference is a concrete register on which the code, as modelled, violates the property. This is a search, not a proof:
it only supplies the replay when a NEON theorem no longer checks.

Every `<method>_dense` (8 registers at once) is compared with the register method of the same backend applied to each of
its 8 registers (lane-wise faithfulness of the dense forms); this also covers the Avx2Fma backend.
"""
import random, struct, subprocess

INT_TYPES = {"i8": (8, True), "i16": (16, True), "i32": (32, True), "i64": (64, True),
             "u8": (8, False), "u16": (16, False), "u32": (32, False), "u64": (64, False)}
FLOAT_TYPES = {"f32": 32, "f64": 64}


def _signed(v, w):
    return v - (1 << w) if v >> (w - 1) else v


def _int_ref(method, w, signed, xs):
    m = (1 << w) - 1
    a = xs[0]
    b = xs[1] if len(xs) > 1 else None
    key = (lambda v: _signed(v, w)) if signed else (lambda v: v)
    if method == "add":
        return (a + b) & m
    if method == "sub":
        return (a - b) & m
    if method == "mul":
        return (a * b) & m
    if method == "div":
        if signed:
            x, y = _signed(a, w), _signed(b, w)
            q = abs(x) // abs(y)
            if (x < 0) != (y < 0):
                q = -q
            return q & m
        return (a // b) & m
    if method == "max":
        return a if key(a) >= key(b) else b
    if method == "min":
        return a if key(a) <= key(b) else b
    if method == "fmadd":
        return (a * b + xs[2]) & m
    raise ValueError(method)


def _fval(bits, w):
    if w == 32:
        return struct.unpack("<f", struct.pack("<I", bits))[0]
    return struct.unpack("<d", struct.pack("<Q", bits))[0]


def _is_nan(bits, w):
    if w == 32:
        return (bits & 0x7f800000) == 0x7f800000 and (bits & 0x007fffff) != 0
    return (bits & 0x7ff0000000000000) == 0x7ff0000000000000 and (bits & 0x000fffffffffffff) != 0


def _pool(ty, rnd):
    if ty in INT_TYPES:
        w, _ = INT_TYPES[ty]
        m = (1 << w) - 1
        base = [0, 1, 2, 3, m, m - 1, 1 << (w - 1), (1 << (w - 1)) - 1, (1 << (w - 1)) + 1, 0x55 & m, 0xAA & m]
        return base + [rnd.getrandbits(w) for _ in range(8)]
    w = FLOAT_TYPES[ty]
    if w == 32:
        base = [0x00000000, 0x80000000, 0x3f800000, 0xbf800000, 0x7f800000, 0xff800000, 0x7f7fffff, 0xff7fffff,
                0x00000001, 0x80000001, 0x00800000, 0x40490fdb, 0xc2f6e979, 0x34000000]
        return base + [rnd.getrandbits(32) for _ in range(8)]
    base = [0x0, 0x8000000000000000, 0x3ff0000000000000, 0xbff0000000000000, 0x7ff0000000000000, 0xfff0000000000000,
            0x7fefffffffffffff, 0xffefffffffffffff, 0x1, 0x8000000000000001, 0x0010000000000000, 0x400921fb54442d18]
    return base + [rnd.getrandbits(64) for _ in range(8)]


def _enc(prefix, lanes):
    return prefix + ":" + ",".join("%x" % v for v in lanes)


def run_one(driver, seed, cases, backend="Neon", regbits=128, tf=None):
    rnd = random.Random(seed)
    reqs = []    # (request, checker) ; checker(answer, answers_of_aux) -> None | description
    plan = []
    for ty in ([] if backend == "Avx2Fma" else list(INT_TYPES)) + list(FLOAT_TYPES):
        isint = ty in INT_TYPES
        w = INT_TYPES[ty][0] if isint else FLOAT_TYPES[ty]
        L = regbits // w
        for _ in range(cases):
            pool = _pool(ty, rnd)
            pick = lambda nz=False, nonan=False: [
                next(v for v in iter(lambda: rnd.choice(pool), None)
                     if not (nz and v == 0) and not (nonan and not isint and _is_nan(v, w))) for _ in range(L)]
            for method in ("add", "sub", "mul", "div", "max", "min", "fmadd", "sum_to_value", "max_to_value", "min_to_value", "filled"):
                # float fmadd: compared with the fused multiply-add of the x86 model (Avx2Fma, validated on this CPU), lane by lane
                # float sum_to_value: on small integer-valued lanes every association is exact, so the value is the plain sum
                nonan = method in ("max", "min", "max_to_value", "min_to_value")
                if method == "filled":
                    v = rnd.choice(pool)
                    plan.append((ty, method, [("v", [v])], None))
                    continue
                if method == "sum_to_value" and not isint:
                    ints = [rnd.randrange(-40, 41) for _ in range(L)]
                    enc = (lambda v: struct.unpack("<I", struct.pack("<f", float(v)))[0]) if w == 32 else (lambda v: struct.unpack("<Q", struct.pack("<d", float(v)))[0])
                    plan.append((ty, method, [("r", [enc(v) for v in ints])], ints))
                    continue
                if method.endswith("_to_value"):
                    plan.append((ty, method, [("r", pick(nonan=nonan))], None))
                    continue
                a = pick(nonan=nonan)
                b = pick(nz=(method == "div" and isint), nonan=nonan)
                args = [("r", a), ("r", b)]
                if method == "fmadd":
                    args.append(("r", pick()))
                plan.append((ty, method, args, None))
                # the dense (8-register) form of the same method: must be the register method on each of its registers
                dense = lambda nz=False: sum((pick(nz=nz, nonan=nonan) for _ in range(8)), [])
                dargs = [("d", dense()), ("d", dense(nz=(method == "div" and isint)))]
                if method == "fmadd":
                    dargs.append(("d", dense()))
                plan.append((ty, method + "_dense", dargs, None))
    # build the request stream: the NEON request, then (floats, arithmetic) the per-lane scalar requests
    lines = ["env 0 0 0 1"]
    if tf:
        lines.append("tf " + " ".join(str(int(b)) for b in tf))
    index = []
    for ty, method, args, extra in plan:
        isint = ty in INT_TYPES
        w = INT_TYPES[ty][0] if isint else FLOAT_TYPES[ty]
        L = regbits // w
        main = len(lines)
        lines.append("reg %s %s %s %s" % (backend, ty, method, " ".join(_enc(p, ls) for p, ls in args)))
        aux = []
        if method.endswith("_dense"):
            for k in range(8):
                aux.append(len(lines))
                lines.append("reg %s %s %s %s" % (backend, ty, method[:-6], " ".join(_enc("r", ls[k * L:(k + 1) * L]) for _, ls in args)))
        elif not isint and method == "fmadd" and backend == "Avx2":
            # the `nofma` backend: `acc + x*y` with two roundings in every lane = the scalar (Fallback) fmadd
            for k in range(L):
                aux.append(len(lines))
                lines.append("reg Fallback %s fmadd %s" % (ty, " ".join(_enc(p, [ls[k]]) for p, ls in args)))
        elif not isint and method == "fmadd":
            # one request to the 256-bit fused x86 model with the lanes padded by zeros
            XL = 256 // w
            for c0 in range(0, L, XL):
                aux.append(len(lines))
                lines.append("reg Avx2Fma %s fmadd %s" % (ty, " ".join(_enc(p, (ls[c0:c0 + XL] + [0] * XL)[:XL]) for p, ls in args)))
        if not isint and method in ("add", "sub", "mul", "div"):
            for k in range(L):
                aux.append(len(lines))
                lines.append("reg Fallback %s %s %s" % (ty, method, " ".join(_enc(p, [ls[k]]) for p, ls in args)))
        index.append((ty, method, args, main, aux, extra))
    p = subprocess.run([driver], input="\n".join(lines) + "\n", stdout=subprocess.PIPE, stderr=subprocess.PIPE, text=True, timeout=1800)
    outs = p.stdout.split("\n")
    violations = []
    hist = {}
    n = 0

    def lanes_of(ans):
        if not ans.startswith("ok "):
            return None
        try:
            return [int(t, 16) for t in ans[3:].split(",")]
        except ValueError:
            return None

    for ty, method, args, main, aux, extra in index:
        n += 1
        hist["%s/%s" % (ty, method)] = hist.get("%s/%s" % (ty, method), 0) + 1
        isint = ty in INT_TYPES
        w = INT_TYPES[ty][0] if isint else FLOAT_TYPES[ty]
        signed = isint and INT_TYPES[ty][1]
        L = regbits // w
        ans = outs[main] if main < len(outs) else "<no answer>"
        got = lanes_of(ans)
        want = None
        byvalue = False
        if method.endswith("_dense"):
            want = []
            for k in aux:
                r = lanes_of(outs[k] if k < len(outs) else "")
                want += r if r else [None] * L
        elif method == "filled":
            want = [args[0][1][0]] * L
        elif method == "sum_to_value" and not isint:
            byvalue = True
            want = [float(sum(extra))]
        elif method == "fmadd" and not isint and backend == "Avx2":
            want = []
            for k in aux:
                r = lanes_of(outs[k] if k < len(outs) else "")
                want.append(r[0] if r else None)
        elif method == "fmadd" and not isint:
            want = []
            for k in aux:
                r = lanes_of(outs[k] if k < len(outs) else "")
                want += r if r else [None] * (256 // w)
            want = want[:L]
        elif method.endswith("_to_value"):
            ls = args[0][1]
            if isint:
                key = (lambda v: _signed(v, w)) if signed else (lambda v: v)
                if method == "sum_to_value":
                    want = [sum(ls) & ((1 << w) - 1)]
                elif method == "max_to_value":
                    want = [max(ls, key=key)]
                else:
                    want = [min(ls, key=key)]
            else:
                byvalue = True
                vs = [_fval(v, w) for v in ls]
                want = [max(vs) if method == "max_to_value" else min(vs)]
        elif isint:
            want = [_int_ref(method, w, signed, [ls[k] for _, ls in args]) for k in range(L)]
        elif method in ("max", "min"):
            byvalue = True
            a, b = args[0][1], args[1][1]
            want = [(max if method == "max" else min)(_fval(a[k], w), _fval(b[k], w)) for k in range(L)]
        else:
            want = []
            for k in aux:
                r = lanes_of(outs[k] if k < len(outs) else "")
                want.append(r[0] if r else None)
        bad = None
        if got is None or len(got) != len(want):
            bad = "model answered %r" % ans[:200]
        elif byvalue:
            gv = [_fval(v, w) for v in got]
            if any(_is_nan(v, w) for v in got) or gv != want:
                bad = "values %r, expected %r" % (gv, want)
        else:
            # NaN payloads of float arithmetic are not part of the property: compare NaN-ness only
            for g, x in zip(got, want):
                if x is None or (g != x and not (not isint and _is_nan(g, w) and _is_nan(x, w))):
                    bad = "lanes %s, expected %s" % (",".join("%x" % v for v in got), ",".join("?" if v is None else "%x" % v for v in want))
                    break
        if bad and len(violations) < 10:
            violations.append({"kind": "model_vs_oracle", "routine": "%s %s %s" % (backend, ty, method), "target_features": tf,
                               "request": (("tf " + " ".join(str(int(b)) for b in tf) + " ; ") if tf else "") + lines[main][:600], "detail": bad,
                               "note": "the %s backend as modelled from the current source, executed by the Lean driver%s" % (
                                   backend, "; no hardware run is possible in this sandbox" if backend == "Neon" else
                                   " for a build with static target features (avx2,fma,avx512f,avx512bw,neon)=%s, which the harness here does not make" % (tf,))})
    return {"cases": n, "violations": violations, "histogram": hist, "driver_rc": p.returncode, "driver_stderr": p.stderr[-300:]}


REGBITS = {"Neon": 128, "Avx2": 256, "Avx2Fma": 256, "Avx512": 512}


def run(driver, seed, cases, backend="Neon", configs=None):
    """`configs`: list of {"backend": name, "tf": [avx2, fma, avx512f, avx512bw, neon] or None}; default: the NEON backend.
    x86 backends under *static* target features (builds this sandbox's harness does not make) are executed in the model only."""
    configs = configs or [{"backend": backend}]
    total = {"cases": 0, "violations": [], "histogram": {}, "driver_rc": 0, "driver_stderr": ""}
    for c in configs:
        b = c.get("backend", "Neon")
        r = run_one(driver, seed, cases, b, REGBITS.get(b, 128), c.get("tf"))
        if b == "Avx2Fma":
            # its register-level fmadd is the oracle for fused multiply-add (validated on this CPU by the `reg` correspondence):
            # only the dense forms, which are compared with its own register methods, say something
            r["violations"] = [v for v in r["violations"] if v["routine"].endswith("_dense")]
        total["cases"] += r["cases"]
        total["violations"] += r["violations"]
        tag = b + ("" if not c.get("tf") else "+tf" + "".join(str(int(x)) for x in c["tf"]))
        for k, v in r["histogram"].items():
            total["histogram"][tag + "/" + k] = v
        total["driver_rc"] = total["driver_rc"] or r["driver_rc"]
        total["driver_stderr"] += r["driver_stderr"]
    return total


# ---------------------------------------------------------------------------------------------------------------------
# the generated kernels on the reference backend with L lanes per register (driver request `kernL`, Hand/ModelReg.lean),
# for lane counts no hardware has; the oracle is plain Python integer arithmetic

KERNELS1 = ["generic_sum", "generic_squared_norm", "generic_max_horizontal", "generic_min_horizontal"]
KERNELS2 = ["generic_dot_product", "generic_euclidean"]
KERNELS_M2 = ["generic_add_vector", "generic_sub_vector", "generic_mul_vector", "generic_div_vector", "generic_max_vertical", "generic_min_vertical"]
KERNELS_M1 = ["generic_add_value", "generic_sub_value", "generic_mul_value", "generic_div_value", "generic_max_value", "generic_min_value"]


def _kernel_ref(kernel, w, signed, a, b, v):
    m = (1 << w) - 1
    key = (lambda x: _signed(x, w)) if signed else (lambda x: x)
    lo = (1 << (w - 1)) if signed else 0
    hi = ((1 << (w - 1)) - 1) if signed else m
    if kernel == "generic_sum":
        return [sum(a) & m]
    if kernel == "generic_squared_norm":
        return [sum(x * x for x in a) & m]
    if kernel == "generic_dot_product":
        return [sum(x * y for x, y in zip(a, b)) & m]
    if kernel == "generic_euclidean":
        return [sum(((x - y) & m) ** 2 for x, y in zip(a, b)) & m]
    if kernel == "generic_max_horizontal":
        return [max(a, key=key) if a else lo]
    if kernel == "generic_min_horizontal":
        return [min(a, key=key) if a else hi]
    op = kernel.split("_")[1]
    other = b if kernel.endswith("_vector") or kernel.endswith("_vertical") else [v] * len(a)
    return [_int_ref(op, w, signed, [x, y]) for x, y in zip(a, other)]


def run_kernels(driver, seed, cases, kernels=None, lane_counts=(1, 2, 3, 4, 5, 6, 7, 8, 12, 16)):
    rnd = random.Random(seed * 7919 + 11)
    kernels = kernels or (KERNELS1 + KERNELS2 + KERNELS_M2 + KERNELS_M1)
    lines = ["env 0 0 0 1"]
    plan = []
    for L in lane_counts:
        base = [0, 1, L - 1, L, L + 1, 2 * L + 1, 8 * L - 1, 8 * L, 8 * L + 1, 9 * L + 2, 16 * L + 3,
                # many dense blocks: loops that take several blocks per step
                15 * 8 * L + 1, 16 * 8 * L, 17 * 8 * L, 17 * 8 * L + L + 1, 33 * 8 * L + 2]
        for ty in ("i64", "u8", "i16", "u32"):
            w, signed = INT_TYPES[ty]
            m = (1 << w) - 1
            for kernel in kernels:
                dims_set = sorted(set(d for d in base if d >= 0)) + [rnd.randrange(0, 17 * L + 4) for _ in range(max(1, cases // 2))]
                for dims in dims_set:
                    pool = _pool(ty, rnd)
                    a = [(rnd.choice(pool) if rnd.random() < 0.5 else (i * 7 + 3) & m) for i in range(dims)]
                    b = [(rnd.choice(pool) if rnd.random() < 0.5 else (i * 13 + 5) & m) for i in range(dims)]
                    v = rnd.choice(pool)
                    if "div" in kernel:
                        b = [x or 1 for x in b]
                        v = v or 3
                    enc = lambda xs: "m:" + (",".join("%x" % x for x in xs) if xs else "-")
                    if kernel in KERNELS1:
                        args = [enc(a)]
                    elif kernel in KERNELS2:
                        args = [enc(a), enc(b)]
                    elif kernel in KERNELS_M2:
                        args = [enc(a), enc(b), enc([0xA5 & m] * dims)]
                    else:
                        args = ["v:%x" % v, enc(a), enc([0x5A & m] * dims)]
                    plan.append((L, ty, kernel, dims, a, b, v, len(lines)))
                    lines.append("kernL %x %s %s %x %s" % (L, ty, kernel, dims, " ".join(args)))
    p = subprocess.run([driver], input="\n".join(lines) + "\n", stdout=subprocess.PIPE, stderr=subprocess.PIPE, text=True, timeout=1800)
    outs = p.stdout.split("\n")
    violations, hist = [], {}
    for L, ty, kernel, dims, a, b, v, idx in plan:
        w, signed = INT_TYPES[ty]
        hist["L%d/%s" % (L, kernel)] = hist.get("L%d/%s" % (L, kernel), 0) + 1
        ans = outs[idx] if idx < len(outs) else "<no answer>"
        want = _kernel_ref(kernel, w, signed, a, b, v)
        want_s = "ok " + (",".join("%x" % x for x in want) if want else "-")
        if ans != want_s and len(violations) < 10:
            violations.append({"kind": "model_vs_oracle", "routine": "modelReg(L=%d) %s %s" % (L, ty, kernel), "target_features": None,
                               "request": lines[idx][:900], "detail": "the kernel answers %r, expected %r" % (ans[:200], want_s[:200]),
                               "note": "the generated kernel (from the current source) run by the Lean driver on the reference backend with %d lanes per register "
                                       "(Hand/ModelReg.lean, proved lane-wise faithful for every L in Thm/ModelReg.lean); dims=%d" % (L, dims)})
    return {"cases": len(plan), "violations": violations, "histogram": hist, "driver_rc": p.returncode, "driver_stderr": p.stderr[-300:]}
