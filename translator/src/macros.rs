//! macro_rules! handling (arms, substitution) and the Math impls.
use std::collections::BTreeMap;
use std::path::Path;

use proc_macro2::{Delimiter, Group, TokenStream, TokenTree};
use quote::ToTokens;

use crate::body::*;
use crate::cfgpred::*;
use crate::items::*;
use crate::ty::*;
use crate::{load, Output, Source};

fn tok(t: &impl ToTokens) -> String {
    t.to_token_stream().to_string()
}

pub struct MacroArm {
    pub pattern: TokenStream,
    pub body: TokenStream,
}

/// split `macro_rules!` tokens into arms
pub fn macro_arms(m: &syn::ItemMacro) -> Vec<MacroArm> {
    let mut arms = vec![];
    let tts: Vec<TokenTree> = m.mac.tokens.clone().into_iter().collect();
    let mut i = 0;
    while i < tts.len() {
        if let TokenTree::Group(p) = &tts[i] {
            // pattern => body
            let mut j = i + 1;
            while j < tts.len() && !matches!(&tts[j], TokenTree::Group(_)) {
                j += 1;
            }
            if j < tts.len() {
                if let TokenTree::Group(b) = &tts[j] {
                    arms.push(MacroArm { pattern: p.stream(), body: b.stream() });
                }
            }
            i = j + 1;
        } else {
            i += 1;
        }
    }
    arms
}

/// substitute `$name` by the given token streams
pub fn substitute(ts: TokenStream, sub: &BTreeMap<String, TokenStream>) -> TokenStream {
    let mut out = TokenStream::new();
    let tts: Vec<TokenTree> = ts.into_iter().collect();
    let mut i = 0;
    while i < tts.len() {
        match &tts[i] {
            TokenTree::Punct(p) if p.as_char() == '$' && i + 1 < tts.len() => {
                if let TokenTree::Ident(id) = &tts[i + 1] {
                    if let Some(r) = sub.get(&id.to_string()) {
                        out.extend(r.clone());
                        i += 2;
                        continue;
                    }
                }
                out.extend(std::iter::once(tts[i].clone()));
            },
            TokenTree::Group(g) => {
                let mut ng = Group::new(g.delimiter(), substitute(g.stream(), sub));
                ng.set_span(g.span());
                out.extend(std::iter::once(TokenTree::Group(ng)));
            },
            t => out.extend(std::iter::once(t.clone())),
        }
        i += 1;
    }
    out
}

/// names of `$x:frag` metavariables of a pattern, in order, with literal keyword tokens before them
pub fn pattern_vars(p: &TokenStream) -> Vec<String> {
    let mut v = vec![];
    let tts: Vec<TokenTree> = p.clone().into_iter().collect();
    let mut i = 0;
    while i < tts.len() {
        match &tts[i] {
            TokenTree::Punct(pc) if pc.as_char() == '$' => {
                match tts.get(i + 1) {
                    Some(TokenTree::Ident(id)) => v.push(id.to_string()),
                    Some(TokenTree::Group(g)) => v.extend(pattern_vars(&g.stream())),
                    _ => {},
                }
                i += 2;
            },
            TokenTree::Group(g) if g.delimiter() != Delimiter::None => {
                v.extend(pattern_vars(&g.stream()));
                i += 1;
            },
            _ => i += 1,
        }
    }
    v
}

fn impl_methods(im: &syn::ItemImpl) -> Vec<&syn::ImplItemFn> {
    im.items
        .iter()
        .filter_map(|i| if let syn::ImplItem::Fn(f) = i { Some(f) } else { None })
        .filter(|f| !has_cfg_test(&f.attrs))
        .collect()
}

fn math_impl(
    im: &syn::ItemImpl,
    src: &Source,
    reg: &Registry,
    math_order: &[(String, Option<syn::Block>, syn::Signature)],
    out: &mut Output,
    text: &mut String,
) {
    // impl Math<X> for S
    let tr = match &im.trait_ {
        Some((_, p, _)) => p,
        None => return,
    };
    let seg = tr.segments.last().unwrap();
    if seg.ident != "Math" {
        return;
    }
    let elem = match &seg.arguments {
        syn::PathArguments::AngleBracketed(ab) => tok(&ab.args[0]).replace(' ', ""),
        _ => return,
    };
    let strukt = tok(&im.self_ty).replace(' ', "");
    let prefix = format!("{strukt}_{elem}");
    let lt = lean_scalar(&elem);
    let methods = impl_methods(im);
    let mut have = vec![];
    for f in methods {
        let n = f.sig.ident.to_string();
        let spec = FnSpec {
            lean_name: format!("{prefix}.{n}"),
            sig: &f.sig,
            block: &f.block,
            file: src.rel.clone(),
            tyenv: TyEnv { self_reg: None, subst: vec![] },
            elem: Some(elem.clone()),
            self_struct: Some(strukt.clone()),
            self_mode: SelfMode::None,
            extra_params: vec![],
            implicit: vec![],
            pure_def: false,
        doc: format!("{}: `<{strukt} as Math<{elem}>>::{n}`", src.rel),
        };
        let r = translate_fn(reg, spec);
        out.errors.extend(r.errors);
        out.non_impl_intrinsics.extend(r.intrinsics.iter().cloned());
        out.items.push(format!("math:{prefix}.{n}"));
        text.push_str(&r.text);
        text.push('\n');
        have.push(n);
    }
    text.push_str(&format!("def {prefix} (E : Env) : Math {lt} where\n"));
    for (n, _, _) in math_order {
        if !have.contains(n) {
            out.errors.push(format!("{}: impl Math<{elem}> for {strukt} lacks `{n}`", src.rel));
            continue;
        }
        text.push_str(&format!("  {n} := {prefix}.{n} E\n"));
    }
    text.push('\n');
}

pub fn gen_math(
    root: &Path,
    reg: &mut Registry,
    math_order: &[(String, Option<syn::Block>, syn::Signature)],
    out: &mut Output,
) {
    let mut text = String::from("-- GENERATED by /verif/translator from /repo — do not edit.\n");
    text.push_str("import CfavmlModel.Prim.Traits\nimport CfavmlModel.Prim.Scalar\nset_option linter.unusedVariables false\nnamespace Cfavml\n\n");
    let files = ["cfavml/src/math/default.rs", "cfavml/src/math/fast_math.rs"];
    for rel in files {
        let src = match load(root, rel) {
            Ok(s) => s,
            Err(e) => {
                out.errors.push(e);
                continue;
            },
        };
        // free helper functions first (f32_sqrt_fast, f32_abs_fast)
        for it in &src.file.items {
            if let syn::Item::Fn(f) = it {
                if has_cfg_test(&f.attrs) {
                    continue;
                }
                let n = f.sig.ident.to_string();
                let env = TyEnv::default();
                reg.fns.insert(n.clone(), sig_of(&n, &n, &f.sig, &env));
            }
        }
        for it in &src.file.items {
            if let syn::Item::Fn(f) = it {
                if has_cfg_test(&f.attrs) {
                    continue;
                }
                let n = f.sig.ident.to_string();
                let spec = FnSpec {
                    lean_name: n.clone(),
                    sig: &f.sig,
                    block: &f.block,
                    file: src.rel.clone(),
                    tyenv: TyEnv::default(),
                    elem: None,
                    self_struct: None,
                    self_mode: SelfMode::None,
                    extra_params: vec![],
                    implicit: vec![],
                    pure_def: false,
        doc: format!("{}: `{n}`", src.rel),
                };
                let r = translate_fn(reg, spec);
                out.errors.extend(r.errors);
                out.non_impl_intrinsics.extend(r.intrinsics.iter().cloned());
                out.items.push(format!("mathfn:{n}"));
                text.push_str(&r.text);
                text.push('\n');
            }
        }
        // macro definitions
        let mut arms_by_macro: BTreeMap<String, Vec<MacroArm>> = BTreeMap::new();
        for it in &src.file.items {
            if let syn::Item::Macro(m) = it {
                if m.mac.path.is_ident("macro_rules") {
                    if let Some(id) = &m.ident {
                        arms_by_macro.insert(id.to_string(), macro_arms(m));
                    }
                }
            }
        }
        // float impls must come before the integer ones (int sqrt calls StdMath::<f64>::sqrt)
        for it in &src.file.items {
            if let syn::Item::Impl(im) = it {
                math_impl(im, &src, reg, math_order, out, &mut text);
            }
        }
        for it in &src.file.items {
            if let syn::Item::Macro(m) = it {
                let name = m.mac.path.segments.last().map(|s| s.ident.to_string()).unwrap_or_default();
                if let Some(arms) = arms_by_macro.get(&name) {
                    // invocation: `i8` or `unsigned u8`
                    let toks: Vec<TokenTree> = m.mac.tokens.clone().into_iter().collect();
                    let arm = arms.iter().find(|a| {
                        let pt: Vec<TokenTree> = a.pattern.clone().into_iter().collect();
                        // literal prefix tokens must match
                        let lit_prefix: Vec<String> = pt
                            .iter()
                            .take_while(|t| !matches!(t, TokenTree::Punct(p) if p.as_char() == '$'))
                            .map(|t| t.to_string())
                            .collect();
                        let inv_prefix: Vec<String> =
                            toks.iter().take(lit_prefix.len()).map(|t| t.to_string()).collect();
                        lit_prefix == inv_prefix && toks.len() == lit_prefix.len() + 1
                    });
                    let arm = match arm {
                        Some(a) => a,
                        None => {
                            out.errors.push(format!("{rel}: no arm of `{name}!` matches `{}`", m.mac.tokens));
                            continue;
                        },
                    };
                    let vars = pattern_vars(&arm.pattern);
                    let mut sub = BTreeMap::new();
                    let last = toks.last().unwrap().clone();
                    sub.insert(vars[0].clone(), TokenStream::from(last));
                    let body = substitute(arm.body.clone(), &sub);
                    match syn::parse2::<syn::File>(body) {
                        Ok(f) => {
                            for it in &f.items {
                                if let syn::Item::Impl(im) = it {
                                    math_impl(im, &src, reg, math_order, out, &mut text);
                                }
                            }
                        },
                        Err(e) => out.errors.push(format!("{rel}: cannot parse expansion of `{name}!`: {e}")),
                    }
                }
            }
        }
    }
    // AutoMath
    if let Ok(src) = load(root, "cfavml/src/math/mod.rs") {
        let mut alts: Vec<(Option<CfgPred>, String)> = vec![];
        for it in &src.file.items {
            if let syn::Item::Type(t) = it {
                if t.ident == "AutoMath" {
                    alts.push((cfg_of_attrs(&t.attrs), tok(&t.ty).replace(' ', "")));
                }
            }
        }
        for e in SCALARS {
            let lt = lean_scalar(e);
            text.push_str(&format!("def AutoMath_{e} (E : Env) : Math {lt} :=\n"));
            let mut s = String::new();
            for (k, (c, target)) in alts.iter().enumerate() {
                let last = k == alts.len() - 1;
                match (c, last) {
                    (Some(c), false) => s.push_str(&format!("  if {} then {target}_{e} E else\n", c.lean())),
                    _ => s.push_str(&format!("  {target}_{e} E\n")),
                }
            }
            text.push_str(&s);
            text.push('\n');
        }
        // record the cfg conditions as data so that the theorems can see them
        text.push_str("def autoMathAlternatives : List (String × String) := [\n");
        text.push_str(
            &alts
                .iter()
                .map(|(c, t)| format!("  (\"{}\", \"{t}\")", c.as_ref().map(|c| c.lean()).unwrap_or_default()))
                .collect::<Vec<_>>()
                .join(",\n"),
        );
        text.push_str("\n]\n\n");
    }
    text.push_str("end Cfavml\n");
    out.files.insert("Math.lean".into(), text);
}
