//! `#[cfg(..)]` / `cfg!(..)` predicates.
use quote::ToTokens;

#[derive(Clone, Debug, PartialEq, Eq, PartialOrd, Ord)]
pub enum CfgPred {
    Feature(String),
    TargetArch(String),
    TargetFeature(String),
    Flag(String), // test, miri, debug_assertions, docsrs, unix, cfavml_verif ...
    Not(Box<CfgPred>),
    Any(Vec<CfgPred>),
    All(Vec<CfgPred>),
}

pub fn parse_meta(m: &syn::Meta) -> Option<CfgPred> {
    match m {
        syn::Meta::Path(p) => Some(CfgPred::Flag(p.to_token_stream().to_string())),
        syn::Meta::NameValue(nv) => {
            let k = nv.path.to_token_stream().to_string();
            let v = nv.value.to_token_stream().to_string().trim_matches('"').to_string();
            Some(match k.as_str() {
                "feature" => CfgPred::Feature(v),
                "target_arch" => CfgPred::TargetArch(v),
                "target_feature" => CfgPred::TargetFeature(v),
                _ => CfgPred::Flag(format!("{k}={v}")),
            })
        },
        syn::Meta::List(l) => {
            let k = l.path.to_token_stream().to_string();
            let inner: Vec<syn::Meta> = l
                .parse_args_with(
                    syn::punctuated::Punctuated::<syn::Meta, syn::Token![,]>::parse_terminated,
                )
                .ok()?
                .into_iter()
                .collect();
            let ps: Option<Vec<CfgPred>> = inner.iter().map(parse_meta).collect();
            let ps = ps?;
            match k.as_str() {
                "not" => Some(CfgPred::Not(Box::new(ps.into_iter().next()?))),
                "any" => Some(CfgPred::Any(ps)),
                "all" => Some(CfgPred::All(ps)),
                _ => None,
            }
        },
    }
}

/// the conjunction of all `#[cfg(..)]` attributes
pub fn cfg_of_attrs(attrs: &[syn::Attribute]) -> Option<CfgPred> {
    let mut ps = vec![];
    for a in attrs {
        if a.path().is_ident("cfg") {
            if let syn::Meta::List(l) = &a.meta {
                if let Ok(inner) = l.parse_args::<syn::Meta>() {
                    if let Some(p) = parse_meta(&inner) {
                        ps.push(p);
                    }
                }
            }
        }
    }
    match ps.len() {
        0 => None,
        1 => Some(ps.pop().unwrap()),
        _ => Some(CfgPred::All(ps)),
    }
}

pub fn parse_cfg_macro(tokens: proc_macro2::TokenStream) -> Option<CfgPred> {
    let m: syn::Meta = syn::parse2(tokens).ok()?;
    parse_meta(&m)
}

impl CfgPred {
    /// Partial evaluation. The translation target is fixed: x86_64, not test, not miri.
    pub fn eval(&self, facts: &[(CfgPred, bool)]) -> Option<bool> {
        if let Some((_, b)) = facts.iter().find(|(p, _)| p == self) {
            return Some(*b);
        }
        match self {
            CfgPred::TargetArch(a) => Some(a == "x86_64"),
            CfgPred::Flag(f) => match f.as_str() {
                "test" | "miri" | "docsrs" | "cfavml_verif" => Some(false),
                "unix" => Some(true),
                _ => None,
            },
            CfgPred::Feature(_) | CfgPred::TargetFeature(_) => None,
            CfgPred::Not(p) => p.eval(facts).map(|b| !b),
            CfgPred::Any(ps) => {
                let vs: Vec<Option<bool>> = ps.iter().map(|p| p.eval(facts)).collect();
                if vs.iter().any(|v| *v == Some(true)) {
                    Some(true)
                } else if vs.iter().all(|v| *v == Some(false)) {
                    Some(false)
                } else {
                    None
                }
            },
            CfgPred::All(ps) => {
                let vs: Vec<Option<bool>> = ps.iter().map(|p| p.eval(facts)).collect();
                if vs.iter().any(|v| *v == Some(false)) {
                    Some(false)
                } else if vs.iter().all(|v| *v == Some(true)) {
                    Some(true)
                } else {
                    None
                }
            },
        }
    }

    /// Lean Bool expression over `E : Env`
    pub fn lean(&self) -> String {
        match self {
            CfgPred::Feature(f) => format!("E.feat_{}", f.replace('-', "_")),
            CfgPred::TargetArch(a) => format!("E.arch_{a}"),
            CfgPred::TargetFeature(f) => format!("E.tf_{}", f.replace('.', "_")),
            CfgPred::Flag(f) => match f.as_str() {
                "debug_assertions" => "E.debugAssertions".to_string(),
                other => format!("E.flag_{}", other.replace('=', "_")),
            },
            CfgPred::Not(p) => format!("(!{})", p.lean()),
            CfgPred::Any(ps) => format!(
                "({})",
                ps.iter().map(|p| p.lean()).collect::<Vec<_>>().join(" || ")
            ),
            CfgPred::All(ps) => format!(
                "({})",
                ps.iter().map(|p| p.lean()).collect::<Vec<_>>().join(" && ")
            ),
        }
    }

    /// Lean data term (`Cfg` inductive) for tables
    pub fn lean_data(&self) -> String {
        fn id(s: &str) -> String {
            s.replace('-', "_").replace('.', "_").replace('=', "_")
        }
        match self {
            CfgPred::Feature(f) => format!("(.feature .{})", id(f)),
            CfgPred::TargetArch(a) => format!("(.targetArch .{})", id(a)),
            CfgPred::TargetFeature(f) => format!("(.targetFeature .{})", id(f)),
            CfgPred::Flag(f) => format!("(.flag .{})", id(f)),
            CfgPred::Not(p) => format!("(.not {})", p.lean_data()),
            CfgPred::Any(ps) => format!(
                "(.any [{}])",
                ps.iter().map(|p| p.lean_data()).collect::<Vec<_>>().join(", ")
            ),
            CfgPred::All(ps) => format!(
                "(.all [{}])",
                ps.iter().map(|p| p.lean_data()).collect::<Vec<_>>().join(", ")
            ),
        }
    }
}
