//! Expression translation: every expression becomes a pure Lean term; monadic sub-computations
//! are emitted as `let tN ← ..` lines before it (Rust evaluation order, left to right).
use quote::ToTokens;
use syn::spanned::Spanned;

use crate::body::*;
use crate::ty::*;

fn tok(t: &impl ToTokens) -> String {
    t.to_token_stream().to_string()
}

pub fn path_str(p: &syn::Path) -> String {
    p.to_token_stream().to_string().replace(' ', "")
}

fn lit_digits(l: &syn::LitInt) -> String {
    // keep hex/binary literals readable; Lean accepts 0x.. and 0b.. but not `_` separators
    let s = l.to_string();
    let suffix = l.suffix();
    let body = &s[..s.len() - suffix.len()];
    body.replace('_', "")
}

impl<'a> Ctx<'a> {
    pub fn scalar_lit(&mut self, ty: &str, digits: &str) -> String {
        format!("({}.lit {})", lean_scalar(ty), digits)
    }

    /// cheap type inference that emits nothing
    pub fn peek_ty(&self, e: &syn::Expr) -> Ty {
        match e {
            syn::Expr::Path(p) => {
                let s = path_str(&p.path);
                if let Some(v) = self.lookup(&s) {
                    return v.ty.clone();
                }
                if self.consts.contains(&s) {
                    return Ty::Usize;
                }
                if let Some((t, _c)) = s.split_once("::") {
                    let t = self.subst_name(t);
                    if is_concrete_scalar(&t) {
                        return Ty::Scalar(t);
                    }
                }
                Ty::Unknown
            },
            syn::Expr::Lit(l) => match &l.lit {
                syn::Lit::Int(i) => match i.suffix() {
                    "" => Ty::Unknown,
                    "usize" => Ty::Usize,
                    s => Ty::Scalar(s.to_string()),
                },
                syn::Lit::Float(f) => match f.suffix() {
                    "" => Ty::Unknown,
                    s => Ty::Scalar(s.to_string()),
                },
                syn::Lit::Bool(_) => Ty::Bool,
                _ => Ty::Unknown,
            },
            syn::Expr::Cast(c) => conv_type(&c.ty, &self.tyenv),
            syn::Expr::Paren(p) => self.peek_ty(&p.expr),
            syn::Expr::Reference(r) => self.peek_ty(&r.expr),
            syn::Expr::Group(g) => self.peek_ty(&g.expr),
            syn::Expr::Field(f) => match self.peek_ty(&f.base) {
                Ty::Dense(t) | Ty::Dense4(t) => *t,
                _ => Ty::Unknown,
            },
            syn::Expr::Index(i) => match self.peek_ty(&i.expr) {
                Ty::Array(t, _) => *t,
                _ => Ty::Unknown,
            },
            syn::Expr::Unary(u) => match u.op {
                syn::UnOp::Deref(_) => {
                    if let syn::Expr::MethodCall(m) = &*u.expr {
                        if m.method == "get_unchecked" {
                            if let Ty::Slice(t) | Ty::MutSlice(t) = self.peek_ty(&m.receiver) {
                                return *t;
                            }
                        }
                    }
                    Ty::Unknown
                },
                _ => self.peek_ty(&u.expr),
            },
            syn::Expr::MethodCall(m) => {
                let name = m.method.to_string();
                match name.as_str() {
                    "len" => Ty::Usize,
                    "to_bits" => match self.peek_ty(&m.receiver) {
                        Ty::Scalar(s) if s == "f64" => Ty::Scalar("u64".into()),
                        _ => Ty::Scalar("u32".into()),
                    },
                    "max" | "min" | "wrapping_add" | "wrapping_sub" | "wrapping_mul"
                    | "wrapping_div" | "abs" | "sqrt" => {
                        let t = self.peek_ty(&m.receiver);
                        if t == Ty::Unknown && !m.args.is_empty() {
                            self.peek_ty(&m.args[0])
                        } else {
                            t
                        }
                    },
                    _ => Ty::Unknown,
                }
            },
            syn::Expr::Binary(b) => {
                use syn::BinOp::*;
                match b.op {
                    Lt(_) | Le(_) | Gt(_) | Ge(_) | Eq(_) | Ne(_) | And(_) | Or(_) => Ty::Bool,
                    _ => {
                        let l = self.peek_ty(&b.left);
                        if l != Ty::Unknown {
                            l
                        } else {
                            self.peek_ty(&b.right)
                        }
                    },
                }
            },
            syn::Expr::Call(c) => self.peek_call_ty(c),
            syn::Expr::Macro(m) => {
                let n = m.mac.path.segments.last().map(|s| s.ident.to_string()).unwrap_or_default();
                if n == "cfg" || n == "is_x86_feature_detected" {
                    Ty::Bool
                } else {
                    Ty::Unknown
                }
            },
            _ => Ty::Unknown,
        }
    }

    pub fn subst_name(&self, t: &str) -> String {
        for (k, v) in &self.tyenv.subst {
            if k == t {
                if let Ty::Scalar(s) = v {
                    return s.clone();
                }
            }
        }
        t.to_string()
    }

    /// Translate an expression. Returns (pure Lean term, type).
    pub fn expr(&mut self, e: &syn::Expr, expected: Option<&Ty>, out: &mut Out) -> (String, Ty) {
        match e {
            syn::Expr::Paren(p) => self.expr(&p.expr, expected, out),
            syn::Expr::Group(g) => self.expr(&g.expr, expected, out),
            syn::Expr::Reference(r) => self.expr(&r.expr, expected, out),
            syn::Expr::Lit(l) => self.lit(l, expected),
            syn::Expr::Path(p) => self.path_expr(p, expected),
            syn::Expr::Binary(b) => self.binary(b, expected, out),
            syn::Expr::Unary(u) => self.unary(u, expected, out),
            syn::Expr::Cast(c) => {
                let to = conv_type(&c.ty, &self.tyenv);
                let from_peek = self.peek_ty(&c.expr);
                // an unsuffixed literal cast takes the target type directly
                if from_peek == Ty::Unknown {
                    if let syn::Expr::Lit(_) = &*c.expr {
                        return self.expr(&c.expr, Some(&to), out);
                    }
                }
                let (v, from) = self.expr(&c.expr, None, out);
                match (&from, &to) {
                    (a, b) if a == b => (v, to),
                    (Ty::Scalar(a), Ty::Scalar(b)) => {
                        (format!("({}.as_{} E {v})", lean_scalar(a), b), to.clone())
                    },
                    (Ty::Usize, Ty::Scalar(b)) => (format!("(Usize.as_{b} E {v})"), to.clone()),
                    (Ty::Scalar(a), Ty::Usize) => {
                        (format!("({}.as_usize E {v})", lean_scalar(a)), to.clone())
                    },
                    _ => {
                        self.err(e.span(), format!("unsupported cast {:?} -> {:?}", from, to));
                        (v, to)
                    },
                }
            },
            syn::Expr::Field(f) => {
                let (b, bty) = self.expr(&f.base, None, out);
                let fname = tok(&f.member);
                let ty = match bty {
                    Ty::Dense(t) | Ty::Dense4(t) => *t,
                    _ => Ty::Unknown,
                };
                (format!("{b}.{fname}"), ty)
            },
            syn::Expr::Index(ix) => {
                let (b, bty) = self.expr(&ix.expr, None, out);
                let (i, _) = self.expr(&ix.index, Some(&Ty::Usize), out);
                let ety = match bty {
                    Ty::Array(t, _) => *t,
                    _ => Ty::Unknown,
                };
                let t = self.fresh();
                out.push(format!("let {t} ← arrGet {b} {i}"));
                (t, ety)
            },
            syn::Expr::MethodCall(m) => self.method_call(m, expected, out),
            syn::Expr::Call(c) => self.call(c, expected, out),
            syn::Expr::Macro(m) => self.expr_macro(m, expected, out),
            syn::Expr::Struct(s) => self.struct_lit(s, out),
            syn::Expr::Repeat(r) => {
                let n = tok(&r.len).parse::<usize>().unwrap_or(0);
                let ety = match expected {
                    Some(Ty::Array(t, _)) => Some((**t).clone()),
                    _ => None,
                };
                let (v, t) = self.expr(&r.expr, ety.as_ref(), out);
                (format!("(Slice.replicate {n} {v})"), Ty::Array(Box::new(t), n))
            },
            syn::Expr::Unsafe(u) => self.block_value(&u.block, expected, out),
            syn::Expr::Block(b) => self.block_value(&b.block, expected, out),
            syn::Expr::If(i) => self.if_value(i, expected, out),
            _ => {
                self.err(e.span(), format!("unsupported expression `{}`", tok(e)));
                ("sorry_unsupported".into(), Ty::Unknown)
            },
        }
    }

    fn block_value(
        &mut self,
        b: &syn::Block,
        expected: Option<&Ty>,
        out: &mut Out,
    ) -> (String, Ty) {
        if b.stmts.len() == 1 {
            if let syn::Stmt::Expr(e, None) = &b.stmts[0] {
                return self.expr(e, expected, out);
            }
        }
        self.err(b.span(), "block used as a value must be a single expression");
        ("sorry_unsupported".into(), Ty::Unknown)
    }

    /// `if c { a } else { b }` as a value, both branches single expressions
    fn if_value(&mut self, i: &syn::ExprIf, expected: Option<&Ty>, out: &mut Out) -> (String, Ty) {
        let c = self.cond_expr(&i.cond, out);
        let t = self.fresh();
        out.push(format!("let {t} ← if {c} then do"));
        out.ind += 2;
        let (a, aty) = self.block_value(&i.then_branch, expected, out);
        out.push(format!("pure {a}"));
        out.ind -= 1;
        out.push("else do");
        out.ind += 1;
        let mut ty = aty;
        match &i.else_branch {
            Some((_, el)) => {
                let (b, bty) = match &**el {
                    syn::Expr::Block(b) => self.block_value(&b.block, expected, out),
                    other => self.expr(other, expected, out),
                };
                if ty == Ty::Unknown {
                    ty = bty;
                }
                out.push(format!("pure {b}"));
            },
            None => self.err(i.span(), "if-value without else"),
        }
        out.ind -= 2;
        (t, ty)
    }

    fn lit(&mut self, l: &syn::ExprLit, expected: Option<&Ty>) -> (String, Ty) {
        match &l.lit {
            syn::Lit::Int(i) => {
                let digits = lit_digits(i);
                let ty = match i.suffix() {
                    "" => match expected {
                        Some(Ty::Scalar(s)) => Ty::Scalar(s.clone()),
                        _ => Ty::Usize,
                    },
                    "usize" => Ty::Usize,
                    s => Ty::Scalar(s.to_string()),
                };
                match &ty {
                    Ty::Usize => (digits, ty),
                    Ty::Scalar(s) => {
                        let s = s.clone();
                        (self.scalar_lit(&s, &digits), ty)
                    },
                    _ => unreachable!(),
                }
            },
            syn::Lit::Float(f) => {
                let ty = match f.suffix() {
                    "" => match expected {
                        Some(Ty::Scalar(s)) => s.clone(),
                        _ => "f64".to_string(),
                    },
                    s => s.to_string(),
                };
                let body = f.to_string();
                let body = body.trim_end_matches(f.suffix());
                let name = match body {
                    "0.0" => "zero",
                    "1.0" => "one",
                    _ => {
                        self.err(l.span(), format!("unsupported float literal {body}"));
                        "zero"
                    },
                };
                (format!("{}.{name}", lean_scalar(&ty)), Ty::Scalar(ty))
            },
            syn::Lit::Bool(b) => (format!("{}", b.value), Ty::Bool),
            syn::Lit::Str(s) => (format!("\"{}\"", s.value()), Ty::Str),
            _ => {
                self.err(l.span(), "unsupported literal");
                ("sorry_unsupported".into(), Ty::Unknown)
            },
        }
    }

    fn path_expr(&mut self, p: &syn::ExprPath, _expected: Option<&Ty>) -> (String, Ty) {
        let s = path_str(&p.path);
        if let Some(v) = self.lookup(&s) {
            let v = v.clone();
            if let VarKind::Ptr { .. } = v.kind {
                self.err(p.span(), format!("pointer `{s}` used as a value"));
            }
            return (s, v.ty);
        }
        if self.consts.contains(&s) {
            return (s, Ty::Usize);
        }
        if s.starts_with("DenseLane::") && s.ends_with("::NUM_LANES") {
            return ("DenseLane.NUM_LANES".into(), Ty::Usize);
        }
        if let Some((t, c)) = s.split_once("::") {
            let t = self.subst_name(t);
            if is_concrete_scalar(&t) {
                return (format!("{}.{c}", lean_scalar(&t)), Ty::Scalar(t));
            }
            if t == "usize" && c == "MAX" {
                return ("(usizeMod - 1)".into(), Ty::Usize);
            }
        }
        self.err(p.span(), format!("unknown path `{s}`"));
        ("sorry_unsupported".into(), Ty::Unknown)
    }

    /// arithmetic on two already-translated operands of type `ty`
    pub fn arith(
        &mut self,
        op: &str,
        l: &str,
        r: &str,
        ty: &Ty,
        sp: proc_macro2::Span,
        out: &mut Out,
    ) -> String {
        match ty {
            Ty::Usize | Ty::Unknown => match op {
                "+" => format!("({l} + {r})"),
                "-" => {
                    let t = self.fresh();
                    out.push(format!("let {t} ← usub E {l} {r}"));
                    t
                },
                "*" => {
                    let t = self.fresh();
                    out.push(format!("let {t} ← umul E {l} {r}"));
                    t
                },
                "/" => {
                    let t = self.fresh();
                    out.push(format!("let {t} ← udiv {l} {r}"));
                    t
                },
                "%" => {
                    let t = self.fresh();
                    out.push(format!("let {t} ← umod {l} {r}"));
                    t
                },
                // bit operations on `usize` values are the operations on the natural numbers they denote
                "&" => format!("({l} &&& {r})"),
                "|" => format!("({l} ||| {r})"),
                "^" => format!("({l} ^^^ {r})"),
                ">>" => format!("({l} >>> {r})"),
                _ => {
                    self.err(sp, format!("unsupported usize operator {op}"));
                    "sorry_unsupported".into()
                },
            },
            Ty::Scalar(s) => {
                let name = match op {
                    "+" => "add",
                    "-" => "sub",
                    "*" => "mul",
                    "/" => "div",
                    "%" => "rem",
                    "<<" => "shl",
                    ">>" => "shr",
                    "&" => "and",
                    "|" => "or",
                    "^" => "xor",
                    _ => {
                        self.err(sp, format!("unsupported scalar operator {op}"));
                        "add"
                    },
                };
                format!("({}.{name} E {l} {r})", lean_scalar(s))
            },
            _ => {
                self.err(sp, format!("arithmetic on unsupported type {:?}", ty));
                "sorry_unsupported".into()
            },
        }
    }

    fn binary(&mut self, b: &syn::ExprBinary, expected: Option<&Ty>, out: &mut Out) -> (String, Ty) {
        use syn::BinOp::*;
        // short-circuit operators
        if let And(_) | Or(_) = b.op {
            let is_and = matches!(b.op, And(_));
            let (l, _) = self.expr(&b.left, Some(&Ty::Bool), out);
            let mut sub = Out::new(out.ind + 2);
            let (r, _) = self.expr(&b.right, Some(&Ty::Bool), &mut sub);
            if sub.lines.is_empty() {
                return (format!("({l} {} {r})", if is_and { "&&" } else { "||" }), Ty::Bool);
            }
            let t = self.fresh();
            if is_and {
                out.push(format!("let {t} ← if {l} then do"));
                out.lines.extend(sub.lines);
                out.ind += 2;
                out.push(format!("pure {r}"));
                out.ind -= 1;
                out.push("else pure false");
                out.ind -= 1;
            } else {
                out.push(format!("let {t} ← if {l} then pure true else do"));
                out.lines.extend(sub.lines);
                out.ind += 2;
                out.push(format!("pure {r}"));
                out.ind -= 2;
            }
            return (t, Ty::Bool);
        }
        let is_cmp = matches!(b.op, Lt(_) | Le(_) | Gt(_) | Ge(_) | Eq(_) | Ne(_));
        let is_shift = matches!(b.op, Shl(_) | Shr(_));
        // operand type
        let mut oty = self.peek_ty(&b.left);
        if oty == Ty::Unknown {
            oty = self.peek_ty(&b.right);
        }
        if oty == Ty::Unknown && !is_cmp {
            if let Some(t) = expected {
                oty = t.clone();
            }
        }
        if oty == Ty::Unknown {
            oty = Ty::Usize;
        }
        let (l, lty) = self.expr(&b.left, Some(&oty), out);
        let rexp = if is_shift { Ty::Scalar("u32".into()) } else { oty.clone() };
        let (r, _) = self.expr(&b.right, Some(&rexp), out);
        let oty = if lty != Ty::Unknown { lty } else { oty };
        if is_cmp {
            let v = match &oty {
                Ty::Usize => match b.op {
                    Lt(_) => format!("(decide ({l} < {r}))"),
                    Le(_) => format!("(decide ({l} ≤ {r}))"),
                    Gt(_) => format!("(decide ({l} > {r}))"),
                    Ge(_) => format!("(decide ({l} ≥ {r}))"),
                    Eq(_) => format!("(decide ({l} = {r}))"),
                    _ => format!("(decide ({l} ≠ {r}))"),
                },
                Ty::Scalar(s) => {
                    let n = match b.op {
                        Lt(_) => "lt",
                        Le(_) => "le",
                        Gt(_) => "gt",
                        Ge(_) => "ge",
                        Eq(_) => "eq",
                        _ => "ne",
                    };
                    format!("({}.{n} E {l} {r})", lean_scalar(s))
                },
                Ty::Bool => match b.op {
                    Eq(_) => format!("({l} == {r})"),
                    _ => format!("({l} != {r})"),
                },
                Ty::TypeIdTy => match b.op {
                    Eq(_) => format!("({l} == {r})"),
                    _ => format!("({l} != {r})"),
                },
                _ => {
                    self.err(b.span(), format!("comparison on unsupported type {:?}", oty));
                    "sorry_unsupported".into()
                },
            };
            return (v, Ty::Bool);
        }
        let op = match b.op {
            Add(_) => "+",
            Sub(_) => "-",
            Mul(_) => "*",
            Div(_) => "/",
            Rem(_) => "%",
            Shl(_) => "<<",
            Shr(_) => ">>",
            BitAnd(_) => "&",
            BitOr(_) => "|",
            BitXor(_) => "^",
            _ => {
                self.err(b.span(), "unsupported binary operator");
                "+"
            },
        };
        let v = self.arith(op, &l, &r, &oty, b.span(), out);
        (v, oty)
    }

    fn unary(&mut self, u: &syn::ExprUnary, expected: Option<&Ty>, out: &mut Out) -> (String, Ty) {
        match u.op {
            syn::UnOp::Deref(_) => {
                if let syn::Expr::MethodCall(m) = &*u.expr {
                    if m.method == "get_unchecked" && m.args.len() == 1 {
                        let (s, sty) = self.expr(&m.receiver, None, out);
                        let (i, _) = self.expr(&m.args[0], Some(&Ty::Usize), out);
                        let ety = match sty {
                            Ty::Slice(t) | Ty::MutSlice(t) => *t,
                            _ => Ty::Unknown,
                        };
                        let t = self.fresh();
                        out.push(format!("let {t} ← Slice.read {s} {i}"));
                        return (t, ety);
                    }
                }
                // `*b` of a by-reference closure/iterator variable: not supported
                self.err(u.span(), format!("unsupported dereference `{}`", tok(u)));
                ("sorry_unsupported".into(), Ty::Unknown)
            },
            syn::UnOp::Not(_) => {
                let (v, ty) = self.expr(&u.expr, expected, out);
                match &ty {
                    Ty::Bool => (format!("(!{v})"), ty),
                    Ty::Scalar(s) => (format!("({}.not E {v})", lean_scalar(s)), ty),
                    _ => {
                        self.err(u.span(), "unsupported `!` operand");
                        (v, ty)
                    },
                }
            },
            syn::UnOp::Neg(_) => {
                let (v, ty) = self.expr(&u.expr, expected, out);
                match &ty {
                    Ty::Scalar(s) => (format!("({}.neg E {v})", lean_scalar(s)), ty),
                    _ => {
                        self.err(u.span(), "unsupported negation operand");
                        (v, ty)
                    },
                }
            },
            _ => {
                self.err(u.span(), "unsupported unary operator");
                ("sorry_unsupported".into(), Ty::Unknown)
            },
        }
    }

    fn struct_lit(&mut self, s: &syn::ExprStruct, out: &mut Out) -> (String, Ty) {
        let name = s.path.segments.last().map(|x| x.ident.to_string()).unwrap_or_default();
        if name != "DenseLane" && name != "Dense4x4Lane" {
            self.err(s.span(), format!("unsupported struct literal `{name}`"));
            return ("sorry_unsupported".into(), Ty::Unknown);
        }
        let mut fields = vec![];
        let mut fty = Ty::Unknown;
        for f in &s.fields {
            let (v, t) = self.expr(&f.expr, None, out);
            if fty == Ty::Unknown {
                fty = t;
            }
            fields.push(format!("{} := {v}", tok(&f.member)));
        }
        let lean_name = name;
        let ty = if lean_name == "DenseLane" {
            Ty::Dense(Box::new(fty))
        } else {
            Ty::Dense4(Box::new(fty))
        };
        (format!("({{ {} }} : {lean_name} _)", fields.join(", ")), ty)
    }

    /// Symbolic pointer expressions: `x.as_ptr()`, `p.add(i)`, `p.cast()`, a pointer variable.
    /// Returns (base slice variable, offset term, pointer type).
    pub fn ptr_expr(&mut self, e: &syn::Expr, out: &mut Out) -> Option<(String, Option<String>, Ty)> {
        match e {
            syn::Expr::Paren(p) => self.ptr_expr(&p.expr, out),
            syn::Expr::Path(p) => {
                let s = path_str(&p.path);
                let v = self.lookup(&s)?.clone();
                match (&v.kind, &v.ty) {
                    (VarKind::Ptr { base, off }, ty) => Some((base.clone(), off.clone(), ty.clone())),
                    _ => None,
                }
            },
            syn::Expr::MethodCall(m) => {
                let name = m.method.to_string();
                match name.as_str() {
                    "as_ptr" | "as_mut_ptr" => {
                        let base = tok(&m.receiver);
                        let v = self.lookup(&base)?.clone();
                        match v.ty {
                            Ty::Slice(t) => Some((base, None, Ty::ConstPtr(t))),
                            Ty::MutSlice(t) => {
                                if name == "as_ptr" {
                                    Some((base, None, Ty::ConstPtr(t)))
                                } else {
                                    Some((base, None, Ty::MutPtr(t)))
                                }
                            },
                            _ => None,
                        }
                    },
                    "add" if m.args.len() == 1 => {
                        let (base, off, ty) = self.ptr_expr(&m.receiver, out)?;
                        let (i, _) = self.expr(&m.args[0], Some(&Ty::Usize), out);
                        let noff = match off {
                            None => i,
                            Some(o) => format!("({o} + {i})"),
                        };
                        Some((base, Some(noff), ty))
                    },
                    "cast" => self.ptr_expr(&m.receiver, out),
                    _ => None,
                }
            },
            _ => None,
        }
    }
}
