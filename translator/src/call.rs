//! Calls, method calls and expression macros.
use quote::ToTokens;
use syn::spanned::Spanned;

use crate::body::*;
use crate::cfgpred::*;
use crate::expr::path_str;
use crate::ty::*;

fn tok(t: &impl ToTokens) -> String {
    t.to_token_stream().to_string()
}

/// How a call target was resolved.
enum Target {
    /// Lean head (already including `E` and dictionary arguments) and the signature
    Fn { head: String, sig: Sig, monadic: bool },
}

/// aarch64 NEON intrinsics the source may use: `v<op>q_<ty>` (quad-register forms) and the across-lane `v<op>vq_<ty>`
pub fn is_neon_intrinsic(name: &str) -> bool {
    neon_suffix_scalar(name).is_some()
        && name.starts_with('v')
        && (name.contains("q_"))
        && !name.starts_with("value")
}

/// element type named by a NEON intrinsic's suffix (`_f32`, `_s8`, `_u64`, ...)
pub fn neon_suffix_scalar(name: &str) -> Option<&'static str> {
    let suf = name.rsplit('_').next()?;
    Some(match suf {
        "f32" => "f32",
        "f64" => "f64",
        "s8" => "i8",
        "s16" => "i16",
        "s32" => "i32",
        "s64" => "i64",
        "u8" => "u8",
        "u16" => "u16",
        "u32" => "u32",
        "u64" => "u64",
        _ => return None,
    })
}

pub fn intrinsic_ret_ty(name: &str) -> Ty {
    let scalar = |s: &str| Ty::Scalar(s.to_string());
    if is_neon_intrinsic(name) {
        if name.starts_with("vst1q_") {
            return Ty::Unit;
        }
        // across-lane reductions return the element type
        if name.starts_with("vaddvq_") || name.starts_with("vmaxvq_") || name.starts_with("vminvq_") {
            return scalar(neon_suffix_scalar(name).unwrap());
        }
        return Ty::Reg(128);
    }
    if name == "_mm_cvtss_f32" {
        return scalar("f32");
    }
    if name == "_mm_cvtsd_f64" {
        return scalar("f64");
    }
    if name.contains("_reduce_") {
        return if name.ends_with("_ps") {
            scalar("f32")
        } else if name.ends_with("_pd") {
            scalar("f64")
        } else if name.ends_with("epi32") {
            scalar("i32")
        } else if name.ends_with("epi64") {
            scalar("i64")
        } else if name.ends_with("epu32") {
            scalar("u32")
        } else {
            scalar("u64")
        };
    }
    if name.contains("storeu") {
        return Ty::Unit;
    }
    // narrowing casts / extracts
    if name.starts_with("_mm256_cast") && name.ends_with("128") {
        return Ty::Reg(128);
    }
    if name.starts_with("_mm256_extract") {
        return Ty::Reg(128);
    }
    if name.starts_with("_mm512_cast") && name.ends_with("256") {
        return Ty::Reg(256);
    }
    if name.starts_with("_mm512_") {
        Ty::Reg(512)
    } else if name.starts_with("_mm256_") {
        Ty::Reg(256)
    } else {
        Ty::Reg(128)
    }
}

impl<'a> Ctx<'a> {
    fn generic_arg_strings(&self, seg: &syn::PathSegment) -> Vec<syn::GenericArgument> {
        match &seg.arguments {
            syn::PathArguments::AngleBracketed(ab) => ab.args.iter().cloned().collect(),
            _ => vec![],
        }
    }

    /// instance term for a register struct at an element type, e.g. `(Avx2_f32.inst E)`
    pub fn reg_instance(&self, strukt: &str, elem: &str) -> String {
        if strukt == "Fallback" {
            format!("(Fallback.inst E {})", self.math_instance("AutoMath", elem))
        } else {
            format!("({}_{}.inst E)", strukt, elem)
        }
    }

    pub fn math_instance(&self, strukt: &str, elem: &str) -> String {
        if !is_concrete_scalar(elem) {
            // generic element type: the only dictionary available is the `AM` parameter
            return "AM".to_string();
        }
        format!("({}_{} E)", strukt, elem)
    }

    fn sig_with_self(&self, sig: &Sig) -> Sig {
        // substitute GenReg by the enclosing Self::Register and Scalar("T") by the element type
        let mut s = sig.clone();
        let sub = |t: &Ty, me: &Ctx| -> Ty { me.subst_ty(t) };
        s.ret = sub(&s.ret, self);
        for p in s.params.iter_mut() {
            p.1 = sub(&p.1, self);
        }
        s
    }

    pub fn subst_ty(&self, t: &Ty) -> Ty {
        match t {
            Ty::GenReg => self.tyenv.self_reg.clone().unwrap_or(Ty::GenReg),
            Ty::Scalar(s) if s == "T" => match &self.elem {
                Some(e) => Ty::Scalar(e.clone()),
                None => t.clone(),
            },
            Ty::Dense(x) => Ty::Dense(Box::new(self.subst_ty(x))),
            Ty::Dense4(x) => Ty::Dense4(Box::new(self.subst_ty(x))),
            Ty::Slice(x) => Ty::Slice(Box::new(self.subst_ty(x))),
            Ty::MutSlice(x) => Ty::MutSlice(Box::new(self.subst_ty(x))),
            Ty::ConstPtr(x) => Ty::ConstPtr(Box::new(self.subst_ty(x))),
            Ty::MutPtr(x) => Ty::MutPtr(Box::new(self.subst_ty(x))),
            other => other.clone(),
        }
    }

    fn trait_sig(&self, method: &str) -> Option<Sig> {
        self.reg
            .simd_methods
            .get(method)
            .or_else(|| self.reg.transpose_methods.get(method))
            .cloned()
    }

    /// signature of a trait method of *another* impl (register types differ from Self)
    fn other_impl_sig(&self, strukt: &str, elem: &str, method: &str) -> Option<Sig> {
        let mut s = self.trait_sig(method)?;
        let bits = match strukt {
            "Avx2" | "Avx2Fma" => 256,
            "Avx512" => 512,
            "Neon" => 128,
            _ => 0,
        };
        let reg = if bits == 0 { Ty::Scalar(elem.to_string()) } else { Ty::Reg(bits) };
        fn sub(t: &Ty, reg: &Ty, elem: &str) -> Ty {
            match t {
                Ty::GenReg => reg.clone(),
                Ty::Scalar(s) if s == "T" => Ty::Scalar(elem.to_string()),
                Ty::Dense(x) => Ty::Dense(Box::new(sub(x, reg, elem))),
                Ty::ConstPtr(x) => Ty::ConstPtr(Box::new(sub(x, reg, elem))),
                Ty::MutPtr(x) => Ty::MutPtr(Box::new(sub(x, reg, elem))),
                o => o.clone(),
            }
        }
        s.ret = sub(&s.ret, &reg, elem);
        for p in s.params.iter_mut() {
            p.1 = sub(&p.1, &reg, elem);
        }
        Some(s)
    }

    fn resolve_call(&mut self, func: &syn::Expr, args: &[syn::Expr], out: &mut Out) -> Option<Target> {
        let p = match func {
            syn::Expr::Path(p) => p,
            _ => return None,
        };
        // <X as SimdRegister<T>>::m
        if let Some(q) = &p.qself {
            let strukt = tok(&q.ty).replace(' ', "");
            let method = p.path.segments.last()?.ident.to_string();
            let trait_seg = &p.path.segments[0];
            let elem = self
                .generic_arg_strings(trait_seg)
                .first()
                .map(|a| self.subst_name(&tok(a).replace(' ', "")))
                .or(self.elem.clone())?;
            return self.resolve_method_of(&strukt, &elem, &method);
        }
        let segs: Vec<String> = p.path.segments.iter().map(|s| s.ident.to_string()).collect();
        let last_seg = p.path.segments.last()?;
        let name = segs.last()?.clone();
        // `core::cmp::max(a, b)` / `core::cmp::min(a, b)` on integers: `Ord::max` / `Ord::min`
        if segs.len() == 3 && segs[0] == "core" && segs[1] == "cmp" && (name == "max" || name == "min") {
            if let Some(Ty::Scalar(ety)) = args.first().map(|a| self.peek_ty(a)) {
                if is_concrete_scalar(&ety) && !ety.starts_with('f') {
                    let pty = Ty::Scalar(ety.clone());
                    let sig = Sig {
                        lean_name: name.clone(),
                        generics: vec![],
                        params: args.iter().enumerate().map(|(k, _)| (format!("a{k}"), pty.clone())).collect(),
                        ret: pty.clone(),
                        takes_env: true,
                        pure_fn: true,
                    };
                    return Some(Target::Fn { head: format!("{}.{name} E", lean_scalar(&ety)), sig, monadic: false });
                }
            }
        }
        if segs.len() == 2 {
            let head = segs[0].clone();
            // dictionaries in scope
            if let Some(g) = self.dicts.get(&head).cloned() {
                match g {
                    Generic::Reg(_) => {
                        let sig = self.trait_sig(&name)?;
                        self.calls.insert(("R".to_string(), "T".to_string(), name.clone()));
                        if self.reg.transpose_methods.contains_key(&name) && !self.reg.simd_methods.contains_key(&name) {
                            if !self.has_rt {
                                self.err(func.span(), "TransposeMatrix method called without a TransposeMatrix bound");
                            }
                            return Some(Target::Fn { head: format!("RT.{name}"), sig, monadic: true });
                        }
                        return Some(Target::Fn { head: format!("{head}.{name}"), sig, monadic: true });
                    },
                    Generic::Math(_) => {
                        let sig = self.reg.math_methods.get(&name)?.clone();
                        return Some(Target::Fn { head: format!("{head}.{name}"), sig, monadic: true });
                    },
                    _ => {},
                }
            }
            if head == "Self" {
                let strukt = self.self_struct.clone().unwrap_or_else(|| "Self".into());
                let elem = self.elem.clone().unwrap_or_else(|| "T".into());
                return self.resolve_method_of(&strukt, &elem, &name);
            }
            if self.reg.reg_structs.contains_key(&head) {
                let elem = self.elem.clone()?;
                return self.resolve_method_of(&head, &elem, &name);
            }
            if head == "AutoMath" || head == "StdMath" || head == "FastMath" {
                let sig = self.reg.math_methods.get(&name)?.clone();
                // element type: from the first argument if it is typed, else the enclosing one
                let mut elem = None;
                if let Some(a0) = args.first() {
                    if let Ty::Scalar(s) = self.peek_ty(a0) {
                        elem = Some(s);
                    }
                }
                let elem = elem.or(self.elem.clone())?;
                let inst = self.math_instance(&head, &elem);
                let mut sig = sig;
                for p in sig.params.iter_mut() {
                    p.1 = Ty::Scalar(elem.clone());
                }
                if sig.ret == Ty::Scalar("T".into()) {
                    sig.ret = Ty::Scalar(elem.clone());
                }
                return Some(Target::Fn { head: format!("{inst}.{name}"), sig, monadic: true });
            }
            let head_sub = self.subst_name(&head);
            let cmp_fn = head == "cmp" && (name == "max" || name == "min");
            if is_concrete_scalar(&head_sub) || head == "intrinsics" || cmp_fn {
                // primitive associated functions: f32::sqrt(a), f32::from_bits(x), intrinsics::fadd_algebraic(a, b),
                // core::cmp::max(a, b) on integers (= `Ord::max`, the model's `I64.max` / `U64.max`)
                let mut ety = if head == "intrinsics" || cmp_fn { None } else { Some(head_sub.clone()) };
                if ety.is_none() {
                    if let Some(a0) = args.first() {
                        if let Ty::Scalar(s) = self.peek_ty(a0) {
                            ety = Some(s);
                        }
                    }
                }
                let ety = ety.or(self.elem.clone())?;
                let pty = if name == "from_bits" {
                    Ty::Scalar(if ety == "f64" { "u64".into() } else { "u32".into() })
                } else {
                    Ty::Scalar(ety.clone())
                };
                let sig = Sig {
                    lean_name: name.clone(),
                    generics: vec![],
                    params: args.iter().enumerate().map(|(k, _)| (format!("a{k}"), pty.clone())).collect(),
                    ret: Ty::Scalar(ety.clone()),
                    takes_env: true,
                    pure_fn: true,
                };
                return Some(Target::Fn { head: format!("{}.{name} E", lean_scalar(&ety)), sig, monadic: false });
            }
            if head == "DenseLane" && name == "copy" {
                let sig = Sig {
                    lean_name: "DenseLane.copy".into(),
                    generics: vec![],
                    params: vec![("value".into(), Ty::Unknown)],
                    ret: Ty::Dense(Box::new(Ty::Unknown)),
                    takes_env: false,
                    pure_fn: true,
                };
                return Some(Target::Fn { head: "DenseLane.copy".into(), sig, monadic: false });
            }
        }
        // intrinsics
        let neon = is_neon_intrinsic(&name);
        if (name.starts_with("_mm") && !name.starts_with("_MM")) || neon {
            self.intrinsics.insert(name.clone());
            let mut head = if neon { format!("Neon.{name} E") } else { format!("X86.{name} E") };
            for ga in self.generic_arg_strings(last_seg) {
                let v = self.const_generic(&ga, out);
                head.push(' ');
                head.push_str(&v);
            }
            let is_load = name.contains("loadu") || name.starts_with("vld1q_");
            let is_store = name.contains("storeu") || name.starts_with("vst1q_");
            let mut params: Vec<(String, Ty)> = vec![];
            for (k, a) in args.iter().enumerate() {
                let t = if (is_load || is_store) && k == 0 {
                    let et = Ty::Scalar(self.elem.clone().unwrap_or_else(|| "T".into()));
                    if is_store {
                        Ty::MutPtr(Box::new(et))
                    } else {
                        Ty::ConstPtr(Box::new(et))
                    }
                } else {
                    self.peek_ty(a)
                };
                params.push((format!("a{k}"), t));
            }
            let sig = Sig {
                lean_name: name.clone(),
                generics: vec![],
                params,
                ret: intrinsic_ret_ty(&name),
                takes_env: true,
                pure_fn: !(is_load || is_store),
            };
            return Some(Target::Fn { head, sig, monadic: is_load || is_store });
        }
        // registered free functions (possibly `super::module::name::<T, R, M>`)
        if let Some(sig) = self.reg.fns.get(&name).cloned() {
            // a routine for one concrete element type called on a transmuted view of `[T]`
            let concrete_slices = sig.params.iter().any(|(_, t)| match t {
                Ty::Slice(e) | Ty::MutSlice(e) => matches!(&**e, Ty::Scalar(s) if is_concrete_scalar(s)),
                _ => false,
            });
            if self.view_calls && concrete_slices {
                if !self.ext_calls.contains(&name) {
                    self.ext_calls.push(name.clone());
                }
                let mut s2 = sig.clone();
                for p in s2.params.iter_mut() {
                    p.1 = match &p.1 {
                        Ty::Slice(_) => Ty::Slice(Box::new(Ty::Scalar("T".into()))),
                        Ty::MutSlice(_) => Ty::MutSlice(Box::new(Ty::Scalar("T".into()))),
                        o => o.clone(),
                    };
                }
                return Some(Target::Fn { head: format!("ext_{name}"), sig: s2, monadic: true });
            }
            let mut head = sig.lean_name.clone();
            if sig.takes_env {
                head.push_str(" E");
            }
            let gargs = self.generic_arg_strings(last_seg);
            let mut gi = 0usize;
            let mut call_elem: Option<String> = None;
            for g in &sig.generics {
                let ga = gargs.get(gi).map(|a| tok(a).replace(' ', ""));
                gi += 1;
                match g {
                    Generic::Type(_) => {
                        if let Some(a) = &ga {
                            if is_concrete_scalar(a) {
                                call_elem = Some(a.clone());
                            }
                        }
                    },
                    Generic::Const(_) => {
                        if let Some(a) = ga {
                            head.push_str(&format!(" {a}"));
                        }
                    },
                    Generic::Reg(_) | Generic::Math(_) => match ga {
                        Some(a) if self.dicts.contains_key(&a) => {
                            head.push_str(&format!(" {a}"));
                            if self.reg.transpose_fns.contains(&name) {
                                head.push_str(" RT");
                            }
                        },
                        Some(a) if self.reg.reg_structs.contains_key(&a) => {
                            let elem = call_elem.clone().or(self.elem.clone()).unwrap_or_else(|| "T".into());
                            head.push_str(&format!(" {}", self.reg_instance(&a, &elem)));
                            if self.reg.transpose_fns.contains(&name) {
                                if !self.reg.transpose_insts.contains(&(a.clone(), elem.clone())) {
                                    self.err(func.span(), format!("no `impl TransposeMatrix<{elem}> for {a}`"));
                                }
                                head.push_str(&format!(" ({a}_{elem}.transposeInst E)"));
                            }
                        },
                        Some(a) if a == "AutoMath" => {
                            let elem = self.elem.clone().unwrap_or_else(|| "T".into());
                            head.push_str(&format!(" {}", self.math_instance("AutoMath", &elem)));
                        },
                        other => {
                            self.err(func.span(), format!("cannot resolve dictionary argument {:?}", other));
                        },
                    },
                }
            }
            let monadic = !sig.pure_fn;
            let sig = self.sig_with_self(&sig);
            return Some(Target::Fn { head, sig, monadic });
        }
        None
    }

    fn resolve_method_of(&mut self, strukt: &str, elem: &str, method: &str) -> Option<Target> {
        let strukt_owned = if strukt == "Self" {
            self.self_struct.clone().unwrap_or_else(|| "Self".to_string())
        } else {
            strukt.to_string()
        };
        let strukt = strukt_owned.as_str();
        let is_self = strukt == "Self"
            || (Some(strukt.to_string()) == self.self_struct && Some(elem.to_string()) == self.elem);
        if is_self {
            let sig = self.sig_with_self(&self.trait_sig(method)?);
            match &mut self.self_mode {
                SelfMode::Closure(used) => {
                    used.insert(method.to_string());
                    return Some(Target::Fn { head: format!("self_{method}"), sig, monadic: true });
                },
                SelfMode::Flat(prefix) => {
                    let (pf, extra) = prefix.split_once('|').unwrap_or((prefix.as_str(), ""));
                    let head = format!("{pf}.{method} E{extra}");
                    let st = self.self_struct.clone().unwrap_or_default();
                    self.calls.insert((st, elem.to_string(), method.to_string()));
                    return Some(Target::Fn { head, sig, monadic: true });
                },
                SelfMode::None => return None,
            }
        }
        // a method of another impl
        let sig = self.other_impl_sig(strukt, elem, method)?;
        self.calls.insert((strukt.to_string(), elem.to_string(), method.to_string()));
        let head = if strukt == "Fallback" {
            format!("{}.{method}", self.reg_instance(strukt, elem))
        } else {
            format!("{strukt}_{elem}.{method} E")
        };
        Some(Target::Fn { head, sig, monadic: true })
    }

    /// a const generic argument: literal, `{ expr }` or a const in scope
    fn const_generic(&mut self, ga: &syn::GenericArgument, out: &mut Out) -> String {
        let e: syn::Expr = match ga {
            syn::GenericArgument::Const(e) => e.clone(),
            syn::GenericArgument::Type(t) => match syn::parse_str::<syn::Expr>(&tok(t)) {
                Ok(e) => e,
                Err(_) => {
                    self.err(ga.span(), "unsupported generic argument");
                    return "0".into();
                },
            },
            _ => {
                self.err(ga.span(), "unsupported generic argument");
                return "0".into();
            },
        };
        let inner = match &e {
            syn::Expr::Block(b) if b.block.stmts.len() == 1 => match &b.block.stmts[0] {
                syn::Stmt::Expr(x, None) => x.clone(),
                _ => e.clone(),
            },
            _ => e.clone(),
        };
        if let syn::Expr::Lit(l) = &inner {
            if let syn::Lit::Int(i) = &l.lit {
                let s = i.to_string();
                return s[..s.len() - i.suffix().len()].replace('_', "");
            }
        }
        let (v, ty) = self.expr(&inner, None, out);
        match ty {
            Ty::Usize => v,
            Ty::Scalar(s) => format!("({}.toNat {v})", lean_scalar(&s)),
            _ => v,
        }
    }

    pub fn peek_call_ty(&self, c: &syn::ExprCall) -> Ty {
        if let syn::Expr::Path(p) = &*c.func {
            let name = p.path.segments.last().map(|s| s.ident.to_string()).unwrap_or_default();
            if name.starts_with("_mm") || is_neon_intrinsic(&name) {
                return intrinsic_ret_ty(&name);
            }
            if name == "transmute" {
                if let Some(seg) = p.path.segments.last() {
                    let ga = self.generic_arg_strings(seg);
                    if let Some(syn::GenericArgument::Type(t)) = ga.get(1) {
                        return conv_type(t, &self.tyenv);
                    }
                }
            }
            if let Some(s) = self.trait_sig(&name) {
                return self.subst_ty(&s.ret);
            }
            if let Some(s) = self.reg.math_methods.get(&name) {
                return self.subst_ty(&s.ret);
            }
            if let Some(s) = self.reg.fns.get(&name) {
                return self.subst_ty(&s.ret);
            }
        }
        Ty::Unknown
    }

    pub fn call(&mut self, c: &syn::ExprCall, expected: Option<&Ty>, out: &mut Out) -> (String, Ty) {
        let args: Vec<syn::Expr> = c.args.iter().cloned().collect();
        // special forms
        if let syn::Expr::Path(p) = &*c.func {
            let ps = path_str(&p.path);
            let last = p.path.segments.last().unwrap();
            let name = last.ident.to_string();
            if name == "transmute" {
                return self.transmute(c, last, expected, out);
            }
            if name == "size_of" {
                let ga = self.generic_arg_strings(last);
                let t = ga.first().map(|a| tok(a).replace(' ', "")).unwrap_or_default();
                let v = match t.as_str() {
                    "Self::Register" | "R::Register" => "sizeof_Register".to_string(),
                    "T" => "sizeof_T".to_string(),
                    other => {
                        let sub = self.subst_name(other);
                        match scalar_bits(&sub) {
                            Some(b) => format!("{}", b / 8),
                            None => {
                                self.err(c.span(), format!("size_of::<{other}> unsupported"));
                                "0".into()
                            },
                        }
                    },
                };
                if let SelfMode::Closure(used) = &mut self.self_mode {
                    if v.starts_with("sizeof_") {
                        used.insert(format!("#{v}"));
                    }
                }
                return (v, Ty::Usize);
            }
            if ps.contains("TypeId::of") {
                let ga = self.generic_arg_strings(last);
                let t = ga.first().map(|a| tok(a).replace(' ', "")).unwrap_or_default();
                let v = if t == "T" { "tyT".to_string() } else { format!("RTy.{t}") };
                return (v, Ty::TypeIdTy);
            }
            if name == "_MM_SHUFFLE" {
                let mut vs = vec![];
                for a in &args {
                    vs.push(self.expr(a, Some(&Ty::Scalar("u32".into())), out).0);
                }
                return (format!("(_MM_SHUFFLE E {})", vs.join(" ")), Ty::Scalar("i32".into()));
            }
            if name == "_mm_undefined_ps" {
                self.intrinsics.insert(name.clone());
                return ("(X86._mm_undefined_ps E)".into(), Ty::Reg(128));
            }
        }
        let target = match self.resolve_call(&c.func, &args, out) {
            Some(t) => t,
            None => {
                self.err(c.span(), format!("cannot resolve call `{}`", tok(&c.func)));
                return ("sorry_unsupported".into(), Ty::Unknown);
            },
        };
        let Target::Fn { head, sig, monadic } = target;
        self.emit_call(&head, &sig, monadic, &args, c.span(), out)
    }

    /// Emit a call given its resolved head. Pointer / `&mut` arguments are threaded.
    pub fn emit_call(
        &mut self,
        head: &str,
        sig: &Sig,
        monadic: bool,
        args: &[syn::Expr],
        sp: proc_macro2::Span,
        out: &mut Out,
    ) -> (String, Ty) {
        let mut argv: Vec<String> = vec![];
        let mut outs: Vec<String> = vec![]; // base variables updated by the call
        for (k, a) in args.iter().enumerate() {
            let pty = sig.params.get(k).map(|p| p.1.clone()).unwrap_or(Ty::Unknown);
            match &pty {
                Ty::ConstPtr(_) | Ty::MutPtr(_) => match self.ptr_expr(a, out) {
                    Some((base, off, _)) => {
                        argv.push(base.clone());
                        argv.push(off.unwrap_or_else(|| "0".into()));
                        if matches!(pty, Ty::MutPtr(_)) {
                            outs.push(base);
                        }
                    },
                    None => {
                        self.err(a.span(), format!("expected a pointer expression, got `{}`", tok(a)));
                    },
                },
                Ty::MutSlice(_) => {
                    let (v, _) = self.expr(a, Some(&pty), out);
                    argv.push(v.clone());
                    outs.push(v);
                },
                _ => {
                    let (v, _) = self.expr(a, Some(&pty), out);
                    argv.push(v);
                },
            }
        }
        let call = if argv.is_empty() { head.to_string() } else { format!("{head} {}", argv.join(" ")) };
        let ret = sig.ret.clone();
        if !monadic {
            if !outs.is_empty() {
                self.err(sp, "pure call with mutable arguments");
            }
            return (format!("({call})"), ret);
        }
        if outs.is_empty() {
            let t = self.fresh();
            out.push(format!("let {t} ← {call}"));
            return (t, ret);
        }
        if ret == Ty::Unit && outs.len() == 1 {
            out.push(format!("let {} ← {call}", outs[0]));
            return ("()".into(), Ty::Unit);
        }
        let t = self.fresh();
        out.push(format!("let {t} ← {call}"));
        let mut names: Vec<String> = vec![];
        let rv = self.fresh();
        if ret != Ty::Unit {
            names.push(rv.clone());
        }
        names.extend(outs.iter().cloned());
        for l in crate::stmt::unpack_lines(&names, &t) {
            out.push(l);
        }
        (if ret != Ty::Unit { rv } else { "()".into() }, ret)
    }

    fn transmute(
        &mut self,
        c: &syn::ExprCall,
        seg: &syn::PathSegment,
        expected: Option<&Ty>,
        out: &mut Out,
    ) -> (String, Ty) {
        let ga = self.generic_arg_strings(seg);
        let to = match ga.get(1) {
            Some(syn::GenericArgument::Type(t)) => conv_type(t, &self.tyenv),
            _ => expected.cloned().unwrap_or(Ty::Unknown),
        };
        let (v, from) = self.expr(&c.args[0], None, out);
        match (&from, &to) {
            (Ty::Reg(n), Ty::Array(e, k)) => {
                let w = e.scalar_name().and_then(scalar_bits).unwrap_or(0);
                if w as usize * k != *n as usize {
                    self.err(c.span(), "transmute size mismatch");
                }
                (format!("(unpackLanes {w} {k} {v})"), to.clone())
            },
            (Ty::Array(e, k), Ty::Reg(n)) => {
                let w = e.scalar_name().and_then(scalar_bits).unwrap_or(0);
                if w as usize * k != *n as usize {
                    self.err(c.span(), "transmute size mismatch");
                }
                (format!("(packLanes {w} {k} {n} {v})"), to.clone())
            },
            (Ty::Slice(_), Ty::Slice(_)) | (Ty::MutSlice(_), Ty::MutSlice(_)) => (v, from.clone()),
            _ => {
                self.err(c.span(), format!("unsupported transmute {:?} -> {:?}", from, to));
                (v, to)
            },
        }
    }

    pub fn method_call(
        &mut self,
        m: &syn::ExprMethodCall,
        expected: Option<&Ty>,
        out: &mut Out,
    ) -> (String, Ty) {
        let name = m.method.to_string();
        match name.as_str() {
            "len" => {
                let (r, _) = self.expr(&m.receiver, None, out);
                return (format!("{r}.size"), Ty::Usize);
            },
            "read" => {
                if let Some((base, off, pty)) = self.ptr_expr(&m.receiver, out) {
                    let ety = match pty {
                        Ty::ConstPtr(t) | Ty::MutPtr(t) => *t,
                        _ => Ty::Unknown,
                    };
                    let t = self.fresh();
                    out.push(format!("let {t} ← Slice.read {base} {}", off.unwrap_or_else(|| "0".into())));
                    return (t, ety);
                }
            },
            "write" => {
                if let Some((base, off, pty)) = self.ptr_expr(&m.receiver, out) {
                    let ety = match pty {
                        Ty::ConstPtr(t) | Ty::MutPtr(t) => *t,
                        _ => Ty::Unknown,
                    };
                    let (v, _) = self.expr(&m.args[0], Some(&ety), out);
                    out.push(format!(
                        "let {base} ← Slice.write {base} {} {v}",
                        off.unwrap_or_else(|| "0".into())
                    ));
                    return ("()".into(), Ty::Unit);
                }
            },
            "copy_from_slice" => {
                let (r, _) = self.expr(&m.receiver, None, out);
                let (a, _) = self.expr(&m.args[0], None, out);
                out.push(format!("let {r} ← Slice.copyFromSlice {r} {a}"));
                return ("()".into(), Ty::Unit);
            },
            "expect" | "unwrap" => {
                // x.checked_mul(y).expect(..)
                if let syn::Expr::MethodCall(inner) = &*m.receiver {
                    if inner.method == "checked_mul" {
                        let (x, _) = self.expr(&inner.receiver, Some(&Ty::Usize), out);
                        let (y, _) = self.expr(&inner.args[0], Some(&Ty::Usize), out);
                        let t = self.fresh();
                        out.push(format!("let {t} ← checkedMulExpect {x} {y}"));
                        return (t, Ty::Usize);
                    }
                }
            },
            _ => {},
        }
        // scalar primitive methods
        let mut rty = self.peek_ty(&m.receiver);
        if rty == Ty::Unknown {
            if let Some(a0) = m.args.first() {
                rty = self.peek_ty(a0);
            }
        }
        if rty == Ty::Unknown {
            if let Some(Ty::Scalar(s)) = expected {
                rty = Ty::Scalar(s.clone());
            } else if let Some(e) = &self.elem {
                rty = Ty::Scalar(e.clone());
            }
        }
        if let Ty::Scalar(s) = &rty {
            let s = s.clone();
            let ls = lean_scalar(&s);
            let (r, _) = self.expr(&m.receiver, Some(&rty), out);
            let mut av = vec![];
            for a in &m.args {
                av.push(self.expr(a, Some(&rty), out).0);
            }
            let argstr = if av.is_empty() { String::new() } else { format!(" {}", av.join(" ")) };
            let (monadic, ret): (bool, Ty) = match name.as_str() {
                "max" | "min" | "wrapping_add" | "wrapping_sub" | "wrapping_mul" => (false, rty.clone()),
                "wrapping_div" => (true, rty.clone()),
                "abs" => (!s.starts_with('f'), rty.clone()),
                "sqrt" => (false, rty.clone()),
                "to_bits" => (
                    false,
                    Ty::Scalar(if s == "f64" { "u64".into() } else { "u32".into() }),
                ),
                _ => {
                    self.err(m.span(), format!("unsupported method `{name}` on {s}"));
                    (false, Ty::Unknown)
                },
            };
            let call = format!("{ls}.{name} E {r}{argstr}");
            if monadic {
                let t = self.fresh();
                out.push(format!("let {t} ← {call}"));
                return (t, ret);
            }
            return (format!("({call})"), ret);
        }
        self.err(m.span(), format!("unsupported method call `{}`", tok(m)));
        ("sorry_unsupported".into(), Ty::Unknown)
    }

    pub fn expr_macro(&mut self, m: &syn::ExprMacro, _expected: Option<&Ty>, out: &mut Out) -> (String, Ty) {
        let name = m.mac.path.segments.last().map(|s| s.ident.to_string()).unwrap_or_default();
        match name.as_str() {
            "cfg" => match parse_cfg_macro(m.mac.tokens.clone()) {
                Some(p) => match p.eval(&[]) {
                    Some(b) => (format!("{b}"), Ty::Bool),
                    None => (p.lean(), Ty::Bool),
                },
                None => {
                    self.err(m.span(), "cannot parse cfg!");
                    ("false".into(), Ty::Bool)
                },
            },
            "is_x86_feature_detected" | "is_aarch64_feature_detected" => {
                let f = m.mac.tokens.to_string().trim_matches('"').replace('.', "_");
                (format!("E.cpu_{f}"), Ty::Bool)
            },
            "apply_dense" => {
                let args: Vec<syn::Expr> = match m
                    .mac
                    .parse_body_with(syn::punctuated::Punctuated::<syn::Expr, syn::Token![,]>::parse_terminated)
                {
                    Ok(a) => a.into_iter().collect(),
                    Err(_) => {
                        self.err(m.span(), "cannot parse apply_dense!");
                        return ("sorry_unsupported".into(), Ty::Unknown);
                    },
                };
                let op = tok(&args[0]);
                let lanes: Vec<String> = args[1..].iter().map(|a| tok(a)).collect();
                let mut fields = vec![];
                let mut fty = Ty::Unknown;
                for f in ["a", "b", "c", "d", "e", "f", "g", "h"] {
                    let call_src = format!(
                        "{op}({})",
                        lanes.iter().map(|l| format!("{l}.{f}")).collect::<Vec<_>>().join(", ")
                    );
                    let ce: syn::Expr = match syn::parse_str(&call_src) {
                        Ok(e) => e,
                        Err(_) => {
                            self.err(m.span(), "cannot expand apply_dense!");
                            return ("sorry_unsupported".into(), Ty::Unknown);
                        },
                    };
                    let (v, t) = self.expr(&ce, None, out);
                    if fty == Ty::Unknown {
                        fty = t;
                    }
                    fields.push(format!("{f} := {v}"));
                }
                (
                    format!("({{ {} }} : DenseLane _)", fields.join(", ")),
                    Ty::Dense(Box::new(fty)),
                )
            },
            _ => {
                self.err(m.span(), format!("unsupported macro `{name}!`"));
                ("sorry_unsupported".into(), Ty::Unknown)
            },
        }
    }
}
