//! Crate-wide reference tables for cfavml: external paths (C14), statics / interior mutability (C08),
//! intrinsic feature requirements (C10).
use std::collections::{BTreeMap, BTreeSet};
use std::fs;
use std::path::{Path, PathBuf};

use proc_macro2::{TokenStream, TokenTree};
use quote::ToTokens;
use syn::spanned::Spanned;
use syn::visit::Visit;

use crate::cfgpred::*;
use crate::Output;

fn lstr(s: &str) -> String {
    format!("\"{}\"", s.replace('\\', "\\\\").replace('"', "\\\""))
}

struct RefRow {
    file: String,
    line: usize,
    path: String,
    cfg: Vec<CfgPred>,
    kind: &'static str, // use | path | macro | macro-body | extern-crate
}

/// `pub use path::to::x as y`: a routine re-exported under another name
struct AliasRow {
    file: String,
    line: usize,
    target: String,
    alias: String,
    cfg: Vec<CfgPred>,
}

fn use_renames(t: &syn::UseTree, out: &mut Vec<(String, String)>) {
    match t {
        syn::UseTree::Path(p) => use_renames(&p.tree, out),
        syn::UseTree::Group(g) => {
            for i in &g.items {
                use_renames(i, out);
            }
        },
        syn::UseTree::Rename(r) => out.push((r.ident.to_string(), r.rename.to_string())),
        _ => {},
    }
}

fn looks_like_routine(n: &str) -> bool {
    ["f32_", "f64_", "i8_", "i16_", "i32_", "i64_", "u8_", "u16_", "u32_", "u64_"].iter().any(|p| n.starts_with(p)) && (n.contains("_xany_") || n.contains("_xconst_"))
}

struct StateRow {
    file: String,
    line: usize,
    what: String,
    cfg: Vec<CfgPred>,
}

struct V<'a> {
    file: String,
    stack: Vec<CfgPred>,
    refs: &'a mut Vec<RefRow>,
    states: &'a mut Vec<StateRow>,
    /// references to `core::arch` / `std::arch` items, intrinsic-looking calls and `asm!` in files that are not a register
    /// backend (`danger/impl_*.rs`): code every build runs before, or without, any CPU feature check
    arch: &'a mut Vec<RefRow>,
    aliases: &'a mut Vec<AliasRow>,
}

/// `_mm256_add_ps`, `__cpuid`, `_xgetbv`, `vaddq_f32` …: an identifier that looks like a vendor intrinsic
fn looks_like_intrinsic(name: &str) -> bool {
    let b = name.as_bytes();
    let underscore = name.starts_with('_') && name.trim_start_matches('_').chars().next().map_or(false, |c| c.is_ascii_lowercase())
        && name.trim_start_matches('_').contains(|c: char| c == '_' || c.is_ascii_digit() || c.is_ascii_lowercase())
        && name.len() > 3;
    let neon = b.len() > 4 && b[0] == b'v' && name.contains('_') && name.chars().all(|c| c.is_ascii_lowercase() || c.is_ascii_digit() || c == '_')
        && ["_f32", "_f64", "_s8", "_s16", "_s32", "_s64", "_u8", "_u16", "_u32", "_u64"].iter().any(|suf| name.ends_with(suf));
    underscore || neon
}

/// std-prelude names that allocate: macros (`vec!`, `format!`), owning types and the slice / str methods that build them.
/// They are not rooted at `std::` or `alloc::` textually, so they get their own row kind (`prelude-alloc`).
const PRELUDE_ALLOC_MACROS: [&str; 2] = ["vec", "format"];
const PRELUDE_ALLOC_TYPES: [&str; 5] = ["Vec", "Box", "String", "Rc", "Arc"];
const PRELUDE_ALLOC_METHODS: [&str; 6] = ["to_vec", "to_owned", "to_string", "into_boxed_slice", "into_vec", "repeat"];

const STATE_WORDS: [&str; 12] = [
    "AtomicU8", "AtomicUsize", "AtomicBool", "AtomicU32", "AtomicU64", "Cell", "RefCell", "UnsafeCell", "Mutex", "RwLock", "OnceLock", "OnceCell",
];

impl<'a> V<'a> {
    fn with_attrs<F: FnOnce(&mut Self)>(&mut self, attrs: &[syn::Attribute], f: F) {
        let c = cfg_of_attrs(attrs);
        if let Some(c) = &c {
            self.stack.push(c.clone());
        }
        f(self);
        if c.is_some() {
            self.stack.pop();
        }
    }

    fn record_prelude(&mut self, name: &str, line: usize) {
        self.refs.push(RefRow {
            file: self.file.clone(),
            line,
            path: format!("prelude::{name}"),
            cfg: self.stack.clone(),
            kind: "prelude-alloc",
        });
    }

    fn record_path(&mut self, p: &str, line: usize, kind: &'static str) {
        let root = p.split("::").next().unwrap_or("").trim();
        let first = root.split('<').next().unwrap_or("").trim();
        if (kind == "macro" && PRELUDE_ALLOC_MACROS.contains(&first)) || (kind != "macro" && PRELUDE_ALLOC_TYPES.contains(&first)) {
            self.record_prelude(first, line);
        }
        if root == "std" || root == "alloc" {
            self.refs.push(RefRow { file: self.file.clone(), line, path: p.replace(' ', ""), cfg: self.stack.clone(), kind });
        }
        let is_backend = self.file.contains("/danger/impl_") && !self.file.ends_with("impl_test.rs");
        if !is_backend {
            let flat = p.replace(' ', "");
            let segs: Vec<&str> = flat.split("::").collect();
            let last = segs.last().map(|x| x.split('<').next().unwrap_or("")).unwrap_or("");
            let detection = last == "is_x86_feature_detected" || last == "is_aarch64_feature_detected";
            let archy = segs.iter().any(|x| *x == "arch") && (root == "core" || root == "std" || root == "arch");
            let asm = kind == "macro" && (last == "asm" || last == "global_asm");
            if !detection && (archy || asm || (segs.len() == 1 && kind == "path" && looks_like_intrinsic(last))) {
                self.arch.push(RefRow { file: self.file.clone(), line, path: flat, cfg: self.stack.clone(), kind: if asm { "asm" } else if archy { "arch-path" } else { "intrinsic-call" } });
            }
        }
        for w in STATE_WORDS {
            if p.replace(' ', "").split("::").any(|s| s.split('<').next() == Some(w)) {
                self.states.push(StateRow { file: self.file.clone(), line, what: p.replace(' ', ""), cfg: self.stack.clone() });
            }
        }
    }

    fn scan_tokens(&mut self, ts: TokenStream, line: usize) {
        let tts: Vec<TokenTree> = ts.into_iter().collect();
        for (i, t) in tts.iter().enumerate() {
            match t {
                TokenTree::Ident(id) => {
                    let s = id.to_string();
                    if (s == "std" || s == "alloc")
                        && matches!(tts.get(i + 1), Some(TokenTree::Punct(p)) if p.as_char() == ':')
                        && !matches!(i.checked_sub(1).and_then(|j| tts.get(j)), Some(TokenTree::Punct(p)) if p.as_char() == ':')
                    {
                        // collect the path
                        let mut p = s.clone();
                        let mut j = i + 1;
                        while j + 2 < tts.len() {
                            if let (TokenTree::Punct(a), TokenTree::Punct(b), TokenTree::Ident(n)) = (&tts[j], &tts[j + 1], &tts[j + 2]) {
                                if a.as_char() == ':' && b.as_char() == ':' {
                                    p.push_str("::");
                                    p.push_str(&n.to_string());
                                    j += 3;
                                    continue;
                                }
                            }
                            break;
                        }
                        let l = id.span().start().line;
                        self.record_path(&p, if l > 0 { l } else { line }, "macro-body");
                    }
                    let bang = matches!(tts.get(i + 1), Some(TokenTree::Punct(p)) if p.as_char() == '!');
                    let after_colons = matches!(i.checked_sub(1).and_then(|j| tts.get(j)), Some(TokenTree::Punct(p)) if p.as_char() == ':');
                    let after_dot = matches!(i.checked_sub(1).and_then(|j| tts.get(j)), Some(TokenTree::Punct(p)) if p.as_char() == '.');
                    if (bang && PRELUDE_ALLOC_MACROS.contains(&s.as_str()))
                        || (!after_colons && !after_dot && PRELUDE_ALLOC_TYPES.contains(&s.as_str()))
                        || (after_dot && PRELUDE_ALLOC_METHODS.contains(&s.as_str()))
                    {
                        let l = id.span().start().line;
                        self.record_prelude(&s, if l > 0 { l } else { line });
                    }
                    if s == "extern" && matches!(tts.get(i + 1), Some(TokenTree::Literal(_))) && matches!(tts.get(i + 2), Some(TokenTree::Group(_))) {
                        // an `extern "C" { … }` block written inside a macro body
                        let l = id.span().start().line;
                        self.refs.push(RefRow { file: self.file.clone(), line: if l > 0 { l } else { line }, path: "extern block (in macro tokens)".into(), cfg: self.stack.clone(), kind: "foreign" });
                    }
                    if s == "static" || s == "thread_local" {
                        self.states.push(StateRow { file: self.file.clone(), line: id.span().start().line, what: format!("{s} (in macro tokens)"), cfg: self.stack.clone() });
                    }
                },
                TokenTree::Group(g) => self.scan_tokens(g.stream(), line),
                _ => {},
            }
        }
    }
}

fn use_paths(t: &syn::UseTree, prefix: String, out: &mut Vec<String>) {
    match t {
        syn::UseTree::Path(p) => use_paths(&p.tree, format!("{prefix}{}::", p.ident), out),
        syn::UseTree::Name(n) => out.push(format!("{prefix}{}", n.ident)),
        syn::UseTree::Rename(r) => out.push(format!("{prefix}{}", r.ident)),
        syn::UseTree::Glob(_) => out.push(format!("{prefix}*")),
        syn::UseTree::Group(g) => g.items.iter().for_each(|i| use_paths(i, prefix.clone(), out)),
    }
}

fn item_attrs(i: &syn::Item) -> &[syn::Attribute] {
    match i {
        syn::Item::Fn(x) => &x.attrs,
        syn::Item::Mod(x) => &x.attrs,
        syn::Item::Use(x) => &x.attrs,
        syn::Item::Impl(x) => &x.attrs,
        syn::Item::Static(x) => &x.attrs,
        syn::Item::Const(x) => &x.attrs,
        syn::Item::Macro(x) => &x.attrs,
        syn::Item::Struct(x) => &x.attrs,
        syn::Item::Trait(x) => &x.attrs,
        syn::Item::Type(x) => &x.attrs,
        syn::Item::ExternCrate(x) => &x.attrs,
        syn::Item::ForeignMod(x) => &x.attrs,
        syn::Item::Enum(x) => &x.attrs,
        _ => &[],
    }
}

impl<'a, 'ast> Visit<'ast> for V<'a> {
    fn visit_item(&mut self, i: &'ast syn::Item) {
        let attrs = item_attrs(i).to_vec();
        self.with_attrs(&attrs, |me| {
            match i {
                syn::Item::Use(u) => {
                    let mut rn = vec![];
                    use_renames(&u.tree, &mut rn);
                    for (target, alias) in rn {
                        if alias != "_" && (looks_like_routine(&target) || looks_like_routine(&alias)) {
                            me.aliases.push(AliasRow { file: me.file.clone(), line: u.span().start().line, target, alias, cfg: me.stack.clone() });
                        }
                    }
                    let mut ps = vec![];
                    use_paths(&u.tree, String::new(), &mut ps);
                    for p in ps {
                        me.record_path(&p, u.span().start().line, "use");
                    }
                },
                syn::Item::ForeignMod(fm) => {
                    // `extern "C" { fn sqrt(x: f64) -> f64; }`: a symbol the crate expects someone else to provide
                    let abi = fm.abi.name.as_ref().map(|n| n.value()).unwrap_or_else(|| "C".to_string());
                    let mut any = false;
                    for it in &fm.items {
                        let name = match it {
                            syn::ForeignItem::Fn(f) => f.sig.ident.to_string(),
                            syn::ForeignItem::Static(s) => s.ident.to_string(),
                            _ => "?".to_string(),
                        };
                        any = true;
                        me.refs.push(RefRow { file: me.file.clone(), line: it.span().start().line, path: format!("extern \"{abi}\"::{name}"), cfg: me.stack.clone(), kind: "foreign" });
                    }
                    if !any {
                        me.refs.push(RefRow { file: me.file.clone(), line: fm.span().start().line, path: format!("extern \"{abi}\" {{}}"), cfg: me.stack.clone(), kind: "foreign" });
                    }
                },
                syn::Item::ExternCrate(e) => {
                    let n = e.ident.to_string();
                    me.refs.push(RefRow { file: me.file.clone(), line: e.span().start().line, path: n, cfg: me.stack.clone(), kind: "extern-crate" });
                },
                syn::Item::Static(s) => {
                    me.states.push(StateRow {
                        file: me.file.clone(),
                        line: s.span().start().line,
                        what: format!("static{} {}", if matches!(s.mutability, syn::StaticMutability::Mut(_)) { " mut" } else { "" }, s.ident),
                        cfg: me.stack.clone(),
                    });
                },
                syn::Item::Macro(m) => {
                    me.scan_tokens(m.mac.tokens.clone(), m.span().start().line);
                },
                _ => {},
            }
            syn::visit::visit_item(me, i);
        });
    }
    fn visit_impl_item_fn(&mut self, i: &'ast syn::ImplItemFn) {
        let a = i.attrs.clone();
        self.with_attrs(&a, |me| syn::visit::visit_impl_item_fn(me, i));
    }
    fn visit_trait_item_fn(&mut self, i: &'ast syn::TraitItemFn) {
        let a = i.attrs.clone();
        self.with_attrs(&a, |me| syn::visit::visit_trait_item_fn(me, i));
    }
    fn visit_stmt(&mut self, s: &'ast syn::Stmt) {
        let attrs: Vec<syn::Attribute> = match s {
            syn::Stmt::Local(l) => l.attrs.clone(),
            syn::Stmt::Macro(m) => m.attrs.clone(),
            syn::Stmt::Expr(e, _) => crate::stmt::expr_attrs(e).to_vec(),
            _ => vec![],
        };
        self.with_attrs(&attrs, |me| {
            if let syn::Stmt::Macro(m) = s {
                let p = m.mac.path.to_token_stream().to_string();
                me.record_path(&p, m.span().start().line, "macro");
                me.scan_tokens(m.mac.tokens.clone(), m.span().start().line);
            }
            syn::visit::visit_stmt(me, s)
        });
    }
    fn visit_expr_macro(&mut self, m: &'ast syn::ExprMacro) {
        let p = m.mac.path.to_token_stream().to_string();
        self.record_path(&p, m.span().start().line, "macro");
        self.scan_tokens(m.mac.tokens.clone(), m.span().start().line);
    }
    fn visit_expr_method_call(&mut self, m: &'ast syn::ExprMethodCall) {
        let n = m.method.to_string();
        if PRELUDE_ALLOC_METHODS.contains(&n.as_str()) {
            self.record_prelude(&n, m.span().start().line);
        }
        syn::visit::visit_expr_method_call(self, m);
    }
    fn visit_path(&mut self, p: &'ast syn::Path) {
        let s = p.to_token_stream().to_string();
        self.record_path(&s, p.span().start().line, "path");
        syn::visit::visit_path(self, p);
    }
}

fn collect_files(root: &Path, crate_dir: &str) -> Vec<(String, Vec<CfgPred>)> {
    // module tree from lib.rs
    let mut res = vec![];
    let mut queue: Vec<(PathBuf, Vec<CfgPred>)> = vec![(PathBuf::from(format!("{crate_dir}/src/lib.rs")), vec![])];
    let mut seen = BTreeSet::new();
    while let Some((rel, cfg)) = queue.pop() {
        if !seen.insert(rel.clone()) {
            continue;
        }
        let text = match fs::read_to_string(root.join(&rel)) {
            Ok(t) => t,
            Err(_) => continue,
        };
        res.push((rel.to_string_lossy().to_string(), cfg.clone()));
        let file = match syn::parse_file(&text) {
            Ok(f) => f,
            Err(_) => continue,
        };
        let dir = if rel.file_name().map(|f| f == "lib.rs" || f == "mod.rs").unwrap_or(false) {
            rel.parent().unwrap().to_path_buf()
        } else {
            rel.with_extension("")
        };
        for it in &file.items {
            if let syn::Item::Mod(m) = it {
                if m.content.is_none() {
                    let mut c = cfg.clone();
                    if let Some(p) = cfg_of_attrs(&m.attrs) {
                        c.push(p);
                    }
                    let a = dir.join(format!("{}.rs", m.ident));
                    let b = dir.join(format!("{}/mod.rs", m.ident));
                    if root.join(&a).exists() {
                        queue.push((a, c));
                    } else if root.join(&b).exists() {
                        queue.push((b, c));
                    }
                }
            }
        }
    }
    res.sort();
    res
}

fn cfg_list(c: &[CfgPred]) -> String {
    format!("[{}]", c.iter().map(|x| x.lean_data()).collect::<Vec<_>>().join(", "))
}

pub fn gen_refs(root: &Path, out: &mut Output) {
    let mut refs = vec![];
    let mut states = vec![];
    let mut arch = vec![];
    let mut aliases: Vec<AliasRow> = vec![];
    let files = collect_files(root, "cfavml");
    for (rel, modcfg) in &files {
        let text = match fs::read_to_string(root.join(rel)) {
            Ok(t) => t,
            Err(e) => {
                out.errors.push(format!("{rel}: {e}"));
                continue;
            },
        };
        let file = match syn::parse_file(&text) {
            Ok(f) => f,
            Err(e) => {
                out.errors.push(format!("{rel}: parse error {e}"));
                continue;
            },
        };
        let mut v = V { file: rel.clone(), stack: modcfg.clone(), refs: &mut refs, states: &mut states, arch: &mut arch, aliases: &mut aliases };
        v.visit_file(&file);
    }
    let mut text = String::from("-- GENERATED by /verif/translator from /repo — do not edit.\nimport CfavmlModel.Prim.Tables\nnamespace Cfavml\nnamespace Tables\n\n");
    // dedupe
    let mut rows = BTreeSet::new();
    for r in &refs {
        rows.insert(format!(
            "{{ file := {}, line := {}, path := {}, kind := {}, cfg := {} }}",
            lstr(&r.file),
            r.line,
            lstr(&r.path),
            lstr(r.kind),
            cfg_list(&r.cfg)
        ));
    }
    text.push_str(&format!("def externalRefs : List ExternalRef := [\n  {}\n]\n\n", rows.into_iter().collect::<Vec<_>>().join(",\n  ")));
    let mut arows = BTreeSet::new();
    for r in &arch {
        arows.insert(format!(
            "{{ file := {}, line := {}, path := {}, kind := {}, cfg := {} }}",
            lstr(&r.file),
            r.line,
            lstr(&r.path),
            lstr(r.kind),
            cfg_list(&r.cfg)
        ));
    }
    text.push_str(&format!("def archRefs : List ExternalRef := [\n  {}\n]\n\n", arows.into_iter().collect::<Vec<_>>().join(",\n  ")));
    text.push_str(&format!(
        "/-- routines re-exported under another name (`pub use … x as y`): (file, line, target, alias) -/\ndef exportAliases : List (String × Nat × String × String) := [{}]\n\n",
        aliases.iter().filter(|a| !a.cfg.iter().any(|c| format!("{c:?}").contains("Test"))).map(|a| format!("({}, {}, {}, {})", lstr(&a.file), a.line, lstr(&a.target), lstr(&a.alias))).collect::<Vec<_>>().join(", ")
    ));
    let mut srows = BTreeSet::new();
    for r in &states {
        srows.insert(format!("{{ file := {}, line := {}, what := {}, cfg := {} }}", lstr(&r.file), r.line, lstr(&r.what), cfg_list(&r.cfg)));
    }
    text.push_str(&format!("def stateItems : List StateItem := [\n  {}\n]\n\n", srows.into_iter().collect::<Vec<_>>().join(",\n  ")));
    text.push_str(&format!(
        "def crateFiles : List (String × List Cfg) := [\n  {}\n]\n\n",
        files.iter().map(|(f, c)| format!("({}, {})", lstr(f), cfg_list(c))).collect::<Vec<_>>().join(",\n  ")
    ));
    // crate attributes and Cargo.toml
    if let Ok(t) = fs::read_to_string(root.join("cfavml/src/lib.rs")) {
        if let Ok(f) = syn::parse_file(&t) {
            let attrs: Vec<String> = f.attrs.iter().map(|a| lstr(&a.meta.to_token_stream().to_string().replace(' ', ""))).collect();
            text.push_str(&format!("def crateAttrs : List String := [\n  {}\n]\n\n", attrs.join(",\n  ")));
        }
    }
    if let Ok(t) = fs::read_to_string(root.join("cfavml/Cargo.toml")) {
        let mut section = String::new();
        let mut deps: Vec<String> = vec![];
        let mut features: BTreeMap<String, String> = BTreeMap::new();
        // logical lines: a value that opens a bracket continues until the brackets balance
        let mut logical: Vec<String> = vec![];
        let mut pending = String::new();
        for l in t.lines() {
            let l = l.trim();
            if l.is_empty() || l.starts_with('#') {
                continue;
            }
            if pending.is_empty() {
                pending = l.to_string();
            } else {
                pending.push(' ');
                pending.push_str(l);
            }
            let opens = pending.matches('[').count() + pending.matches('{').count();
            let closes = pending.matches(']').count() + pending.matches('}').count();
            if opens <= closes {
                logical.push(std::mem::take(&mut pending));
            }
        }
        if !pending.is_empty() {
            logical.push(pending);
        }
        for l in logical.iter() {
            let l = l.trim();
            if l.starts_with('[') {
                section = l.to_string();
                continue;
            }
            if section == "[dependencies]" || (section.starts_with("[target.") && section.ends_with(".dependencies]")) {
                deps.push(l.to_string());
            }
            if section == "[features]" {
                if let Some((k, v)) = l.split_once('=') {
                    features.insert(k.trim().to_string(), v.trim().to_string());
                }
            }
        }
        text.push_str(&format!("def cargoDependencies : List String := [{}]\n", deps.iter().map(|d| lstr(d)).collect::<Vec<_>>().join(", ")));
        text.push_str(&format!(
            "def cargoFeatures : List (String × String) := [{}]\n\n",
            features.iter().map(|(k, v)| format!("({}, {})", lstr(k), lstr(v))).collect::<Vec<_>>().join(", ")
        ));
        // the feature graph: what each feature of the manifest switches on (the quoted names inside its array)
        let graph: Vec<String> = features
            .iter()
            .map(|(k, v)| {
                let mut names: Vec<String> = vec![];
                let mut rest: &str = v.as_str();
                while let Some(i) = rest.find('"') {
                    let after = &rest[i + 1..];
                    match after.find('"') {
                        Some(j) => {
                            names.push(after[..j].to_string());
                            rest = &after[j + 1..];
                        },
                        None => break,
                    }
                }
                format!("({}, [{}])", lstr(k), names.iter().map(|n| lstr(n)).collect::<Vec<_>>().join(", "))
            })
            .collect();
        text.push_str(&format!("def cargoFeatureGraph : List (String × List String) := [{}]\n\n", graph.join(", ")));
    }
    // build scripts: code that runs on the *build* machine and can switch cfgs the source is conditioned on
    {
        let mut scripts: Vec<String> = vec![];
        for cand in ["cfavml/build.rs"] {
            if let Ok(t) = fs::read_to_string(root.join(cand)) {
                let mut cfgs: BTreeSet<String> = BTreeSet::new();
                for piece in t.split("rustc-cfg=").skip(1) {
                    let name: String = piece.chars().take_while(|c| c.is_alphanumeric() || *c == '_' || *c == '{' || *c == '}').collect();
                    cfgs.insert(name);
                }
                scripts.push(format!("({}, [{}])", lstr(cand), cfgs.iter().map(|c| lstr(c)).collect::<Vec<_>>().join(", ")));
            }
        }
        if let Ok(t) = fs::read_to_string(root.join("cfavml/Cargo.toml")) {
            for l in t.lines() {
                let l = l.trim();
                if l.starts_with("build") && l.contains('=') && !l.starts_with("build-") {
                    scripts.push(format!("({}, [])", lstr(&format!("Cargo.toml: {l}"))));
                }
            }
        }
        text.push_str(&format!("/-- build scripts of the crate and the cfgs they emit (`cargo:rustc-cfg=…`) -/\ndef buildScripts : List (String × List String) := [{}]\n\n", scripts.join(", ")));
    }
    // intrinsic -> required features
    let snap = Path::new(env!("CARGO_MANIFEST_DIR")).join("stdarch_features.tsv");
    match fs::read_to_string(&snap) {
        Ok(t) => {
            let rows: Vec<String> = t
                .lines()
                .filter(|l| !l.starts_with('#') && !l.trim().is_empty())
                .filter_map(|l| l.split_once('\t'))
                .filter(|(n, _)| out.used_intrinsics.contains(*n))
                .map(|(n, f)| {
                    format!(
                        "({}, [{}])",
                        lstr(n),
                        f.split(',').filter(|x| !x.is_empty()).map(|x| format!(".{}", x.trim().replace('.', "_"))).collect::<Vec<_>>().join(", ")
                    )
                })
                .collect();
            if rows.len() != out.used_intrinsics.len() {
                out.errors.push(format!(
                    "stdarch_features.tsv lacks {} of the intrinsics the source uses",
                    out.used_intrinsics.len() - rows.len()
                ));
            }
            let mem: Vec<String> = out
                .used_intrinsics
                .iter()
                .filter(|n| {
                    n.contains("load") || n.contains("store") || n.contains("gather") || n.contains("scatter") || n.contains("stream")
                        || n.starts_with("vld") || n.starts_with("vst")
                })
                // NEON `vld1q_*` / `vst1q_*` are `read_unaligned` / `write_unaligned` in stdarch: no alignment requirement
                .map(|n| format!("({}, {})", lstr(n), n.contains("loadu") || n.contains("storeu") || n.starts_with("vld1q_") || n.starts_with("vst1q_")))
                .collect();
            text.push_str(&format!(
                "/-- intrinsics that access memory, with whether they are the unaligned (`loadu`/`storeu`) form -/\ndef memoryIntrinsics : List (String × Bool) := [{}]\n\n",
                mem.join(", ")
            ));
            text.push_str(&format!("def intrinsicFeatures : List (String × List Feat) := [\n  {}\n]\n\n", rows.join(",\n  ")));
        },
        Err(e) => out.errors.push(format!("stdarch_features.tsv: {e}")),
    }
    text.push_str("end Tables\nend Cfavml\n");
    out.files.insert("RefTables.lean".into(), text);
    out.items.push(format!("table:externalRefs:{}", refs.len()));
}
