//! Tables: exports, export/safe macro arms, dispatch macro, impl call graph, intrinsic features,
//! external references, statics.
use std::collections::{BTreeMap, BTreeSet};
use std::fs;
use std::path::Path;

use proc_macro2::{Delimiter, TokenStream, TokenTree};
use quote::ToTokens;
use syn::spanned::Spanned;

use crate::body::*;
use crate::cfgpred::*;
use crate::impls::ImplInfo;
use crate::items::*;
use crate::macros::*;
use crate::ty::*;
use crate::{load, Output, Source};

fn tok(t: &impl ToTokens) -> String {
    t.to_token_stream().to_string()
}

fn lstr(s: &str) -> String {
    format!("\"{}\"", s.replace('\\', "\\\\").replace('"', "\\\""))
}

fn en(s: &str) -> String {
    format!(".{}", s.replace('-', "_").replace('.', "_"))
}

/// a wrapper parameter as a `Param`; anything that is not one of the four parameter names (`&a`, `a.as_slice()`, a local
/// variable …) becomes `.other`, which no specification accepts — the table still elaborates and the row is reported
fn param_en(s: &str) -> String {
    match s.trim() {
        "a" | "b" | "result" | "value" => format!(".{}", s.trim()),
        _ => ".other".to_string(),
    }
}

fn toks(name: &str) -> String {
    format!("[{}]", name.split('_').map(en).collect::<Vec<_>>().join(", "))
}

fn llist(v: &[String]) -> String {
    format!("[{}]", v.join(", "))
}

fn lstrs(v: &[String]) -> String {
    llist(&v.iter().map(|s| lstr(s)).collect::<Vec<_>>())
}

/// emit `def <name> : List <ty> := chunk0 ++ chunk1 ++ ..` with 40-row chunks
fn chunked(name: &str, ty: &str, rows: &[String]) -> String {
    let mut s = String::new();
    let mut chunks = vec![];
    for (k, c) in rows.chunks(40).enumerate() {
        let cn = format!("{name}_chunk{k}");
        s.push_str(&format!("def {cn} : List {ty} := [\n  {}\n]\n", c.join(",\n  ")));
        chunks.push(cn);
    }
    if chunks.is_empty() {
        s.push_str(&format!("def {name} : List {ty} := []\n"));
    } else {
        s.push_str(&format!("def {name}_chunks : List (List {ty}) := [{}]\n", chunks.join(", ")));
        s.push_str(&format!("def {name} : List {ty} := {name}_chunks.flatten\n"));
    }
    s
}

fn split_commas(ts: TokenStream) -> Vec<Vec<TokenTree>> {
    let mut out = vec![vec![]];
    for t in ts {
        match &t {
            TokenTree::Punct(p) if p.as_char() == ',' => out.push(vec![]),
            _ => out.last_mut().unwrap().push(t),
        }
    }
    if out.last().map(|v| v.is_empty()).unwrap_or(false) {
        out.pop();
    }
    out
}

fn tts_string(v: &[TokenTree]) -> String {
    v.iter().map(|t| t.to_string()).collect::<Vec<_>>().join(" ")
}

fn norm(s: &str) -> String {
    s.replace(' ', "")
}

// --------------------------------------------------------------------------- export invocations

pub struct ExportRow {
    pub mac: String,
    pub ty: String,
    pub reg: String,
    pub op: String,
    pub xconst: String,
    pub xany: String,
    pub features: Option<Vec<String>>,
    pub module: String,
    pub module_cfg: Option<CfgPred>,
    pub file: String,
    pub line: usize,
}

fn parse_export_invocation(m: &syn::Macro) -> Option<(BTreeMap<String, String>, Option<Vec<String>>)> {
    let mut kv = BTreeMap::new();
    let mut features = None;
    let parts = split_commas(m.tokens.clone());
    let mut i = 0;
    while i < parts.len() {
        let p = &parts[i];
        if p.len() >= 3 {
            let key = p[0].to_string();
            if key == "features" {
                // features = "a", "b" : the remaining comma-separated parts are features too
                let mut fs = vec![tts_string(&p[2..]).trim_matches('"').to_string()];
                for q in &parts[i + 1..] {
                    fs.push(tts_string(q).trim_matches('"').to_string());
                }
                features = Some(fs);
                break;
            }
            kv.insert(key, norm(&tts_string(&p[2..])));
        }
        i += 1;
    }
    Some((kv, features))
}

pub fn collect_exports(src: &Source, out: &mut Output) -> Vec<ExportRow> {
    let mut rows = vec![];
    for it in &src.file.items {
        if let syn::Item::Mod(m) = it {
            let cfg = cfg_of_attrs(&m.attrs);
            if let Some((_, items)) = &m.content {
                for ii in items {
                    if let syn::Item::Macro(im) = ii {
                        let name = im.mac.path.segments.last().map(|s| s.ident.to_string()).unwrap_or_default();
                        if !name.starts_with("export_") {
                            continue;
                        }
                        match parse_export_invocation(&im.mac) {
                            Some((kv, features)) => {
                                let get = |k: &str| kv.get(k).cloned().unwrap_or_default();
                                let row = ExportRow {
                                    mac: name.clone(),
                                    ty: get("ty"),
                                    reg: get("register"),
                                    op: get("op"),
                                    xconst: get("xconst"),
                                    xany: get("xany"),
                                    features,
                                    module: m.ident.to_string(),
                                    module_cfg: cfg.clone(),
                                    file: src.rel.clone(),
                                    line: im.span().start().line,
                                };
                                if row.ty.is_empty() || row.reg.is_empty() || row.op.is_empty() || row.xconst.is_empty() || row.xany.is_empty() {
                                    out.errors.push(format!("{}:{}: incomplete `{name}!` invocation", src.rel, row.line));
                                }
                                rows.push(row);
                            },
                            None => out.errors.push(format!("{}: cannot parse `{name}!` invocation", src.rel)),
                        }
                    }
                }
            }
        }
    }
    rows
}

// --------------------------------------------------------------------------- export macro arms

struct ArmFn {
    name_var: String,
    has_target_feature: bool,
    const_dims: bool,
    params: Vec<(String, String)>,
    callee: String,
    type_args: Vec<String>,
    call_args: Vec<String>,
}

/// scan a macro arm body for `pub unsafe fn $name <..>? ( params ) -> ret? { $op::<..>(args) }`
fn scan_arm_fns(body: &TokenStream) -> Vec<ArmFn> {
    let tts: Vec<TokenTree> = body.clone().into_iter().collect();
    let mut fns = vec![];
    let mut i = 0;
    let mut attr_start = 0;
    while i < tts.len() {
        if let TokenTree::Ident(id) = &tts[i] {
            if id == "fn" {
                let attrs = tts_string(&tts[attr_start..i]);
                let has_tf = attrs.contains("target_feature");
                // name
                let mut j = i + 1;
                let mut name_var = String::new();
                if let Some(TokenTree::Punct(p)) = tts.get(j) {
                    if p.as_char() == '$' {
                        if let Some(TokenTree::Ident(n)) = tts.get(j + 1) {
                            name_var = n.to_string();
                        }
                        j += 2;
                    }
                }
                // generics up to the parameter group
                let mut gen = vec![];
                while j < tts.len() {
                    if let TokenTree::Group(g) = &tts[j] {
                        if g.delimiter() == Delimiter::Parenthesis {
                            break;
                        }
                    }
                    gen.push(tts[j].clone());
                    j += 1;
                }
                let const_dims = norm(&tts_string(&gen)).contains("constDIMS:usize");
                let mut params = vec![];
                if let Some(TokenTree::Group(g)) = tts.get(j) {
                    for p in split_commas(g.stream()) {
                        let s = tts_string(&p);
                        if let Some((n, t)) = s.split_once(':') {
                            params.push((norm(n), norm(t)));
                        }
                    }
                }
                // body
                let mut k = j + 1;
                while k < tts.len() {
                    if let TokenTree::Group(g) = &tts[k] {
                        if g.delimiter() == Delimiter::Brace {
                            break;
                        }
                    }
                    k += 1;
                }
                let mut callee = String::new();
                let mut type_args = vec![];
                let mut call_args = vec![];
                if let Some(TokenTree::Group(g)) = tts.get(k) {
                    let b: Vec<TokenTree> = g.stream().into_iter().collect();
                    // callee tokens up to `::<` / paren
                    let mut x = 0;
                    let mut head = vec![];
                    while x < b.len() {
                        match &b[x] {
                            TokenTree::Punct(p) if p.as_char() == '<' => break,
                            TokenTree::Group(_) => break,
                            t => head.push(t.clone()),
                        }
                        x += 1;
                    }
                    callee = norm(&tts_string(&head)).trim_end_matches("::").to_string();
                    let mut ta = vec![];
                    if let Some(TokenTree::Punct(p)) = b.get(x) {
                        if p.as_char() == '<' {
                            x += 1;
                            while x < b.len() {
                                if let TokenTree::Punct(p) = &b[x] {
                                    if p.as_char() == '>' {
                                        x += 1;
                                        break;
                                    }
                                }
                                ta.push(b[x].clone());
                                x += 1;
                            }
                        }
                    }
                    type_args = split_commas(ta.into_iter().collect()).iter().map(|v| norm(&tts_string(v))).collect();
                    if let Some(TokenTree::Group(ag)) = b.get(x) {
                        call_args = split_commas(ag.stream()).iter().map(|v| norm(&tts_string(v))).collect();
                    }
                    if x + 1 < b.len() {
                        // anything after the call makes the arm something else than a plain forwarder
                        callee.push_str("#trailing");
                    }
                }
                fns.push(ArmFn { name_var, has_target_feature: has_tf, const_dims, params, callee, type_args, call_args });
                i = k + 1;
                attr_start = i;
                continue;
            }
        }
        i += 1;
    }
    fns
}

fn export_macro_arms(src: &Source, out: &mut Output, rows: &mut Vec<String>) {
    for it in &src.file.items {
        if let syn::Item::Macro(m) = it {
            if !m.mac.path.is_ident("macro_rules") {
                continue;
            }
            let name = m.ident.as_ref().map(|i| i.to_string()).unwrap_or_default();
            if !name.starts_with("export_") {
                continue;
            }
            for (k, arm) in macro_arms(m).iter().enumerate() {
                let pv = pattern_vars(&arm.pattern);
                let with_features = pv.iter().any(|v| v == "feat");
                let fns = scan_arm_fns(&arm.body);
                if fns.len() != 2 {
                    out.errors.push(format!("{}: arm {k} of `{name}!` does not define exactly two functions", src.rel));
                }
                for f in fns {
                    rows.push(format!(
                        "{{ macro_ := {}, withFeatures := {}, nameVar := {}, hasTargetFeature := {}, constDims := {}, params := {}, callee := {}, typeArgs := {}, callArgs := {} }}",
                        en(&name),
                        with_features,
                        lstr(&f.name_var),
                        f.has_target_feature,
                        f.const_dims,
                        llist(&f.params.iter().map(|(n, t)| format!("({}, {})", lstr(n), lstr(t))).collect::<Vec<_>>()),
                        lstr(&f.callee),
                        lstrs(&f.type_args),
                        lstrs(&f.call_args),
                    ));
                }
            }
        }
    }
}

// --------------------------------------------------------------------------- safe wrappers

fn norm_len(e: &syn::Expr) -> String {
    let s = norm(&tok(e));
    if let Some(x) = s.strip_suffix(".len()") {
        format!("len {x}")
    } else {
        s
    }
}

struct SafeFn {
    name_var: String,
    const_dims: bool,
    params: Vec<(String, String)>,
    returns: bool,
    asserts: Vec<(String, String)>,
    slots: Vec<(String, String, bool, Vec<String>)>,
    other_stmts: usize,
    asserts_after_dispatch: usize,
}

fn parse_dispatch_invocation(ts: TokenStream) -> Vec<(String, String, bool, Vec<String>)> {
    // label = fn [::<DIMS>] => ( args )
    let tts: Vec<TokenTree> = ts.into_iter().collect();
    let mut slots = vec![];
    let mut i = 0;
    while i < tts.len() {
        if let (Some(TokenTree::Ident(label)), Some(TokenTree::Punct(eq))) = (tts.get(i), tts.get(i + 1)) {
            if eq.as_char() == '=' {
                let mut j = i + 2;
                let mut f = vec![];
                while j < tts.len() {
                    if let TokenTree::Punct(p) = &tts[j] {
                        if p.as_char() == '=' {
                            if let Some(TokenTree::Punct(q)) = tts.get(j + 1) {
                                if q.as_char() == '>' {
                                    break;
                                }
                            }
                        }
                    }
                    f.push(tts[j].clone());
                    j += 1;
                }
                let fs = norm(&tts_string(&f));
                let (fname, dims) = match fs.split_once("::<") {
                    Some((n, rest)) => (n.to_string(), rest.trim_end_matches('>') == "DIMS"),
                    None => (fs.clone(), false),
                };
                let mut args = vec![];
                if let Some(TokenTree::Group(g)) = tts.get(j + 2) {
                    args = split_commas(g.stream()).iter().map(|v| norm(&tts_string(v))).collect();
                }
                slots.push((label.to_string(), fname, dims, args));
                i = j + 3;
                continue;
            }
        }
        i += 1;
    }
    slots
}

fn find_dispatch(stmts: &[syn::Stmt], f: &mut SafeFn) {
    for s in stmts {
        match s {
            syn::Stmt::Macro(m) => {
                let n = m.mac.path.segments.last().map(|s| s.ident.to_string()).unwrap_or_default();
                if n == "assert_eq" {
                    if let Ok(args) = m.mac.parse_body_with(
                        syn::punctuated::Punctuated::<syn::Expr, syn::Token![,]>::parse_terminated,
                    ) {
                        if args.len() >= 2 {
                            f.asserts.push((norm_len(&args[0]), norm_len(&args[1])));
                            if !f.slots.is_empty() {
                                f.asserts_after_dispatch += 1;
                            }
                            continue;
                        }
                    }
                    f.other_stmts += 1;
                } else if n == "dispatch" {
                    f.slots = parse_dispatch_invocation(m.mac.tokens.clone());
                } else {
                    f.other_stmts += 1;
                }
            },
            syn::Stmt::Expr(syn::Expr::Unsafe(u), _) => find_dispatch(&u.block.stmts, f),
            syn::Stmt::Expr(syn::Expr::Macro(m), _) => {
                let n = m.mac.path.segments.last().map(|s| s.ident.to_string()).unwrap_or_default();
                if n == "dispatch" {
                    f.slots = parse_dispatch_invocation(m.mac.tokens.clone());
                } else {
                    f.other_stmts += 1;
                }
            },
            _ => f.other_stmts += 1,
        }
    }
}

struct SafeMacro {
    name: String,
    vars: Vec<String>,
    fns: Vec<SafeFn>,
}

fn safe_macros(src: &Source, out: &mut Output) -> Vec<SafeMacro> {
    let mut res = vec![];
    for it in &src.file.items {
        if let syn::Item::Macro(m) = it {
            if !m.mac.path.is_ident("macro_rules") {
                continue;
            }
            let name = m.ident.as_ref().map(|i| i.to_string()).unwrap_or_default();
            if !name.starts_with("export_safe_") {
                continue;
            }
            let arms = macro_arms(m);
            if arms.len() != 1 {
                out.errors.push(format!("{}: `{name}!` has {} arms, expected 1", src.rel, arms.len()));
                continue;
            }
            let vars = pattern_vars(&arms[0].pattern);
            let mut sub = BTreeMap::new();
            for v in &vars {
                let rep: TokenStream = match v.as_str() {
                    "desc" => "\"d\"".parse().unwrap(),
                    "t" => "T__".parse().unwrap(),
                    other => format!("V__{other}").parse().unwrap(),
                };
                sub.insert(v.clone(), rep);
            }
            let body = substitute(arms[0].body.clone(), &sub);
            let file: syn::File = match syn::parse2(body) {
                Ok(f) => f,
                Err(e) => {
                    out.errors.push(format!("{}: cannot parse body of `{name}!`: {e}", src.rel));
                    continue;
                },
            };
            let mut fns = vec![];
            for it in &file.items {
                if let syn::Item::Fn(f) = it {
                    let mut sf = SafeFn {
                        name_var: f.sig.ident.to_string().trim_start_matches("V__").to_string(),
                        const_dims: f.sig.generics.params.iter().any(|p| matches!(p, syn::GenericParam::Const(c) if c.ident == "DIMS")),
                        params: f
                            .sig
                            .inputs
                            .iter()
                            .filter_map(|a| if let syn::FnArg::Typed(pt) = a { Some((norm(&tok(&pt.pat)), norm(&tok(&pt.ty)))) } else { None })
                            .collect(),
                        returns: !matches!(f.sig.output, syn::ReturnType::Default),
                        asserts: vec![],
                        slots: vec![],
                        other_stmts: 0,
                        asserts_after_dispatch: 0,
                    };
                    find_dispatch(&f.block.stmts, &mut sf);
                    for s in sf.slots.iter_mut() {
                        s.1 = s.1.trim_start_matches("V__").to_string();
                    }
                    fns.push(sf);
                }
            }
            res.push(SafeMacro { name, vars, fns });
        }
    }
    res
}

// --------------------------------------------------------------------------- dispatch! macro

fn dispatch_macro(src: &Source, out: &mut Output, text: &mut String) {
    for it in &src.file.items {
        if let syn::Item::Macro(m) = it {
            if m.ident.as_ref().map(|i| i == "dispatch").unwrap_or(false) {
                let arms = macro_arms(m);
                if arms.len() != 1 {
                    out.errors.push(format!("{}: dispatch! has {} arms", src.rel, arms.len()));
                    return;
                }
                // pattern: label order and label -> fn metavariable
                let mut labels: Vec<(String, String, bool)> = vec![];
                let pt: Vec<TokenTree> = arms[0].pattern.clone().into_iter().collect();
                let mut i = 0;
                fn label_of(ts: &[TokenTree]) -> Option<(String, String)> {
                    // label = $var:expr => ...
                    if let (Some(TokenTree::Ident(l)), Some(TokenTree::Punct(_)), Some(TokenTree::Punct(d)), Some(TokenTree::Ident(v))) =
                        (ts.first(), ts.get(1), ts.get(2), ts.get(3))
                    {
                        if d.as_char() == '$' {
                            return Some((l.to_string(), v.to_string()));
                        }
                    }
                    None
                }
                while i < pt.len() {
                    match &pt[i] {
                        TokenTree::Punct(p) if p.as_char() == '$' => {
                            if let Some(TokenTree::Group(g)) = pt.get(i + 1) {
                                let inner: Vec<TokenTree> = g.stream().into_iter().collect();
                                if let Some((l, v)) = label_of(&inner) {
                                    labels.push((l, v, true));
                                }
                                i += 2;
                                continue;
                            }
                        },
                        TokenTree::Ident(_) => {
                            if let Some((l, v)) = label_of(&pt[i..]) {
                                labels.push((l, v, false));
                                break;
                            }
                        },
                        _ => {},
                    }
                    i += 1;
                }
                // body: inner brace group
                let mut body: Vec<TokenTree> = arms[0].body.clone().into_iter().collect();
                if body.len() == 1 {
                    if let TokenTree::Group(g) = &body[0] {
                        body = g.stream().into_iter().collect();
                    }
                }
                let mut cands: Vec<String> = vec![];
                let mut i = 0;
                let mut fallback_var = String::new();
                let mut trailing = 0usize;
                while i < body.len() {
                    match &body[i] {
                        TokenTree::Punct(p) if p.as_char() == '$' => {
                            if let Some(TokenTree::Group(g)) = body.get(i + 1) {
                                let inner: Vec<TokenTree> = g.stream().into_iter().collect();
                                // # [cfg(..)] if cond { return $fn(..); }
                                let mut cfg = None;
                                let mut cond = vec![];
                                let mut fnvar = String::new();
                                let mut returns = false;
                                let mut k = 0;
                                while k < inner.len() {
                                    match &inner[k] {
                                        TokenTree::Punct(p) if p.as_char() == '#' => {
                                            if let Some(TokenTree::Group(ag)) = inner.get(k + 1) {
                                                let ats: Vec<TokenTree> = ag.stream().into_iter().collect();
                                                if let (Some(TokenTree::Ident(c)), Some(TokenTree::Group(cg))) = (ats.first(), ats.get(1)) {
                                                    if c == "cfg" {
                                                        cfg = parse_cfg_macro(cg.stream());
                                                    }
                                                }
                                            }
                                            k += 2;
                                            continue;
                                        },
                                        TokenTree::Ident(id) if id == "if" => {
                                            k += 1;
                                            while k < inner.len() {
                                                if let TokenTree::Group(bg) = &inner[k] {
                                                    if bg.delimiter() == Delimiter::Brace {
                                                        let bts: Vec<TokenTree> = bg.stream().into_iter().collect();
                                                        if let Some(TokenTree::Ident(r)) = bts.first() {
                                                            returns = r == "return";
                                                        }
                                                        for (x, t) in bts.iter().enumerate() {
                                                            if let TokenTree::Punct(p) = t {
                                                                if p.as_char() == '$' && fnvar.is_empty() {
                                                                    if let Some(TokenTree::Ident(v)) = bts.get(x + 1) {
                                                                        fnvar = v.to_string();
                                                                    }
                                                                }
                                                            }
                                                        }
                                                        break;
                                                    }
                                                }
                                                cond.push(inner[k].clone());
                                                k += 1;
                                            }
                                        },
                                        _ => {},
                                    }
                                    k += 1;
                                }
                                let cond_s = norm(&tts_string(&cond));
                                // guards: conjunction of `$crate::dispatch::is_X_available()`
                                let mut guards = vec![];
                                let mut pure_conj = true;
                                for part in cond_s.split("&&") {
                                    let p = part.trim_start_matches("$crate::dispatch::");
                                    if p.starts_with("is_") && p.ends_with("_available()") {
                                        guards.push(p.trim_end_matches("()").to_string());
                                    } else {
                                        pure_conj = false;
                                    }
                                }
                                let label = labels.iter().find(|(_, v, _)| *v == fnvar).map(|x| x.0.clone()).unwrap_or_default();
                                cands.push(format!(
                                    "{{ label := {}, cfg := {}, guards := {}, condIsGuardConjunction := {}, returnsCall := {} }}",
                                    en(&label),
                                    cfg.as_ref().map(|c| c.lean_data()).unwrap_or_else(|| "(.all [])".into()),
                                    llist(&guards.iter().map(|g| en(g)).collect::<Vec<_>>()),
                                    pure_conj,
                                    returns
                                ));
                                i += 3; // $ ( .. ) ?
                                continue;
                            } else if let Some(TokenTree::Ident(v)) = body.get(i + 1) {
                                if fallback_var.is_empty() {
                                    fallback_var = v.to_string();
                                    i += 2;
                                    // the argument group follows
                                    if let Some(TokenTree::Group(_)) = body.get(i) {
                                        i += 1;
                                    }
                                    continue;
                                }
                            }
                        },
                        _ => trailing += 1,
                    }
                    i += 1;
                }
                let fb_label = labels.iter().find(|(_, v, _)| *v == fallback_var).map(|x| x.0.clone()).unwrap_or_default();
                text.push_str(&format!("def dispatchCandidates : List DispatchCand := [\n  {}\n]\n", cands.join(",\n  ")));
                text.push_str(&format!("def dispatchFallbackLabel : Slot := {}\n", en(&fb_label)));
                text.push_str(&format!(
                    "def dispatchPatternLabels : List (Slot × Bool) := {}\n",
                    llist(&labels.iter().map(|(l, _, o)| format!("({}, {})", en(l), o)).collect::<Vec<_>>())
                ));
                text.push_str(&format!("def dispatchTrailingTokens : Nat := {trailing}\n\n"));
                out.items.push("macro:dispatch".into());
                return;
            }
        }
    }
    out.errors.push(format!("{}: dispatch! macro not found", src.rel));
}

// --------------------------------------------------------------------------- main entry

pub fn gen_tables(root: &Path, out: &mut Output, harness_dir: &Path) {
    let mut text = String::from("-- GENERATED by /verif/translator from /repo — do not edit.\n");
    text.push_str("import CfavmlModel.Prim.Tables\nnamespace Cfavml\nnamespace Tables\n\n");

    // exports
    let mut all_rows: Vec<ExportRow> = vec![];
    let mut arm_rows: Vec<String> = vec![];
    for rel in [
        "cfavml/src/danger/export_arithmetic_ops.rs",
        "cfavml/src/danger/export_distance_ops.rs",
        "cfavml/src/danger/export_min_max_sum_norm.rs",
    ] {
        match load(root, rel) {
            Ok(src) => {
                all_rows.extend(collect_exports(&src, out));
                export_macro_arms(&src, out, &mut arm_rows);
            },
            Err(e) => out.errors.push(e),
        }
    }
    let rows: Vec<String> = all_rows
        .iter()
        .map(|r| {
            format!(
                "{{ macro_ := {}, ty := {}, reg := {}, op := {}, xconst := {}, xany := {}, hasFeatures := {}, features := {}, moduleCfg := {}, xanyName := {}, module := {}, file := {}, line := {} }}",
                en(&r.mac),
                en(&r.ty),
                en(&r.reg),
                en(&r.op),
                toks(&r.xconst),
                toks(&r.xany),
                r.features.is_some(),
                llist(&r.features.clone().unwrap_or_default().iter().map(|f| en(f)).collect::<Vec<_>>()),
                r.module_cfg.as_ref().map(|c| c.lean_data()).unwrap_or_else(|| "(.all [])".into()),
                lstr(&r.xany),
                lstr(&r.module),
                lstr(&r.file),
                r.line
            )
        })
        .collect();
    text.push_str(&chunked("exports", "ExportRow", &rows));
    text.push('\n');
    text.push_str(&chunked("exportArms", "ExportArmFn", &arm_rows));
    text.push('\n');
    out.items.push(format!("table:exports:{}", all_rows.len()));

    // safe wrappers
    let mut safe_arm_rows: Vec<String> = vec![];
    let mut safe_rows: Vec<String> = vec![];
    let mut safe_list: Vec<(String, String, String, String, BTreeMap<String, String>)> = vec![];
    for rel in [
        "cfavml/src/safe_arithmetic_ops.rs",
        "cfavml/src/safe_distance_ops.rs",
        "cfavml/src/safe_min_max_sum_ops.rs",
        "cfavml/src/safe_norm_ops.rs",
    ] {
        let src = match load(root, rel) {
            Ok(s) => s,
            Err(e) => {
                out.errors.push(e);
                continue;
            },
        };
        let macs = safe_macros(&src, out);
        for sm in &macs {
            for f in &sm.fns {
                let form = if f.name_var == "const_name" { ".xconst" } else if f.name_var == "any_name" { ".xany" } else { ".unknown_form" };
                let term = |t: &str| -> String {
                    if t == "DIMS" {
                        ".dims".to_string()
                    } else if let Some(x) = t.strip_prefix("len ") {
                        format!("(.len {})", param_en(x))
                    } else {
                        // not `DIMS` and not `<param>.len()`: an assertion about something else
                        "(.len .other)".to_string()
                    }
                };
                let slot_var = |v: &str| -> (String, String) {
                    if let Some(x) = v.strip_suffix("_const_name") {
                        (en(x), ".xconst".to_string())
                    } else if let Some(x) = v.strip_suffix("_any_name") {
                        (en(x), ".xany".to_string())
                    } else {
                        (format!(".unknown_{v}"), ".xany".to_string())
                    }
                };
                safe_arm_rows.push(format!(
                    "{{ macro_ := {}, form := {}, constDims := {}, params := {}, returnsValue := {}, asserts := {}, slots := {}, otherStmts := {}, assertsAfterDispatch := {} }}",
                    en(&sm.name),
                    form,
                    f.const_dims,
                    llist(&f.params.iter().map(|(n, t)| format!("({}, {})", param_en(n), lstr(t))).collect::<Vec<_>>()),
                    f.returns,
                    llist(&f.asserts.iter().map(|(a, b)| format!("({}, {})", term(a), term(b))).collect::<Vec<_>>()),
                    llist(
                        &f.slots
                            .iter()
                            .map(|(l, v, d, a)| {
                                let (sv, sf) = slot_var(v);
                                format!(
                                    "{{ label := {}, fnVarSlot := {}, fnVarForm := {}, passesDims := {}, args := {} }}",
                                    en(l),
                                    sv,
                                    sf,
                                    d,
                                    llist(&a.iter().map(|x| param_en(x)).collect::<Vec<_>>())
                                )
                            })
                            .collect::<Vec<_>>()
                    ),
                    f.other_stmts,
                    f.asserts_after_dispatch
                ));
            }
        }
        // invocations
        for it in &src.file.items {
            if let syn::Item::Macro(im) = it {
                let name = im.mac.path.segments.last().map(|s| s.ident.to_string()).unwrap_or_default();
                if let Some(sm) = macs.iter().find(|m| m.name == name) {
                    let parts = split_commas(im.mac.tokens.clone());
                    let mut bind: BTreeMap<String, String> = BTreeMap::new();
                    // `key = value` parts bind $desc/$t/$const_name/$any_name in order, the rest are positional
                    let mut vals: Vec<String> = vec![];
                    for p in &parts {
                        let s = tts_string(p);
                        let is_kv = p.len() >= 3 && matches!(&p[1], TokenTree::Punct(q) if q.as_char() == '=');
                        vals.push(if is_kv { norm(&tts_string(&p[2..])) } else { norm(&s) });
                    }
                    if vals.len() != sm.vars.len() {
                        out.errors.push(format!(
                            "{rel}:{}: `{name}!` invocation has {} arguments, the macro takes {}",
                            im.span().start().line,
                            vals.len(),
                            sm.vars.len()
                        ));
                        continue;
                    }
                    for (v, val) in sm.vars.iter().zip(vals.iter()) {
                        bind.insert(v.clone(), val.clone());
                    }
                    let ty = bind.get("t").cloned().unwrap_or_default();
                    let cn = bind.get("const_name").cloned().unwrap_or_default();
                    let an = bind.get("any_name").cloned().unwrap_or_default();
                    let b: Vec<String> = sm
                        .vars
                        .iter()
                        .filter(|v| !["desc", "t", "const_name", "any_name"].contains(&v.as_str()))
                        .map(|v| {
                            let (sl, fm) = if let Some(x) = v.strip_suffix("_const_name") {
                                (en(x), ".xconst")
                            } else if let Some(x) = v.strip_suffix("_any_name") {
                                (en(x), ".xany")
                            } else {
                                (format!(".unknown_{v}"), ".xany")
                            };
                            format!("({}, {}, {})", sl, fm, toks(&bind[v]))
                        })
                        .collect();
                    safe_rows.push(format!(
                        "{{ macro_ := {}, ty := {}, constName := {}, anyName := {}, bindings := {}, anyNameStr := {}, file := {}, line := {} }}",
                        en(&name),
                        en(&ty),
                        toks(&cn),
                        toks(&an),
                        llist(&b),
                        lstr(&an),
                        lstr(rel),
                        im.span().start().line
                    ));
                    safe_list.push((name.clone(), ty, cn, an, bind));
                }
            }
        }
    }
    text.push_str(&format!("def safeArms : List SafeArmFn := [\n  {}\n]\n\n", safe_arm_rows.join(",\n  ")));
    text.push_str(&chunked("safeRows", "SafeRow", &safe_rows));
    text.push('\n');
    out.items.push(format!("table:safeRows:{}", safe_rows.len()));

    // dispatch
    match load(root, "cfavml/src/dispatch.rs") {
        Ok(src) => {
            dispatch_macro(&src, out, &mut text);
            // the is_*_available functions as executable definitions
            let reg = Registry::default();
            let mut dtext = String::from("-- GENERATED by /verif/translator from /repo — do not edit.\nimport CfavmlModel.Prim.Scalar\nset_option linter.unusedVariables false\nnamespace Cfavml\n\n");
            let mut avail = vec![];
            for it in &src.file.items {
                if let syn::Item::Fn(f) = it {
                    let n = f.sig.ident.to_string();
                    if !n.starts_with("is_") {
                        continue;
                    }
                    let cfg = cfg_of_attrs(&f.attrs);
                    let spec = FnSpec {
                        lean_name: n.clone(),
                        sig: &f.sig,
                        block: &f.block,
                        file: src.rel.clone(),
                        tyenv: TyEnv::default(),
                        elem: None,
                        self_struct: None,
                        self_mode: SelfMode::None,
                        extra_params: vec![],
                        implicit: vec![],
                        pure_def: false,
                        doc: format!("{}: `{n}`", src.rel),
                    };
                    let r = translate_fn(&reg, spec);
                    out.errors.extend(r.errors);
                    out.non_impl_intrinsics.extend(r.intrinsics.iter().cloned());
                    out.items.push(format!("dispatch:{n}"));
                    dtext.push_str(&r.text);
                    dtext.push('\n');
                    avail.push(format!(
                        "({}, {})",
                        en(&n),
                        cfg.as_ref().map(|c| c.lean_data()).unwrap_or_else(|| "(.all [])".into())
                    ));
                }
            }
            dtext.push_str("end Cfavml\n");
            out.files.insert("Dispatch.lean".into(), dtext);
            text.push_str(&format!("def availabilityFns : List (Guard × Cfg) := {}\n\n", llist(&avail)));
        },
        Err(e) => out.errors.push(e),
    }

    text.push_str("end Tables\nend Cfavml\n");
    out.files.insert("Tables.lean".into(), text);

    crate::refs::gen_refs(root, out);
    crate::harness_gen::gen_harness(&all_rows, &safe_list, harness_dir, out);
    let _ = (fs::metadata(root), BTreeSet::<String>::new());
}

// --------------------------------------------------------------------------- impl call graph

pub fn gen_impl_tables(infos: &[ImplInfo], out: &mut Output) {
    let mut rows = vec![];
    for i in infos {
        for ins in i.intrinsics.values() {
            out.used_intrinsics.extend(ins.iter().cloned());
        }
    }
    let index: Vec<String> = out.used_intrinsics.iter().cloned().collect();
    for i in infos {
        for (m, ins) in &i.intrinsics {
            let calls = i.calls.get(m).cloned().unwrap_or_default();
            rows.push(format!(
                "{{ reg := {}, ty := {}, method := {}, isOverride := {}, intrinsics := {}, calls := {} }}",
                en(&i.strukt),
                en(&i.elem),
                en(m),
                i.overrides.contains(m),
                llist(&ins.iter().map(|x| format!("{}", index.iter().position(|y| y == x).unwrap())).collect::<Vec<_>>()),
                llist(&calls.iter().map(|(s, e, mm)| format!("({}, {}, {})", en(s), en(e), en(mm))).collect::<Vec<_>>())
            ));
        }
    }
    let mut text = String::from("-- GENERATED by /verif/translator from /repo — do not edit.\nimport CfavmlModel.Prim.Tables\nnamespace Cfavml\nnamespace Tables\n\n");
    text.push_str(&chunked("implMethods", "ImplMethodRow", &rows));
    text.push_str("\nend Tables\nend Cfavml\n");
    out.files.insert("ImplTables.lean".into(), text);
    let _ = infos.iter().map(|i| (&i.reg_ty, &i.file)).count();
}
