//! Tables: exports, safe wrappers, dispatch macro, features (filled in below).
use std::path::Path;

use crate::impls::ImplInfo;
use crate::Output;

pub fn gen_tables(_root: &Path, _out: &mut Output, _harness_dir: &Path) {}

pub fn gen_impl_tables(_infos: &[ImplInfo], _out: &mut Output) {}
