//! Item-level translation: functions, trait defaults, impl blocks.
use std::collections::{BTreeMap, BTreeSet};

use quote::ToTokens;

use crate::body::*;
use crate::stmt::Tail;
use crate::ty::*;

fn tok(t: &impl ToTokens) -> String {
    t.to_token_stream().to_string()
}

pub fn has_cfg_test(attrs: &[syn::Attribute]) -> bool {
    attrs.iter().any(|a| a.path().is_ident("cfg") && tok(&a.meta).replace(' ', "") == "cfg(test)")
}

/// classify generic parameters of a signature
pub fn generics_of(sig: &syn::Signature) -> Vec<Generic> {
    let mut bounds: BTreeMap<String, String> = BTreeMap::new();
    for p in &sig.generics.params {
        if let syn::GenericParam::Type(t) = p {
            let b = tok(&t.bounds);
            bounds.entry(t.ident.to_string()).or_default().push_str(&b);
        }
    }
    if let Some(w) = &sig.generics.where_clause {
        for pr in &w.predicates {
            if let syn::WherePredicate::Type(pt) = pr {
                let name = tok(&pt.bounded_ty);
                bounds.entry(name).or_default().push_str(&tok(&pt.bounds));
            }
        }
    }
    let mut out = vec![];
    for p in &sig.generics.params {
        match p {
            syn::GenericParam::Type(t) => {
                let n = t.ident.to_string();
                let b = bounds.get(&n).cloned().unwrap_or_default();
                if b.contains("SimdRegister") {
                    out.push(Generic::Reg(n));
                } else if b.contains("Math") {
                    out.push(Generic::Math(n));
                } else {
                    out.push(Generic::Type(n));
                }
            },
            syn::GenericParam::Const(c) => out.push(Generic::Const(c.ident.to_string())),
            _ => {},
        }
    }
    out
}

pub fn sig_of(name: &str, lean_name: &str, sig: &syn::Signature, env: &TyEnv) -> Sig {
    let mut params = vec![];
    for a in &sig.inputs {
        if let syn::FnArg::Typed(pt) = a {
            let n = tok(&pt.pat).replace("mut ", "");
            params.push((n, conv_type(&pt.ty, env)));
        }
    }
    let ret = match &sig.output {
        syn::ReturnType::Default => Ty::Unit,
        syn::ReturnType::Type(_, t) => conv_type(t, env),
    };
    let _ = name;
    Sig {
        lean_name: lean_name.to_string(),
        generics: generics_of(sig),
        params,
        ret,
        takes_env: true,
        pure_fn: false,
    }
}

pub struct FnOut {
    pub text: String,
    pub errors: Vec<String>,
    pub intrinsics: BTreeSet<String>,
    pub calls: BTreeSet<(String, String, String)>,
    /// for trait defaults: the `Self::` methods / sizes the body uses, in sorted order
    pub closure_params: Vec<String>,
}

pub struct FnSpec<'b> {
    pub lean_name: String,
    pub sig: &'b syn::Signature,
    pub block: &'b syn::Block,
    pub file: String,
    pub tyenv: TyEnv,
    pub elem: Option<String>,
    pub self_struct: Option<String>,
    pub self_mode: SelfMode,
    /// extra explicit parameters placed right after `E` (e.g. `(AM : Math T)`)
    pub extra_params: Vec<String>,
    /// implicit type binders, e.g. `{T : Type}`
    pub implicit: Vec<String>,
    pub doc: String,
    /// emit a pure definition (the body must be a single pure expression)
    pub pure_def: bool,
}

fn closure_param_decl(name: &str, reg: &Registry, ctx: &Ctx) -> String {
    if let Some(sz) = name.strip_prefix('#') {
        return format!("({sz} : Nat)");
    }
    let sig = reg.simd_methods.get(name).or_else(|| reg.transpose_methods.get(name)).unwrap();
    let mut s = format!("(self_{name} : ");
    for (_, t) in &sig.params {
        let t = ctx.subst_ty(t);
        match t {
            Ty::ConstPtr(_) | Ty::MutPtr(_) => s.push_str(&format!("{} → Nat → ", t.lean())),
            _ => s.push_str(&format!("{} → ", t.lean())),
        }
    }
    s.push_str(&format!("Exec {}", ret_lean(&ctx.subst_ty(&sig.ret), &mut_outs_of(sig, ctx))));
    s.push(')');
    s
}

pub fn mut_outs_of(sig: &Sig, ctx: &Ctx) -> Vec<Ty> {
    sig.params
        .iter()
        .filter(|(_, t)| matches!(t, Ty::MutPtr(_) | Ty::MutSlice(_)))
        .map(|(_, t)| ctx.subst_ty(t))
        .collect()
}

pub fn ret_lean(ret: &Ty, muts: &[Ty]) -> String {
    let mut parts = vec![];
    if *ret != Ty::Unit {
        parts.push(ret.lean());
    }
    for m in muts {
        parts.push(m.lean());
    }
    match parts.len() {
        0 => "Unit".into(),
        1 => parts[0].clone(),
        _ => format!("({})", parts.join(" × ")),
    }
}

pub fn translate_fn(reg: &Registry, spec: FnSpec) -> FnOut {
    let mut ctx = Ctx::new(reg, &spec.file);
    ctx.tyenv = spec.tyenv.clone();
    ctx.elem = spec.elem.clone();
    ctx.self_struct = spec.self_struct.clone();
    ctx.self_mode = spec.self_mode;
    let gens = generics_of(spec.sig);
    let mut implicit = spec.implicit.clone();
    let mut dict_params: Vec<String> = vec![];
    let mut uses_typeid = false;
    if tok(spec.block).contains("TypeId") {
        uses_typeid = true;
    }
    for g in &gens {
        match g {
            Generic::Type(n) => {
                implicit.push(format!("{{{n} : Type}}"));
                if uses_typeid {
                    dict_params.push(format!("(ty{n} : RTy)"));
                }
            },
            Generic::Reg(n) => {
                implicit.push("{Reg : Type}".to_string());
                dict_params.push(format!("({n} : SimdRegister T Reg)"));
                ctx.dicts.insert(n.clone(), g.clone());
                ctx.tyenv.self_reg = Some(Ty::GenReg);
            },
            Generic::Math(n) => {
                dict_params.push(format!("({n} : Math T)"));
                ctx.dicts.insert(n.clone(), g.clone());
            },
            Generic::Const(n) => {
                dict_params.push(format!("({n} : Nat)"));
                ctx.consts.insert(n.clone());
            },
        }
    }
    let gtext = tok(&spec.sig.generics)
        + &spec.sig.generics.where_clause.as_ref().map(|w| tok(w)).unwrap_or_default();
    if gtext.contains("TransposeMatrix") {
        implicit.push("{RM : Type}".to_string());
        dict_params.push("(RT : TransposeMatrix T RM)".to_string());
        ctx.has_rt = true;
    }
    if tok(spec.block).replace(' ', "").contains("transmute::<&[T],") {
        ctx.view_calls = true;
    }
    // parameters
    let mut params: Vec<String> = vec![];
    let mut mut_tys: Vec<Ty> = vec![];
    for a in &spec.sig.inputs {
        if let syn::FnArg::Typed(pt) = a {
            let n = tok(&pt.pat).replace("mut ", "");
            let t = conv_type(&pt.ty, &ctx.tyenv);
            match &t {
                Ty::ConstPtr(_) | Ty::MutPtr(_) => {
                    params.push(format!("({n} : {}) ({n}_off : Nat)", t.lean()));
                    ctx.declare(
                        &n,
                        t.clone(),
                        VarKind::Ptr { base: n.clone(), off: Some(format!("{n}_off")) },
                    );
                    // the base slice itself is a variable too
                    if let Ty::MutPtr(_) = t {
                        ctx.mut_params.push(n.clone());
                        mut_tys.push(t.clone());
                    }
                },
                Ty::MutSlice(_) => {
                    params.push(format!("({n} : {})", t.lean()));
                    ctx.declare(&n, t.clone(), VarKind::Plain);
                    ctx.mut_params.push(n.clone());
                    mut_tys.push(t.clone());
                },
                _ => {
                    params.push(format!("({n} : {})", t.lean()));
                    ctx.declare(&n, t.clone(), VarKind::Plain);
                },
            }
        }
    }
    ctx.ret_ty = match &spec.sig.output {
        syn::ReturnType::Default => Ty::Unit,
        syn::ReturnType::Type(_, t) => conv_type(t, &ctx.tyenv),
    };
    let mut out = Out::new(1);
    ctx.block(&spec.block.stmts, &mut out, &Tail::Fn);

    let closure_params: Vec<String> = match &ctx.self_mode {
        SelfMode::Closure(used) => used.iter().cloned().collect(),
        _ => vec![],
    };
    let closure_decls: Vec<String> =
        closure_params.iter().map(|n| closure_param_decl(n, reg, &ctx)).collect();

    // element-type-specific routines reached through a transmuted view: explicit parameters
    let mut ext_decls: Vec<String> = vec![];
    for n in &ctx.ext_calls {
        if let Some(sig) = reg.fns.get(n) {
            let mut s = format!("(ext_{n} : ");
            let mut outs = vec![];
            for (_, t) in &sig.params {
                match t {
                    Ty::Slice(_) => s.push_str("Slice T → "),
                    Ty::MutSlice(_) => {
                        s.push_str("Slice T → ");
                        outs.push("(Slice T)".to_string());
                    },
                    o => s.push_str(&format!("{} → ", o.lean())),
                }
            }
            let mut parts = vec![];
            if sig.ret != Ty::Unit {
                parts.push(sig.ret.lean());
            }
            parts.extend(outs);
            let r = match parts.len() {
                0 => "Unit".to_string(),
                1 => parts[0].clone(),
                _ => format!("({})", parts.join(" × ")),
            };
            s.push_str(&format!("Exec {r})"));
            ext_decls.push(s);
        }
    }
    dict_params.extend(ext_decls);
    let mut header = String::new();
    if !spec.doc.is_empty() {
        header.push_str(&format!("/-- {} -/\n", spec.doc));
    }
    header.push_str(&format!("def {}", spec.lean_name));
    for i in &implicit {
        header.push(' ');
        header.push_str(i);
    }
    header.push_str(" (E : Env)");
    for p in spec.extra_params.iter().chain(dict_params.iter()).chain(closure_decls.iter()).chain(params.iter()) {
        header.push(' ');
        header.push_str(p);
    }
    let text = if spec.pure_def {
        if out.lines.len() == 1 && out.lines[0].trim_start().starts_with("pure ") {
            header.push_str(&format!(" : {} :=\n", ret_lean(&ctx.ret_ty, &mut_tys)));
            format!("{header}  {}\n", &out.lines[0].trim_start()["pure ".len()..])
        } else {
            ctx.errors.push(format!("{}: `{}` must be a single pure expression", spec.file, spec.lean_name));
            String::new()
        }
    } else {
        header.push_str(&format!(" : Exec {} := do\n", ret_lean(&ctx.ret_ty, &mut_tys)));
        format!("{header}{}\n", out.lines.join("\n"))
    };
    FnOut {
        text,
        errors: ctx.errors,
        intrinsics: ctx.intrinsics,
        calls: ctx.calls,
        closure_params,
    }
}
