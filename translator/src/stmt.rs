//! Statement / block translation.
use quote::ToTokens;
use syn::spanned::Spanned;

use crate::body::*;
use crate::cfgpred::*;
use crate::ty::*;

#[derive(Clone, Debug)]
pub enum Tail {
    /// value of the block is the function result
    Fn,
    /// block ends by yielding the tuple of these (loop-carried / branch-assigned) variables
    State(Vec<String>),
    /// block inside a region that may `return` early: yields `Option <function result>`
    MayReturn,
}

fn tok(t: &impl ToTokens) -> String {
    t.to_token_stream().to_string()
}

pub fn tuple_of(vars: &[String]) -> String {
    match vars.len() {
        0 => "()".to_string(),
        1 => vars[0].clone(),
        _ => format!("({})", vars.join(", ")),
    }
}

/// projections of an n-tuple state named `st`
pub fn unpack_lines(vars: &[String], st: &str) -> Vec<String> {
    let n = vars.len();
    let mut v = vec![];
    for (k, name) in vars.iter().enumerate() {
        let proj = if n == 1 {
            st.to_string()
        } else {
            let mut s = st.to_string();
            for _ in 0..k {
                s.push_str(".2");
            }
            if k < n - 1 {
                s.push_str(".1");
            }
            s
        };
        v.push(format!("let {name} := {proj}"));
    }
    v
}

fn stmt_attrs(s: &syn::Stmt) -> &[syn::Attribute] {
    match s {
        syn::Stmt::Local(l) => &l.attrs,
        syn::Stmt::Macro(m) => &m.attrs,
        syn::Stmt::Expr(e, _) => expr_attrs(e),
        syn::Stmt::Item(_) => &[],
    }
}

pub fn expr_attrs(e: &syn::Expr) -> &[syn::Attribute] {
    match e {
        syn::Expr::Block(b) => &b.attrs,
        syn::Expr::If(b) => &b.attrs,
        syn::Expr::Unsafe(b) => &b.attrs,
        syn::Expr::While(b) => &b.attrs,
        syn::Expr::Call(b) => &b.attrs,
        syn::Expr::MethodCall(b) => &b.attrs,
        syn::Expr::Return(b) => &b.attrs,
        syn::Expr::Macro(b) => &b.attrs,
        _ => &[],
    }
}

impl<'a> Ctx<'a> {
    /// final value of the function given the Rust-level return value expression
    pub fn finalize(&self, v: Option<String>) -> String {
        let mut parts: Vec<String> = vec![];
        if self.ret_ty != Ty::Unit {
            parts.push(v.unwrap_or_else(|| "()".into()));
        }
        for p in &self.mut_params {
            parts.push(p.clone());
        }
        tuple_of(&parts)
    }

    fn end_of_block(&mut self, out: &mut Out, tail: &Tail, value: Option<String>) {
        match tail {
            Tail::Fn => {
                let f = self.finalize(value);
                out.push(format!("pure {f}"));
            },
            Tail::State(vars) => out.push(format!("pure {}", tuple_of(vars))),
            Tail::MayReturn => out.push("pure none"),
        }
    }

    fn emit_return(&mut self, v: Option<String>, out: &mut Out) {
        let f = self.finalize(v);
        if self.may_return > 0 {
            out.push(format!("pure (some {f})"));
        } else {
            out.push(format!("pure {f}"));
        }
    }

    pub fn block(&mut self, stmts: &[syn::Stmt], out: &mut Out, tail: &Tail) {
        self.scopes.push(vec![]);
        let refs: Vec<&syn::Stmt> = stmts.iter().collect();
        self.stmts(&refs, out, tail, &mut vec![]);
        self.scopes.pop();
    }

    fn stmts(
        &mut self,
        stmts: &[&syn::Stmt],
        out: &mut Out,
        tail: &Tail,
        facts: &mut Vec<(CfgPred, bool)>,
    ) {
        if stmts.is_empty() {
            self.end_of_block(out, tail, None);
            return;
        }
        let s = stmts[0];
        let rest = &stmts[1..];

        // conditional compilation
        if let Some(pred) = cfg_of_attrs(stmt_attrs(s)) {
            match pred.eval(facts) {
                Some(false) => return self.stmts(rest, out, tail, facts),
                Some(true) => {},
                None => {
                    out.push(format!("if {} then do", pred.lean()));
                    out.ind += 1;
                    facts.push((pred.clone(), true));
                    self.scopes.push(vec![]);
                    self.stmts(stmts, out, tail, facts);
                    self.scopes.pop();
                    facts.pop();
                    out.ind -= 1;
                    out.push("else do");
                    out.ind += 1;
                    facts.push((pred.clone(), false));
                    self.scopes.push(vec![]);
                    self.stmts(rest, out, tail, facts);
                    self.scopes.pop();
                    facts.pop();
                    out.ind -= 1;
                    return;
                },
            }
        }

        // which of the remaining statements survive cfg-stripping under the current facts?
        let live_rest: Vec<&syn::Stmt> = rest
            .iter()
            .copied()
            .filter(|r| {
                cfg_of_attrs(stmt_attrs(r)).map(|p| p.eval(facts) != Some(false)).unwrap_or(true)
            })
            .collect();

        match s {
            syn::Stmt::Local(l) => {
                self.local(l, out);
                self.stmts(rest, out, tail, facts);
            },
            syn::Stmt::Item(syn::Item::Const(c)) => {
                let ty = conv_type(&c.ty, &self.tyenv);
                let (v, _) = self.expr(&c.expr, Some(&ty), out);
                out.push(format!("let {} := {v}", c.ident));
                self.declare(&c.ident.to_string(), ty, VarKind::Plain);
                self.stmts(rest, out, tail, facts);
            },
            syn::Stmt::Item(_) => self.stmts(rest, out, tail, facts),
            syn::Stmt::Macro(m) => {
                self.stmt_macro(&m.mac, out);
                self.stmts(rest, out, tail, facts);
            },
            syn::Stmt::Expr(e, semi) => {
                let is_last = live_rest.is_empty();
                // early-return `if`
                if let syn::Expr::If(i) = e {
                    if i.else_branch.is_none() && ends_in_return(&i.then_branch) {
                        let c = self.cond_expr(&i.cond, out);
                        out.push(format!("if {c} then do"));
                        out.ind += 1;
                        self.block(&i.then_branch.stmts, out, &Tail::Fn);
                        out.ind -= 1;
                        out.push("else do");
                        out.ind += 1;
                        self.scopes.push(vec![]);
                        self.stmts(rest, out, tail, facts);
                        self.scopes.pop();
                        out.ind -= 1;
                        return;
                    }
                }
                let stmt_like = matches!(
                    e,
                    syn::Expr::While(_) | syn::Expr::ForLoop(_) | syn::Expr::Assign(_)
                );
                if is_last && semi.is_none() && matches!(tail, Tail::Fn) && !stmt_like {
                    return self.tail_expr(e, out, facts);
                }
                if let syn::Expr::Return(r) = e {
                    if self.loop_depth > 0 {
                        self.err(e.span(), "return inside a loop is not supported");
                    }
                    let v = r.expr.as_ref().map(|x| {
                        let rt = self.ret_ty.clone();
                        self.expr(x, Some(&rt), out).0
                    });
                    self.emit_return(v, out);
                    return;
                }
                // a nested block / if that may `return` from the function
                if matches!(e, syn::Expr::If(_) | syn::Expr::Block(_) | syn::Expr::Unsafe(_)) && contains_return(e) {
                    if self.loop_depth > 0 {
                        self.err(e.span(), "return inside a loop is not supported");
                    }
                    let inner: Vec<syn::Stmt> = vec![syn::Stmt::Expr(e.clone(), None)];
                    self.skip_returning.set(true);
                    let escaping = self.assigned_outer(&inner);
                    self.skip_returning.set(false);
                    if !escaping.is_empty() {
                        self.err(e.span(), "a block that may return must not assign outer variables");
                    }
                    let t = self.fresh();
                    out.push(format!("let {t} ← mayReturn do"));
                    self.may_return += 1;
                    out.ind += 2;
                    self.may_return_expr(e, out, facts);
                    out.ind -= 2;
                    self.may_return -= 1;
                    out.push(format!("match {t} with"));
                    if self.may_return > 0 {
                        out.push("| some r => pure (some r)");
                    } else {
                        out.push("| some r => pure r");
                    }
                    out.push("| none => do");
                    out.ind += 1;
                    self.scopes.push(vec![]);
                    self.stmts(rest, out, tail, facts);
                    self.scopes.pop();
                    out.ind -= 1;
                    return;
                }
                self.expr_stmt(e, out, facts);
                self.stmts(rest, out, tail, facts);
            },
        }
    }

    /// `if` / block statement inside a may-return region: every path yields `Option <result>`
    fn may_return_expr(&mut self, e: &syn::Expr, out: &mut Out, facts: &mut Vec<(CfgPred, bool)>) {
        match e {
            syn::Expr::If(i) => {
                let c = self.cond_expr(&i.cond, out);
                out.push(format!("if {c} then do"));
                out.ind += 1;
                self.block(&i.then_branch.stmts, out, &Tail::MayReturn);
                out.ind -= 1;
                out.push("else do");
                out.ind += 1;
                match &i.else_branch {
                    Some((_, el)) => {
                        self.scopes.push(vec![]);
                        self.may_return_expr(el, out, facts);
                        self.scopes.pop();
                    },
                    None => out.push("pure none"),
                }
                out.ind -= 1;
            },
            syn::Expr::Block(b) => {
                self.scopes.push(vec![]);
                let refs: Vec<&syn::Stmt> = b.block.stmts.iter().collect();
                self.stmts(&refs, out, &Tail::MayReturn, facts);
                self.scopes.pop();
            },
            syn::Expr::Unsafe(b) => {
                self.scopes.push(vec![]);
                let refs: Vec<&syn::Stmt> = b.block.stmts.iter().collect();
                self.stmts(&refs, out, &Tail::MayReturn, facts);
                self.scopes.pop();
            },
            _ => self.err(e.span(), "unsupported statement in a region that may return"),
        }
    }

    /// expression in tail position of the function
    fn tail_expr(&mut self, e: &syn::Expr, out: &mut Out, facts: &mut Vec<(CfgPred, bool)>) {
        match e {
            syn::Expr::If(i) => {
                let c = self.cond_expr(&i.cond, out);
                out.push(format!("if {c} then do"));
                out.ind += 1;
                self.block(&i.then_branch.stmts, out, &Tail::Fn);
                out.ind -= 1;
                out.push("else do");
                out.ind += 1;
                match &i.else_branch {
                    Some((_, el)) => match &**el {
                        syn::Expr::Block(b) => self.block(&b.block.stmts, out, &Tail::Fn),
                        other => {
                            self.scopes.push(vec![]);
                            self.tail_expr(other, out, facts);
                            self.scopes.pop();
                        },
                    },
                    None => self.end_of_block(out, &Tail::Fn, None),
                }
                out.ind -= 1;
            },
            syn::Expr::Block(b) => {
                self.scopes.push(vec![]);
                let refs: Vec<&syn::Stmt> = b.block.stmts.iter().collect();
                self.stmts(&refs, out, &Tail::Fn, facts);
                self.scopes.pop();
            },
            syn::Expr::Unsafe(b) => {
                self.scopes.push(vec![]);
                let refs: Vec<&syn::Stmt> = b.block.stmts.iter().collect();
                self.stmts(&refs, out, &Tail::Fn, facts);
                self.scopes.pop();
            },
            syn::Expr::Match(m) => self.tail_match(m, out),
            syn::Expr::Return(r) => {
                let v = r.expr.as_ref().map(|x| {
                    let rt = self.ret_ty.clone();
                    self.expr(x, Some(&rt), out).0
                });
                self.emit_return(v, out);
            },
            _ => {
                let rt = self.ret_ty.clone();
                let (v, _) = self.expr(e, Some(&rt), out);
                if self.ret_ty == Ty::Unit {
                    // a unit-valued tail call such as `R::write(..)`: effects were emitted already
                    self.end_of_block(out, &Tail::Fn, None);
                } else {
                    self.end_of_block(out, &Tail::Fn, Some(v));
                }
            },
        }
    }

    /// `match n { 0 => a, x => b }` on a usize scrutinee in tail position
    fn tail_match(&mut self, m: &syn::ExprMatch, out: &mut Out) {
        let (sc, sty) = self.expr(&m.expr, None, out);
        let mut first = true;
        let n = m.arms.len();
        for (k, arm) in m.arms.iter().enumerate() {
            let last = k == n - 1;
            match &arm.pat {
                syn::Pat::Lit(l) if !last => {
                    let lit = tok(&l.lit);
                    out.push(format!(
                        "{} {sc} == {lit} then do",
                        if first { "if" } else { "else if" }
                    ));
                },
                syn::Pat::Ident(pi) if last => {
                    out.push("else do");
                    out.ind += 1;
                    out.push(format!("let {} := {sc}", pi.ident));
                    out.ind -= 1;
                    self.declare(&pi.ident.to_string(), sty.clone(), VarKind::Plain);
                },
                syn::Pat::Wild(_) if last => out.push("else do"),
                _ => {
                    self.err(arm.pat.span(), "unsupported match pattern");
                    return;
                },
            }
            first = false;
            out.ind += 1;
            self.scopes.push(vec![]);
            let rt = self.ret_ty.clone();
            let (v, _) = self.expr(&arm.body, Some(&rt), out);
            self.end_of_block(out, &Tail::Fn, Some(v));
            self.scopes.pop();
            out.ind -= 1;
        }
    }

    fn local(&mut self, l: &syn::Local, out: &mut Out) {
        let (pat, ann) = match &l.pat {
            syn::Pat::Type(t) => (&*t.pat, Some(conv_type(&t.ty, &self.tyenv))),
            p => (p, None),
        };
        let init = match &l.init {
            Some(i) => &*i.expr,
            None => {
                self.err(l.span(), "let without initializer");
                return;
            },
        };
        match pat {
            syn::Pat::Ident(pi) => {
                let name = pi.ident.to_string();
                // pointer aliases produce no code
                if let Some((base, off, ty)) = self.ptr_expr(init, out) {
                    self.declare(&name, ty, VarKind::Ptr { base, off });
                    return;
                }
                let (v, ty) = self.expr(init, ann.as_ref(), out);
                let ty = ann.unwrap_or(ty);
                self.bind_value(&name, &v, out);
                self.declare(&name, ty, VarKind::Plain);
            },
            syn::Pat::Slice(ps) => {
                // let [a, b, c, d] = transmute(..)
                let (v, ty) = self.expr(init, ann.as_ref(), out);
                let arr = self.fresh();
                out.push(format!("let {arr} := {v}"));
                let elem = match &ty {
                    Ty::Array(e, _) => (**e).clone(),
                    _ => Ty::Unknown,
                };
                for (k, p) in ps.elems.iter().enumerate() {
                    if let syn::Pat::Ident(pi) = p {
                        out.push(format!("let {} := {arr}.get {k}", pi.ident));
                        self.declare(&pi.ident.to_string(), elem.clone(), VarKind::Plain);
                    } else {
                        self.err(p.span(), "unsupported slice pattern element");
                    }
                }
            },
            _ => self.err(l.span(), format!("unsupported let pattern `{}`", tok(pat))),
        }
    }

    /// `let name := v`, fused with the preceding `let v ← ..` when `v` is the temporary it made
    fn bind_value(&mut self, name: &str, v: &str, out: &mut Out) {
        if v.starts_with('t') && v[1..].chars().all(|c| c.is_ascii_digit()) {
            if let Some(last) = out.lines.last_mut() {
                let trimmed = last.trim_start();
                let pre = format!("let {v} ← ");
                if trimmed.starts_with(&pre) {
                    let indent = last.len() - trimmed.len();
                    let rest = trimmed[pre.len()..].to_string();
                    *last = format!("{}let {name} ← {rest}", " ".repeat(indent));
                    return;
                }
            }
        }
        out.push(format!("let {name} := {v}"));
    }

    fn stmt_macro(&mut self, mac: &syn::Macro, out: &mut Out) {
        let name = mac.path.segments.last().map(|s| s.ident.to_string()).unwrap_or_default();
        match name.as_str() {
            "debug_assert_eq" | "assert_eq" => {
                let args: syn::punctuated::Punctuated<syn::Expr, syn::Token![,]> =
                    match mac.parse_body_with(syn::punctuated::Punctuated::parse_terminated) {
                        Ok(a) => a,
                        Err(_) => {
                            self.err(mac.span(), "cannot parse assert arguments");
                            return;
                        },
                    };
                if args.len() < 2 {
                    self.err(mac.span(), "assert with fewer than two arguments");
                    return;
                }
                let (x, _) = self.expr(&args[0], Some(&Ty::Usize), out);
                let (y, _) = self.expr(&args[1], Some(&Ty::Usize), out);
                if name == "assert_eq" {
                    out.push(format!("assertEq {x} {y}"));
                } else {
                    out.push(format!("debugAssertEq E {x} {y}"));
                }
            },
            "panic" => out.push("throw Fault.panic"),
            _ => self.err(mac.span(), format!("unsupported statement macro `{name}!`")),
        }
    }

    /// condition of `if` / `while`: returns a pure Bool expression (preludes go to `out`)
    pub fn cond_expr(&mut self, e: &syn::Expr, out: &mut Out) -> String {
        let (v, _) = self.expr(e, Some(&Ty::Bool), out);
        v
    }

    fn expr_stmt(&mut self, e: &syn::Expr, out: &mut Out, facts: &mut Vec<(CfgPred, bool)>) {
        match e {
            syn::Expr::While(w) => self.while_loop(w, out),
            syn::Expr::ForLoop(f) => self.for_loop(f, out),
            syn::Expr::Assign(a) => self.assign(&a.left, &a.right, None, out),
            syn::Expr::Binary(b) => {
                use syn::BinOp::*;
                let op = match b.op {
                    AddAssign(_) => Some("+"),
                    SubAssign(_) => Some("-"),
                    MulAssign(_) => Some("*"),
                    _ => None,
                };
                match op {
                    Some(op) => self.assign(&b.left, &b.right, Some(op), out),
                    None => {
                        let _ = self.expr(e, None, out);
                    },
                }
            },
            syn::Expr::If(i) => self.if_stmt(i, out),
            syn::Expr::Block(b) => {
                // plain nested block: inline (scoped)
                let vars = self.assigned_outer(&b.block.stmts);
                self.inline_scoped(&b.block.stmts, &vars, out, facts);
            },
            syn::Expr::Unsafe(b) => {
                let vars = self.assigned_outer(&b.block.stmts);
                self.inline_scoped(&b.block.stmts, &vars, out, facts);
            },
            syn::Expr::Macro(m) => self.stmt_macro(&m.mac, out),
            _ => {
                let _ = self.expr(e, None, out);
            },
        }
    }

    fn inline_scoped(
        &mut self,
        stmts: &[syn::Stmt],
        vars: &[String],
        out: &mut Out,
        _facts: &mut Vec<(CfgPred, bool)>,
    ) {
        let st = format!("blk{}", self.fresh());
        out.push(format!("let {st} ← do"));
        out.ind += 1;
        self.block(stmts, out, &Tail::State(vars.to_vec()));
        out.ind -= 1;
        for l in unpack_lines(vars, &st) {
            out.push(l);
        }
    }

    fn if_stmt(&mut self, i: &syn::ExprIf, out: &mut Out) {
        let mut all: Vec<syn::Stmt> = i.then_branch.stmts.clone();
        if let Some((_, el)) = &i.else_branch {
            if let syn::Expr::Block(b) = &**el {
                all.extend(b.block.stmts.clone());
            } else {
                self.err(el.span(), "else-if chains as statements are not supported");
            }
        }
        let mut vars = self.assigned_outer(&i.then_branch.stmts);
        if let Some((_, el)) = &i.else_branch {
            if let syn::Expr::Block(b) = &**el {
                for v in self.assigned_outer(&b.block.stmts) {
                    if !vars.contains(&v) {
                        vars.push(v);
                    }
                }
            }
        }
        vars.sort();
        let c = self.cond_expr(&i.cond, out);
        let st = format!("br{}", self.fresh());
        out.push(format!("let {st} ← if {c} then do"));
        out.ind += 2;
        self.block(&i.then_branch.stmts, out, &Tail::State(vars.clone()));
        out.ind -= 1;
        out.push("else do");
        out.ind += 1;
        match &i.else_branch {
            Some((_, el)) => {
                if let syn::Expr::Block(b) = &**el {
                    self.block(&b.block.stmts, out, &Tail::State(vars.clone()));
                }
            },
            None => out.push(format!("pure {}", tuple_of(&vars))),
        }
        out.ind -= 2;
        for l in unpack_lines(&vars, &st) {
            out.push(l);
        }
    }

    pub fn decl_index_pub(&self, name: &str) -> usize {
        let mut idx = 0usize;
        let mut found = 0usize;
        for sc in self.scopes.iter() {
            for (n, _) in sc.iter() {
                idx += 1;
                if n == name {
                    found = idx;
                }
            }
        }
        found
    }

    fn while_loop(&mut self, w: &syn::ExprWhile, out: &mut Out) {
        let vars = self.assigned_outer(&w.body.stmts);
        self.loop_depth += 1;
        let st = format!("st{}", self.loop_depth);
        out.push(format!("let {st} ← loopM E.fuel {}", tuple_of(&vars)));
        out.ind += 1;
        // condition
        out.push(format!("(fun {st} => do"));
        out.ind += 1;
        for l in unpack_lines(&vars, &st) {
            out.push(l);
        }
        self.scopes.push(vec![]);
        let c = self.cond_expr(&w.cond, out);
        self.scopes.pop();
        out.push(format!("pure {c})"));
        out.ind -= 1;
        // body
        out.push(format!("(fun {st} => do"));
        out.ind += 1;
        for l in unpack_lines(&vars, &st) {
            out.push(l);
        }
        let mut body = Out::new(out.ind);
        self.block(&w.body.stmts, &mut body, &Tail::State(vars.clone()));
        if let Some(last) = body.lines.last_mut() {
            last.push(')');
        }
        out.lines.extend(body.lines);
        out.ind -= 1;
        out.ind -= 1;
        self.loop_depth -= 1;
        for l in unpack_lines(&vars, &st) {
            out.push(l);
        }
    }

    /// `for (idx, (x, y)) in zip(a, b).enumerate() { .. }`
    fn for_loop(&mut self, f: &syn::ExprForLoop, out: &mut Out) {
        let vars = self.assigned_outer(&f.body.stmts);
        let mut names = vec![];
        pat_idents(&f.pat, &mut names);
        let iter = tok(&f.expr).replace(' ', "");
        // zip(A,B).enumerate()
        let ok = iter.starts_with("zip(") && iter.ends_with(").enumerate()") && names.len() == 3;
        if !ok {
            self.err(f.span(), format!("unsupported for-loop iterator `{iter}`"));
            return;
        }
        let inner = &iter[4..iter.len() - ").enumerate()".len()];
        let parts: Vec<&str> = inner.split(',').collect();
        if parts.len() != 2 {
            self.err(f.span(), "unsupported zip arity");
            return;
        }
        let elem = match self.lookup(parts[0]).map(|v| v.ty.clone()) {
            Some(Ty::Array(e, _)) => *e,
            _ => Ty::Unknown,
        };
        self.loop_depth += 1;
        let st = format!("st{}", self.loop_depth);
        out.push(format!(
            "let {st} ← forZipEnum {} {} {}",
            parts[0],
            parts[1],
            tuple_of(&vars)
        ));
        out.ind += 1;
        out.push(format!("(fun {} {} {} {st} => do", names[0], names[1], names[2]));
        out.ind += 1;
        for l in unpack_lines(&vars, &st) {
            out.push(l);
        }
        self.scopes.push(vec![]);
        self.declare(&names[0], Ty::Usize, VarKind::Plain);
        self.declare(&names[1], elem.clone(), VarKind::Plain);
        self.declare(&names[2], elem, VarKind::Plain);
        let mut body = Out::new(out.ind);
        self.block(&f.body.stmts, &mut body, &Tail::State(vars.clone()));
        if let Some(last) = body.lines.last_mut() {
            last.push(')');
        }
        out.lines.extend(body.lines);
        self.scopes.pop();
        out.ind -= 2;
        self.loop_depth -= 1;
        for l in unpack_lines(&vars, &st) {
            out.push(l);
        }
    }

    fn assign(&mut self, lhs: &syn::Expr, rhs: &syn::Expr, op: Option<&str>, out: &mut Out) {
        match lhs {
            syn::Expr::Path(p) => {
                let name = tok(p);
                let ty = self.lookup(&name).map(|v| v.ty.clone()).unwrap_or(Ty::Unknown);
                let (r, rty) = self.expr(rhs, Some(&ty), out);
                if ty == Ty::Unknown {
                    self.set_ty(&name, rty.clone());
                }
                match op {
                    None => self.bind_value(&name, &r, out),
                    Some(op) => {
                        let t = if ty == Ty::Unknown { rty } else { ty };
                        let v = self.arith(op, &name, &r, &t, lhs.span(), out);
                        out.push(format!("let {name} := {v}"));
                    },
                }
            },
            syn::Expr::Index(ix) if op.is_none() => {
                // arr[i] = v
                let name = tok(&ix.expr);
                let ety = match self.lookup(&name).map(|v| v.ty.clone()) {
                    Some(Ty::Array(e, _)) => *e,
                    _ => Ty::Unknown,
                };
                let (i, _) = self.expr(&ix.index, Some(&Ty::Usize), out);
                let (r, _) = self.expr(rhs, Some(&ety), out);
                out.push(format!("let {name} ← arrSet {name} {i} {r}"));
            },
            syn::Expr::Unary(u) if matches!(u.op, syn::UnOp::Deref(_)) && op.is_none() => {
                // *s.get_unchecked_mut(i) = v
                if let syn::Expr::MethodCall(m) = &*u.expr {
                    if m.method == "get_unchecked_mut" && m.args.len() == 1 {
                        let name = tok(&m.receiver);
                        let ety = match self.lookup(&name).map(|v| v.ty.clone()) {
                            Some(Ty::MutSlice(e)) => *e,
                            _ => Ty::Unknown,
                        };
                        // Rust evaluates the right-hand side first
                        let (r, _) = self.expr(rhs, Some(&ety), out);
                        let (i, _) = self.expr(&m.args[0], Some(&Ty::Usize), out);
                        out.push(format!("let {name} ← Slice.write {name} {i} {r}"));
                        return;
                    }
                }
                self.err(lhs.span(), "unsupported deref assignment target");
            },
            _ => self.err(lhs.span(), format!("unsupported assignment target `{}`", tok(lhs))),
        }
    }
}

/// does the expression contain a `return` (not counting closures / nested items)?
pub fn contains_return(e: &syn::Expr) -> bool {
    struct V(bool);
    impl<'ast> syn::visit::Visit<'ast> for V {
        fn visit_expr_return(&mut self, _: &'ast syn::ExprReturn) {
            self.0 = true;
        }
        fn visit_expr_closure(&mut self, _: &'ast syn::ExprClosure) {}
        fn visit_item(&mut self, _: &'ast syn::Item) {}
    }
    let mut v = V(false);
    syn::visit::Visit::visit_expr(&mut v, e);
    v.0
}

fn ends_in_return(b: &syn::Block) -> bool {
    match b.stmts.last() {
        Some(syn::Stmt::Expr(syn::Expr::Return(_), _)) => true,
        Some(syn::Stmt::Expr(syn::Expr::Macro(m), _)) => m.mac.path.is_ident("panic"),
        Some(syn::Stmt::Macro(m)) => m.mac.path.is_ident("panic"),
        _ => false,
    }
}
