//! Types the translator tracks for variables and expressions.
use quote::ToTokens;

#[derive(Clone, Debug, PartialEq, Eq)]
pub enum Ty {
    Usize,
    Bool,
    Unit,
    /// i8..u64, f32, f64 or a generic element type parameter such as `T`
    Scalar(String),
    /// SIMD register of the given bit width
    Reg(u32),
    /// `Self::Register` / `R::Register` of a generic register dictionary
    GenReg,
    /// `Self::RegisterMatrix` of a generic `TransposeMatrix` dictionary
    GenRM,
    Dense(Box<Ty>),
    Dense4(Box<Ty>),
    Array(Box<Ty>, usize),
    Slice(Box<Ty>),
    MutSlice(Box<Ty>),
    ConstPtr(Box<Ty>),
    MutPtr(Box<Ty>),
    Str,
    TypeIdTy,
    Unknown,
}

pub const SCALARS: [&str; 10] =
    ["f32", "f64", "i8", "i16", "i32", "i64", "u8", "u16", "u32", "u64"];

pub fn is_concrete_scalar(s: &str) -> bool {
    SCALARS.contains(&s)
}

pub fn scalar_bits(s: &str) -> Option<u32> {
    Some(match s {
        "i8" | "u8" => 8,
        "i16" | "u16" => 16,
        "i32" | "u32" | "f32" => 32,
        "i64" | "u64" | "f64" => 64,
        _ => return None,
    })
}

/// Lean namespace / type name of a Rust scalar type.
pub fn lean_scalar(s: &str) -> String {
    match s {
        "f32" => "F32".into(),
        "f64" => "F64".into(),
        "i8" => "I8".into(),
        "i16" => "I16".into(),
        "i32" => "I32".into(),
        "i64" => "I64".into(),
        "u8" => "U8".into(),
        "u16" => "U16".into(),
        "u32" => "U32".into(),
        "u64" => "U64".into(),
        other => other.to_string(), // generic parameter, used verbatim
    }
}

pub fn reg_bits_of(name: &str) -> Option<u32> {
    Some(match name {
        "__m128" | "__m128d" | "__m128i" => 128,
        "__m256" | "__m256d" | "__m256i" => 256,
        "__m512" | "__m512d" | "__m512i" => 512,
        // aarch64 NEON quad registers
        "float32x4_t" | "float64x2_t" | "int8x16_t" | "int16x8_t" | "int32x4_t" | "int64x2_t" | "uint8x16_t"
        | "uint16x8_t" | "uint32x4_t" | "uint64x2_t" => 128,
        _ => return None,
    })
}

impl Ty {
    pub fn lean(&self) -> String {
        match self {
            Ty::Usize => "Nat".into(),
            Ty::Bool => "Bool".into(),
            Ty::Unit => "Unit".into(),
            Ty::Scalar(s) => lean_scalar(s),
            Ty::Reg(b) => format!("(BitVec {b})"),
            Ty::GenReg => "Reg".into(),
            Ty::GenRM => "RM".into(),
            Ty::Dense(t) => format!("(DenseLane {})", t.lean()),
            Ty::Dense4(t) => format!("(Dense4x4Lane {})", t.lean()),
            Ty::Array(t, _) => format!("(Slice {})", t.lean()),
            Ty::Slice(t) | Ty::MutSlice(t) => format!("(Slice {})", t.lean()),
            Ty::ConstPtr(t) | Ty::MutPtr(t) => format!("(Slice {})", t.lean()),
            Ty::Str => "String".into(),
            Ty::TypeIdTy => "RTy".into(),
            Ty::Unknown => "_".into(),
        }
    }
    pub fn scalar_name(&self) -> Option<&str> {
        if let Ty::Scalar(s) = self {
            Some(s)
        } else {
            None
        }
    }
}

/// Context needed to resolve `Self::Register`, `T`, `$t`.
#[derive(Clone, Debug, Default)]
pub struct TyEnv {
    /// what `Self::Register` / `R::Register` means here
    pub self_reg: Option<Ty>,
    /// substitution for type identifiers (macro `$t`, impl element type)
    pub subst: Vec<(String, Ty)>,
}

pub fn conv_type(t: &syn::Type, env: &TyEnv) -> Ty {
    match t {
        syn::Type::Path(p) => {
            let s = p.to_token_stream().to_string().replace(' ', "");
            if let Some((_, ty)) = env.subst.iter().find(|(k, _)| *k == s) {
                return ty.clone();
            }
            if s == "usize" {
                return Ty::Usize;
            }
            if s == "bool" {
                return Ty::Bool;
            }
            if is_concrete_scalar(&s) {
                return Ty::Scalar(s);
            }
            if let Some(b) = reg_bits_of(&s) {
                return Ty::Reg(b);
            }
            if s == "Self::Register" || s == "R::Register" {
                return env.self_reg.clone().unwrap_or(Ty::GenReg);
            }
            if s == "Self::RegisterMatrix" {
                return env
                    .subst
                    .iter()
                    .find(|(k, _)| k == "Self::RegisterMatrix")
                    .map(|x| x.1.clone())
                    .unwrap_or(Ty::Unknown);
            }
            // DenseLane<X>
            if let Some(seg) = p.path.segments.last() {
                if seg.ident == "DenseLane" || seg.ident == "Dense4x4Lane" {
                    if let syn::PathArguments::AngleBracketed(ab) = &seg.arguments {
                        if let Some(syn::GenericArgument::Type(inner)) = ab.args.first() {
                            let i = Box::new(conv_type(inner, env));
                            return if seg.ident == "DenseLane" { Ty::Dense(i) } else { Ty::Dense4(i) };
                        }
                    }
                }
                if seg.ident == "Self" && p.path.segments.len() == 1 {
                    return Ty::Unknown;
                }
            }
            // single upper-case identifier: generic element type
            if s.chars().all(|c| c.is_ascii_alphanumeric()) && s.len() <= 2 {
                return Ty::Scalar(s);
            }
            Ty::Unknown
        },
        syn::Type::Reference(r) => match &*r.elem {
            syn::Type::Slice(s) => {
                let e = Box::new(conv_type(&s.elem, env));
                if r.mutability.is_some() {
                    Ty::MutSlice(e)
                } else {
                    Ty::Slice(e)
                }
            },
            syn::Type::Path(p) if p.to_token_stream().to_string() == "str" => Ty::Str,
            _ => Ty::Unknown,
        },
        syn::Type::Ptr(p) => {
            let e = Box::new(conv_type(&p.elem, env));
            if p.mutability.is_some() {
                Ty::MutPtr(e)
            } else {
                Ty::ConstPtr(e)
            }
        },
        syn::Type::Array(a) => {
            let e = Box::new(conv_type(&a.elem, env));
            let n = a.len.to_token_stream().to_string().parse::<usize>().unwrap_or(0);
            Ty::Array(e, n)
        },
        syn::Type::Tuple(t) if t.elems.is_empty() => Ty::Unit,
        syn::Type::Infer(_) => Ty::Unknown,
        syn::Type::Paren(p) => conv_type(&p.elem, env),
        syn::Type::Group(g) => conv_type(&g.elem, env),
        _ => Ty::Unknown,
    }
}
