//! Syntax-directed translation of Rust function bodies into Lean `do` blocks over `Exec`.
use std::collections::{BTreeMap, BTreeSet};

use quote::ToTokens;
use syn::spanned::Spanned;

use crate::ty::*;

#[derive(Clone, Debug)]
pub enum Generic {
    /// plain type parameter (becomes an implicit Lean type)
    Type(String),
    /// `R: SimdRegister<T>`
    Reg(String),
    /// `M: Math<T>`
    Math(String),
    /// `const DIMS: usize`
    Const(String),
}

#[derive(Clone, Debug)]
pub struct Sig {
    pub lean_name: String,
    pub generics: Vec<Generic>,
    pub params: Vec<(String, Ty)>,
    pub ret: Ty,
    /// whether the Lean definition takes the `E : Env` argument (all translated fns do)
    pub takes_env: bool,
    /// pure Lean function (not in `Exec`)
    pub pure_fn: bool,
}

#[derive(Default)]
pub struct Registry {
    pub fns: BTreeMap<String, Sig>,
    /// trait SimdRegister method signatures (with GenReg / Scalar("T"))
    pub simd_methods: BTreeMap<String, Sig>,
    pub math_methods: BTreeMap<String, Sig>,
    /// extra trait (TransposeMatrix) methods
    pub transpose_methods: BTreeMap<String, Sig>,
    /// known register structs: name -> list of element types with impls
    pub reg_structs: BTreeMap<String, Vec<String>>,
    /// free functions with an `R: SimdRegister<T> + TransposeMatrix<T>` parameter
    pub transpose_fns: BTreeSet<String>,
    /// (struct, elem) pairs with an `impl TransposeMatrix<elem> for struct`
    pub transpose_insts: Vec<(String, String)>,
}

pub enum SelfMode {
    None,
    /// trait default method: `Self::m` becomes the explicit parameter `self_m`
    Closure(BTreeSet<String>),
    /// concrete impl: `Self::m` becomes `<prefix>.m E`
    Flat(String),
}

#[derive(Clone, Debug)]
pub enum VarKind {
    Plain,
    /// raw pointer derived from slice variable `base` at offset `off`
    Ptr { base: String, off: Option<String> },
}

#[derive(Clone, Debug)]
pub struct Var {
    pub ty: Ty,
    pub kind: VarKind,
    pub mutable_outer: bool,
}

pub struct Ctx<'a> {
    pub reg: &'a Registry,
    pub tyenv: TyEnv,
    /// element type of the enclosing impl / trait (`f32`, `T`, ...)
    pub elem: Option<String>,
    pub self_mode: SelfMode,
    /// name of the struct the enclosing impl is for (`Avx2`)
    pub self_struct: Option<String>,
    pub scopes: Vec<Vec<(String, Var)>>,
    pub tmp: usize,
    pub loop_depth: usize,
    pub ret_ty: Ty,
    /// names of `&mut [T]` / `*mut T` parameters whose final value is returned
    pub mut_params: Vec<String>,
    pub errors: Vec<String>,
    pub file: String,
    /// generic dictionaries in scope: name -> kind
    pub dicts: BTreeMap<String, Generic>,
    /// consts in scope (`DIMS`)
    pub consts: BTreeSet<String>,
    /// intrinsics referenced (for the feature tables)
    pub intrinsics: BTreeSet<String>,
    /// trait methods called on Self / other impls: (struct, elem, method)
    pub calls: BTreeSet<(String, String, String)>,
    /// the enclosing function has a `TransposeMatrix` dictionary `RT`
    pub has_rt: bool,
    /// depth of enclosing regions translated to `Option <result>`
    pub may_return: usize,
    /// analysis switch: ignore assignments on paths that end in `return` (their effect is returned, not kept)
    pub skip_returning: std::cell::Cell<bool>,
    /// calls to element-type-specific routines on transmuted views become `ext_<name>` parameters
    pub view_calls: bool,
    pub ext_calls: Vec<String>,
}

pub struct Out {
    pub lines: Vec<String>,
    pub ind: usize,
}
impl Out {
    pub fn new(ind: usize) -> Self {
        Out { lines: vec![], ind }
    }
    pub fn push(&mut self, s: impl AsRef<str>) {
        self.lines.push(format!("{}{}", "  ".repeat(self.ind), s.as_ref()));
    }
}

fn tok(t: &impl ToTokens) -> String {
    t.to_token_stream().to_string()
}

impl<'a> Ctx<'a> {
    pub fn new(reg: &'a Registry, file: &str) -> Self {
        Ctx {
            reg,
            tyenv: TyEnv::default(),
            elem: None,
            self_mode: SelfMode::None,
            self_struct: None,
            scopes: vec![vec![]],
            tmp: 0,
            loop_depth: 0,
            ret_ty: Ty::Unit,
            mut_params: vec![],
            errors: vec![],
            file: file.to_string(),
            dicts: BTreeMap::new(),
            consts: BTreeSet::new(),
            intrinsics: BTreeSet::new(),
            calls: BTreeSet::new(),
            has_rt: false,
            may_return: 0,
            skip_returning: std::cell::Cell::new(false),
            view_calls: false,
            ext_calls: vec![],
        }
    }

    pub fn err(&mut self, sp: proc_macro2::Span, msg: impl AsRef<str>) {
        self.errors
            .push(format!("{}:{}: {}", self.file, sp.start().line, msg.as_ref()));
    }

    pub fn fresh(&mut self) -> String {
        self.tmp += 1;
        format!("t{}", self.tmp)
    }

    pub fn declare(&mut self, name: &str, ty: Ty, kind: VarKind) {
        self.scopes.last_mut().unwrap().push((
            name.to_string(),
            Var { ty, kind, mutable_outer: false },
        ));
    }

    pub fn lookup(&self, name: &str) -> Option<&Var> {
        for sc in self.scopes.iter().rev() {
            for (n, v) in sc.iter().rev() {
                if n == name {
                    return Some(v);
                }
            }
        }
        None
    }

    pub fn set_ty(&mut self, name: &str, ty: Ty) {
        for sc in self.scopes.iter_mut().rev() {
            for (n, v) in sc.iter_mut().rev() {
                if n == name {
                    if v.ty == Ty::Unknown {
                        v.ty = ty;
                    }
                    return;
                }
            }
        }
    }

    /// declaration index used to order loop-carried variables
    fn decl_index(&self, name: &str) -> usize {
        let mut idx = 0usize;
        let mut found = 0usize;
        for sc in self.scopes.iter() {
            for (n, _) in sc.iter() {
                idx += 1;
                if n == name {
                    found = idx;
                }
            }
        }
        found
    }

    // ---------------------------------------------------------------- analysis

    /// Variables declared outside `stmts` that `stmts` assign to (directly, through a pointer alias,
    /// or by passing them as `&mut`).
    pub fn assigned_outer(&self, stmts: &[syn::Stmt]) -> Vec<String> {
        let mut bound: Vec<String> = vec![];
        let mut acc: BTreeSet<String> = BTreeSet::new();
        let mut aliases: BTreeMap<String, String> = BTreeMap::new();
        self.assigned_block(stmts, &mut bound, &mut acc, &mut aliases);
        // loop-carried variables in alphabetical order (BTreeSet order): deterministic and independent of
        // where a variable happened to be re-declared
        let v: Vec<String> = acc.into_iter().filter(|n| self.lookup(n).is_some()).collect();
        v
    }

    fn assigned_block(
        &self,
        stmts: &[syn::Stmt],
        bound: &mut Vec<String>,
        acc: &mut BTreeSet<String>,
        aliases: &mut BTreeMap<String, String>,
    ) {
        let mark = bound.len();
        for s in stmts {
            match s {
                syn::Stmt::Local(l) => {
                    if let Some(init) = &l.init {
                        self.assigned_expr(&init.expr, bound, acc, aliases);
                        // local pointer alias `let p = x.as_mut_ptr();`
                        if let syn::Pat::Ident(pi) = &l.pat {
                            if let Some(b) = self.ptr_base_of(&init.expr, aliases) {
                                aliases.insert(pi.ident.to_string(), b);
                            }
                        }
                    }
                    pat_idents(&l.pat, bound);
                },
                syn::Stmt::Expr(e, _) => self.assigned_expr(e, bound, acc, aliases),
                syn::Stmt::Macro(_) => {},
                syn::Stmt::Item(_) => {},
            }
        }
        bound.truncate(mark);
    }

    fn ptr_base_of(&self, e: &syn::Expr, aliases: &BTreeMap<String, String>) -> Option<String> {
        match e {
            syn::Expr::Path(p) => {
                let n = tok(p);
                if let Some(b) = aliases.get(&n) {
                    return Some(b.clone());
                }
                match self.lookup(&n) {
                    Some(Var { kind: VarKind::Ptr { base, .. }, ty: Ty::MutPtr(_), .. }) => {
                        Some(base.clone())
                    },
                    Some(Var { ty: Ty::MutSlice(_), .. }) => Some(n),
                    Some(Var { ty: Ty::MutPtr(_), .. }) => Some(n),
                    _ => None,
                }
            },
            syn::Expr::MethodCall(m) => {
                let name = m.method.to_string();
                if name == "add" || name == "as_mut_ptr" || name == "cast" {
                    self.ptr_base_of(&m.receiver, aliases)
                } else {
                    None
                }
            },
            syn::Expr::Paren(p) => self.ptr_base_of(&p.expr, aliases),
            _ => None,
        }
    }

    fn note_assign(&self, name: &str, bound: &[String], acc: &mut BTreeSet<String>) {
        if !bound.iter().any(|b| b == name) {
            acc.insert(name.to_string());
        }
    }

    fn assigned_expr(
        &self,
        e: &syn::Expr,
        bound: &mut Vec<String>,
        acc: &mut BTreeSet<String>,
        aliases: &mut BTreeMap<String, String>,
    ) {
        match e {
            syn::Expr::Assign(a) => {
                self.assigned_expr(&a.right, bound, acc, aliases);
                if let Some(n) = self.assign_target(&a.left, aliases) {
                    self.note_assign(&n, bound, acc);
                }
            },
            syn::Expr::Binary(b) => {
                use syn::BinOp::*;
                if matches!(
                    b.op,
                    AddAssign(_) | SubAssign(_) | MulAssign(_) | DivAssign(_) | RemAssign(_)
                ) {
                    if let Some(n) = self.assign_target(&b.left, aliases) {
                        self.note_assign(&n, bound, acc);
                    }
                }
                self.assigned_expr(&b.left, bound, acc, aliases);
                self.assigned_expr(&b.right, bound, acc, aliases);
            },
            syn::Expr::While(w) => {
                self.assigned_expr(&w.cond, bound, acc, aliases);
                self.assigned_block(&w.body.stmts, bound, acc, aliases);
            },
            syn::Expr::ForLoop(f) => {
                let mark = bound.len();
                pat_idents(&f.pat, bound);
                self.assigned_block(&f.body.stmts, bound, acc, aliases);
                bound.truncate(mark);
            },
            syn::Expr::If(i) => {
                self.assigned_expr(&i.cond, bound, acc, aliases);
                let returns = matches!(i.then_branch.stmts.last(), Some(syn::Stmt::Expr(syn::Expr::Return(_), _)));
                if !(self.skip_returning.get() && returns) {
                    self.assigned_block(&i.then_branch.stmts, bound, acc, aliases);
                }
                if let Some((_, el)) = &i.else_branch {
                    self.assigned_expr(el, bound, acc, aliases);
                }
            },
            syn::Expr::Block(b) => self.assigned_block(&b.block.stmts, bound, acc, aliases),
            syn::Expr::Unsafe(u) => self.assigned_block(&u.block.stmts, bound, acc, aliases),
            syn::Expr::Call(c) => {
                // `mem::transmute(x)` re-views `x`, it does not write through it
                let is_transmute = tok(&c.func).replace(' ', "").contains("transmute");
                for a in &c.args {
                    if is_transmute {
                        self.assigned_expr(a, bound, acc, aliases);
                        continue;
                    }
                    if let Some(b) = self.ptr_base_of(a, aliases) {
                        self.note_assign(&b, bound, acc);
                    }
                    self.assigned_expr(a, bound, acc, aliases);
                }
            },
            syn::Expr::MethodCall(m) => {
                let name = m.method.to_string();
                if name == "write" || name == "copy_from_slice" {
                    if let Some(b) = self.ptr_base_of(&m.receiver, aliases) {
                        self.note_assign(&b, bound, acc);
                    }
                }
                self.assigned_expr(&m.receiver, bound, acc, aliases);
                for a in &m.args {
                    self.assigned_expr(a, bound, acc, aliases);
                }
            },
            syn::Expr::Paren(p) => self.assigned_expr(&p.expr, bound, acc, aliases),
            syn::Expr::Return(r) => {
                if let Some(x) = &r.expr {
                    if !self.skip_returning.get() {
                        self.assigned_expr(x, bound, acc, aliases)
                    }
                }
            },
            syn::Expr::Unary(u) => self.assigned_expr(&u.expr, bound, acc, aliases),
            _ => {},
        }
    }

    fn assign_target(
        &self,
        e: &syn::Expr,
        aliases: &BTreeMap<String, String>,
    ) -> Option<String> {
        match e {
            syn::Expr::Path(p) => Some(tok(p)),
            syn::Expr::Index(i) => self.assign_target(&i.expr, aliases),
            syn::Expr::Unary(u) if matches!(u.op, syn::UnOp::Deref(_)) => {
                // *x.get_unchecked_mut(i)
                if let syn::Expr::MethodCall(m) = &*u.expr {
                    if let syn::Expr::Path(p) = &*m.receiver {
                        return Some(tok(p));
                    }
                }
                None
            },
            syn::Expr::Paren(p) => self.assign_target(&p.expr, aliases),
            _ => None,
        }
    }

    pub fn span_line(&self, e: &impl Spanned) -> usize {
        e.span().start().line
    }
}

pub fn pat_idents(p: &syn::Pat, out: &mut Vec<String>) {
    match p {
        syn::Pat::Ident(i) => out.push(i.ident.to_string()),
        syn::Pat::Type(t) => pat_idents(&t.pat, out),
        syn::Pat::Tuple(t) => t.elems.iter().for_each(|e| pat_idents(e, out)),
        syn::Pat::Slice(s) => s.elems.iter().for_each(|e| pat_idents(e, out)),
        syn::Pat::Paren(p) => pat_idents(&p.pat, out),
        _ => {},
    }
}
