#!/usr/bin/env python3
"""Builds stdarch_features.tsv (intrinsic -> #[target_feature] set) from the nightly rust-src component.
Run by hand when the toolchain changes; the snapshot is committed so checks do not depend on rust-src."""
import re, subprocess, pathlib, sys
sysroot = subprocess.check_output(["rustc", "+nightly", "--print", "sysroot"], text=True).strip()
d = pathlib.Path(sysroot) / "lib/rustlib/src/rust/library/stdarch/crates/core_arch/src"
rows = {}
for sub in ("x86", "x86_64"):
    for f in sorted((d / sub).glob("*.rs")):
        lines = f.read_text().splitlines()
        feats = None
        for l in lines:
            m = re.search(r'#\[target_feature\(enable = "([^"]+)"\)\]', l)
            if m:
                feats = m.group(1)
                continue
            m = re.match(r'\s*pub (?:const )?(?:unsafe )?fn (_mm[0-9a-z_]*)\s*[<(]', l)
            if m:
                if feats is not None:
                    rows.setdefault(m.group(1), feats)
                feats = None
            elif re.match(r'\s*(pub )?(const )?(unsafe )?fn ', l):
                feats = None
out = pathlib.Path(__file__).parent / "stdarch_features.tsv"
with open(out, "w") as fh:
    fh.write("# intrinsic<TAB>comma-separated target features (from stdarch, %s)\n" % subprocess.check_output(["rustc","+nightly","--version"],text=True).strip())
    for k in sorted(rows):
        fh.write(f"{k}\t{rows[k]}\n")
print(len(rows), "intrinsics")
